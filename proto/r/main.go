package main

import (
	"fmt"
	"math/rand"
	"os"

	"github.com/paulmach/orb"
	"github.com/paulmach/orb/planar"
	"github.com/paulmach/orb/quadtree"
)

type P struct {
	id int
	p  orb.Point
}

func (p *P) Point() orb.Point { return p.p }

// proc runs one Matching query; its filter is the gate.
type proc struct {
	id     int
	q      orb.Point
	turn   chan struct{} // controller -> proc: you may take one step
	atGate chan bool     // proc -> controller: true = waiting at a gate, false = finished
	res    orb.Pointer
}

func run(qt *quadtree.Quadtree, pr *proc) {
	gate := func() { pr.atGate <- true; <-pr.turn }
	gate() // start gate
	pr.res = qt.Matching(pr.q, func(orb.Pointer) bool { gate(); return true })
	pr.atGate <- false
}

func main() {
	seed := int64(1)
	if len(os.Args) > 1 {
		fmt.Sscan(os.Args[1], &seed)
	}
	r := rand.New(rand.NewSource(seed))
	bad, total := 0, 0
	for trial := 0; trial < 2000; trial++ {
		qt := quadtree.New(orb.Bound{Min: orb.Point{0, 0}, Max: orb.Point{256, 256}})
		var items []*P
		for i := 0; i < 6+r.Intn(6); i++ {
			p := &P{id: i + 1, p: orb.Point{float64(r.Intn(257)), float64(r.Intn(257))}}
			items = append(items, p)
			qt.Add(p)
		}
		nproc := 2 + r.Intn(2)
		procs := make([]*proc, nproc)
		for i := range procs {
			procs[i] = &proc{id: i, q: orb.Point{float64(r.Intn(257)), float64(r.Intn(257))}, turn: make(chan struct{}), atGate: make(chan bool)}
			go run(qt, procs[i])
		}
		alive := make([]bool, nproc)
		for i, pr := range procs {
			alive[i] = <-pr.atGate // start gate
		}
		// schedule: random sequence of proc ids (in the real design: emitted by TLC)
		for {
			any := false
			for _, a := range alive {
				any = any || a
			}
			if !any {
				break
			}
			i := r.Intn(nproc)
			if !alive[i] {
				continue
			}
			procs[i].turn <- struct{}{}
			alive[i] = <-procs[i].atGate
		}
		for _, pr := range procs {
			total++
			// oracle (in the real design: QuadtreeList relation evaluated by TLC)
			best := -1.0
			for _, it := range items {
				if d := planar.DistanceSquared(it.p, pr.q); best < 0 || d < best {
					best = d
				}
			}
			if pr.res == nil || planar.DistanceSquared(pr.res.Point(), pr.q) != best {
				bad++
			}
		}
	}
	fmt.Println("queries", total, "wrong", bad)
}
