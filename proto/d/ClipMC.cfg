SPECIFICATION MCSpec
CONSTANTS G = 5
 BLO = 1
 BHI = 3
INVARIANT Refines
INVARIANT InBoxAll
INVARIANT Idem
CHECK_DEADLOCK FALSE
