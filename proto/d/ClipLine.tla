---- MODULE ClipLine ----
EXTENDS Integers, Sequences, FiniteSets, TLC, Json, IOUtils, SequencesExt

S == 60  \* lattice scale: every coordinate below is in units of 1/60

Min2(a,b) == IF a < b THEN a ELSE b
Max2(a,b) == IF a > b THEN a ELSE b
Dot(a, b, p) == (b[1]-a[1])*(p[1]-a[1]) + (b[2]-a[2])*(p[2]-a[2])

InBox(bx, p, open) ==
  IF open THEN bx[1] < p[1] /\ p[1] < bx[3] /\ bx[2] < p[2] /\ p[2] < bx[4]
          ELSE bx[1] <= p[1] /\ p[1] <= bx[3] /\ bx[2] <= p[2] /\ p[2] <= bx[4]

\* candidate endpoints of (segment a->b) \cap closed box: a, b, and the crossings of the 4 box lines
XCross(a, b, c) == IF a[1] # b[1] /\ Min2(a[1],b[1]) <= c /\ c <= Max2(a[1],b[1])
                   THEN {<<c, a[2] + ((b[2]-a[2])*(c-a[1])) \div (b[1]-a[1])>>} ELSE {}
YCross(a, b, c) == IF a[2] # b[2] /\ Min2(a[2],b[2]) <= c /\ c <= Max2(a[2],b[2])
                   THEN {<<a[1] + ((b[1]-a[1])*(c-a[2])) \div (b[2]-a[2]), c>>} ELSE {}
Cands(bx, a, b) == {a, b} \cup XCross(a,b,bx[1]) \cup XCross(a,b,bx[3]) \cup YCross(a,b,bx[2]) \cup YCross(a,b,bx[4])

\* closed inside part of segment: <<>> or <<p, q>> ordered along a->b
InsidePart(bx, a, b) ==
  LET C == {p \in Cands(bx,a,b) : InBox(bx, p, FALSE)}
  IN IF C = {} THEN <<>>
     ELSE LET lo == CHOOSE p \in C : \A q \in C : Dot(a,b,p) <= Dot(a,b,q)
              hi == CHOOSE p \in C : \A q \in C : Dot(a,b,p) >= Dot(a,b,q)
          IN <<lo, hi>>

StrictIn(bx, p2) == 2*bx[1] < p2[1] /\ p2[1] < 2*bx[3] /\ 2*bx[2] < p2[2] /\ p2[2] < 2*bx[4]
\* open semantics: closure of the strictly-inside part = closed part if its midpoint is strictly inside
Part(bx, a, b, open) ==
  LET cp == InsidePart(bx, a, b) IN
  IF ~open \/ cp = <<>> THEN cp
  ELSE IF cp[1] # cp[2] /\ StrictIn(bx, <<cp[1][1]+cp[2][1], cp[1][2]+cp[2][2]>>) THEN cp ELSE <<>>
Joinable(bx, v, open) == IF open THEN InBox(bx, v, TRUE) ELSE TRUE

\* expected pieces (closed semantics), as sequence of vertex sequences, consecutive duplicates removed,
\* zero-length pieces dropped
RECURSIVE Build(_,_,_,_,_,_)
Build(bx, path, i, cur, acc, open) ==
  IF i >= Len(path) THEN (IF Len(cur) >= 2 THEN Append(acc, cur) ELSE acc)
  ELSE LET a == path[i]  b == path[i+1]  part == Part(bx, a, b, open) IN
       IF part = <<>> \/ (a = b)
       THEN IF a = b /\ part # <<>>
            THEN Build(bx, path, i+1, cur, acc, open)  \* repeated vertex inside: no effect
            ELSE Build(bx, path, i+1, <<>>, IF Len(cur) >= 2 THEN Append(acc, cur) ELSE acc, open)
       ELSE LET lo == part[1]  hi == part[2]
                \* does this part continue the current piece?
                cont == Len(cur) > 0 /\ cur[Len(cur)] = lo /\ lo = a /\ Joinable(bx, a, open)
                base == IF cont THEN cur ELSE <<lo>>
                acc2 == IF cont \/ Len(cur) < 2 THEN acc ELSE Append(acc, cur)
                cur2 == IF hi = lo THEN base ELSE Append(base, hi)
            IN IF hi = b THEN Build(bx, path, i+1, cur2, acc2, open)
               ELSE Build(bx, path, i+1, <<>>, IF Len(cur2) >= 2 THEN Append(acc2, cur2) ELSE acc2, open)

Expected(bx, path, open) == Build(bx, path, 1, <<>>, <<>>, open)

RECURSIVE Dedup(_)
Dedup(s) == IF Len(s) <= 1 THEN s
            ELSE IF s[1] = s[2] THEN Dedup(Tail(s)) ELSE <<s[1]>> \o Dedup(Tail(s))
Norm(pieces) == SelectSeq([i \in 1..Len(pieces) |-> Dedup(pieces[i])], LAMBDA p : Len(p) >= 2)

Trace == ndJsonDeserialize(IOEnv.TRACE)
VARIABLES l, bad
Init == l = 1 /\ bad = {}
Check(e) == Norm(e.out) = Expected(e.box, e.path, e.open = 1)
Next == /\ l <= Len(Trace) /\ l' = l + 1
        /\ bad' = IF Check(Trace[l]) THEN bad ELSE bad \cup {l}
        /\ (l = Len(Trace) => PrintT(<<"DONE", l, "BAD", bad'>>))
Spec == Init /\ [][Next]_<<l,bad>>
Done == l = Len(Trace) + 1 => bad = {}
====
