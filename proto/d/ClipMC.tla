---- MODULE ClipMC ----
EXTENDS Integers, Sequences, FiniteSets, TLC, Json, IOUtils, SequencesExt

S == 60  \* lattice scale: every coordinate below is in units of 1/60

Min2(a,b) == IF a < b THEN a ELSE b
Max2(a,b) == IF a > b THEN a ELSE b
Dot(a, b, p) == (b[1]-a[1])*(p[1]-a[1]) + (b[2]-a[2])*(p[2]-a[2])

InBox(bx, p, open) ==
  IF open THEN bx[1] < p[1] /\ p[1] < bx[3] /\ bx[2] < p[2] /\ p[2] < bx[4]
          ELSE bx[1] <= p[1] /\ p[1] <= bx[3] /\ bx[2] <= p[2] /\ p[2] <= bx[4]

\* candidate endpoints of (segment a->b) \cap closed box: a, b, and the crossings of the 4 box lines
XCross(a, b, c) == IF a[1] # b[1] /\ Min2(a[1],b[1]) <= c /\ c <= Max2(a[1],b[1])
                   THEN {<<c, a[2] + ((b[2]-a[2])*(c-a[1])) \div (b[1]-a[1])>>} ELSE {}
YCross(a, b, c) == IF a[2] # b[2] /\ Min2(a[2],b[2]) <= c /\ c <= Max2(a[2],b[2])
                   THEN {<<a[1] + ((b[1]-a[1])*(c-a[2])) \div (b[2]-a[2]), c>>} ELSE {}
Cands(bx, a, b) == {a, b} \cup XCross(a,b,bx[1]) \cup XCross(a,b,bx[3]) \cup YCross(a,b,bx[2]) \cup YCross(a,b,bx[4])

\* closed inside part of segment: <<>> or <<p, q>> ordered along a->b
InsidePart(bx, a, b) ==
  LET C == {p \in Cands(bx,a,b) : InBox(bx, p, FALSE)}
  IN IF C = {} THEN <<>>
     ELSE LET lo == CHOOSE p \in C : \A q \in C : Dot(a,b,p) <= Dot(a,b,q)
              hi == CHOOSE p \in C : \A q \in C : Dot(a,b,p) >= Dot(a,b,q)
          IN <<lo, hi>>

StrictIn(bx, p2) == 2*bx[1] < p2[1] /\ p2[1] < 2*bx[3] /\ 2*bx[2] < p2[2] /\ p2[2] < 2*bx[4]
\* open semantics: closure of the strictly-inside part = closed part if its midpoint is strictly inside
Part(bx, a, b, open) ==
  LET cp == InsidePart(bx, a, b) IN
  IF ~open \/ cp = <<>> THEN cp
  ELSE IF cp[1] # cp[2] /\ StrictIn(bx, <<cp[1][1]+cp[2][1], cp[1][2]+cp[2][2]>>) THEN cp ELSE <<>>
Joinable(bx, v, open) == IF open THEN InBox(bx, v, TRUE) ELSE TRUE

\* expected pieces (closed semantics), as sequence of vertex sequences, consecutive duplicates removed,
\* zero-length pieces dropped
RECURSIVE Build(_,_,_,_,_,_)
Build(bx, path, i, cur, acc, open) ==
  IF i >= Len(path) THEN (IF Len(cur) >= 2 THEN Append(acc, cur) ELSE acc)
  ELSE LET a == path[i]  b == path[i+1]  part == Part(bx, a, b, open) IN
       IF part = <<>> \/ (a = b)
       THEN IF a = b /\ part # <<>>
            THEN Build(bx, path, i+1, cur, acc, open)  \* repeated vertex inside: no effect
            ELSE Build(bx, path, i+1, <<>>, IF Len(cur) >= 2 THEN Append(acc, cur) ELSE acc, open)
       ELSE LET lo == part[1]  hi == part[2]
                \* does this part continue the current piece?
                cont == Len(cur) > 0 /\ cur[Len(cur)] = lo /\ lo = a /\ Joinable(bx, a, open)
                base == IF cont THEN cur ELSE <<lo>>
                acc2 == IF cont \/ Len(cur) < 2 THEN acc ELSE Append(acc, cur)
                cur2 == IF hi = lo THEN base ELSE Append(base, hi)
            IN IF hi = b THEN Build(bx, path, i+1, cur2, acc2, open)
               ELSE Build(bx, path, i+1, <<>>, IF Len(cur2) >= 2 THEN Append(acc2, cur2) ELSE acc2, open)

Expected(bx, path, open) == Build(bx, path, 1, <<>>, <<>>, open)

RECURSIVE Dedup(_)
Dedup(s) == IF Len(s) <= 1 THEN s
            ELSE IF s[1] = s[2] THEN Dedup(Tail(s)) ELSE <<s[1]>> \o Dedup(Tail(s))
Norm(pieces) == SelectSeq([i \in 1..Len(pieces) |-> Dedup(pieces[i])], LAMBDA p : Len(p) >= 2)


\* ---------- implementation-shaped layer: transcription of clip.line() ---------------
CONSTANTS G, BLO, BHI        \* grid 0..G-1 ; box coordinates from BLO..BHI (grid units)
Code(bx, p, open) ==
  (IF open THEN (IF p[1] <= bx[1] THEN 1 ELSE IF p[1] >= bx[3] THEN 2 ELSE 0)
           ELSE (IF p[1] <  bx[1] THEN 1 ELSE IF p[1] >  bx[3] THEN 2 ELSE 0)) +
  (IF open THEN (IF p[2] <= bx[2] THEN 4 ELSE IF p[2] >= bx[4] THEN 8 ELSE 0)
           ELSE (IF p[2] <  bx[2] THEN 4 ELSE IF p[2] >  bx[4] THEN 8 ELSE 0))
Bit(c, b) == (c \div b) % 2 = 1
And0(c1, c2) == \A b \in {1,2,4,8} : ~(Bit(c1,b) /\ Bit(c2,b))
Isect(bx, edge, a, b) ==
  IF Bit(edge, 8) THEN <<a[1] + ((b[1]-a[1])*(bx[4]-a[2])) \div (b[2]-a[2]), bx[4]>>
  ELSE IF Bit(edge, 4) THEN <<a[1] + ((b[1]-a[1])*(bx[2]-a[2])) \div (b[2]-a[2]), bx[2]>>
  ELSE IF Bit(edge, 2) THEN <<bx[3], a[2] + ((b[2]-a[2])*(bx[3]-a[1])) \div (b[1]-a[1])>>
  ELSE <<bx[1], a[2] + ((b[2]-a[2])*(bx[1]-a[1])) \div (b[1]-a[1])>>
Push(out, li, p) == IF li > Len(out) THEN Append(out, <<p>>) ELSE [out EXCEPT ![li] = Append(@, p)]
\* inner loop: returns [out, li]
RECURSIVE Inner(_,_,_,_,_,_,_,_,_,_)
Inner(bx, a, b, cA, cB, endCode, out, li, isLast, fuel) ==
  IF fuel = 0 THEN [out |-> <<"LOOP">>, li |-> li]
  ELSE IF cA = 0 /\ cB = 0 THEN
       LET o1 == Push(out, li, a) IN
       IF cB # endCode THEN [out |-> Push(o1, li, b), li |-> IF ~isLast THEN li + 1 ELSE li]
       ELSE IF isLast THEN [out |-> Push(o1, li, b), li |-> li] ELSE [out |-> o1, li |-> li]
  ELSE IF ~And0(cA, cB) THEN [out |-> out, li |-> li]
  ELSE IF cA # 0 THEN LET a2 == Isect(bx, cA, a, b) IN Inner(bx, a2, b, Code(bx, a2, FALSE), cB, endCode, out, li, isLast, fuel-1)
  ELSE LET b2 == Isect(bx, cB, a, b) IN Inner(bx, a, b2, cA, Code(bx, b2, FALSE), endCode, out, li, isLast, fuel-1)
RECURSIVE Outer(_,_,_,_,_,_,_)
Outer(bx, path, i, cA, out, li, open) ==
  IF i > Len(path) THEN out
  ELSE LET cB == Code(bx, path[i], open)
           r == Inner(bx, path[i-1], path[i], cA, cB, cB, out, li, i = Len(path), 6)
       IN Outer(bx, path, i+1, cB, r.out, r.li, open)
CSLine(bx, path, open) == IF path = <<>> THEN <<>> ELSE Outer(bx, path, 2, Code(bx, path[1], open), <<>>, 1, open)

VARIABLES box, path, open
Pt == {<<S*x, S*y>> : x \in 0..(G-1), y \in 0..(G-1)}
Boxes == {<<S*x0, S*y0, S*x1, S*y1>> : x0 \in BLO..BHI, y0 \in BLO..BHI, x1 \in BLO..BHI, y1 \in BLO..BHI}
MCInit == /\ box \in {b \in Boxes : b[1] < b[3] /\ b[2] < b[4]} /\ open \in BOOLEAN /\ path = <<>>
MCNext == /\ path = <<>> /\ \E p1 \in Pt, p2 \in Pt, p3 \in Pt : path' = <<p1, p2, p3>>
          /\ UNCHANGED <<box, open>>
MCSpec == MCInit /\ [][MCNext]_<<box, path, open>>
Refines == path = <<>> \/ Norm(CSLine(box, path, open)) = Expected(box, path, open)
InBoxAll == path = <<>> \/ LET o == CSLine(box, path, open) IN \A i \in 1..Len(o) : \A j \in 1..Len(o[i]) : InBox(box, o[i][j], FALSE)
Idem == path = <<>> \/ LET o == CSLine(box, path, open) IN
          \A i \in 1..Len(o) : (Len(Dedup(o[i])) >= 2) => Norm(CSLine(box, o[i], open)) = Norm(<<o[i]>>)
====
