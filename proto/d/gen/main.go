package main

import (
	"bufio"
	"encoding/json"
	"fmt"
	"math"
	"os"

	"github.com/paulmach/orb"
	"github.com/paulmach/orb/clip"
)

const S = 60

type ev struct {
	Box  [4]int       `json:"box"`
	Path [][2]int     `json:"path"`
	Out  [][][2]int   `json:"out"`
	Open int `json:"open"`
}

func q(v float64) int {
	r := math.Round(v * S)
	if math.Abs(v*S-r) > 1e-7 {
		fmt.Fprintln(os.Stderr, "OFFLATTICE", v)
	}
	return int(r)
}

func main() {
	w := bufio.NewWriter(os.Stdout)
	defer w.Flush()
	enc := json.NewEncoder(w)
	G := 5
	// boxes: sub-boxes of inner 3x3 grid (coords 1..3)
	for x0 := 1; x0 <= 3; x0++ {
		for x1 := x0 + 1; x1 <= 3; x1++ {
			for y0 := 1; y0 <= 3; y0++ {
				for y1 := y0 + 1; y1 <= 3; y1++ {
					b := orb.Bound{Min: orb.Point{float64(x0), float64(y0)}, Max: orb.Point{float64(x1), float64(y1)}}
					n := G * G
					for a := 0; a < n; a++ {
						for bb := 0; bb < n; bb++ {
							for c := 0; c < n; c++ {
								pts := [][2]int{{a % G, a / G}, {bb % G, bb / G}, {c % G, c / G}}
								ls := orb.LineString{}
								e := ev{Box: [4]int{x0 * S, y0 * S, x1 * S, y1 * S}}
								for _, p := range pts {
									ls = append(ls, orb.Point{float64(p[0]), float64(p[1])})
									e.Path = append(e.Path, [2]int{p[0] * S, p[1] * S})
								}
								for open := 0; open < 2; open++ {
e.Open = open
out := clip.LineString(b, ls.Clone(), clip.OpenBound(open == 1))
								e.Out = [][][2]int{}
								for _, piece := range out {
									pp := [][2]int{}
									for _, p := range piece {
										pp = append(pp, [2]int{q(p[0]), q(p[1])})
									}
									e.Out = append(e.Out, pp)
								}
								enc.Encode(e)
}
							}
						}
					}
				}
			}
		}
	}
}
