---- MODULE QTList ----
EXTENDS Integers, Sequences, FiniteSets, TLC, Json, IOUtils
B == 256
InB(p) == 0 <= p[1] /\ p[1] <= B /\ 0 <= p[2] /\ p[2] <= B
D2(a, b) == (a[1]-b[1])*(a[1]-b[1]) + (a[2]-b[2])*(a[2]-b[2])
\* abstract state: set of <<id,x,y>>
P(it) == <<it[2], it[3]>>
ToSet(s) == {s[i] : i \in 1..Len(s)}
Ids(S) == {it[1] : it \in S}
ById(S, id) == CHOOSE it \in S : it[1] = id

AddOK(S, e, S2) == LET p == e.pt IN
   IF InB(p) THEN e.res = "ok" /\ S2 = S \cup {<<e.id, p[1], p[2]>>} /\ e.id \notin Ids(S)
   ELSE e.res = "err" /\ S2 = S
RmPtOK(S, e, S2) == LET M == {it \in S : P(it) = e.pt} IN
   IF M = {} THEN e.res = "false" /\ S2 = S
   ELSE e.res = "true" /\ \E it \in M : S2 = S \ {it}

FindOK(S, row) == LET q == <<row[1], row[2]>> id == row[3] IN
   IF S = {} THEN id = 0
   ELSE id \in Ids(S) /\ \A it \in S : D2(P(ById(S, id)), q) <= D2(P(it), q)
KnnOK(S, row) == LET q == <<row[1], row[2]>>  k == row[3]  md == row[4]
       ids == SubSeq(row, 5, Len(row))
       Within == {it \in S : md = 0 \/ D2(P(it), q) < md*md}
       want == IF Cardinality(Within) < k THEN Cardinality(Within) ELSE k
   IN /\ Len(ids) = want
      /\ \A i \in 1..Len(ids) : ids[i] \in Ids(Within)
      /\ \A i, j \in 1..Len(ids) : i # j => ids[i] # ids[j]
      /\ \A i \in 1..(Len(ids)-1) : D2(P(ById(S, ids[i])), q) <= D2(P(ById(S, ids[i+1])), q)
      /\ (Len(ids) > 0 => \A it \in Within : it[1] \in ToSet(ids) \/ D2(P(it), q) >= D2(P(ById(S, ids[Len(ids)])), q))
InbOK(S, row) == LET ids == SubSeq(row, 5, Len(row)) IN
   /\ \A i, j \in 1..Len(ids) : i # j => ids[i] # ids[j]
   /\ ToSet(ids) = Ids({it \in S : row[1] <= it[2] /\ it[2] <= row[3] /\ row[2] <= it[3] /\ it[3] <= row[4]})
Queries(S, e) == /\ \A i \in 1..Len(e.finds) : FindOK(S, e.finds[i])
                 /\ \A i \in 1..Len(e.knn) : KnnOK(S, e.knn[i])
                 /\ \A i \in 1..Len(e.inb) : InbOK(S, e.inb[i])

Trace == ndJsonDeserialize(IOEnv.TRACE)
VARIABLES l, st, bad
Init == l = 1 /\ st = {} /\ bad = {}
Next == /\ l <= Len(Trace) /\ l' = l + 1
        /\ LET e == Trace[l]  S2 == ToSet(e.items) IN
           /\ st' = IF e.op = "reset" THEN {} ELSE S2         \* follow the logged state so checking continues
           /\ bad' = IF e.op = "reset" THEN bad
                     ELSE IF /\ (e.op = "add" => AddOK(st, e, S2))
                             /\ (e.op = "rmpt" => RmPtOK(st, e, S2))
                             /\ Queries(S2, e)
                          THEN bad ELSE bad \cup {l}
        /\ (l = Len(Trace) => PrintT(ToJson([done |-> l, bad |-> bad'])))
Spec == Init /\ [][Next]_<<l, st, bad>>
====
