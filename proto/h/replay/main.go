package main

import (
	"bufio"
	"encoding/json"
	"fmt"
	"os"
	"strconv"
	"strings"

	"github.com/paulmach/orb"
	"github.com/paulmach/orb/quadtree"
)

type P struct {
	id int
	p  orb.Point
}

func (p *P) Point() orb.Point { return p.p }

var pts = [][2]float64{{128, 128}, {128, 128}, {64, 192}, {0, 256}, {200, 40}, {300, 10}}

type op struct {
	Op  string `json:"op"`
	K   int    `json:"k"`
	Res string `json:"res"`
}
type hist struct {
	H []op `json:"h"`
}
type ev struct {
	Op    string   `json:"op"` // reset | add | rmpt
	Pt    [2]int   `json:"pt"`
	ID    int      `json:"id"`
	Res   string   `json:"res"`
	Exp   string   `json:"exp"`   // result predicted by the impl-level spec (informational)
	Items [][3]int `json:"items"` // id,x,y stored after the op (via InBound over everything)
	Finds [][3]int `json:"finds"` // qx,qy,id found (0 = nil)
	KNN   [][]int  `json:"knn"`   // qx,qy,k,maxd(0=none), ids...
	Inb   [][]int  `json:"inb"`   // x0,y0,x1,y1, ids...
}

func main() {
	in := bufio.NewScanner(os.Stdin)
	in.Buffer(make([]byte, 1<<20), 1<<24)
	w := bufio.NewWriter(os.Stdout)
	defer w.Flush()
	enc := json.NewEncoder(w)
	qpts := [][2]float64{{0, 0}, {100, 64}, {128, 130}, {250, 256}, {128, 128}, {64, 192}}
	boxes := [][4]float64{{0, 0, 256, 256}, {128, 128, 256, 256}, {0, 0, 128, 128}, {60, 190, 70, 200}, {129, 0, 256, 127}}
	n := 0
	for in.Scan() {
		line := in.Text()
		if !strings.HasPrefix(line, "\"{") {
			continue
		}
		s, err := strconv.Unquote(line)
		if err != nil {
			panic(err)
		}
		var h hist
		if err := json.Unmarshal([]byte(s), &h); err != nil {
			panic(err)
		}
		q := quadtree.New(orb.Bound{Min: orb.Point{0, 0}, Max: orb.Point{256, 256}})
		enc.Encode(ev{Op: "reset", Items: [][3]int{}, Finds: [][3]int{}, KNN: [][]int{}, Inb: [][]int{}})
		next := 1
		for _, o := range h.H {
			e := ev{Op: o.Op, Exp: o.Res, Items: [][3]int{}, Finds: [][3]int{}, KNN: [][]int{}, Inb: [][]int{}}
			pp := pts[o.K-1]
			e.Pt = [2]int{int(pp[0]), int(pp[1])}
			switch o.Op {
			case "add":
				p := &P{id: next, p: orb.Point{pp[0], pp[1]}}
				e.ID = next
				if err := q.Add(p); err != nil {
					e.Res = "err"
				} else {
					e.Res = "ok"
					next++
				}
			case "rmpt":
				e.Res = fmt.Sprint(q.Remove(orb.Point{pp[0], pp[1]}, nil))
			}
			for _, x := range q.InBound(nil, orb.Bound{Min: orb.Point{-1000, -1000}, Max: orb.Point{1000, 1000}}) {
				xp := x.(*P)
				e.Items = append(e.Items, [3]int{xp.id, int(xp.p[0]), int(xp.p[1])})
			}
			for _, qp := range qpts {
				f := q.Find(orb.Point{qp[0], qp[1]})
				id := 0
				if f != nil {
					id = f.(*P).id
				}
				e.Finds = append(e.Finds, [3]int{int(qp[0]), int(qp[1]), id})
				for k := 1; k <= 3; k++ {
					for _, md := range []int{0, 100, 1000} {
						var res []orb.Pointer
						if md == 0 {
							res = q.KNearest(nil, orb.Point{qp[0], qp[1]}, k)
						} else {
							res = q.KNearest(nil, orb.Point{qp[0], qp[1]}, k, float64(md))
						}
						row := []int{int(qp[0]), int(qp[1]), k, md}
						for _, x := range res {
							row = append(row, x.(*P).id)
						}
						e.KNN = append(e.KNN, row)
					}
				}
			}
			for _, b := range boxes {
				row := []int{int(b[0]), int(b[1]), int(b[2]), int(b[3])}
				for _, x := range q.InBound(nil, orb.Bound{Min: orb.Point{b[0], b[1]}, Max: orb.Point{b[2], b[3]}}) {
					row = append(row, x.(*P).id)
				}
				e.Inb = append(e.Inb, row)
			}
			enc.Encode(e)
			n++
		}
	}
	fmt.Fprintln(os.Stderr, "events", n)
}
