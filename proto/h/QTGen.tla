---- MODULE QTGen ----
EXTENDS QT, Json
VARIABLE hist
GInit == Init /\ hist = <<>>
GNext == \E k \in 1..Len(Pts) :
           \/ (Add(k) /\ hist' = Append(hist, [op |-> "add", k |-> k, res |-> lastRes']))
           \/ (RemoveByPoint(k) /\ hist' = Append(hist, [op |-> "rmpt", k |-> k, res |-> lastRes']))
GSpec == GInit /\ [][GNext]_<<vars, hist>>
Emit == nops < MaxOps \/ PrintT(ToJson([h |-> hist]))
====
