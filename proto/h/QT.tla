---- MODULE QT ----
EXTENDS Integers, Sequences, FiniteSets, TLC

CONSTANTS MaxOps
B == 256                                   \* tree bound [0,B]^2, midlines stay integral to depth 8
Pts == << <<128,128>>, <<128,128>>, <<64,192>>, <<0,256>>, <<200,40>>, <<300,10>> >>   \* dup, midline, corner, inside, outside
InBound(p) == 0 <= p[1] /\ p[1] <= B /\ 0 <= p[2] /\ p[2] <= B

VARIABLES nodes,    \* function: path -> pointer id (0 = empty node)
          pt,       \* function: pointer id -> point
          next, nops, lastRes
vars == <<nodes, pt, next, nops, lastRes>>

Items == {nodes[pa] : pa \in DOMAIN nodes} \ {0}

Init == nodes = <<>> /\ pt = <<>> /\ next = 1 /\ nops = 0 /\ lastRes = "init"
HasRoot == <<>> \in DOMAIN nodes   \* <<>> as a path; nodes = <<>> means empty function

\* ---- add -------------------------------------------------------------
ChildOf(l, r, b, t, p) ==
   LET cy == (b + t) \div 2  cx == (l + r) \div 2
       iy == IF p[2] <= cy THEN 2 ELSE 0
       ix == IF p[1] >= cx THEN 1 ELSE 0
   IN [i |-> iy + ix,
       l |-> IF ix = 1 THEN cx ELSE l, r |-> IF ix = 1 THEN r ELSE cx,
       b |-> IF iy = 2 THEN b ELSE cy, t |-> IF iy = 2 THEN cy ELSE t]
RECURSIVE AddRec(_,_,_,_,_,_,_,_)
AddRec(ns, path, id, p, l, r, b, t) ==
   LET c == ChildOf(l, r, b, t, p)  cp == Append(path, c.i) IN
   IF cp \notin DOMAIN ns THEN (cp :> id) @@ ns
   ELSE IF ns[cp] = 0 THEN [ns EXCEPT ![cp] = id]
   ELSE AddRec(ns, cp, id, p, c.l, c.r, c.b, c.t)
Add(k) ==
   /\ nops < MaxOps /\ nops' = nops + 1
   /\ LET p == Pts[k] IN
      IF ~InBound(p) THEN lastRes' = "err" /\ UNCHANGED <<nodes, pt, next>>
      ELSE /\ lastRes' = "ok" /\ next' = next + 1 /\ pt' = (next :> p) @@ pt
           /\ nodes' = IF ~HasRoot THEN (<<>> :> next)
                       ELSE IF nodes[<<>>] = 0 THEN [nodes EXCEPT ![<<>>] = next]
                       ELSE AddRec(nodes, <<>>, next, p, 0, B, 0, B)

\* ---- find (closest matching), exact pruning -----------------------------
D2(a, b) == (a[1]-b[1])*(a[1]-b[1]) + (a[2]-b[2])*(a[2]-b[2])
\* vs = [best: path or <<9>>, d2: Int (-1 = infinity)]
Pruned(vs, q, l, r, b, t) ==
   IF vs.d2 < 0 THEN (l > B \/ r < 0 \/ b > B \/ t < 0)
   ELSE \/ (l - q[1] > 0 /\ (l - q[1])*(l - q[1]) > vs.d2)
        \/ (q[1] - r > 0 /\ (q[1] - r)*(q[1] - r) > vs.d2)
        \/ (b - q[2] > 0 /\ (b - q[2])*(b - q[2]) > vs.d2)
        \/ (q[2] - t > 0 /\ (q[2] - t)*(q[2] - t) > vs.d2)
Kids(ns, path) == {i \in 0..3 : Append(path, i) \in DOMAIN ns}
RECURSIVE VisitF(_,_,_,_,_,_,_,_,_)
RECURSIVE VisitKids(_,_,_,_,_,_,_,_,_,_,_)
VisitF(ns, match, q, path, l, r, b, t, vs) ==
   IF Pruned(vs, q, l, r, b, t) THEN vs
   ELSE LET v == ns[path]
            vs1 == IF v # 0 /\ v \in match /\ (vs.d2 < 0 \/ D2(pt[v], q) < vs.d2)
                   THEN [best |-> path, d2 |-> D2(pt[v], q)] ELSE vs
        IN IF Kids(ns, path) = {} THEN vs1
           ELSE LET cx == (l + r) \div 2  cy == (b + t) \div 2
                    i0 == (IF q[2] <= cy THEN 2 ELSE 0) + (IF q[1] >= cx THEN 1 ELSE 0)
                IN VisitKids(ns, match, q, path, l, r, b, t, vs1, i0, 0)
VisitKids(ns, match, q, path, l, r, b, t, vs, i0, j) ==
   IF j = 4 THEN vs
   ELSE LET k == (i0 + j) % 4  cp == Append(path, k)
            cx == (l + r) \div 2  cy == (b + t) \div 2
            vs1 == IF cp \notin DOMAIN ns THEN vs
                   ELSE IF k = 0 THEN VisitF(ns, match, q, cp, l, cx, cy, t, vs)
                   ELSE IF k = 1 THEN VisitF(ns, match, q, cp, cx, r, cy, t, vs)
                   ELSE IF k = 2 THEN VisitF(ns, match, q, cp, l, cx, b, cy, vs)
                   ELSE VisitF(ns, match, q, cp, cx, r, b, cy, vs)
        IN VisitKids(ns, match, q, path, l, r, b, t, vs1, i0, j + 1)
FindNode(ns, match, q) == VisitF(ns, match, q, <<>>, 0, B, 0, B, [best |-> <<9>>, d2 |-> -1])

\* ---- remove ---------------------------------------------------------------
RECURSIVE RemoveNode(_,_)
\* returns [ns, gone]: pull a child value up; gone = this node can be deleted by its parent
RemoveNode(ns, path) ==
   LET ks == Kids(ns, path) IN
   IF ks = {} THEN [ns |-> ns, gone |-> TRUE]
   ELSE LET i == CHOOSE i \in ks : \A j \in ks : i <= j
            cp == Append(path, i)
            ns1 == [ns EXCEPT ![path] = ns[cp], ![cp] = 0]
            rec == RemoveNode(ns1, cp)
            ns2 == IF rec.gone THEN [pa \in (DOMAIN rec.ns) \ {cp} |-> rec.ns[pa]] ELSE rec.ns
        IN [ns |-> ns2, gone |-> FALSE]
RemoveByPoint(k) ==
   /\ nops < MaxOps /\ nops' = nops + 1 /\ HasRoot     \* (real code panics without a root: finding)
   /\ LET q == Pts[k]
          match == {id \in Items : pt[id] = q}
          f == FindNode(nodes, match, q) IN
      IF f.best = <<9>> THEN lastRes' = "false" /\ UNCHANGED <<nodes, pt, next>>
      ELSE /\ lastRes' = "true" /\ UNCHANGED <<pt, next>>
           /\ nodes' = RemoveNode([nodes EXCEPT ![f.best] = 0], f.best).ns

Next == \E k \in 1..Len(Pts) : Add(k) \/ RemoveByPoint(k)
Spec == Init /\ [][Next]_vars

\* ---- invariants: value inside its cell; Find agrees with the list model for a query family ----
RECURSIVE Cell(_,_,_,_,_)
Cell(path, l, r, b, t) ==
   IF path = <<>> THEN <<l, r, b, t>>
   ELSE LET cx == (l + r) \div 2  cy == (b + t) \div 2  k == Head(path) IN
        IF k = 0 THEN Cell(Tail(path), l, cx, cy, t)
        ELSE IF k = 1 THEN Cell(Tail(path), cx, r, cy, t)
        ELSE IF k = 2 THEN Cell(Tail(path), l, cx, b, cy)
        ELSE Cell(Tail(path), cx, r, b, cy)
InCell == \A pa \in DOMAIN nodes : nodes[pa] # 0 =>
             LET c == Cell(pa, 0, B, 0, B)  p == pt[nodes[pa]] IN
             c[1] <= p[1] /\ p[1] <= c[2] /\ c[3] <= p[2] /\ p[2] <= c[4]
QPts == {<<x, y>> : x \in {0, 100, 128, 250}, y \in {0, 64, 130, 256}}
FindOK == HasRoot => \A q \in QPts :
            LET f == FindNode(nodes, Items, q) IN
            IF Items = {} THEN f.best = <<9>>
            ELSE /\ f.best # <<9>>
                 /\ \A id \in Items : D2(pt[nodes[f.best]], q) <= D2(pt[id], q)
Unique == \A a, b \in DOMAIN nodes : (a # b /\ nodes[a] # 0) => nodes[a] # nodes[b]
====
