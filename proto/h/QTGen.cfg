SPECIFICATION GSpec
CONSTANT MaxOps = 4
INVARIANT Emit
CHECK_DEADLOCK FALSE
