SPECIFICATION Spec
CONSTANT MaxOps = 7
INVARIANT InCell
INVARIANT FindOK
INVARIANT Unique
CHECK_DEADLOCK FALSE
