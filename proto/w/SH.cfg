SPECIFICATION Spec
CONSTANTS G = 5
 BLO = 1
 BHI = 3
 NV = 3
INVARIANT RegionOK
INVARIANT InsideUnchanged
CHECK_DEADLOCK FALSE
