---- MODULE SH ----
EXTENDS Integers, Sequences, FiniteSets, TLC
CONSTANTS G, BLO, BHI, NV
S == 60
Cross(a, b, p) == (b[1]-a[1])*(p[2]-a[2]) - (b[2]-a[2])*(p[1]-a[1])
Min2(a,b) == IF a < b THEN a ELSE b
Max2(a,b) == IF a > b THEN a ELSE b
OnSeg(a, b, p) == /\ Cross(a,b,p) = 0 /\ Min2(a[1],b[1]) <= p[1] /\ p[1] <= Max2(a[1],b[1])
                  /\ Min2(a[2],b[2]) <= p[2] /\ p[2] <= Max2(a[2],b[2])
Crosses(a, b, p) == LET lo == IF a[1] <= b[1] THEN a ELSE b  hi == IF a[1] <= b[1] THEN b ELSE a
                    IN lo[1] <= p[1] /\ p[1] < hi[1] /\ Cross(lo, hi, p) < 0
EdgeB(r,i) == r[(i % Len(r)) + 1]
OnBoundary(r, p) == \E i \in 1..Len(r) : OnSeg(r[i], EdgeB(r,i), p)
Parity(r, p) == Cardinality({i \in 1..Len(r) : Crosses(r[i], EdgeB(r,i), p)}) % 2 = 1

\* ---- transcription of clip.ring(): four Sutherland-Hodgman passes --------------------------
Bit(c, b) == (c \div b) % 2 = 1
Code(bx, p) == (IF p[1] < bx[1] THEN 1 ELSE IF p[1] > bx[3] THEN 2 ELSE 0) + (IF p[2] < bx[2] THEN 4 ELSE IF p[2] > bx[4] THEN 8 ELSE 0)
Isect(bx, edge, a, b) ==
  IF edge = 8 THEN <<a[1] + ((b[1]-a[1])*(bx[4]-a[2])) \div (b[2]-a[2]), bx[4]>>
  ELSE IF edge = 4 THEN <<a[1] + ((b[1]-a[1])*(bx[2]-a[2])) \div (b[2]-a[2]), bx[2]>>
  ELSE IF edge = 2 THEN <<bx[3], a[2] + ((b[2]-a[2])*(bx[3]-a[1])) \div (b[1]-a[1])>>
  ELSE <<bx[1], a[2] + ((b[2]-a[2])*(bx[1]-a[1])) \div (b[1]-a[1])>>
Inside(bx, p, edge) == ~Bit(Code(bx, p), edge)
RECURSIVE Pass(_,_,_,_,_,_)
Pass(bx, edge, in, i, prev, out) ==
  IF i > Len(in) THEN out
  ELSE LET p == in[i]
           o1 == IF Inside(bx, p, edge) # Inside(bx, prev, edge) THEN Append(out, Isect(bx, edge, prev, p)) ELSE out
           o2 == IF Inside(bx, p, edge) THEN Append(o1, p) ELSE o1
       IN Pass(bx, edge, in, i + 1, p, o2)
RECURSIVE Passes(_,_,_,_)
Passes(bx, in, closedIn, edges) ==
  IF edges = <<>> THEN in
  ELSE LET prev0 == IF closedIn THEN in[Len(in)] ELSE in[1]
           out == Pass(bx, Head(edges), in, 1, prev0, <<>>)
       IN IF out = <<>> THEN <<>> ELSE Passes(bx, out, closedIn, Tail(edges))
Ring(bx, in) ==
  IF in = <<>> THEN <<>>
  ELSE LET closedIn == in[1] = in[Len(in)]
           out == Passes(bx, in, closedIn, <<1, 2, 4, 8>>)
       IN IF out # <<>> /\ closedIn /\ out[1] # out[Len(out)] THEN Append(out, out[1]) ELSE out

\* ---- model: all closed rings of NV distinct-position vertices on the grid, all boxes -------------
VARIABLES box, ring
Pt == {<<S*x, S*y>> : x \in 0..(G-1), y \in 0..(G-1)}
Boxes == {<<S*x0, S*y0, S*x1, S*y1>> : x0 \in BLO..BHI, y0 \in BLO..BHI, x1 \in BLO..BHI, y1 \in BLO..BHI}
Init == box \in {b \in Boxes : b[1] < b[3] /\ b[2] < b[4]} /\ ring = <<>>
Next == /\ ring = <<>> /\ \E vs \in [1..NV -> Pt] : ring' = [i \in 1..(NV+1) |-> IF i <= NV THEN vs[i] ELSE vs[1]]
        /\ UNCHANGED box
Spec == Init /\ [][Next]_<<box, ring>>
Queries == {<<x,y>> : x \in {box[1] + 15*k : k \in 1..((box[3]-box[1]) \div 15 - 1)},
                      y \in {box[2] + 15*k : k \in 1..((box[4]-box[2]) \div 15 - 1)}}
InBoxC(p) == box[1] <= p[1] /\ p[1] <= box[3] /\ box[2] <= p[2] /\ p[2] <= box[4]
RegionOK == ring = <<>> \/ LET out == Ring(box, ring) IN
   /\ \A i \in 1..Len(out) : InBoxC(out[i])
   /\ (out # <<>> => out[1] = out[Len(out)])
   /\ \A q \in Queries : (OnBoundary(ring, q) \/ (out # <<>> /\ OnBoundary(out, q)))
                          \/ (Parity(ring, q) = (out # <<>> /\ Parity(out, q)))
InsideUnchanged == ring = <<>> \/ ((\A i \in 1..Len(ring) : InBoxC(ring[i])) => Ring(box, ring) = ring)
====
