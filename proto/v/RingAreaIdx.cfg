INIT Init
NEXT Next
CONSTANT MAXN = 14
INVARIANT InRange
INVARIANT Cyclic
CHECK_DEADLOCK FALSE
