---- MODULE QConc ----
EXTENDS Integers, Sequences, FiniteSets, TLC
CONSTANTS SHARED, NQ
B == 256
\* ---- a fixed tree, built with the add rule of the implementation ------------------------------
PtsIn == << <<128,128>>, <<64,192>>, <<200,40>>, <<30,30>>, <<220,220>>, <<130,126>> >>
ChildOf(l, r, b, t, p) ==
   LET cy == (b + t) \div 2  cx == (l + r) \div 2
       iy == IF p[2] <= cy THEN 2 ELSE 0   ix == IF p[1] >= cx THEN 1 ELSE 0
   IN [i |-> iy + ix, l |-> IF ix = 1 THEN cx ELSE l, r |-> IF ix = 1 THEN r ELSE cx,
       b |-> IF iy = 2 THEN b ELSE cy, t |-> IF iy = 2 THEN cy ELSE t]
RECURSIVE AddRec(_,_,_,_,_,_,_,_)
AddRec(ns, path, id, p, l, r, b, t) ==
   LET c == ChildOf(l, r, b, t, p)  cp == Append(path, c.i) IN
   IF cp \notin DOMAIN ns THEN (cp :> id) @@ ns ELSE AddRec(ns, cp, id, p, c.l, c.r, c.b, c.t)
RECURSIVE Build(_,_)
Build(ns, k) == IF k > Len(PtsIn) THEN ns
   ELSE Build(IF k = 1 THEN (<<>> :> 1) ELSE AddRec(ns, <<>>, k, PtsIn[k], 0, B, 0, B), k + 1)
Tree == Build(<<>>, 1)
Qs == << <<10,10>>, <<250,250>>, <<128,120>> >>
D2(a, b) == (a[1]-b[1])*(a[1]-b[1]) + (a[2]-b[2])*(a[2]-b[2])

Procs == 1..NQ
VARIABLES stack, best, bd, sbound, done
\* bd[i]: process-local search box as <<centre, d2>> (d2 = -1: the whole tree bound)
\* sbound: the same thing kept in the tree object (only used when SHARED)
vars == <<stack, best, bd, sbound, done>>
Root == [path |-> <<>>, l |-> 0, r |-> B, b |-> 0, t |-> B]
Init == /\ stack = [i \in Procs |-> <<Root>>] /\ best = [i \in Procs |-> 0]
        /\ bd = [i \in Procs |-> <<Qs[i], -1>>] /\ sbound = <<Qs[1], -1>> /\ done = [i \in Procs |-> FALSE]
Box(i) == IF SHARED THEN sbound ELSE bd[i]
Pruned(bx, f) == LET q == bx[1] d2 == bx[2] IN
   IF d2 < 0 THEN FALSE
   ELSE \/ (f.l - q[1] > 0 /\ (f.l - q[1])*(f.l - q[1]) > d2) \/ (q[1] - f.r > 0 /\ (q[1] - f.r)*(q[1] - f.r) > d2)
        \/ (f.b - q[2] > 0 /\ (f.b - q[2])*(f.b - q[2]) > d2) \/ (q[2] - f.t > 0 /\ (q[2] - f.t)*(q[2] - f.t) > d2)
KidsFrames(f, q) ==   \* frames of existing children, nearest child first
   LET cx == (f.l + f.r) \div 2  cy == (f.b + f.t) \div 2
       i0 == (IF q[2] <= cy THEN 2 ELSE 0) + (IF q[1] >= cx THEN 1 ELSE 0)
       Fr(k) == IF k = 0 THEN [path |-> Append(f.path,0), l |-> f.l, r |-> cx, b |-> cy, t |-> f.t]
                ELSE IF k = 1 THEN [path |-> Append(f.path,1), l |-> cx, r |-> f.r, b |-> cy, t |-> f.t]
                ELSE IF k = 2 THEN [path |-> Append(f.path,2), l |-> f.l, r |-> cx, b |-> f.b, t |-> cy]
                ELSE [path |-> Append(f.path,3), l |-> cx, r |-> f.r, b |-> f.b, t |-> cy]
       order == [j \in 1..4 |-> (i0 + j - 1) % 4]
   IN SelectSeq([j \in 1..4 |-> Fr(order[j])], LAMBDA fr : fr.path \in DOMAIN Tree)
Step(i) ==
  /\ ~done[i]
  /\ IF stack[i] = <<>> THEN done' = [done EXCEPT ![i] = TRUE] /\ UNCHANGED <<stack, best, bd, sbound>>
     ELSE LET f == Head(stack[i]) rest == Tail(stack[i]) q == Qs[i] IN
          IF Pruned(Box(i), f) THEN stack' = [stack EXCEPT ![i] = rest] /\ UNCHANGED <<best, bd, sbound, done>>
          ELSE LET id == Tree[f.path]  d == D2(PtsIn[id], q)
                   better == best[i] = 0 \/ d < D2(PtsIn[best[i]], q) IN
               /\ best' = IF better THEN [best EXCEPT ![i] = id] ELSE best
               /\ IF better /\ SHARED THEN sbound' = <<q, d>> /\ UNCHANGED bd
                  ELSE IF better THEN bd' = [bd EXCEPT ![i] = <<q, d>>] /\ UNCHANGED sbound
                  ELSE UNCHANGED <<bd, sbound>>
               /\ stack' = [stack EXCEPT ![i] = KidsFrames(f, q) \o rest]
               /\ UNCHANGED done
Next == \E i \in Procs : Step(i)
Spec == Init /\ [][Next]_vars
\* list model: the nearest stored point
Nearest(q) == CHOOSE id \in 1..Len(PtsIn) : \A j \in 1..Len(PtsIn) : D2(PtsIn[id], q) <= D2(PtsIn[j], q)
Deterministic == \A i \in Procs : done[i] => D2(PtsIn[best[i]], Qs[i]) = D2(PtsIn[Nearest(Qs[i])], Qs[i])
NoSharedWrite == [][\A i \in Procs : (stack[i] # stack'[i] \/ best[i] # best'[i] \/ bd[i] # bd'[i]) =>
                       (sbound' = sbound /\ \A j \in Procs \ {i} : stack'[j] = stack[j] /\ best'[j] = best[j] /\ bd'[j] = bd[j])]_vars
====
