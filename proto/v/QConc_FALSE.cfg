SPECIFICATION Spec
CONSTANTS SHARED = FALSE
 NQ = 3
INVARIANT Deterministic
PROPERTY NoSharedWrite
CHECK_DEADLOCK FALSE
