SPECIFICATION Spec
CONSTANTS SHARED = TRUE
 NQ = 3
INVARIANT Deterministic
PROPERTY NoSharedWrite
CHECK_DEADLOCK FALSE
