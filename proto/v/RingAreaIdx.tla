---- MODULE RingAreaIdx ----
EXTENDS Integers, Sequences, FiniteSets, TLC
\* Index schedule of geo.ringArea: for a ring of n stored vertices (closed: first = last), the loop
\* adds (lon[hi] - lon[lo]) * sin(lat[mi]) for the triples below (0-based indices, as in the code).
CONSTANT MAXN
VARIABLES n, closed
Init == n \in 3..MAXN /\ closed \in BOOLEAN
Next == UNCHANGED <<n, closed>>
L == IF closed THEN n ELSE n + 1
Triple(i) == IF i = L - 3 THEN <<L - 3, L - 2, 0>>
             ELSE IF i = L - 2 THEN <<L - 2, 0, 0>>
             ELSE IF i = L - 1 THEN <<0, 0, 1>>
             ELSE <<i, i + 1, i + 2>>
\* distinct vertices: m = n-1 for a closed ring, n otherwise; stored index n-1 of a closed ring is vertex 0
M == IF closed THEN n - 1 ELSE n
V(i) == IF closed /\ i = n - 1 THEN 0 ELSE i
\* net coefficient of lon[v] in the factor multiplying sin(lat[k])
Coef(k, v) == Cardinality({i \in 0..(L-1) : V(Triple(i)[2]) = k /\ V(Triple(i)[3]) = v})
            - Cardinality({i \in 0..(L-1) : V(Triple(i)[2]) = k /\ V(Triple(i)[1]) = v})
\* specification: sum over the cyclic triples (k-1, k, k+1) of the m distinct vertices
Want(k, v) == (IF v = (k + 1) % M THEN 1 ELSE 0) - (IF v = (k + M - 1) % M THEN 1 ELSE 0)
InRange == \A i \in 0..(L-1) : \A j \in 1..3 : Triple(i)[j] \in 0..(n-1)
Cyclic == \A k \in 0..(M-1) : \A v \in 0..(M-1) : Coef(k, v) = Want(k, v)
====
