SPECIFICATION Spec
CONSTANTS SHARED = TRUE
 NQ = 3
INVARIANT Deterministic
CHECK_DEADLOCK FALSE
