SPECIFICATION Spec
CONSTANT MAXZ = 2
INVARIANT Correct
INVARIANT SameArea
INVARIANT Disjoint
INVARIANT NoQuadLeft
CHECK_DEADLOCK FALSE
