---- MODULE MergeUp ----
EXTENDS Integers, FiniteSets, Sequences, TLC
CONSTANT MAXZ                      \* zoom of the input cover
Tile(x,y,z) == <<x,y,z>>
AllAt(z) == {Tile(x,y,z) : x \in 0..(2^z - 1), y \in 0..(2^z - 1)}
Parent(t) == Tile(t[1] \div 2, t[2] \div 2, t[3] - 1)
Kids(t) == {Tile(2*t[1]+dx, 2*t[2]+dy, t[3]+1) : dx \in {0,1}, dy \in {0,1}}
Sibs(t) == Kids(Parent(t))

VARIABLES input, min, set, merged, parentSet, z, pending, pc
vars == <<input, min, set, merged, parentSet, z, pending, pc>>

Init == /\ input \in SUBSET AllAt(MAXZ) /\ min \in 0..MAXZ
        /\ set = input /\ merged = {} /\ parentSet = {} /\ z = MAXZ
        /\ pending = input
        /\ pc = IF min = MAXZ THEN "returnInput" ELSE "loop"    \* (max is read off any true tile; all at MAXZ)

\* one iteration of `for t, v := range set` : Go may present the keys in any order
Visit(t) ==
  /\ pc = "loop" /\ t \in pending
  /\ pending' = pending \ {t}
  /\ IF t \notin set THEN UNCHANGED <<set, merged, parentSet>>           \* value already false: skipped
     ELSE LET sb == Sibs(t) IN
          IF sb \subseteq set
          THEN /\ set' = set \ sb
               /\ IF z - 1 = min THEN merged' = merged \cup {Parent(t)} /\ UNCHANGED parentSet
                                 ELSE parentSet' = parentSet \cup {Parent(t)} /\ UNCHANGED merged
          ELSE /\ merged' = merged \cup (sb \cap set) /\ set' = set \ sb /\ UNCHANGED parentSet
  /\ UNCHANGED <<input, min, z, pc>>
EndLevel ==
  /\ pc = "loop" /\ pending = {}
  /\ IF Cardinality(parentSet) < 4
     THEN /\ merged' = merged \cup parentSet /\ pc' = "done" /\ UNCHANGED <<set, z, pending, parentSet>>
     ELSE IF z - 1 > min
          THEN /\ set' = parentSet /\ pending' = parentSet /\ parentSet' = {} /\ z' = z - 1 /\ UNCHANGED <<merged, pc>>
          ELSE /\ pc' = "done" /\ UNCHANGED <<set, merged, parentSet, z, pending>>
  /\ UNCHANGED <<input, min>>
Next == (\E t \in pending : Visit(t)) \/ EndLevel
Spec == Init /\ [][Next]_vars

\* ---- abstract result ---------------------------------------------------------------------
RECURSIVE Covered(_)
Covered(t) == IF t[3] = MAXZ THEN t \in input ELSE \A k \in Kids(t) : Covered(k)
AllTiles == UNION {AllAt(zz) : zz \in 0..MAXZ}
MaxMerge == {t \in AllTiles : Covered(t) /\ t[3] >= min /\ (t[3] = min \/ ~Covered(Parent(t)))}
Result == IF pc = "returnInput" THEN input ELSE merged
Final == pc \in {"done", "returnInput"}
Correct == Final => Result = MaxMerge
\* derived checks the property names explicitly
RECURSIVE Leaves(_)
Leaves(t) == IF t[3] = MAXZ THEN {t} ELSE UNION {Leaves(k) : k \in Kids(t)}
SameArea == Final => UNION {Leaves(t) : t \in Result} = input
Disjoint == Final => \A a, b \in Result : a # b => Leaves(a) \cap Leaves(b) = {}
NoQuadLeft == Final => \A t \in Result : t[3] > min => ~(Sibs(t) \subseteq Result)
====
