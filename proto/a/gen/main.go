package main

import (
	"bufio"
	"encoding/json"
	"os"

	"github.com/paulmach/orb"
	"github.com/paulmach/orb/planar"
)

type ev struct {
	Ring [][2]int `json:"ring"`
	Q    [][2]int `json:"q"`
	Ans  []int    `json:"ans"`
}

func main() {
	w := bufio.NewWriter(os.Stdout)
	defer w.Flush()
	enc := json.NewEncoder(w)
	n := 0
	// all 3-vertex rings on 4x4 grid; coordinates scaled by 2, query half-step lattice
	for a := 0; a < 16; a++ {
		for b := 0; b < 16; b++ {
			for c := 0; c < 16; c++ {
				pts := [][2]int{{a % 4, a / 4}, {b % 4, b / 4}, {c % 4, c / 4}}
				r := orb.Ring{}
				e := ev{}
				for _, p := range pts {
					r = append(r, orb.Point{float64(p[0]), float64(p[1])})
					e.Ring = append(e.Ring, [2]int{2 * p[0], 2 * p[1]})
				}
				for x := 0; x <= 6; x++ {
					for y := 0; y <= 6; y++ {
						e.Q = append(e.Q, [2]int{x, y})
						in := planar.RingContains(r, orb.Point{float64(x) / 2, float64(y) / 2})
						if in {
							e.Ans = append(e.Ans, 1)
						} else {
							e.Ans = append(e.Ans, 0)
						}
					}
				}
				enc.Encode(e)
				n++
			}
		}
	}
}
