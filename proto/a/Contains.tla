---- MODULE Contains ----
EXTENDS Integers, Sequences, FiniteSets, TLC, Json, IOUtils

\* exact even-odd point-in-ring on integer coordinates (query points pre-scaled)
Cross(a, b, p) == (b[1]-a[1])*(p[2]-a[2]) - (b[2]-a[2])*(p[1]-a[1])
Min(a,b) == IF a < b THEN a ELSE b
Max(a,b) == IF a > b THEN a ELSE b
OnSeg(a, b, p) == /\ Cross(a,b,p) = 0
                  /\ Min(a[1],b[1]) <= p[1] /\ p[1] <= Max(a[1],b[1])
                  /\ Min(a[2],b[2]) <= p[2] /\ p[2] <= Max(a[2],b[2])
\* upward ray crossing, half-open rule on x
Crosses(a, b, p) ==
   LET lo == IF a[1] <= b[1] THEN a ELSE b
       hi == IF a[1] <= b[1] THEN b ELSE a
   IN /\ lo[1] <= p[1] /\ p[1] < hi[1]
      /\ Cross(lo, hi, p) < 0   \* p strictly below the line lo->hi
Edges(r) == LET n == Len(r) IN [i \in 1..n |-> <<r[i], r[(i % n) + 1]>>]
InRing(r, p) ==
   LET es == Edges(r)
       on == \E i \in 1..Len(es) : OnSeg(es[i][1], es[i][2], p)
       cnt == Cardinality({i \in 1..Len(es) : Crosses(es[i][1], es[i][2], p)})
   IN on \/ (cnt % 2 = 1)

Trace == ndJsonDeserialize(IOEnv.TRACE)
VARIABLE l
Init == l = 1
Check(e) == \A i \in 1..Len(e.q) : InRing(e.ring, e.q[i]) = (e.ans[i] = 1)
Next == /\ l <= Len(Trace) /\ Check(Trace[l]) /\ l' = l + 1
Spec == Init /\ [][Next]_l
Accepted == TLCGet("stats").diameter - 1 = Len(Trace)
====
