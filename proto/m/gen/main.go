package main

import (
	"bufio"
	"encoding/json"
	"fmt"
	"math/rand"
	"os"

	"github.com/paulmach/orb"
	"github.com/paulmach/orb/encoding/mvt"
	"github.com/paulmach/orb/encoding/mvt/vectortile"
	"github.com/paulmach/orb/geojson"
)

type G struct {
	K string      `json:"k"`
	C interface{} `json:"c"`
}
type ev struct {
	G   G     `json:"g"`
	T   int   `json:"t"`
	D   []int `json:"d"`
	Out G     `json:"out"`
}

func ip(p orb.Point) [2]int { return [2]int{int(p[0]), int(p[1])} }
func ips(ps []orb.Point) [][2]int {
	o := [][2]int{}
	for _, p := range ps {
		o = append(o, ip(p))
	}
	return o
}
func model(g orb.Geometry) G {
	switch g := g.(type) {
	case orb.Point:
		return G{"Point", ip(g)}
	case orb.MultiPoint:
		return G{"MultiPoint", ips(g)}
	case orb.LineString:
		return G{"LineString", ips(g)}
	case orb.Ring:
		return G{"Ring", ips(g)}
	case orb.MultiLineString:
		o := [][][2]int{}
		for _, l := range g {
			o = append(o, ips(l))
		}
		return G{"MultiLineString", o}
	case orb.Polygon:
		o := [][][2]int{}
		for _, l := range g {
			o = append(o, ips(l))
		}
		return G{"Polygon", o}
	case orb.MultiPolygon:
		o := [][][][2]int{}
		for _, p := range g {
			pp := [][][2]int{}
			for _, l := range p {
				pp = append(pp, ips(l))
			}
			o = append(o, pp)
		}
		return G{"MultiPolygon", o}
	}
	panic("kind")
}

var r = rand.New(rand.NewSource(9))

var small bool

func coord() float64 {
	if small {
		return float64(r.Intn(8001) - 4000)
	}
	switch r.Intn(6) {
	case 0:
		return float64(r.Intn(1<<28)) - float64(1<<27)
	case 1:
		return float64((1 << 28) - 1)
	case 2:
		return -float64((1 << 28) - 1)
	}
	return float64(r.Intn(21) - 10)
}
func pt() orb.Point { return orb.Point{coord(), coord()} }
func line(n int) orb.LineString {
	l := orb.LineString{}
	for i := 0; i < n; i++ {
		l = append(l, pt())
	}
	return l
}

// ring with non-zero area and given orientation sign (1 ccw, -1 cw), closed or not
func ring(sign int, closed bool) orb.Ring {
	for {
		n := 3 + r.Intn(4)
		rr := orb.Ring(line(n))
		c := append(orb.Ring{}, rr...)
		c = append(c, c[0])
		o := int(c.Orientation())
		if o == 0 {
			continue
		}
		if o != sign {
			c.Reverse()
		}
		if !c.Closed() {
			continue
		}
		if closed {
			return c
		}
		return c[:len(c)-1]
	}
}
func poly() orb.Polygon {
	p := orb.Polygon{ring(1, r.Intn(2) == 0)}
	for i := r.Intn(3); i > 0; i-- {
		p = append(p, ring(-1, r.Intn(2) == 0))
	}
	return p
}
func geom() orb.Geometry {
	k := r.Intn(7)
	small = k >= 4
	switch k {
	case 0:
		return pt()
	case 1:
		return orb.MultiPoint(line(1 + r.Intn(4)))
	case 2:
		return line(1 + r.Intn(5))
	case 3:
		m := orb.MultiLineString{}
		for i := 1 + r.Intn(3); i > 0; i-- {
			m = append(m, line(1+r.Intn(4)))
		}
		return m
	case 4:
		return ring([]int{1, -1}[r.Intn(2)], r.Intn(2) == 0)
	case 5:
		return poly()
	}
	m := orb.MultiPolygon{}
	for i := 1 + r.Intn(3); i > 0; i-- {
		m = append(m, poly())
	}
	return m
}

func main() {
	w := bufio.NewWriter(os.Stdout)
	defer w.Flush()
	enc := json.NewEncoder(w)
	for n := 0; n < 20000; n++ {
		g := geom()
		fc := geojson.NewFeatureCollection()
		fc.Append(geojson.NewFeature(g))
		data, err := mvt.Marshal(mvt.Layers{mvt.NewLayer("l", fc)})
		if err != nil {
			panic(err)
		}
		var tile vectortile.Tile
		if err := tile.Unmarshal(data); err != nil {
			panic(err)
		}
		f := tile.Layers[0].Features[0]
		e := ev{G: model(g), T: int(f.GetType()), D: []int{}}
		for _, v := range f.Geometry {
			if v > 1<<31-1 {
				fmt.Fprintln(os.Stderr, "word too large", v)
			}
			e.D = append(e.D, int(v))
		}
		ls, err := mvt.Unmarshal(data)
		if err != nil {
			panic(err)
		}
		e.Out = model(ls[0].Features[0].Geometry)
		enc.Encode(e)
	}
}
