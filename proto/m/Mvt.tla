---- MODULE Mvt ----
EXTENDS Integers, Sequences, FiniteSets, TLC, Json, IOUtils

ZZ(d) == IF d >= 0 THEN 2*d ELSE -2*d - 1
UnZZ(v) == IF v % 2 = 0 THEN v \div 2 ELSE -((v + 1) \div 2)
Cmd(id, n) == n*8 + id
MoveToId == 1  LineToId == 2  CloseId == 7

\* encoder state = [cur |-> <<x,y>>, data |-> Seq(Nat)]
RECURSIVE AddPts(_,_)
AddPts(st, pts) == IF pts = <<>> THEN st
   ELSE LET p == Head(pts) IN
        AddPts([cur |-> p, data |-> st.data \o <<ZZ(p[1]-st.cur[1]), ZZ(p[2]-st.cur[2])>>], Tail(pts))
MoveTo(st, pts) == AddPts([st EXCEPT !.data = Append(@, Cmd(MoveToId, Len(pts)))], pts)
LineTo(st, pts) == AddPts([st EXCEPT !.data = Append(@, Cmd(LineToId, Len(pts)))], pts)
ClosePath(st)   == [st EXCEPT !.data = Append(@, Cmd(CloseId, 1))]
Closed(r) == Len(r) >= 4 /\ r[1] = r[Len(r)]
Line(st, ls) == LineTo(MoveTo(st, <<ls[1]>>), SubSeq(ls, 2, Len(ls)))
RingE(st, r) == ClosePath(LineTo(MoveTo(st, <<r[1]>>), IF Closed(r) THEN SubSeq(r, 2, Len(r)-1) ELSE SubSeq(r, 2, Len(r))))
RECURSIVE FoldL(_,_,_)
FoldL(Op(_,_), st, xs) == IF xs = <<>> THEN st ELSE FoldL(Op, Op(st, Head(xs)), Tail(xs))
PolyE(st, p) == FoldL(RingE, st, p)
St0 == [cur |-> <<0,0>>, data |-> <<>>]
Encode(g) ==
  CASE g.k = "Point"           -> [t |-> 1, d |-> MoveTo(St0, <<g.c>>).data]
    [] g.k = "MultiPoint"      -> [t |-> 1, d |-> MoveTo(St0, g.c).data]
    [] g.k = "LineString"      -> [t |-> 2, d |-> Line(St0, g.c).data]
    [] g.k = "MultiLineString" -> [t |-> 2, d |-> FoldL(Line, St0, g.c).data]
    [] g.k = "Ring"            -> [t |-> 3, d |-> RingE(St0, g.c).data]
    [] g.k = "Polygon"         -> [t |-> 3, d |-> PolyE(St0, g.c).data]
    [] g.k = "MultiPolygon"    -> [t |-> 3, d |-> FoldL(PolyE, St0, g.c).data]

\* ---------------- decoder (transcribes geomDecoder) -------------------------
\* ds = [pos, cur]; returns [ok, ...]
Err == [ok |-> FALSE]
CmdAt(d, ds) == IF ds.pos > Len(d) THEN Err
   ELSE LET v == d[ds.pos]  id == v % 8  n == v \div 8 IN
        IF id # CloseId /\ ds.pos + 2*n > Len(d) THEN Err
        ELSE [ok |-> TRUE, id |-> id, n |-> n, ds |-> [ds EXCEPT !.pos = @ + 1]]
RECURSIVE Pts(_,_,_,_)
Pts(d, ds, n, acc) == IF n = 0 THEN [ok |-> TRUE, pts |-> acc, ds |-> ds]
   ELSE IF ds.pos + 1 > Len(d) THEN Err
   ELSE LET p == <<ds.cur[1] + UnZZ(d[ds.pos]), ds.cur[2] + UnZZ(d[ds.pos+1])>> IN
        Pts(d, [pos |-> ds.pos + 2, cur |-> p], n - 1, Append(acc, p))
DecLine(d, ds) ==
   LET c1 == CmdAt(d, ds) IN
   IF ~c1.ok \/ c1.id # MoveToId \/ c1.n # 1 THEN Err ELSE
   LET p1 == Pts(d, c1.ds, 1, <<>>) IN IF ~p1.ok THEN Err ELSE
   LET c2 == CmdAt(d, p1.ds) IN IF ~c2.ok \/ c2.id # LineToId THEN Err ELSE
   LET p2 == Pts(d, c2.ds, c2.n, p1.pts) IN IF ~p2.ok THEN Err ELSE [ok |-> TRUE, ls |-> p2.pts, ds |-> p2.ds]
Done(d, ds) == ds.pos > Len(d)
Shoelace2(r) == LET n == Len(r) IN
   LET RECURSIVE S(_)
       S(i) == IF i >= n THEN 0 ELSE (r[i][1]-r[1][1])*(r[i+1][2]-r[1][2]) - (r[i+1][1]-r[1][1])*(r[i][2]-r[1][2]) + S(i+1)
   IN S(2)
RECURSIVE DecLines(_,_,_)
DecLines(d, ds, mls) == IF Done(d, ds) THEN [ok |-> TRUE, g |-> [k |-> "MultiLineString", c |-> mls]]
   ELSE LET r == DecLine(d, ds) IN IF ~r.ok THEN Err
        ELSE IF Done(d, r.ds) /\ mls = <<>> THEN [ok |-> TRUE, g |-> [k |-> "LineString", c |-> r.ls]]
        ELSE DecLines(d, r.ds, Append(mls, r.ls))
RECURSIVE DecPolys(_,_,_,_)
DecPolys(d, ds, mp, p) == IF Done(d, ds)
   THEN (IF mp = <<>> THEN [ok |-> TRUE, g |-> [k |-> "Polygon", c |-> p]]
         ELSE [ok |-> TRUE, g |-> [k |-> "MultiPolygon", c |-> Append(mp, p)]])
   ELSE LET r == DecLine(d, ds) IN IF ~r.ok THEN Err ELSE
        LET c == CmdAt(d, r.ds) IN IF ~c.ok THEN Err ELSE
        LET ring == IF c.id = CloseId /\ ~Closed(r.ls) THEN Append(r.ls, r.ls[1]) ELSE r.ls IN
        IF mp = <<>> /\ p = <<>> THEN DecPolys(d, c.ds, mp, <<ring>>)
        ELSE IF Shoelace2(ring) > 0 THEN DecPolys(d, c.ds, Append(mp, p), <<ring>>)
        ELSE DecPolys(d, c.ds, mp, Append(p, ring))
Decode(t, d) ==
   IF Len(d) < 2 THEN Err
   ELSE IF t = 1 THEN LET c == CmdAt(d, [pos |-> 1, cur |-> <<0,0>>]) IN IF ~c.ok THEN Err ELSE
             LET ps == Pts(d, c.ds, c.n, <<>>) IN IF ~ps.ok THEN Err
             ELSE IF c.n = 1 THEN [ok |-> TRUE, g |-> [k |-> "Point", c |-> ps.pts[1]]]
             ELSE [ok |-> TRUE, g |-> [k |-> "MultiPoint", c |-> ps.pts]]
   ELSE IF t = 2 THEN DecLines(d, [pos |-> 1, cur |-> <<0,0>>], <<>>)
   ELSE IF t = 3 THEN DecPolys(d, [pos |-> 1, cur |-> <<0,0>>], <<>>, <<>>)
   ELSE Err

\* ---------------- trace ---------------------------------------------------
Check(e) == LET enc == Encode(e.g) IN
   /\ enc.t = e.t /\ enc.d = e.d
   /\ LET dec == Decode(e.t, e.d) IN dec.ok /\ dec.g = e.out
Trace == ndJsonDeserialize(IOEnv.TRACE)
VARIABLES l, bad
Init == l = 1 /\ bad = {}
Next == /\ l <= Len(Trace) /\ l' = l + 1 /\ bad' = IF Check(Trace[l]) THEN bad ELSE bad \cup {l}
        /\ (l = Len(Trace) => PrintT(ToJson([done |-> l, bad |-> bad'])))
Spec == Init /\ [][Next]_<<l,bad>>
====
