package main

import (
	"bufio"
	"encoding/json"
	"fmt"
	"math"
	"math/rand"
	"os"

	"github.com/paulmach/orb"
	"github.com/paulmach/orb/planar"
	"github.com/paulmach/orb/resample"
)

type ev struct {
	Kind string   `json:"kind"`
	Vs   [][2]int `json:"vs"`
	Lens []int    `json:"lens"`
	N    int      `json:"n"`
	M    int      `json:"m"`
	S    int      `json:"s"`
	Out  [][2]int `json:"out"`
}

func gcd(a, b int) int {
	for b != 0 {
		a, b = b, a%b
	}
	return a
}

var steps = [][3]int{{1, 0, 1}, {0, 1, 1}, {-1, 0, 1}, {0, -1, 1}, {2, 0, 2}, {0, 3, 3}, {3, 4, 5}, {-4, 3, 5}, {4, -3, 5}, {0, 0, 0}, {0, -4, 4}, {-3, -4, 5}}

func main() {
	w := bufio.NewWriter(os.Stdout)
	defer w.Flush()
	enc := json.NewEncoder(w)
	r := rand.New(rand.NewSource(8))
	off := 0
	for n := 0; n < 30000; n++ {
		k := 1 + r.Intn(5)
		x, y := r.Intn(5), r.Intn(5)
		e := ev{Kind: "normal", Vs: [][2]int{{x, y}}, Lens: []int{}, Out: [][2]int{}}
		ls := orb.LineString{{float64(x), float64(y)}}
		m, total := 1, 0
		for i := 0; i < k; i++ {
			s := steps[r.Intn(len(steps))]
			x, y = x+s[0], y+s[1]
			e.Vs = append(e.Vs, [2]int{x, y})
			e.Lens = append(e.Lens, s[2])
			ls = append(ls, orb.Point{float64(x), float64(y)})
			if s[2] > 0 {
				m = m * s[2] / gcd(m, s[2])
			}
			total += s[2]
		}
		if total == 0 {
			continue
		}
		e.N = 1 + r.Intn(14)
		e.M = m
		e.S = (e.N - 1) * m
		if e.N == 1 {
			e.S = 1
		}
		out := resample.Resample(ls, planar.Distance, e.N)
		for _, p := range out {
			qx, qy := math.Round(p[0]*float64(e.S)), math.Round(p[1]*float64(e.S))
			if math.Abs(p[0]*float64(e.S)-qx) > 1e-7 || math.Abs(p[1]*float64(e.S)-qy) > 1e-7 {
				off++
			}
			e.Out = append(e.Out, [2]int{int(qx), int(qy)})
		}
		enc.Encode(e)
	}
	fmt.Fprintln(os.Stderr, "offlattice", off)
}
