---- MODULE Resample ----
EXTENDS Integers, Sequences, FiniteSets, TLC, Json, IOUtils
\* path vertices are integer points, segment lengths e.lens are integers (axis-aligned / 3-4-5 / L1 metric)
\* expected point k (0-based) of N: at arclength k*L/(N-1); outputs are logged scaled by S = (N-1)*M, M = lcm of non-zero lens
RECURSIVE Sum(_)
Sum(s) == IF s = <<>> THEN 0 ELSE Head(s) + Sum(Tail(s))
\* position on the path at arclength num/(N-1), returned scaled by S = (N-1)*M
RECURSIVE At(_,_,_,_,_,_)
At(vs, lens, i, acc, num, nm) ==   \* acc = length before segment i (integer); nm = <<N-1, M>>
  LET n1 == nm[1]  M == nm[2]  S == n1 * M IN
  IF i = Len(lens) \/ (lens[i] > 0 /\ num <= (acc + lens[i]) * n1)
  THEN IF lens[i] = 0 THEN <<S * vs[i][1], S * vs[i][2]>>
       ELSE \* a + (b-a) * (num - acc*n1) / (n1*len_i), scaled by S=n1*M  => M*(...)/len_i
            <<S*vs[i][1] + ((vs[i+1][1]-vs[i][1]) * (num - acc*n1) * M) \div lens[i],
              S*vs[i][2] + ((vs[i+1][2]-vs[i][2]) * (num - acc*n1) * M) \div lens[i]>>
  ELSE At(vs, lens, i+1, acc + lens[i], num, nm)
Expected(e) == LET L == Sum(e.lens) IN
   [k \in 1..e.n |-> IF e.n = 1 THEN <<e.s*e.vs[1][1], e.s*e.vs[1][2]>>
                     ELSE IF k = e.n THEN <<e.s*e.vs[Len(e.vs)][1], e.s*e.vs[Len(e.vs)][2]>>
                     ELSE At(e.vs, e.lens, 1, 0, (k-1)*L, <<e.n-1, e.m>>)]
Check(e) == e.kind = "normal" => (Len(e.out) = e.n /\ e.out = Expected(e))
Trace == ndJsonDeserialize(IOEnv.TRACE)
VARIABLES l, bad
Init == l = 1 /\ bad = {}
Next == /\ l <= Len(Trace) /\ l' = l + 1 /\ bad' = IF Check(Trace[l]) THEN bad ELSE bad \cup {l}
        /\ (l = Len(Trace) => PrintT(ToJson([done |-> l, bad |-> bad'])))
Spec == Init /\ [][Next]_<<l,bad>>
====
