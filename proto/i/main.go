package main

import (
	"fmt"

	"github.com/paulmach/orb"
	"github.com/paulmach/orb/clip/smartclip"
	"github.com/paulmach/orb/encoding/mvt"
	"github.com/paulmach/orb/encoding/wkb"
	"github.com/paulmach/orb/encoding/wkt"
	"github.com/paulmach/orb/geojson"
	"github.com/paulmach/orb/maptile"
	"github.com/paulmach/orb/maptile/tilecover"
	"github.com/paulmach/orb/planar"
	"github.com/paulmach/orb/quadtree"
	"github.com/paulmach/orb/resample"
	"github.com/paulmach/orb/simplify"
)

func try(name string, f func() interface{}) {
	defer func() {
		if e := recover(); e != nil {
			fmt.Printf("%-40s PANIC: %v\n", name, e)
		}
	}()
	fmt.Printf("%-40s -> %v\n", name, f())
}

func main() {
	try("wkb count 2^28 linestring", func() interface{} {
		g, err := wkb.Unmarshal([]byte{1, 2, 0, 0, 0, 0, 0, 0, 0x10})
		return fmt.Sprint(g, err)
	})
	try("mvt 1-byte 0x08", func() interface{} { l, err := mvt.Unmarshal([]byte{0x08}); return fmt.Sprint(l, err) })
	try("mvt 1-byte 0x1f", func() interface{} { l, err := mvt.Unmarshal([]byte{0x1f}); return fmt.Sprint(l, err) })
	try("mvt empty", func() interface{} { l, err := mvt.Unmarshal([]byte{}); return fmt.Sprint(l, err) })
	// layer(3){ feature(2){ type(3)=1 } } : 1a 04 12 02 18 01
	try("mvt feature w/o geometry", func() interface{} {
		l, err := mvt.Unmarshal([]byte{0x1a, 0x04, 0x12, 0x02, 0x18, 0x01})
		return fmt.Sprint(l, err)
	})
	try("geojson geometries:[null]", func() interface{} {
		g, err := geojson.UnmarshalGeometry([]byte(`{"type":"GeometryCollection","geometries":[null]}`))
		return fmt.Sprint(g, err)
	})
	try("geojson nested empty collection rt", func() interface{} {
		b, err := geojson.NewGeometry(orb.Collection{orb.Collection{}}).MarshalJSON()
		if err != nil {
			return err
		}
		g, err := geojson.UnmarshalGeometry(b)
		return fmt.Sprint(string(b), g, err)
	})
	try("Reverse empty", func() interface{} { orb.LineString{}.Reverse(); return "ok" })
	try("Orientation empty ring", func() interface{} { return orb.Ring{}.Orientation() })
	try("MLS bound empty first", func() interface{} { return orb.MultiLineString{{}, {{5, 5}, {6, 7}}}.Bound() })
	try("Collection bound empty first", func() interface{} {
		return orb.Collection{orb.LineString{}, orb.Point{5, 5}}.Bound()
	})
	try("quadtree Remove on empty", func() interface{} {
		q := quadtree.New(orb.Bound{Min: orb.Point{0, 0}, Max: orb.Point{1, 1}})
		return q.Remove(orb.Point{0.5, 0.5}, nil)
	})
	try("quadtree KNearest k=0", func() interface{} {
		q := quadtree.New(orb.Bound{Min: orb.Point{0, 0}, Max: orb.Point{1, 1}})
		q.Add(orb.Point{0.5, 0.5})
		return q.KNearest(nil, orb.Point{0.1, 0.1}, 0)
	})
	try("maptile.At lon=180", func() interface{} { t := maptile.At(orb.Point{180, 0}, 3); return fmt.Sprint(t, t.Valid()) })
	try("ToInterval empty", func() interface{} { return resample.ToInterval(orb.LineString{}, planar.Distance, 1) })
	try("ToInterval nil", func() interface{} { return resample.ToInterval(nil, planar.Distance, 1) })
	try("DP multipolygon w/ empty polygon", func() interface{} {
		return simplify.DouglasPeucker(1).Simplify(orb.MultiPolygon{orb.Polygon{}})
	})
	try("smartclip multipolygon w/ empty polygon", func() interface{} {
		return smartclip.Geometry(orb.Bound{Min: orb.Point{0, 0}, Max: orb.Point{1, 1}}, orb.MultiPolygon{orb.Polygon{}}, orb.CCW)
	})
	try("smartclip polygon w/ empty ring", func() interface{} {
		return smartclip.Geometry(orb.Bound{Min: orb.Point{0, 0}, Max: orb.Point{1, 1}}, orb.Polygon{orb.Ring{}}, orb.CCW)
	})
	try("tilecover polygon w/ 1-vertex ring", func() interface{} {
		s, err := tilecover.Geometry(orb.Polygon{orb.Ring{{1, 1}}}, 3)
		return fmt.Sprint(s, err)
	})
	try("tilecover polygon w/ empty ring", func() interface{} {
		s, err := tilecover.Geometry(orb.Polygon{orb.Ring{}}, 3)
		return fmt.Sprint(s, err)
	})
	try("wkt.Marshal(nil)", func() interface{} { return wkt.MarshalString(nil) })
	try("wkt collection exponent", func() interface{} {
		s := wkt.MarshalString(orb.Collection{orb.Point{1e-7, 2}})
		g, err := wkt.Unmarshal(s)
		return fmt.Sprint(s, " => ", g, err)
	})
	try("wkt nested collection", func() interface{} {
		s := wkt.MarshalString(orb.Collection{orb.Collection{orb.Point{1, 2}}})
		g, err := wkt.Unmarshal(s)
		return fmt.Sprint(s, " => ", g, err)
	})
	try("wkt collection EMPTY member", func() interface{} {
		s := wkt.MarshalString(orb.Collection{orb.Point{1, 2}, orb.LineString{}})
		g, err := wkt.Unmarshal(s)
		return fmt.Sprint(s, " => ", g, err)
	})
	try("mvt collection flatten", func() interface{} {
		f := geojson.NewFeature(orb.Collection{orb.Point{1, 2}, orb.Point{3, 4}})
		fc := geojson.NewFeatureCollection()
		fc.Append(f)
		data, err := mvt.Marshal(mvt.Layers{mvt.NewLayer("a", fc)})
		if err != nil {
			return err
		}
		ls, err := mvt.Unmarshal(data)
		return fmt.Sprint(len(ls[0].Features), err)
	})
}
