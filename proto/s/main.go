package main

import (
	"fmt"
	"unsafe"

	"github.com/paulmach/orb"
)

func main() {
	p := orb.Polygon{{{0, 0}, {1, 0}, {1, 1}, {0, 0}}, {}, nil}
	c := p.Clone()
	fmt.Println("outer", unsafe.SliceData(p) == unsafe.SliceData(c))
	for i := range p {
		fmt.Println("ring", i, len(p[i]), p[i] == nil, c[i] == nil, unsafe.SliceData(p[i]), unsafe.SliceData(c[i]))
	}
	e1, e2 := make([]orb.Point, 0), make([]orb.Point, 0)
	fmt.Println("two empty makes share:", unsafe.SliceData(e1) == unsafe.SliceData(e2))
	col := orb.Collection{orb.LineString{{1, 2}}, orb.Collection{orb.Ring{{3, 4}}}}
	cc := orb.Clone(col).(orb.Collection)
	fmt.Println(unsafe.SliceData(col[0].(orb.LineString)) == unsafe.SliceData(cc[0].(orb.LineString)))
}
