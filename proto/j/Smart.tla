---- MODULE Smart ----
EXTENDS Integers, Sequences, FiniteSets, TLC, Json, IOUtils

Cross(a, b, p) == (b[1]-a[1])*(p[2]-a[2]) - (b[2]-a[2])*(p[1]-a[1])
Min2(a,b) == IF a < b THEN a ELSE b
Max2(a,b) == IF a > b THEN a ELSE b
OnSeg(a, b, p) == /\ Cross(a,b,p) = 0
                  /\ Min2(a[1],b[1]) <= p[1] /\ p[1] <= Max2(a[1],b[1])
                  /\ Min2(a[2],b[2]) <= p[2] /\ p[2] <= Max2(a[2],b[2])
Crosses(a, b, p) ==
   LET lo == IF a[1] <= b[1] THEN a ELSE b
       hi == IF a[1] <= b[1] THEN b ELSE a
   IN /\ lo[1] <= p[1] /\ p[1] < hi[1] /\ Cross(lo, hi, p) < 0
EdgeB(r,i) == r[(i % Len(r)) + 1]
OnBoundary(r, p) == \E i \in 1..Len(r) : OnSeg(r[i], EdgeB(r,i), p)
Parity(r, p) == Cardinality({i \in 1..Len(r) : Crosses(r[i], EdgeB(r,i), p)}) % 2 = 1
Shoelace2(r) == LET n == Len(r) IN
   LET RECURSIVE S(_)
       S(i) == IF i > n THEN 0 ELSE r[i][1]*EdgeB(r,i)[2] - EdgeB(r,i)[1]*r[i][2] + S(i+1)
   IN S(1)
Sign(x) == IF x > 0 THEN 1 ELSE IF x < 0 THEN -1 ELSE 0

Queries(bx) == {<<x,y>> : x \in {bx[1] + 15*k : k \in 1..((bx[3]-bx[1]) \div 15 - 1)},
                          y \in {bx[2] + 15*k : k \in 1..((bx[4]-bx[2]) \div 15 - 1)}}
InBoxC(bx, p) == bx[1] <= p[1] /\ p[1] <= bx[3] /\ bx[2] <= p[2] /\ p[2] <= bx[4]

AllRings(mp) == {<<i,j>> : i \in 1..Len(mp), j \in 1..4} \* placeholder upper bound, filtered below
Rings(mp) == {<<i,j>> \in AllRings(mp) : j <= Len(mp[i])}
InPoly(poly, q) == Parity(poly[1], q) /\ \A j \in 2..Len(poly) : ~Parity(poly[j], q)
InMP(mp, q) == \E i \in 1..Len(mp) : InPoly(mp[i], q)
OnAny(mp, q) == \E ij \in Rings(mp) : OnBoundary(mp[ij[1]][ij[2]], q)

InOpen(bx, p2) == 2*bx[1] < p2[1] /\ p2[1] < 2*bx[3] /\ 2*bx[2] < p2[2] /\ p2[2] < 2*bx[4]
XCross(a, b, c) == IF a[1] # b[1] /\ Min2(a[1],b[1]) <= c /\ c <= Max2(a[1],b[1])
                   THEN {<<c, a[2] + ((b[2]-a[2])*(c-a[1])) \div (b[1]-a[1])>>} ELSE {}
YCross(a, b, c) == IF a[2] # b[2] /\ Min2(a[2],b[2]) <= c /\ c <= Max2(a[2],b[2])
                   THEN {<<a[1] + ((b[1]-a[1])*(c-a[2])) \div (b[2]-a[2]), c>>} ELSE {}
Cands(bx, a, b) == {a, b} \cup XCross(a,b,bx[1]) \cup XCross(a,b,bx[3]) \cup YCross(a,b,bx[2]) \cup YCross(a,b,bx[4])
\* some point of segment a-b strictly inside the box: midpoint of two closed-box candidates strictly inside
MeetsOpen(bx, a, b) == LET C == {p \in Cands(bx,a,b) : InBoxC(bx, p)} IN
    \E p \in C, q \in C : InOpen(bx, <<p[1]+q[1], p[2]+q[2]>>)
InDomain(e) == \E i \in 1..Len(e.ring) : MeetsOpen(e.box, e.ring[i], EdgeB(e.ring, i))
CheckD(e) ==
  /\ \A ij \in Rings(e.out) : LET r == e.out[ij[1]][ij[2]] IN
        /\ \A k \in 1..Len(r) : InBoxC(e.box, r[k])
        /\ r[1] = r[Len(r)]
        /\ (ij[2] = 1 => Sign(Shoelace2(r)) \in {e.o, 0})
  /\ \A q \in Queries(e.box) :
        (OnBoundary(e.ring, q) \/ OnAny(e.out, q)) \/ (Parity(e.ring, q) = InMP(e.out, q))

Check(e) == ~InDomain(e) \/ CheckD(e)
Trace == ndJsonDeserialize(IOEnv.TRACE)
VARIABLES l, bad
Init == l = 1 /\ bad = {}
Next == /\ l <= Len(Trace) /\ l' = l + 1
        /\ bad' = IF Check(Trace[l]) THEN bad ELSE bad \cup {l}
        /\ (l = Len(Trace) => PrintT(<<"DONE", l, "BAD", bad'>>))
Spec == Init /\ [][Next]_<<l,bad>>
====
