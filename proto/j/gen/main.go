package main

import (
	"bufio"
	"encoding/json"
	"math"
	"math/rand"
	"os"
	"sort"

	"github.com/paulmach/orb"
	"github.com/paulmach/orb/clip/smartclip"
)

const S = 60

type ev struct {
	Box  [4]int       `json:"box"`
	Ring [][2]int     `json:"ring"`
	O    int          `json:"o"`
	Out  [][][][2]int `json:"out"`
}

func q(v float64) int { return int(math.Round(v * S)) }

// exact angle comparison about centre (cx,cy) given in half units: points doubled
func half(p [2]int, c [2]int) int {
	dx, dy := 2*p[0]-c[0], 2*p[1]-c[1]
	if dy > 0 || (dy == 0 && dx > 0) {
		return 0
	}
	return 1
}

func main() {
	w := bufio.NewWriter(os.Stdout)
	defer w.Flush()
	enc := json.NewEncoder(w)
	r := rand.New(rand.NewSource(11))
	c := [2]int{7, 7} // centre (3.5,3.5) in half units: never collinear with two lattice points through... (still dedupe equal angles)
	n := 0
	for n < 20000 {
		k := 3 + r.Intn(7)
		pts := [][2]int{}
		for i := 0; i < k; i++ {
			pts = append(pts, [2]int{r.Intn(8), r.Intn(8)})
		}
		sort.Slice(pts, func(i, j int) bool {
			hi, hj := half(pts[i], c), half(pts[j], c)
			if hi != hj {
				return hi < hj
			}
			ax, ay := 2*pts[i][0]-c[0], 2*pts[i][1]-c[1]
			bx, by := 2*pts[j][0]-c[0], 2*pts[j][1]-c[1]
			return ax*by-ay*bx > 0
		})
		// drop points with equal angle (keep first) to stay strictly star-shaped
		uniq := [][2]int{pts[0]}
		for i := 1; i < len(pts); i++ {
			a, b := uniq[len(uniq)-1], pts[i]
			ax, ay := 2*a[0]-c[0], 2*a[1]-c[1]
			bx, by := 2*b[0]-c[0], 2*b[1]-c[1]
			if ax*by-ay*bx == 0 && half(a, c) == half(b, c) {
				continue
			}
			uniq = append(uniq, b)
		}
		if len(uniq) < 3 {
			continue
		}
		// require every consecutive angular gap < 180 so the centre is strictly inside
		ok := true
		for i := range uniq {
			a, b := uniq[i], uniq[(i+1)%len(uniq)]
			ax, ay := 2*a[0]-c[0], 2*a[1]-c[1]
			bx, by := 2*b[0]-c[0], 2*b[1]-c[1]
			if ax*by-ay*bx <= 0 {
				ok = false
			}
		}
		if !ok {
			continue
		}
		ring := orb.Ring{}
		e := ev{Ring: [][2]int{}, Out: [][][][2]int{}}
		for _, p := range uniq {
			ring = append(ring, orb.Point{float64(p[0]), float64(p[1])})
			e.Ring = append(e.Ring, [2]int{p[0] * S, p[1] * S})
		}
		ring = append(ring, ring[0])
		o := orb.CCW
		e.O = 1
		if r.Intn(2) == 0 {
			ring.Reverse()
			o = orb.CW
			e.O = -1
		}
		x0, y0 := 1+r.Intn(5), 1+r.Intn(5)
		x1, y1 := x0+1+r.Intn(6-x0), y0+1+r.Intn(6-y0)
		b := orb.Bound{Min: orb.Point{float64(x0), float64(y0)}, Max: orb.Point{float64(x1), float64(y1)}}
		e.Box = [4]int{x0 * S, y0 * S, x1 * S, y1 * S}
		mp := smartclip.Ring(b, ring, o)
		for _, poly := range mp {
			pp := [][][2]int{}
			for _, rr := range poly {
				r2 := [][2]int{}
				for _, p := range rr {
					r2 = append(r2, [2]int{q(p[0]), q(p[1])})
				}
				pp = append(pp, r2)
			}
			e.Out = append(e.Out, pp)
		}
		enc.Encode(e)
		n++
	}
}
