---- MODULE Wkt ----
EXTENDS Integers, Sequences, FiniteSets, TLC, Json, IOUtils
\* tokens are strings: keywords, "(", ")", ",", " ", "EMPTY", and "#<id>" for a number with bit-interned id
Num(id) == "#" \o ToString(id)
RECURSIVE Cat(_)
Cat(ss) == IF ss = <<>> THEN <<>> ELSE Head(ss) \o Cat(Tail(ss))
RECURSIVE Join(_,_)
Join(ss, sep) == IF ss = <<>> THEN <<>> ELSE IF Len(ss) = 1 THEN ss[1] ELSE ss[1] \o sep \o Join(Tail(ss), sep)
Coord(p) == <<Num(p[1]), " ", Num(p[2])>>
PtList(ps) == <<"(">> \o Join([i \in 1..Len(ps) |-> Coord(ps[i])], <<",">>) \o <<")">>
RECURSIVE WPrint(_)
WPrint(g) ==
  CASE g.k = "Point"      -> <<"POINT", "(">> \o Coord(g.c) \o <<")">>
    [] g.k = "MultiPoint" -> IF g.c = <<>> THEN <<"MULTIPOINT", " ", "EMPTY">>
                             ELSE <<"MULTIPOINT", "(">> \o Join([i \in 1..Len(g.c) |-> <<"(">> \o Coord(g.c[i]) \o <<")">>], <<",">>) \o <<")">>
    [] g.k = "LineString" -> IF g.c = <<>> THEN <<"LINESTRING", " ", "EMPTY">> ELSE <<"LINESTRING">> \o PtList(g.c)
    [] g.k = "MultiLineString" -> IF g.c = <<>> THEN <<"MULTILINESTRING", " ", "EMPTY">>
                             ELSE <<"MULTILINESTRING", "(">> \o Join([i \in 1..Len(g.c) |-> PtList(g.c[i])], <<",">>) \o <<")">>
    [] g.k = "Ring"       -> WPrint([k |-> "Polygon", c |-> <<g.c>>])
    [] g.k = "Polygon"    -> IF g.c = <<>> THEN <<"POLYGON", " ", "EMPTY">>
                             ELSE <<"POLYGON", "(">> \o Join([i \in 1..Len(g.c) |-> PtList(g.c[i])], <<",">>) \o <<")">>
    [] g.k = "MultiPolygon" -> IF g.c = <<>> THEN <<"MULTIPOLYGON", " ", "EMPTY">>
                             ELSE <<"MULTIPOLYGON", "(">> \o
                                  Join([i \in 1..Len(g.c) |-> <<"(">> \o Join([j \in 1..Len(g.c[i]) |-> PtList(g.c[i][j])], <<",">>) \o <<")">>], <<",">>) \o <<")">>
    [] g.k = "Collection" -> IF g.c = <<>> THEN <<"GEOMETRYCOLLECTION", " ", "EMPTY">>
                             ELSE <<"GEOMETRYCOLLECTION", "(">> \o Join([i \in 1..Len(g.c) |-> WPrint(g.c[i])], <<",">>) \o <<")">>
RECURSIVE Canon(_)
Canon(g) == IF g.k = "Ring" THEN [k |-> "Polygon", c |-> <<g.c>>]
            ELSE IF g.k = "Collection" THEN [k |-> "Collection", c |-> [i \in 1..Len(g.c) |-> Canon(g.c[i])]] ELSE g
Check(e) == e.tokens = WPrint(e.g) /\ e.err = 0 /\ e.out = Canon(e.g)
Trace == ndJsonDeserialize(IOEnv.TRACE)
VARIABLES l, bad
Init == l = 1 /\ bad = {}
Next == /\ l <= Len(Trace) /\ l' = l + 1 /\ bad' = IF Check(Trace[l]) THEN bad ELSE bad \cup {l}
        /\ (l = Len(Trace) => PrintT(ToJson([done |-> l, bad |-> bad'])))
Spec == Init /\ [][Next]_<<l,bad>>
====
