package main

import (
	"bufio"
	"encoding/json"
	"fmt"
	"math"
	"math/rand"
	"os"
	"regexp"
	"strconv"

	"github.com/paulmach/orb"
	"github.com/paulmach/orb/encoding/wkt"
)

type G struct {
	K string      `json:"k"`
	C interface{} `json:"c"`
}
type ev struct {
	G      G        `json:"g"`
	Tokens []string `json:"tokens"`
	Err    int      `json:"err"`
	Out    G        `json:"out"`
	Class  string   `json:"class"`
}

var ids = map[uint64]int{}

func id(f float64) int {
	b := math.Float64bits(f)
	if v, ok := ids[b]; ok {
		return v
	}
	ids[b] = len(ids) + 1
	return ids[b]
}
func ip(p orb.Point) [2]int { return [2]int{id(p[0]), id(p[1])} }
func ips(ps []orb.Point) [][2]int {
	o := [][2]int{}
	for _, p := range ps {
		o = append(o, ip(p))
	}
	return o
}
func rings(p []orb.Ring) [][][2]int {
	o := [][][2]int{}
	for _, l := range p {
		o = append(o, ips(l))
	}
	return o
}
func model(g orb.Geometry) G {
	switch g := g.(type) {
	case orb.Point:
		return G{"Point", ip(g)}
	case orb.MultiPoint:
		return G{"MultiPoint", ips(g)}
	case orb.LineString:
		return G{"LineString", ips(g)}
	case orb.Ring:
		return G{"Ring", ips(g)}
	case orb.MultiLineString:
		o := [][][2]int{}
		for _, l := range g {
			o = append(o, ips(l))
		}
		return G{"MultiLineString", o}
	case orb.Polygon:
		return G{"Polygon", rings(g)}
	case orb.MultiPolygon:
		o := [][][][2]int{}
		for _, p := range g {
			o = append(o, rings(p))
		}
		return G{"MultiPolygon", o}
	case orb.Collection:
		o := []G{}
		for _, m := range g {
			o = append(o, model(m))
		}
		return G{"Collection", o}
	case nil:
		return G{"Nil", []int{}}
	}
	panic(fmt.Sprintf("kind %T", g))
}

var r = rand.New(rand.NewSource(33))
var expo, nested, emptyMember bool

func coord() float64 {
	switch r.Intn(6) {
	case 0:
		expo = true
		return r.NormFloat64() * 1e-7
	case 1:
		expo = true
		return r.NormFloat64() * 1e25
	case 2:
		return math.Float64frombits(r.Uint64()&^(0x7ff<<52) | uint64(1000+r.Intn(50))<<52) // full mantissa
	case 3:
		return float64(r.Intn(100))
	}
	return r.NormFloat64() * 100
}
func pt() orb.Point { return orb.Point{coord(), coord()} }
func line(n int) orb.LineString {
	l := orb.LineString{}
	for i := 0; i < n; i++ {
		l = append(l, pt())
	}
	return l
}
func poly() orb.Polygon {
	p := orb.Polygon{}
	for i := 1 + r.Intn(2); i > 0; i-- {
		p = append(p, orb.Ring(line(1+r.Intn(4))))
	}
	return p
}
func geom(depth int, member bool) orb.Geometry {
	n := 8
	if depth <= 0 {
		n = 7
	}
	k := r.Intn(n)
	empty := r.Intn(6) == 0
	if empty && member && k != 0 {
		emptyMember = true
	}
	switch k {
	case 0:
		return pt()
	case 1:
		if empty { return orb.MultiPoint{} }
		return orb.MultiPoint(line(1 + r.Intn(3)))
	case 2:
		if empty { return orb.LineString{} }
		return line(1 + r.Intn(4))
	case 3:
		if empty { return orb.MultiLineString{} }
		m := orb.MultiLineString{}
		for i := 1 + r.Intn(2); i > 0; i-- {
			m = append(m, line(1+r.Intn(3)))
		}
		return m
	case 4:
		return orb.Ring(line(1 + r.Intn(4)))
	case 5:
		if empty { return orb.Polygon{} }
		return poly()
	case 6:
		if empty { return orb.MultiPolygon{} }
		m := orb.MultiPolygon{}
		for i := 1 + r.Intn(2); i > 0; i-- {
			m = append(m, poly())
		}
		return m
	}
	if member {
		nested = true
	}
	if empty { return orb.Collection{} }
	c := orb.Collection{}
	for i := 1 + r.Intn(3); i > 0; i-- {
		c = append(c, geom(depth-1, true))
	}
	return c
}

var tokRe = regexp.MustCompile(`[A-Za-z]+|[()]|,|[ \t\n]+|[^A-DF-Za-df-z(), \t\n]+`)

func tokens(s string) []string {
	out := []string{}
	for _, t := range tokRe.FindAllString(s, -1) {
		switch {
		case t == "(" || t == ")" || t == ",":
			out = append(out, t)
		case t[0] == ' ' || t[0] == '\t' || t[0] == '\n':
			out = append(out, " ")
		default:
			if f, err := strconv.ParseFloat(t, 64); err == nil {
				out = append(out, "#"+strconv.Itoa(id(f)))
			} else {
				out = append(out, t)
			}
		}
	}
	return out
}

func main() {
	w := bufio.NewWriter(os.Stdout)
	defer w.Flush()
	enc := json.NewEncoder(w)
	for n := 0; n < 20000; n++ {
		expo, nested, emptyMember = false, false, false
		g := geom(2, false)
		_, isColl := g.(orb.Collection)
		s := wkt.MarshalString(g)
		e := ev{G: model(g), Tokens: tokens(s)}
		out, err := wkt.Unmarshal(s)
		if err != nil {
			e.Err = 1
			e.Out = G{"Nil", []int{}}
		} else {
			e.Out = model(out)
		}
		e.Class = fmt.Sprintf("coll=%v expo=%v nested=%v emptyMember=%v", isColl, expo && isColl, nested, emptyMember)
		enc.Encode(e)
	}
}
