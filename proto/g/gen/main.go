package main

import (
	"bufio"
	"encoding/json"
	"math"
	"math/rand"
	"os"

	"github.com/paulmach/orb"
	"github.com/paulmach/orb/clip"
)

const S = 60

type ev struct {
	Box  [4]int   `json:"box"`
	Ring [][2]int `json:"ring"`
	Out  [][2]int `json:"out"`
}

func q(v float64) int { return int(math.Round(v * S)) }

func main() {
	w := bufio.NewWriter(os.Stdout)
	defer w.Flush()
	enc := json.NewEncoder(w)
	r := rand.New(rand.NewSource(7))
	for it := 0; it < 20000; it++ {
		k := 3 + r.Intn(7)
		ring := orb.Ring{}
		e := ev{Ring: [][2]int{}, Out: [][2]int{}}
		for i := 0; i < k; i++ {
			x, y := r.Intn(7), r.Intn(7)
			ring = append(ring, orb.Point{float64(x), float64(y)})
			e.Ring = append(e.Ring, [2]int{x * S, y * S})
		}
		ring = append(ring, ring[0])
		x0, y0 := 1+r.Intn(4), 1+r.Intn(4)
		x1, y1 := x0+1+r.Intn(5-x0), y0+1+r.Intn(5-y0)
		b := orb.Bound{Min: orb.Point{float64(x0), float64(y0)}, Max: orb.Point{float64(x1), float64(y1)}}
		e.Box = [4]int{x0 * S, y0 * S, x1 * S, y1 * S}
		out := clip.Ring(b, ring)
		for _, p := range out {
			e.Out = append(e.Out, [2]int{q(p[0]), q(p[1])})
		}
		enc.Encode(e)
	}
}
