---- MODULE ClipRing ----
EXTENDS Integers, Sequences, FiniteSets, TLC, Json, IOUtils

Cross(a, b, p) == (b[1]-a[1])*(p[2]-a[2]) - (b[2]-a[2])*(p[1]-a[1])
Min2(a,b) == IF a < b THEN a ELSE b
Max2(a,b) == IF a > b THEN a ELSE b
OnSeg(a, b, p) == /\ Cross(a,b,p) = 0
                  /\ Min2(a[1],b[1]) <= p[1] /\ p[1] <= Max2(a[1],b[1])
                  /\ Min2(a[2],b[2]) <= p[2] /\ p[2] <= Max2(a[2],b[2])
Crosses(a, b, p) ==
   LET lo == IF a[1] <= b[1] THEN a ELSE b
       hi == IF a[1] <= b[1] THEN b ELSE a
   IN /\ lo[1] <= p[1] /\ p[1] < hi[1]
      /\ Cross(lo, hi, p) < 0
EdgeIdx(r) == 1..Len(r)
EdgeA(r,i) == r[i]
EdgeB(r,i) == r[(i % Len(r)) + 1]
OnBoundary(r, p) == \E i \in EdgeIdx(r) : OnSeg(EdgeA(r,i), EdgeB(r,i), p)
Parity(r, p) == Cardinality({i \in EdgeIdx(r) : Crosses(EdgeA(r,i), EdgeB(r,i), p)}) % 2 = 1

\* query lattice: step 15 (quarter unit at S=60), strictly inside box
Queries(bx) == {<<x,y>> : x \in {bx[1] + 15*k : k \in 1..((bx[3]-bx[1]) \div 15 - 1)},
                          y \in {bx[2] + 15*k : k \in 1..((bx[4]-bx[2]) \div 15 - 1)}}
InBoxC(bx, p) == bx[1] <= p[1] /\ p[1] <= bx[3] /\ bx[2] <= p[2] /\ p[2] <= bx[4]

Check(e) ==
  /\ \A i \in 1..Len(e.out) : InBoxC(e.box, e.out[i])
  /\ (Len(e.out) > 0 => e.out[1] = e.out[Len(e.out)])
  /\ \A q \in Queries(e.box) :
        (OnBoundary(e.ring, q) \/ (Len(e.out) > 0 /\ OnBoundary(e.out, q)))
        \/ (Parity(e.ring, q) = (Len(e.out) > 0 /\ Parity(e.out, q)))

Trace == ndJsonDeserialize(IOEnv.TRACE)
VARIABLES l, bad
Init == l = 1 /\ bad = {}
Next == /\ l <= Len(Trace) /\ l' = l + 1
        /\ bad' = IF Check(Trace[l]) THEN bad ELSE bad \cup {l}
        /\ (l = Len(Trace) => PrintT(<<"BAD", bad'>>))
Spec == Init /\ [][Next]_<<l,bad>>
Done == l = Len(Trace) + 1 => bad = {}
====
