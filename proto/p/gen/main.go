package main

import (
	"bufio"
	"encoding/json"
	"math"
	"math/rand"
	"os"

	"github.com/paulmach/orb"
	"github.com/paulmach/orb/planar"
	"github.com/paulmach/orb/simplify"
)

type ev struct {
	Alg    string   `json:"alg"`
	In     [][2]int `json:"in"`
	N      int      `json:"n"`
	D      int      `json:"d"`
	Keep   int      `json:"keep"`
	Exact  int      `json:"exact"`
	Out    [][2]int `json:"out"`
	Again  [][2]int `json:"again"`
	Bigger [][2]int `json:"bigger"`
}

func ips(ps orb.LineString) [][2]int {
	o := [][2]int{}
	for _, p := range ps {
		o = append(o, [2]int{int(p[0]), int(p[1])})
	}
	return o
}

// thresholds t = a/4 (dyadic): t^2 = a^2/16 ; area thresholds likewise
var ths = []int{0, 1, 2, 3, 5, 7, 10, 40}

func main() {
	w := bufio.NewWriter(os.Stdout)
	defer w.Flush()
	enc := json.NewEncoder(w)
	r := rand.New(rand.NewSource(4))
	for n := 0; n < 30000; n++ {
		k := r.Intn(9)
		ls := orb.LineString{}
		for i := 0; i < k; i++ {
			if i > 0 && r.Intn(6) == 0 {
				ls = append(ls, ls[i-1]) // repeated vertex
				continue
			}
			ls = append(ls, orb.Point{float64(r.Intn(9)), float64(r.Intn(9))})
		}
		if k > 2 && r.Intn(5) == 0 {
			ls[k-1] = ls[0] // coincident endpoints
		}
		a := ths[r.Intn(len(ths))]
		b := a + 1 + r.Intn(8)
		t, t2 := float64(a)/4, float64(b)/4
		e := ev{In: ips(ls), N: a * a, D: 16}
		switch r.Intn(3) {
		case 0:
			e.Alg = "dp"
			out := simplify.DouglasPeucker(t).LineString(ls.Clone())
			e.Out = ips(out)
			e.Again = ips(simplify.DouglasPeucker(t).LineString(out.Clone()))
			e.Bigger = ips(simplify.DouglasPeucker(t2).LineString(ls.Clone()))
		case 1:
			e.Alg = "radial"
			e.Out = ips(simplify.Radial(planar.Distance, t).LineString(ls.Clone()))
			e.Again, e.Bigger = [][2]int{}, [][2]int{}
		case 2:
			e.Alg = "vis"
			keep := 0
			e.Keep = 2
			if r.Intn(2) == 0 {
				keep = 2 + r.Intn(4)
				e.Keep = keep
			}
			if r.Intn(3) == 0 {
				e.Exact = 1
				e.Out = ips(simplify.VisvalingamKeep(keep).LineString(ls.Clone()))
				e.Bigger = e.Out
			} else {
				e.Out = ips(simplify.Visvalingam(t, keep).LineString(ls.Clone()))
				e.Bigger = ips(simplify.Visvalingam(t2, keep).LineString(ls.Clone()))
			}
			e.Again = [][2]int{}
		}
		_ = math.Pi
		enc.Encode(e)
	}
}
