---- MODULE Simp ----
EXTENDS Integers, Sequences, FiniteSets, TLC, Json, IOUtils
D2(a, b) == (a[1]-b[1])*(a[1]-b[1]) + (a[2]-b[2])*(a[2]-b[2])
Cross(a, b, p) == (b[1]-a[1])*(p[2]-a[2]) - (b[2]-a[2])*(p[1]-a[1])
Dot(a, b, p) == (b[1]-a[1])*(p[1]-a[1]) + (b[2]-a[2])*(p[2]-a[2])
\* squared distance from p to segment a-b is <= n/d  (exact)
Within(a, b, p, n, d) ==
  IF a = b THEN D2(p, a) * d <= n
  ELSE LET dt == Dot(a, b, p)  l2 == D2(a, b) IN
       IF dt <= 0 THEN D2(p, a) * d <= n
       ELSE IF dt >= l2 THEN D2(p, b) * d <= n
       ELSE Cross(a, b, p) * Cross(a, b, p) * d <= n * l2
RECURSIVE IsSubseq(_,_)
IsSubseq(s, t) == IF s = <<>> THEN TRUE ELSE IF t = <<>> THEN FALSE
   ELSE IF Head(s) = Head(t) THEN IsSubseq(Tail(s), Tail(t)) ELSE IsSubseq(s, Tail(t))
Ends(in, out) == Len(in) = 0 \/ (Len(out) >= 1 /\ out[1] = in[1] /\ out[Len(out)] = in[Len(in)])
Base(e) == IsSubseq(e.out, e.in) /\ Ends(e.in, e.out) /\ (Len(e.in) >= 2 => Len(e.out) >= 2)
DPOK(e) == /\ Base(e)
           /\ \A i \in 1..Len(e.in) : \E j \in 1..(Len(e.out)-1) : Within(e.out[j], e.out[j+1], e.in[i], e.n, e.d)
           /\ e.again = e.out                       \* idempotent
           /\ IsSubseq(e.bigger, e.out)             \* larger threshold keeps a subset (as subsequence)
RadialOK(e) == /\ Base(e)
   /\ \A j \in 1..(Len(e.out)-2) : D2(e.out[j], e.out[j+1]) * e.d > e.n
VisOK(e) == /\ Base(e)
   /\ Len(e.out) >= (IF Len(e.in) < e.keep THEN Len(e.in) ELSE e.keep)
   /\ (e.exact = 1 /\ Len(e.in) > e.keep => Len(e.out) = e.keep)
   /\ IsSubseq(e.bigger, e.out)
Check(e) == CASE e.alg = "dp" -> (Len(e.in) < 2 \/ DPOK(e)) [] e.alg = "radial" -> RadialOK(e) [] e.alg = "vis" -> VisOK(e)
Trace == ndJsonDeserialize(IOEnv.TRACE)
VARIABLES l, bad
Init == l = 1 /\ bad = {}
Next == /\ l <= Len(Trace) /\ l' = l + 1 /\ bad' = IF Check(Trace[l]) THEN bad ELSE bad \cup {l}
        /\ (l = Len(Trace) => PrintT(ToJson([done |-> l, bad |-> bad'])))
Spec == Init /\ [][Next]_<<l,bad>>
====
