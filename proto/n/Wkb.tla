---- MODULE Wkb ----
EXTENDS Integers, Sequences, FiniteSets, TLC, Json, IOUtils

\* a coordinate is the 8-byte big-endian image of its float64; the spec never interprets it
Rev(s) == [i \in 1..Len(s) |-> s[Len(s) + 1 - i]]
U32BE(n) == <<(n \div 16777216) % 256, (n \div 65536) % 256, (n \div 256) % 256, n % 256>>
U32(n, le) == IF le THEN Rev(U32BE(n)) ELSE U32BE(n)
F64(c, le) == IF le THEN Rev(c) ELSE c
Pt(p, le) == F64(p[1], le) \o F64(p[2], le)
RECURSIVE Cat(_)
Cat(ss) == IF ss = <<>> THEN <<>> ELSE Head(ss) \o Cat(Tail(ss))
PtsB(ps, le) == Cat([i \in 1..Len(ps) |-> Pt(ps[i], le)])

TypeCode(k) == CASE k = "Point" -> 1 [] k = "LineString" -> 2 [] k = "Polygon" -> 3 [] k = "MultiPoint" -> 4
                 [] k = "MultiLineString" -> 5 [] k = "MultiPolygon" -> 6 [] k = "Collection" -> 7
\* header: order byte, type word (with the EWKB flag 0x20000000 = 536870912 only when srid # 0), optional srid
Hdr(k, le, srid) == <<IF le THEN 1 ELSE 0>> \o
   (IF srid = 0 THEN U32(TypeCode(k), le) ELSE U32(TypeCode(k) + 536870912, le) \o U32(srid, le))
Canon(g) == IF g.k = "Ring" THEN [k |-> "Polygon", c |-> <<g.c>>] ELSE g    \* (Bound is sent as its polygon by the harness model)
RECURSIVE Enc(_,_,_)
Enc(g0, le, srid) ==
  LET g == Canon(g0) IN
  CASE g.k = "Point"      -> Hdr(g.k, le, srid) \o Pt(g.c, le)
    [] g.k = "LineString" -> Hdr(g.k, le, srid) \o U32(Len(g.c), le) \o PtsB(g.c, le)
    [] g.k = "Polygon"    -> Hdr(g.k, le, srid) \o U32(Len(g.c), le) \o
                                Cat([i \in 1..Len(g.c) |-> U32(Len(g.c[i]), le) \o PtsB(g.c[i], le)])
    [] g.k = "MultiPoint" -> Hdr(g.k, le, srid) \o U32(Len(g.c), le) \o
                                Cat([i \in 1..Len(g.c) |-> Enc([k |-> "Point", c |-> g.c[i]], le, 0)])
    [] g.k = "MultiLineString" -> Hdr(g.k, le, srid) \o U32(Len(g.c), le) \o
                                Cat([i \in 1..Len(g.c) |-> Enc([k |-> "LineString", c |-> g.c[i]], le, 0)])
    [] g.k = "MultiPolygon" -> Hdr(g.k, le, srid) \o U32(Len(g.c), le) \o
                                Cat([i \in 1..Len(g.c) |-> Enc([k |-> "Polygon", c |-> g.c[i]], le, 0)])
    [] g.k = "Collection" -> Hdr(g.k, le, srid) \o U32(Len(g.c), le) \o
                                Cat([i \in 1..Len(g.c) |-> Enc(g.c[i], le, 0)])
RECURSIVE CanonDeep(_)
CanonDeep(g0) == LET g == Canon(g0) IN
   IF g.k = "Collection" THEN [k |-> "Collection", c |-> [i \in 1..Len(g.c) |-> CanonDeep(g.c[i])]] ELSE g

Check(e) == /\ e.bytes = Enc(e.g, e.le = 1, e.srid)
            /\ e.dec_bytes = CanonDeep(e.g) /\ e.dec_stream = CanonDeep(e.g)
            /\ e.srid_bytes = e.srid /\ e.srid_stream = e.srid
Trace == ndJsonDeserialize(IOEnv.TRACE)
VARIABLES l, bad
Init == l = 1 /\ bad = {}
Next == /\ l <= Len(Trace) /\ l' = l + 1 /\ bad' = IF Check(Trace[l]) THEN bad ELSE bad \cup {l}
        /\ (l = Len(Trace) => PrintT(ToJson([done |-> l, bad |-> bad'])))
Spec == Init /\ [][Next]_<<l,bad>>
====
