package main

import (
	"bufio"
	"bytes"
	"encoding/binary"
	"encoding/json"
	"math"
	"math/rand"
	"os"

	"github.com/paulmach/orb"
	"github.com/paulmach/orb/encoding/ewkb"
)

type G struct {
	K string      `json:"k"`
	C interface{} `json:"c"`
}
type ev struct {
	G          G     `json:"g"`
	LE         int   `json:"le"`
	SRID       int   `json:"srid"`
	Bytes      []int `json:"bytes"`
	DecBytes   G     `json:"dec_bytes"`
	DecStream  G     `json:"dec_stream"`
	SridBytes  int   `json:"srid_bytes"`
	SridStream int   `json:"srid_stream"`
}

func fb(f float64) [8]int {
	var b [8]byte
	binary.BigEndian.PutUint64(b[:], math.Float64bits(f))
	var o [8]int
	for i, v := range b {
		o[i] = int(v)
	}
	return o
}
func ip(p orb.Point) [2][8]int { return [2][8]int{fb(p[0]), fb(p[1])} }
func ips(ps []orb.Point) [][2][8]int {
	o := [][2][8]int{}
	for _, p := range ps {
		o = append(o, ip(p))
	}
	return o
}
func rings(p []orb.Ring) [][][2][8]int {
	o := [][][2][8]int{}
	for _, l := range p {
		o = append(o, ips(l))
	}
	return o
}
func model(g orb.Geometry) G {
	switch g := g.(type) {
	case orb.Point:
		return G{"Point", ip(g)}
	case orb.MultiPoint:
		return G{"MultiPoint", ips(g)}
	case orb.LineString:
		return G{"LineString", ips(g)}
	case orb.Ring:
		return G{"Ring", ips(g)}
	case orb.MultiLineString:
		o := [][][2][8]int{}
		for _, l := range g {
			o = append(o, ips(l))
		}
		return G{"MultiLineString", o}
	case orb.Polygon:
		return G{"Polygon", rings(g)}
	case orb.Bound:
		return G{"Polygon", rings(g.ToPolygon())}
	case orb.MultiPolygon:
		o := [][][][2][8]int{}
		for _, p := range g {
			o = append(o, rings(p))
		}
		return G{"MultiPolygon", o}
	case orb.Collection:
		o := []G{}
		for _, m := range g {
			o = append(o, model(m))
		}
		return G{"Collection", o}
	}
	panic("kind")
}

var r = rand.New(rand.NewSource(21))

func coord() float64 {
	switch r.Intn(8) {
	case 0:
		return math.Float64frombits(r.Uint64()) // any bit pattern incl NaN payloads
	case 1:
		return math.Inf(1 - 2*r.Intn(2))
	case 2:
		return math.Copysign(0, -1)
	case 3:
		return math.Float64frombits(uint64(r.Intn(1000))) // subnormal
	case 4:
		return math.Float64frombits(0x0100000020000000) // looks like a header
	}
	return r.NormFloat64() * 100
}
func pt() orb.Point { return orb.Point{coord(), coord()} }
func line(n int) orb.LineString {
	l := orb.LineString{}
	for i := 0; i < n; i++ {
		l = append(l, pt())
	}
	return l
}
func poly() orb.Polygon {
	p := orb.Polygon{}
	for i := r.Intn(3); i > 0; i-- {
		p = append(p, orb.Ring(line(r.Intn(5))))
	}
	return p
}
func geom(depth int) orb.Geometry {
	n := 9
	if depth <= 0 {
		n = 8
	}
	switch r.Intn(n) {
	case 0:
		return pt()
	case 1:
		return orb.MultiPoint(line(r.Intn(4)))
	case 2:
		return line(r.Intn(5))
	case 3:
		m := orb.MultiLineString{}
		for i := r.Intn(3); i > 0; i-- {
			m = append(m, line(r.Intn(4)))
		}
		return m
	case 4:
		return orb.Ring(line(r.Intn(5)))
	case 5:
		return poly()
	case 6:
		m := orb.MultiPolygon{}
		for i := r.Intn(3); i > 0; i-- {
			m = append(m, poly())
		}
		return m
	case 7:
		return orb.Bound{Min: pt(), Max: pt()}
	}
	c := orb.Collection{}
	for i := r.Intn(4); i > 0; i-- {
		c = append(c, geom(depth-1))
	}
	return c
}

func main() {
	w := bufio.NewWriter(os.Stdout)
	defer w.Flush()
	enc := json.NewEncoder(w)
	for n := 0; n < 5000; n++ {
		g := geom(2)
		e := ev{G: model(g), LE: r.Intn(2), Bytes: []int{}}
		switch r.Intn(4) {
		case 0:
			e.SRID = 0
		case 1:
			e.SRID = 4326
		case 2:
			e.SRID = 1<<31 - 1
		default:
			e.SRID = 1 + r.Intn(1<<30)
		}
		var bo binary.ByteOrder = binary.BigEndian
		if e.LE == 1 {
			bo = binary.LittleEndian
		}
		data, err := ewkb.Marshal(g, e.SRID, bo)
		if err != nil {
			panic(err)
		}
		for _, b := range data {
			e.Bytes = append(e.Bytes, int(b))
		}
		g1, s1, err := ewkb.Unmarshal(data)
		if err != nil {
			panic(err)
		}
		g2, s2, err := ewkb.NewDecoder(bytes.NewReader(data)).Decode()
		if err != nil {
			panic(err)
		}
		e.DecBytes, e.DecStream, e.SridBytes, e.SridStream = model(g1), model(g2), s1, s2
		enc.Encode(e)
	}
}
