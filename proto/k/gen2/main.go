package main

import (
	"bufio"
	"encoding/json"
	"fmt"
	"math"
	"math/rand"
	"os"
	"sort"

	"github.com/paulmach/orb"
	"github.com/paulmach/orb/maptile"
	"github.com/paulmach/orb/maptile/tilecover"
)

const U = 64
const W = 6

type ev struct {
	Z     int        `json:"z"`
	W     int        `json:"w"`
	Poly  [][][2]int `json:"poly"`
	Cover [][2]int   `json:"cover"`
	Err   int        `json:"err"`
}

func inv(tx, ty float64, z uint32) orb.Point {
	maxt := float64(uint64(1) << z)
	lon := 360.0 * (tx/maxt - 0.5)
	lat := 2.0*math.Atan(math.Exp(math.Pi-(2*math.Pi)*(ty/maxt)))*(180.0/math.Pi) - 90.0
	return orb.Point{lon, lat}
}

func half(dx, dy int) int {
	if dy > 0 || (dy == 0 && dx > 0) {
		return 0
	}
	return 1
}

// star-shaped simple polygon around centre c (lattice units, odd coordinates*... use doubled arithmetic)
func star(r *rand.Rand, cx, cy, rad, step, k int) [][2]int {
	pts := [][2]int{}
	for i := 0; i < k; i++ {
		pts = append(pts, [2]int{cx + step*(r.Intn(2*rad/step+1)-rad/step), cy + step*(r.Intn(2*rad/step+1)-rad/step)})
	}
	// centre offset by half a unit: use doubled coords 2p - (2c+1)
	c2x, c2y := 2*cx+1, 2*cy+1
	sort.Slice(pts, func(i, j int) bool {
		ax, ay := 2*pts[i][0]-c2x, 2*pts[i][1]-c2y
		bx, by := 2*pts[j][0]-c2x, 2*pts[j][1]-c2y
		if half(ax, ay) != half(bx, by) {
			return half(ax, ay) < half(bx, by)
		}
		return ax*by-ay*bx > 0
	})
	out := [][2]int{pts[0]}
	for i := 1; i < len(pts); i++ {
		a, b := out[len(out)-1], pts[i]
		ax, ay := 2*a[0]-c2x, 2*a[1]-c2y
		bx, by := 2*b[0]-c2x, 2*b[1]-c2y
		if ax*by-ay*bx == 0 && half(ax, ay) == half(bx, by) {
			continue
		}
		out = append(out, b)
	}
	if len(out) < 3 {
		return nil
	}
	for i := range out {
		a, b := out[i], out[(i+1)%len(out)]
		ax, ay := 2*a[0]-c2x, 2*a[1]-c2y
		bx, by := 2*b[0]-c2x, 2*b[1]-c2y
		if ax*by-ay*bx <= 0 {
			return nil
		}
	}
	return out
}

func main() {
	w := bufio.NewWriter(os.Stdout)
	defer w.Flush()
	enc := json.NewEncoder(w)
	r := rand.New(rand.NewSource(5))
	n := 0
	for n < 20000 {
		z := uint32(4 + r.Intn(17))
		maxt := 1 << z
		bx, by := r.Intn(maxt-W), 1+r.Intn(maxt-W-1)
		step := []int{1, 4, 16, 32, 64}[r.Intn(5)]
		rad := []int{20, 60, 120}[r.Intn(3)]
		pts := star(r, W*U/2, W*U/2, rad, step, 3+r.Intn(7))
		if pts == nil {
			continue
		}
		ring := orb.Ring{}
		e := ev{Z: int(z), W: W, Cover: [][2]int{}}
		ok := true
		for _, p := range append(pts, pts[0]) {
			tx, ty := float64(bx)+float64(p[0])/U, float64(by)+float64(p[1])/U
			ll := inv(tx, ty, z)
			f := maptile.Fraction(ll, maptile.Zoom(z))
			if math.Abs(f[0]-tx) > 1e-6 || math.Abs(f[1]-ty) > 1e-6 {
				ok = false
			}
			ring = append(ring, ll)
		}
		if !ok {
			continue
		}
		e.Poly = [][][2]int{pts}
		set, err := tilecover.Polygon(orb.Polygon{ring}, maptile.Zoom(z))
		if err != nil {
			e.Err = 1
		}
		for t := range set {
			e.Cover = append(e.Cover, [2]int{int(t.X) - bx, int(t.Y) - by})
		}
		enc.Encode(e)
		n++
	}
	fmt.Fprintln(os.Stderr, "done")
}
