---- MODULE Cover ----
EXTENDS Integers, Sequences, FiniteSets, TLC, Json, IOUtils
U == 64   \* lattice units per tile
Cross(a, b, p) == (b[1]-a[1])*(p[2]-a[2]) - (b[2]-a[2])*(p[1]-a[1])
Min2(a,b) == IF a < b THEN a ELSE b
Max2(a,b) == IF a > b THEN a ELSE b
\* exact: closed segment a-b meets closed rectangle <<x0,y0,x1,y1>>
SegMeetsRect(a, b, rc) ==
  /\ Max2(a[1],b[1]) >= rc[1] /\ Min2(a[1],b[1]) <= rc[3]
  /\ Max2(a[2],b[2]) >= rc[2] /\ Min2(a[2],b[2]) <= rc[4]
  /\ LET cs == {Cross(a,b,<<rc[1],rc[2]>>), Cross(a,b,<<rc[1],rc[4]>>), Cross(a,b,<<rc[3],rc[2]>>), Cross(a,b,<<rc[3],rc[4]>>)}
     IN ~(\A c \in cs : c > 0) /\ ~(\A c \in cs : c < 0)
TilesOfWindow(w) == {<<x,y>> : x \in 0..(w-1), y \in 0..(w-1)}
Must(ls, w) == {t \in TilesOfWindow(w) : \E i \in 1..(Len(ls)-1) :
                  SegMeetsRect(ls[i], ls[i+1], <<U*t[1]+1, U*t[2]+1, U*t[1]+U-1, U*t[2]+U-1>>)}
May(ls, w)  == {t \in TilesOfWindow(w) : \E i \in 1..(Len(ls)-1) :
                  SegMeetsRect(ls[i], ls[i+1], <<U*t[1]-1, U*t[2]-1, U*t[1]+U+1, U*t[2]+U+1>>)}
ToSet(s) == {s[i] : i \in 1..Len(s)}
Check(e) == LET c == ToSet(e.cover) IN Must(e.ls, e.w) \subseteq c /\ c \subseteq May(e.ls, e.w)
Trace == ndJsonDeserialize(IOEnv.TRACE)
VARIABLES l, bad
Init == l = 1 /\ bad = {}
Next == /\ l <= Len(Trace) /\ l' = l + 1 /\ bad' = IF Check(Trace[l]) THEN bad ELSE bad \cup {l}
        /\ (l = Len(Trace) => PrintT(ToJson([done |-> l, bad |-> bad'])))
Spec == Init /\ [][Next]_<<l,bad>>
====
