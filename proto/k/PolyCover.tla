---- MODULE PolyCover ----
EXTENDS Integers, Sequences, FiniteSets, TLC, Json, IOUtils
U == 64
Cross(a, b, p) == (b[1]-a[1])*(p[2]-a[2]) - (b[2]-a[2])*(p[1]-a[1])
Min2(a,b) == IF a < b THEN a ELSE b
Max2(a,b) == IF a > b THEN a ELSE b
SegMeetsRect(a, b, rc) ==
  /\ Max2(a[1],b[1]) >= rc[1] /\ Min2(a[1],b[1]) <= rc[3]
  /\ Max2(a[2],b[2]) >= rc[2] /\ Min2(a[2],b[2]) <= rc[4]
  /\ LET cs == {Cross(a,b,<<rc[1],rc[2]>>), Cross(a,b,<<rc[1],rc[4]>>), Cross(a,b,<<rc[3],rc[2]>>), Cross(a,b,<<rc[3],rc[4]>>)}
     IN ~(\A c \in cs : c > 0) /\ ~(\A c \in cs : c < 0)
OnSeg(a, b, p) == /\ Cross(a,b,p) = 0
                  /\ Min2(a[1],b[1]) <= p[1] /\ p[1] <= Max2(a[1],b[1])
                  /\ Min2(a[2],b[2]) <= p[2] /\ p[2] <= Max2(a[2],b[2])
Crosses(a, b, p) ==
   LET lo == IF a[1] <= b[1] THEN a ELSE b
       hi == IF a[1] <= b[1] THEN b ELSE a
   IN /\ lo[1] <= p[1] /\ p[1] < hi[1] /\ Cross(lo, hi, p) < 0
EdgeB(r,i) == r[(i % Len(r)) + 1]
InRing(r, p) == \/ \E i \in 1..Len(r) : OnSeg(r[i], EdgeB(r,i), p)
                \/ Cardinality({i \in 1..Len(r) : Crosses(r[i], EdgeB(r,i), p)}) % 2 = 1
InPoly(poly, p) == InRing(poly[1], p) /\ \A j \in 2..Len(poly) : ~InRing(poly[j], p) \/ (\E i \in 1..Len(poly[j]) : OnSeg(poly[j][i], EdgeB(poly[j],i), p))
Tiles(w) == {<<x,y>> : x \in 0..(w-1), y \in 0..(w-1)}
Samples(t) == {<<U*t[1]+dx, U*t[2]+dy>> : dx \in {8,24,40,56}, dy \in {8,24,40,56}}
MustInterior(poly, w) == {t \in Tiles(w) : \E s \in Samples(t) : InPoly(poly, s)}
MustBoundary(poly, w) == {t \in Tiles(w) : \E j \in 1..Len(poly) : \E i \in 1..Len(poly[j]) :
                  poly[j][i] # EdgeB(poly[j],i) /\
                  SegMeetsRect(poly[j][i], EdgeB(poly[j],i), <<U*t[1]+1, U*t[2]+1, U*t[1]+U-1, U*t[2]+U-1>>)}
BBoxTiles(poly, w) == LET r == poly[1]
      xs == {r[i][1] : i \in 1..Len(r)}  ys == {r[i][2] : i \in 1..Len(r)}
      x0 == CHOOSE x \in xs : \A y \in xs : x <= y   x1 == CHOOSE x \in xs : \A y \in xs : x >= y
      y0 == CHOOSE x \in ys : \A y \in ys : x <= y   y1 == CHOOSE x \in ys : \A y \in ys : x >= y
   IN {t \in Tiles(w) : U*t[1]+U >= x0-1 /\ U*t[1] <= x1+1 /\ U*t[2]+U >= y0-1 /\ U*t[2] <= y1+1}
ToSet(s) == {s[i] : i \in 1..Len(s)}
Check(e) == LET c == ToSet(e.cover) IN
   /\ e.err = 0
   /\ MustInterior(e.poly, e.w) \subseteq c
   /\ MustBoundary(e.poly, e.w) \subseteq c
   /\ c \subseteq BBoxTiles(e.poly, e.w)
Trace == ndJsonDeserialize(IOEnv.TRACE)
VARIABLES l, bad
Init == l = 1 /\ bad = {}
Next == /\ l <= Len(Trace) /\ l' = l + 1 /\ bad' = IF Check(Trace[l]) THEN bad ELSE bad \cup {l}
        /\ (l = Len(Trace) => PrintT(ToJson([done |-> l, bad |-> bad'])))
Spec == Init /\ [][Next]_<<l,bad>>
====
