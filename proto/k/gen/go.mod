module gen

go 1.21

require github.com/paulmach/orb v0.0.0

require go.mongodb.org/mongo-driver v1.11.4 // indirect

replace github.com/paulmach/orb => /repo
