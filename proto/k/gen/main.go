package main

import (
	"bufio"
	"encoding/json"
	"fmt"
	"math"
	"math/rand"
	"os"

	"github.com/paulmach/orb"
	"github.com/paulmach/orb/maptile"
	"github.com/paulmach/orb/maptile/tilecover"
)

const U = 64
const W = 5

type ev struct {
	Z     int      `json:"z"`
	W     int      `json:"w"`
	Ls    [][2]int `json:"ls"`
	Cover [][2]int `json:"cover"`
}

func inv(tx, ty float64, z uint32) orb.Point {
	maxt := float64(uint64(1) << z)
	lon := 360.0 * (tx/maxt - 0.5)
	lat := 2.0*math.Atan(math.Exp(math.Pi-(2*math.Pi)*(ty/maxt)))*(180.0/math.Pi) - 90.0
	return orb.Point{lon, lat}
}

func main() {
	w := bufio.NewWriter(os.Stdout)
	defer w.Flush()
	enc := json.NewEncoder(w)
	r := rand.New(rand.NewSource(3))
	miss, outside := 0, 0
	for n := 0; n < 30000; n++ {
		z := uint32(3 + r.Intn(18))
		maxt := 1 << z
		bx, by := r.Intn(maxt-W), 1+r.Intn(maxt-W-1)
		k := 2 + r.Intn(3)
		step := []int{1, 8, 16, 32, 64}[r.Intn(5)]
		e := ev{Z: int(z), W: W, Ls: [][2]int{}, Cover: [][2]int{}}
		ls := orb.LineString{}
		ok := true
		for i := 0; i < k; i++ {
			// keep strictly inside the window so the cover cannot leave it: [U/2 .. W*U-U/2]
			u := U + step*r.Intn((W*U-2*U)/step+1)
			v := U + step*r.Intn((W*U-2*U)/step+1)
			tx, ty := float64(bx)+float64(u)/U, float64(by)+float64(v)/U
			p := inv(tx, ty, z)
			f := maptile.Fraction(p, maptile.Zoom(z))
			if math.Abs(f[0]-tx) > 1e-6 || math.Abs(f[1]-ty) > 1e-6 {
				ok = false
			}
			ls = append(ls, p)
			e.Ls = append(e.Ls, [2]int{u, v})
		}
		if !ok {
			miss++
			continue
		}
		set := tilecover.LineString(ls, maptile.Zoom(z))
		for t := range set {
			x, y := int(t.X)-bx, int(t.Y)-by
			if x < 0 || y < 0 || x >= W || y >= W {
				outside++
			}
			e.Cover = append(e.Cover, [2]int{x, y})
		}
		enc.Encode(e)
	}
	fmt.Fprintln(os.Stderr, "generator misses", miss, "tiles outside window", outside)
}
