package main

import (
	"sort"

	"github.com/paulmach/orb/maptile"
	"github.com/paulmach/orb/maptile/tilecover"
)

// Extended coverage: tilecover.MergeUpPartial and maptile.Set.Merge. See spec/MergeUpPartial.tla and
// spec/MergeUpPartial_Trace.tla.

func x02Rows(s maptile.Set) [][3]int {
	rows := [][3]int{}
	for t, v := range s {
		if v {
			rows = append(rows, [3]int{int(t.X), int(t.Y), int(t.Z)})
		}
	}
	sort.Slice(rows, func(i, j int) bool {
		a, b := rows[i], rows[j]
		if a[2] != b[2] {
			return a[2] < b[2]
		}
		if a[0] != b[0] {
			return a[0] < b[0]
		}
		return a[1] < b[1]
	})
	return rows
}

func x02Key(rows [][3]int) string {
	b := make([]byte, 0, len(rows)*6)
	for _, r := range rows {
		b = append(b, byte(r[0]), byte(r[0]>>8), byte(r[1]), byte(r[1]>>8), byte(r[2]), ',')
	}
	return string(b)
}

func init() {
	register("mergepartial", func(c *ctx) {
		run := func(z int, tiles [][3]int, min, count int) {
			e := map[string]interface{}{"k": "mergep", "z": z, "min": min, "count": count, "in": tiles, "nt": 1}
			setCurrent("tilecover.MergeUpPartial", e)
			distinct := map[string][][3]int{}
			site := guard(func() {
				for rep := 0; rep < 4; rep++ { // Go's map order varies between repetitions
					set := maptile.Set{}
					for _, t := range tiles {
						set[maptile.New(uint32(t[0]), uint32(t[1]), maptile.Zoom(t[2]))] = true
					}
					rows := x02Rows(tilecover.MergeUpPartial(set, maptile.Zoom(min), count))
					distinct[x02Key(rows)] = rows
				}
			})
			if site != "" {
				c.emit(panicEvent("tilecover.MergeUpPartial", site, e))
				return
			}
			e["runs"] = len(distinct)
			for _, rows := range distinct {
				e["out"] = rows
			}
			c.emit(e)
		}
		// zooms 0 and 1: every cover x min x count
		for count := 1; count <= 4; count++ {
			run(0, [][3]int{{0, 0, 0}}, 0, count)
			for mask := 1; mask < 16; mask++ {
				var tiles [][3]int
				for b := 0; b < 4; b++ {
					if mask&(1<<uint(b)) != 0 {
						tiles = append(tiles, [3]int{b % 2, b / 2, 1})
					}
				}
				run(1, tiles, 0, count)
				run(1, tiles, 1, count)
			}
		}
		// zoom 2: seeded subsets of the 16 tiles x min x count
		n2 := c.pick(1500, 65535)
		for i := 0; i < n2; i++ {
			mask := 1 + c.rng.Intn(65535)
			if c.thorough() {
				mask = i + 1
			}
			var tiles [][3]int
			for b := 0; b < 16; b++ {
				if mask&(1<<uint(b)) != 0 {
					tiles = append(tiles, [3]int{b % 4, b / 4, 2})
				}
			}
			run(2, tiles, i%3, 1+(i/3)%4)
		}
		// zoom 4: sets built from blocks
		n4 := c.pick(800, 8000)
		for i := 0; i < n4; i++ {
			present := map[[2]int]bool{}
			for j := 0; j < 1+c.rng.Intn(6); j++ {
				s := 1 << uint(c.rng.Intn(4))
				x0, y0 := c.rng.Intn(16), c.rng.Intn(16)
				if c.rng.Intn(3) > 0 {
					x0, y0 = x0/s*s, y0/s*s
				}
				for x := x0; x < x0+s && x < 16; x++ {
					for y := y0; y < y0+s && y < 16; y++ {
						if c.rng.Intn(8) > 0 { // blocks with a few tiles missing: partial quads
							present[[2]int{x, y}] = true
						}
					}
				}
			}
			tiles := [][3]int{}
			for p := range present {
				tiles = append(tiles, [3]int{p[0], p[1], 4})
			}
			if len(tiles) == 0 {
				continue
			}
			sort.Slice(tiles, func(i, j int) bool {
				if tiles[i][0] != tiles[j][0] {
					return tiles[i][0] < tiles[j][0]
				}
				return tiles[i][1] < tiles[j][1]
			})
			run(4, tiles, c.rng.Intn(5), 1+c.rng.Intn(4))
		}
		// maptile.Set.Merge: union with the entries of the other set that are true
		for i := 0; i < c.pick(300, 3000); i++ {
			a, b := maptile.Set{}, maptile.Set{}
			arows, brows := [][4]int{}, [][4]int{}
			for j := 0; j < c.rng.Intn(8); j++ {
				t := [4]int{c.rng.Intn(4), c.rng.Intn(4), 2 + c.rng.Intn(2), c.rng.Intn(4) / 3}
				t[3] = 1 - t[3] // mostly true
				a[maptile.New(uint32(t[0]), uint32(t[1]), maptile.Zoom(t[2]))] = t[3] == 1
			}
			for j := 0; j < c.rng.Intn(8); j++ {
				t := [4]int{c.rng.Intn(4), c.rng.Intn(4), 2 + c.rng.Intn(2), c.rng.Intn(2)}
				b[maptile.New(uint32(t[0]), uint32(t[1]), maptile.Zoom(t[2]))] = t[3] == 1
			}
			for t, v := range a {
				f := 0
				if v {
					f = 1
				}
				arows = append(arows, [4]int{int(t.X), int(t.Y), int(t.Z), f})
			}
			for t, v := range b {
				f := 0
				if v {
					f = 1
				}
				brows = append(brows, [4]int{int(t.X), int(t.Y), int(t.Z), f})
			}
			bBefore := x02Rows(b)
			site := guard(func() { a.Merge(b) })
			if site != "" {
				c.emit(panicEvent("maptile.Set.Merge", site, arows))
				continue
			}
			same := 0
			if x02Key(bBefore) == x02Key(x02Rows(b)) {
				same = 1
			}
			c.emit(map[string]interface{}{"k": "setmerge", "a": arows, "b": brows, "out": x02Rows(a), "bsame": same, "nt": 1})
		}
	})
}
