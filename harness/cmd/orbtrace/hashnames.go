package main

import (
	"fmt"
	"hash/adler32"
	"hash/crc32"
	"hash/fnv"
)

// collidingNames returns pairs of distinct names of equal length that collide under the 32-bit hashes a cache or an
// intern table is likely to use (FNV-1, FNV-1a, CRC-32 IEEE and Castagnoli, Adler-32, the multiply-by-31 and
// multiply-by-33 string hashes). A table that tells keys apart by hash (and length) only mixes such names up. The pairs
// are found once per process by brute force over "<word>_<number>" names (birthday search: a few hundred thousand names).
var collidingNamePairs [][2]string

func collidingNames() [][2]string {
	if collidingNamePairs != nil {
		return collidingNamePairs
	}
	castagnoli := crc32.MakeTable(crc32.Castagnoli)
	hashes := []func(string) uint32{
		func(s string) uint32 { h := fnv.New32(); h.Write([]byte(s)); return h.Sum32() },
		func(s string) uint32 { h := fnv.New32a(); h.Write([]byte(s)); return h.Sum32() },
		func(s string) uint32 { return crc32.ChecksumIEEE([]byte(s)) },
		func(s string) uint32 { return crc32.Checksum([]byte(s), castagnoli) },
		func(s string) uint32 { return adler32.Checksum([]byte(s)) },
		func(s string) uint32 {
			var h uint32
			for i := 0; i < len(s); i++ {
				h = 31*h + uint32(s[i])
			}
			return h
		},
		func(s string) uint32 {
			h := uint32(5381)
			for i := 0; i < len(s); i++ {
				h = 33*h + uint32(s[i])
			}
			return h
		},
	}
	for _, hf := range hashes {
		seen := map[uint32]string{}
		found := 0
	search:
		for _, w := range []string{"zone", "rank", "name", "code"} {
			for n := 10000; n < 100000; n++ { // five digits: all names have the same length
				s := fmt.Sprintf("%s_%d", w, n)
				h := hf(s)
				if o, ok := seen[h]; ok && o != s {
					collidingNamePairs = append(collidingNamePairs, [2]string{o, s})
					found++
					if found == 3 {
						break search
					}
					continue
				}
				seen[h] = s
			}
		}
	}
	return collidingNamePairs
}
