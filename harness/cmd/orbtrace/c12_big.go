package main

import (
	"github.com/paulmach/orb"
	"github.com/paulmach/orb/planar"
	"github.com/paulmach/orb/simplify"
)

// C12, sizes: lines and rings of 600 .. 6000 vertices (integer coordinates) through the three simplifiers. The
// relations of the statement are evaluated here (subsequence with the ends kept, error bound within 1e-9, spacing,
// minimum counts, idempotence, nesting under a larger threshold); TLC checks the verdicts.

func isSubseqPts(out, in []orb.Point) bool {
	j := 0
	for _, p := range out {
		for j < len(in) && in[j] != p {
			j++
		}
		if j == len(in) {
			return false
		}
		j++
	}
	return true
}

func init() {
	register("simplifybig", func(c *ctx) {
		for it := 0; it < c.pick(12, 80); it++ {
			n := []int{600, 1025, 2049, 4097, 6000}[c.rng.Intn(5)]
			if it == 5 { // one very long line per run (a dense trace: a hundred thousand vertices and more)
				n = []int{100000, 150000, 262144}[c.rng.Intn(3)]
			}
			ls := make(orb.LineString, n)
			x, y := 0.0, 0.0
			for j := range ls {
				ls[j] = orb.Point{x, y}
				switch c.rng.Intn(6) {
				case 0: // a long straight run: many redundant vertices in a row
					x++
				case 1:
					x++
					y += float64(c.rng.Intn(3) - 1)
				default:
					x += float64(c.rng.Intn(4))
					y += float64(c.rng.Intn(9) - 4)
				}
			}
			ring := it%3 == 2
			if ring {
				ls[n-1] = ls[0]
			}
			t := []float64{0, 0.5, 1, 2.5, 7, 40}[c.rng.Intn(6)]
			e := map[string]interface{}{"k": "simpbig", "n": n, "nt": 1, "ok": 1, "what": ""}
			setCurrent("simplify(big)", e)
			fail := func(w string) {
				if e["ok"] == 1 {
					e["ok"], e["what"] = 0, w
				}
			}
			apply := func(s orb.Simplifier, in orb.LineString) orb.LineString {
				if ring {
					return orb.LineString(s.Ring(orb.Ring(in.Clone())))
				}
				return s.LineString(in.Clone())
			}
			base := func(name string, out orb.LineString) {
				if len(out) < 2 || out[0] != ls[0] || out[len(out)-1] != ls[n-1] || !isSubseqPts(out, ls) {
					fail(name + ": not a subsequence with the ends kept")
				}
			}
			site := guard(func() {
				dp := apply(simplify.DouglasPeucker(t), ls)
				base("dp", dp)
				// every input vertex within t of the simplified line (of some piece of it: vertices may repeat, so positions in
				// the input are not recovered from coordinates - the weaker, still necessary, form is checked)
				worst, cur := 0.0, 0
				for i := range ls {
					if i&4095 == 0 {
						progress() // (the harness's own work: the watchdog is after library calls that do not return)
					}
					// (the piece that covers a vertex is at or just behind the one that covered the vertex before it: those are
					// tried first, the whole line only when they do not do)
					best := planar.DistanceFromSegment(dp[cur], dp[minInt(cur+1, len(dp)-1)], ls[i])
					for step := 1; step < len(dp) && best > t; step++ { // onwards from there, round to the start again
						k := (cur + step) % len(dp)
						if k+1 >= len(dp) {
							continue
						}
						if d := planar.DistanceFromSegment(dp[k], dp[k+1], ls[i]); d < best {
							best = d
							if d <= t {
								cur = k
							}
						}
					}
					if best > worst {
						worst = best
					}
				}
				if worst > t+1e-9 {
					fail("dp: an input vertex lies farther than the threshold from the simplified line")
				}
				if again := apply(simplify.DouglasPeucker(t), dp); !orb.Equal(again, dp) {
					fail("dp: not idempotent")
				}
				if big := apply(simplify.DouglasPeucker(t*2+1), ls); !isSubseqPts(big, dp) {
					fail("dp: a larger threshold kept a vertex the smaller one dropped")
				}
				rad := apply(simplify.Radial(planar.Distance, t), ls)
				base("radial", rad)
				for i := 0; i+2 < len(rad); i++ { // consecutive kept vertices farther apart than t, except possibly the last
					if planar.Distance(rad[i], rad[i+1]) <= t && t > 0 {
						fail("radial: two kept vertices within the threshold")
						break
					}
				}
				keep := 2 + c.rng.Intn(40)
				vis := apply(simplify.Visvalingam(t, keep), ls)
				base("vis", vis)
				if len(vis) < keep {
					fail("vis: below the minimum count")
				}
				vk := apply(simplify.VisvalingamKeep(keep), ls)
				base("viskeep", vk)
				want := keep
				if ring && keep < 4 {
					want = len(vk) // the ring minimum applies; judged by the small-input family
				}
				if len(vk) != want {
					fail("viskeep: not exactly N")
				}
				if big := apply(simplify.Visvalingam(t*2+1, keep), ls); !isSubseqPts(big, vis) {
					fail("vis: a larger threshold kept a vertex the smaller one dropped")
				}
			})
			if site != "" {
				c.emit(panicEvent("simplify(big)", site, e))
				continue
			}
			c.emit(e)
		}
	})
}

func minInt(a, b int) int {
	if a < b {
		return a
	}
	return b
}
