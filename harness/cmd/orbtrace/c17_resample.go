package main

import (
	"fmt"
	"math"
	"sync"
	"sync/atomic"

	"github.com/paulmach/orb"
	"github.com/paulmach/orb/geo"
	"github.com/paulmach/orb/planar"
	"github.com/paulmach/orb/resample"
)

// C17: resample.Resample / ToInterval. See spec/Resample_Trace.tla.

func gcdInt(a, b int) int {
	for b != 0 {
		a, b = b, a%b
	}
	return a
}

var c17Prev prevTracker
var c17Calls int
var c17Bufs = [2]orb.LineString{make(orb.LineString, 48), make(orb.LineString, 48)}

func l1Dist(a, b orb.Point) float64 { return math.Abs(a[0]-b[0]) + math.Abs(a[1]-b[1]) }

func init() {
	register("resample", func(c *ctx) {
		steps := [][3]int{{1, 0, 1}, {0, 1, 1}, {-1, 0, 1}, {0, -1, 1}, {2, 0, 2}, {0, 3, 3}, {3, 4, 5}, {-4, 3, 5}, {4, -3, 5}, {0, 0, 0}, {0, -4, 4}, {-3, -4, 5}, {5, 12, 13}, {6, 0, 6}}
		run := func(vs [][2]int, lens []int, fn string, n, dn, dd int, useL1 bool) {
			m := 1
			total := 0
			for _, l := range lens {
				if l > 0 {
					m = m * l / gcdInt(m, l)
				}
				total += l
			}
			// the line is the head of a longer buffer (spare capacity holding foreign points) in two calls out of three
			buf := make(orb.LineString, len(vs)+((len(vs)+n+dn)%3+3)%3*8)
			// history: every other call the line lives in one of two long-lived buffers that held other lines before (two in
			// rotation, so that the previous result - which may be the input itself - is not overwritten by the harness)
			c17Calls++
			if c17Calls%2 == 0 && len(buf) <= 48 {
				buf = c17Bufs[(c17Calls/2)%2][:len(buf)]
			}
			for i := range buf {
				buf[i] = orb.Point{9999, -9999}
			}
			ls := buf[:len(vs)]
			for i, v := range vs {
				ls[i] = orb.Point{float64(v[0]), float64(v[1])}
			}
			if vs == nil {
				ls = nil
			}
			N := n
			if fn == "ToInterval" && dn > 0 && len(vs) > 0 {
				N = total*dd/dn + 1
			}
			s := m
			if N > 1 {
				s = (N - 1) * m
			}
			e := map[string]interface{}{"k": "resample", "fn": fn, "vs": vs, "lens": lens, "n": n, "dn": dn, "dd": dd, "m": m, "s": s, "geo": 0}
			if vs == nil {
				e["vs"] = [][2]int{}
			}
			df := orb.DistanceFunc(planar.Distance)
			if useL1 {
				df = l1Dist
				e["df"] = "l1"
			}
			setCurrent("resample."+fn, e)
			var out orb.LineString
			site := guard(func() {
				if fn == "Resample" {
					out = resample.Resample(ls, df, n)
				} else {
					out = resample.ToInterval(ls, df, float64(dn)/float64(dd))
				}
			})
			if site != "" {
				c.emit(panicEvent("resample."+fn, site, e))
				return
			}
			q, ok := encGeom(orb.LineString(out), latticeFn(float64(s)))
			if !ok {
				c.emit(map[string]interface{}{"k": "offlattice", "fn": "resample." + fn, "in": e})
				return
			}
			e["out"] = q["c"]
			e["pstable"] = c17Prev.check(out)
			// "returned as it is": a line of fewer than two vertices comes back the value it was - an empty line stays an
			// empty line (not nil), nil stays nil
			e["asis"] = 1
			if len(vs) < 2 && ((fn == "Resample" && n > 0) || (fn == "ToInterval" && dn > 0)) && ((out == nil) != (ls == nil) || len(out) != len(ls)) {
				e["asis"] = 0
			}
			// the same line - the very same slice, spare capacity and all - resampled once more at another resolution: the
			// first result is the caller's and stays what it was
			if total > 0 && len(vs) >= 2 && c17Calls%3 == 0 {
				snap := fmt.Sprint(out)
				guard(func() {
					if fn == "Resample" {
						resample.Resample(ls, df, n+2)
					} else {
						resample.ToInterval(ls, df, float64(dn)/float64(dd)/2)
					}
				})
				if fmt.Sprint(out) != snap {
					e["pstable"] = 0
				}
			}
			if N >= 2 && total > 0 {
				e["nt"] = 1
			}
			c.emit(e)
		}
		// (1) exhaustive: every path of <= 3 (quick) / 4 (thorough) steps from the step set x N in -1..13
		ks := c.pick(3, 4)
		var rec func(vs [][2]int, lens []int)
		cnt := 0
		rec = func(vs [][2]int, lens []int) {
			for _, n := range []int{-1, 0, 1, 2, 3, 4, 5, 7, 8, 13} {
				cnt++
				if len(lens) == ks && cnt%3 != 0 {
					continue
				}
				run(vs, lens, "Resample", n, 1, 1, false)
			}
			if len(lens) >= ks {
				return
			}
			for _, st := range steps[:12] {
				last := vs[len(vs)-1]
				rec(append(append([][2]int{}, vs...), [2]int{last[0] + st[0], last[1] + st[1]}), append(append([]int{}, lens...), st[2]))
			}
		}
		rec([][2]int{{1, 2}}, []int{})
		// (1b) the same short paths sixty times larger: coordinate differences beyond 180 and 360 are ordinary numbers to a
		// planar distance function
		for _, a := range steps[:12] {
			for _, b := range steps[:12] {
				for _, n := range []int{2, 3, 4, 7} {
					vs := [][2]int{{60, 120}, {60 + 60*a[0], 120 + 60*a[1]}, {60 + 60*a[0] + 60*b[0], 120 + 60*a[1] + 60*b[1]}}
					run(vs, []int{60 * a[2], 60 * b[2]}, "Resample", n, 1, 1, false)
				}
			}
		}
		// lines without a vertex (nil, and empty with or without spare capacity behind them) and with one vertex, for every
		// count and interval: returned as they are
		for _, n := range []int{-1, 0, 1, 2, 3, 4, 7, 13} {
			run(nil, []int{}, "Resample", n, 1, 1, false)
			run([][2]int{}, []int{}, "Resample", n, 1, 1, false)
			run([][2]int{{3, 4}}, []int{}, "Resample", n, 1, 1, false)
			run(nil, []int{}, "ToInterval", 0, n, 2, false)
			run([][2]int{}, []int{}, "ToInterval", 0, n, 1, false)
			run([][2]int{{3, 4}}, []int{}, "ToInterval", 0, n, 2, false)
		}
		run(nil, []int{}, "ToInterval", 0, 1, 2, false)
		run([][2]int{}, []int{}, "ToInterval", 0, 3, 1, false)
		// (2) seeded: longer paths, N to 25, intervals d = dn/dd (dyadic), L1 metric on arbitrary integer paths
		n := c.pick(20000, 400000)
		for i := 0; i < n; i++ {
			k := c.rng.Intn(7)
			vs := [][2]int{{c.rng.Intn(5), c.rng.Intn(5)}}
			lens := []int{}
			useL1 := c.rng.Intn(4) == 0
			for j := 0; j < k; j++ {
				last := vs[len(vs)-1]
				if useL1 {
					dx, dy := c.rng.Intn(7)-3, c.rng.Intn(7)-3
					vs = append(vs, [2]int{last[0] + dx, last[1] + dy})
					lens = append(lens, int(math.Abs(float64(dx))+math.Abs(float64(dy))))
					continue
				}
				st := steps[c.rng.Intn(len(steps))]
				vs = append(vs, [2]int{last[0] + st[0], last[1] + st[1]})
				lens = append(lens, st[2])
			}
			if c.rng.Intn(3) == 0 {
				dd := []int{1, 2, 4, 8}[c.rng.Intn(4)]
				dn := c.rng.Intn(40) - 2 // includes d <= 0, d larger than the line, d dividing the length
				run(vs, lens, "ToInterval", 0, dn, dd, useL1)
			} else {
				run(vs, lens, "Resample", c.rng.Intn(27)-1, 1, 1, useL1)
			}
		}
		// (2b) an interval a hair above or below an exact divisor of the length: the number of points is
		// floor(length / d) + 1 for the d that was given, not for a rounded one
		for i := 0; i < c.pick(1500, 30000); i++ {
			k := 1 + c.rng.Intn(4)
			vs := [][2]int{{c.rng.Intn(5), c.rng.Intn(5)}}
			total := 0
			for j := 0; j < k; j++ {
				st := steps[c.rng.Intn(len(steps))]
				last := vs[len(vs)-1]
				vs = append(vs, [2]int{last[0] + st[0], last[1] + st[1]})
				total += st[2]
			}
			if total == 0 {
				continue
			}
			parts := 1 + c.rng.Intn(8) // d0 = total / parts divides the length exactly
			side := 1 - 2*c.rng.Intn(2)
			// a hair: 1e-10 relative - far above the rounding of one float64 division, far below anything a caller means
			d := float64(total) / float64(parts) * (1 + float64(side)*1e-10)
			if c.rng.Intn(3) == 0 {
				// ... or the very next float64 (when the line is an exact number of intervals long, the nearest other d):
				// judged when the quotient the caller would compute, total / d, is itself on that side of the whole number
				d = math.Nextafter(float64(total)/float64(parts), math.Inf(side))
				if q := float64(total) / d; q == math.Trunc(q) {
					continue
				}
			}
			ls := make(orb.LineString, len(vs))
			for j, v := range vs {
				ls[j] = orb.Point{float64(v[0]), float64(v[1])}
			}
			e := map[string]interface{}{"k": "icount", "fn": "ToInterval", "total": total, "parts": parts, "side": side, "nt": 1}
			setCurrent("resample.ToInterval(hair)", e)
			var out orb.LineString
			site := guard(func() { out = resample.ToInterval(ls, planar.Distance, d) })
			if site != "" {
				c.emit(panicEvent("resample.ToInterval", site, e))
				continue
			}
			e["n"] = len(out)
			e["ends"] = 0
			if len(out) >= 1 && out[0] == ls[0] && (len(out) < 2 || out[len(out)-1] == ls[len(ls)-1]) {
				e["ends"] = 1
			}
			c.emit(e)
		}
		// (2c) lines with coordinates that are not exact in binary (segment lengths and their sums round): the statement
		// about count and end points does not depend on that
		for i := 0; i < c.pick(3000, 60000); i++ {
			k := 2 + c.rng.Intn(6)
			ls := make(orb.LineString, k)
			x, y := 0.0, 0.0
			// ... at every scale: the same figure a few thousand million times smaller (nano-scale lines) or larger
			scale := []float64{1, 1, math.Ldexp(1, -34), math.Ldexp(1, -50), math.Ldexp(1, 30)}[c.rng.Intn(5)]
			for j := range ls {
				ls[j] = orb.Point{x * scale, y * scale}
				x += float64(c.rng.Intn(20)) / 10
				if c.rng.Intn(3) == 0 {
					y += float64(c.rng.Intn(20)-10) / 10
				}
			}
			if planar.Distance(ls[0], ls[k-1]) == 0 && planar.Length(ls) == 0 {
				continue
			}
			N := 2 + c.rng.Intn(20)
			e := map[string]interface{}{"k": "fcount", "fn": "Resample", "nreq": N, "nt": 1}
			setCurrent("resample.Resample(inexact)", e)
			var out orb.LineString
			first, last := ls[0], ls[k-1]
			site := guard(func() { out = resample.Resample(ls.Clone(), planar.Distance, N) })
			if site != "" {
				c.emit(panicEvent("resample.Resample", site, e))
				continue
			}
			e["n"] = len(out)
			e["ends"] = 0
			if len(out) >= 2 && out[0] == first && out[len(out)-1] == last {
				e["ends"] = 1
			}
			c.emit(e)
		}
		// (2d) lines that are their own mirror image in length (segments of inexact lengths - sqrt(10), sqrt(5), sqrt(13) - out,
		// a vertex repeated in the middle, the same lengths back): an odd number of points puts one exactly on the repeated
		// vertex. Every point is a point of the line (within 1e-9 of a segment, so none is NaN), count and ends as always.
		for i := 0; i < c.pick(1500, 20000); i++ {
			stepsI := [][2]int{{3, 1}, {1, 2}, {2, 3}, {1, 3}, {0, 1}, {4, 1}, {1, 1}}
			half := 1 + c.rng.Intn(3)
			pts := orb.LineString{{0, 0}}
			var ds [][2]int
			for j := 0; j < half; j++ {
				ds = append(ds, stepsI[c.rng.Intn(len(stepsI))])
			}
			for _, d := range ds {
				l := pts[len(pts)-1]
				pts = append(pts, orb.Point{l[0] + float64(d[0]), l[1] + float64(d[1])})
			}
			for r := c.rng.Intn(3); r > 0; r-- {
				pts = append(pts, pts[len(pts)-1]) // the middle vertex once, twice or three times
			}
			for j := half - 1; j >= 0; j-- { // the same lengths back (turned by a quarter: another direction, the same length)
				l := pts[len(pts)-1]
				pts = append(pts, orb.Point{l[0] + float64(ds[j][1]), l[1] + float64(ds[j][0])})
			}
			N := []int{3, 5, 7, 9, 2, 4}[c.rng.Intn(6)]
			e := map[string]interface{}{"k": "fcount", "fn": "Resample", "nreq": N, "nt": 1}
			setCurrent("resample.Resample(mirror)", e)
			var out orb.LineString
			site := guard(func() {
				if i%3 == 0 { // the interval that gives the same N points
					out = resample.ToInterval(pts.Clone(), planar.Distance, planar.Length(pts)/(float64(N)-1+1e-9))
				} else {
					out = resample.Resample(pts.Clone(), planar.Distance, N)
				}
			})
			if site != "" {
				c.emit(panicEvent("resample.Resample", site, e))
				continue
			}
			e["n"] = len(out)
			e["ends"] = 0
			if len(out) >= 2 && out[0] == pts[0] && out[len(out)-1] == pts[len(pts)-1] {
				e["ends"] = 1
			}
			for _, p := range out { // on the line: not NaN, within 1e-9 of one of its segments
				best := math.Inf(1)
				for j := 0; j+1 < len(pts); j++ {
					if d := planar.DistanceFromSegment(pts[j], pts[j+1], p); d < best {
						best = d
					}
				}
				if !(best < 1e-9) {
					e["ends"] = 0
				}
			}
			c.emit(e)
		}
		// (2e) callers at the same time: four goroutines resample their own lines a few thousand times; each call returns
		// what it returns when nobody else is calling (the functions keep no state between calls)
		{
			e := map[string]interface{}{"k": "fcount", "fn": "Resample", "nreq": 4, "n": 0, "ends": 1, "nt": 1}
			setCurrent("resample.Resample(concurrent callers)", e)
			var wg sync.WaitGroup
			var bad int32
			sites := make([]string, 4)
			for g := 0; g < 4; g++ {
				wg.Add(1)
				go func(g int) {
					defer wg.Done()
					sites[g] = guard(func() {
						ls := orb.LineString{}
						for j := 0; j < 3+g*7; j++ {
							ls = append(ls, orb.Point{float64(j * (g + 1)), float64((j * j) % (5 + g))})
						}
						want := resample.Resample(ls.Clone(), planar.Distance, 5+g)
						for it := 0; it < 3000; it++ {
							var got orb.LineString
							if it%2 == 0 {
								got = resample.Resample(ls.Clone(), planar.Distance, 5+g)
							} else {
								got = resample.ToInterval(ls.Clone(), planar.Distance, planar.Length(ls)/(float64(5+g)-1+1e-9))
							}
							if len(got) != len(want) || (it%2 == 0 && !got.Equal(want)) {
								atomic.AddInt32(&bad, 1)
							}
						}
					})
				}(g)
			}
			wg.Wait()
			for _, st := range sites {
				if st != "" {
					bad++
				}
			}
			if bad == 0 {
				e["n"] = 4
			}
			c.emit(e)
		}
		// (2f) sizes: more than a million intervals on a short line; a line of more than a million segments of inexact
		// lengths (thirds): the counts and the ends as always
		for _, parts := range []int{1<<20 + 1, 3000000, c.pick(1<<21, 1<<23)} {
			total := 3 * 7 * 11 // = 231, a line of three segments
			ls := orb.LineString{{0, 0}, {77, 0}, {77, 77}, {154, 77}}
			for side := -1; side <= 1; side += 2 {
				e := map[string]interface{}{"k": "icount", "fn": "ToInterval", "total": total, "parts": parts, "side": side, "nt": 1}
				setCurrent("resample.ToInterval(many)", e)
				d := float64(total) / float64(parts) * (1 + float64(side)*1e-10)
				var out orb.LineString
				site := guard(func() { out = resample.ToInterval(ls.Clone(), planar.Distance, d) })
				if site != "" {
					c.emit(panicEvent("resample.ToInterval", site, e))
					continue
				}
				e["n"] = len(out)
				e["ends"] = 0
				if len(out) >= 1 && out[0] == ls[0] && (len(out) < 2 || planar.Distance(out[len(out)-1], ls[len(ls)-1]) < 1e-3) {
					e["ends"] = 1
				}
				c.emit(e)
			}
		}
		for vi, segs := range []int{1<<20 + 3, 1<<20 + 3, 1 << 20, 1<<20 + 1, c.pick(1<<20+77, 1<<22+5)} {
			ls := make(orb.LineString, segs+1)
			x, y := 0.0, 0.0
			for j := range ls {
				ls[j] = orb.Point{x, y}
				if vi == 0 {
					x, y = float64(j+1)/3, float64((j+1)%7)/3
				} else { // steps of arbitrary lengths: their sum depends on the order in which it is taken
					x += 0.01 + c.rng.Float64()
					y += c.rng.Float64() - 0.5
				}
			}
			N := 2 + c.rng.Intn(9)
			e := map[string]interface{}{"k": "fcount", "fn": "Resample", "nreq": N, "nt": 1}
			setCurrent("resample.Resample(a million segments)", e)
			var out orb.LineString
			first, last := ls[0], ls[len(ls)-1]
			site := guard(func() { out = resample.Resample(ls, planar.Distance, N) })
			if site != "" {
				c.emit(panicEvent("resample.Resample", site, e))
				continue
			}
			e["n"] = len(out)
			e["ends"] = 0
			if len(out) >= 2 && out[0] == first && out[len(out)-1] == last {
				e["ends"] = 1
			}
			c.emit(e)
		}
		// (3) great-circle distance functions: count, endpoints, order on eastward paths
		ng := c.pick(2000, 20000)
		for i := 0; i < ng; i++ {
			k := 2 + c.rng.Intn(5)
			ls := make(orb.LineString, k)
			lon := -170 + c.rng.Float64()*100
			for j := range ls {
				lon += 0.01 + c.rng.Float64()*10
				ls[j] = orb.Point{lon, -60 + c.rng.Float64()*120}
			}
			if i%4 == 3 {
				// across the antimeridian, written with the vertex pair (180, y), (-180, y): two different vertices no distance
				// apart. Longitudes run 150 .. 180, then -180 .. -150 (the order check below is made on longitudes taken
				// modulo 360)
				k = 4 + c.rng.Intn(3)
				ls = make(orb.LineString, 0, k)
				y := -50 + c.rng.Float64()*100
				west := 150 + c.rng.Float64()*20
				ls = append(ls, orb.Point{west, y - 5}, orb.Point{180, y}, orb.Point{-180, y})
				for len(ls) < k {
					ls = append(ls, orb.Point{ls[len(ls)-1][0] + 1 + c.rng.Float64()*8, y + 3 + float64(len(ls))})
				}
				if i%8 == 7 { // ... or the line ends with that pair: its last vertex is (-180, y), no distance from the one before
					ls = orb.LineString{{west - 9, y - 8}, {west, y - 5}, {180, y}, {-180, y}}
					k = len(ls)
				}
			}
			if i%4 == 1 {
				// steps of exactly equal longitude and latitude differences, a few degrees each, climbing through the middle
				// latitudes: equal on paper, of different lengths on the sphere
				k = 3 + c.rng.Intn(4)
				ls = make(orb.LineString, k)
				x0, y0 := float64(c.rng.Intn(100)-150), float64(10+c.rng.Intn(20))
				dx, dy := float64(1+c.rng.Intn(5)), float64(2+c.rng.Intn(5))
				for j := range ls {
					ls[j] = orb.Point{x0 + float64(j)*dx, y0 + float64(j)*dy}
				}
			}
			N := 1 + c.rng.Intn(25)
			in := newBitIntern()
			_ = in
			df := orb.DistanceFunc(geo.Distance)
			if i%2 == 0 {
				df = geo.DistanceHaversine
			}
			first, last := ls[0], ls[k-1]
			e := map[string]interface{}{"k": "resample", "fn": "Resample", "geo": 1, "n": N, "nt": 1}
			setCurrent("resample.Resample(geo)", e)
			var out orb.LineString
			site := guard(func() { out = resample.Resample(ls.Clone(), df, N) })
			if site != "" {
				c.emit(panicEvent("resample.Resample(geo)", site, e))
				continue
			}
			// every point lies on a segment of the line (in lon/lat, where the interpolation happens), up to 1e-9 degrees; the
			// jump between (180, y) and (-180, y) is no segment to lie on
			online := 1
			for _, p := range out {
				on := false
				for j := 0; j+1 < len(ls); j++ {
					a, b := ls[j], ls[j+1]
					if p == a || p == b { // a vertex of the line is a point of the line
						on = true
					}
					if math.Abs(a[0]-b[0]) > 300 {
						continue
					}
					cr := (b[0]-a[0])*(p[1]-a[1]) - (b[1]-a[1])*(p[0]-a[0])
					ln := math.Hypot(b[0]-a[0], b[1]-a[1])
					if ln == 0 {
						on = on || p == a
						continue
					}
					t := ((p[0]-a[0])*(b[0]-a[0]) + (p[1]-a[1])*(b[1]-a[1])) / (ln * ln)
					if math.Abs(cr)/ln < 1e-9 && t > -1e-9 && t < 1+1e-9 {
						on = true
					}
				}
				if !on {
					online = 0
				}
			}
			// equally spaced under the distance function given: the way along the line to the k-th point - whole segments
			// before it plus the piece of its own segment - is k/(N-1) of the whole, within 1.5 % of a segment's length (measured on the unchanged code: at most 0.4 %; segments are a
			// few degrees long: a point of a segment is placed by interpolating lon/lat, which is that good there)
			if i%4 == 1 && N >= 2 && len(out) == N && online == 1 {
				total := 0.0
				for j := 0; j+1 < len(ls); j++ {
					total += df(ls[j], ls[j+1])
				}
				for kx, p := range out {
					along, found := 0.0, false
					for j := 0; j+1 < len(ls) && !found; j++ {
						a, b := ls[j], ls[j+1]
						t := ((p[0]-a[0])*(b[0]-a[0]) + (p[1]-a[1])*(b[1]-a[1])) / ((b[0]-a[0])*(b[0]-a[0]) + (b[1]-a[1])*(b[1]-a[1]))
						if t >= -1e-9 && t <= 1+1e-9 && math.Abs((b[0]-a[0])*(p[1]-a[1])-(b[1]-a[1])*(p[0]-a[0])) < 1e-7 {
							along += df(a, p)
							found = true
						} else {
							along += df(a, b)
						}
					}
					if want := total * float64(kx) / float64(N-1); !found || math.Abs(along-want) > 0.015*total/float64(len(ls)-1) {
						online = 0
					}
				}
			}
			e["online"] = online
			// ranks of the longitudes (modulo 360: east of the antimeridian counts on) / bit-identical endpoints
			unwrap := func(x float64) float64 {
				if x < 0 && ls[0][0] > 100 {
					return x + 360
				}
				return x
			}
			// (the ends bit for bit - the ranks below take longitudes modulo 360, where 180 and -180 are one place)
			if N >= 2 && len(out) >= 2 && (out[0] != first || out[len(out)-1] != last) {
				e["online"] = 0
			}
			vals := []float64{unwrap(first[0]), first[1], unwrap(last[0]), last[1]}
			for _, p := range out {
				vals = append(vals, unwrap(p[0]), p[1])
			}
			rk := ranks(vals)
			e["first"], e["last"] = []int{rk[0], rk[1]}, []int{rk[2], rk[3]}
			pts := [][2]int{}
			for j := range out {
				pts = append(pts, [2]int{rk[4+2*j], rk[5+2*j]})
			}
			e["out"] = pts
			c.emit(e)
		}
	})
}
