package main

import (
	"bytes"
	"encoding/json"
	"fmt"
	"math"
	"sort"
	"strconv"

	"github.com/paulmach/orb"
	"github.com/paulmach/orb/geojson"
	"go.mongodb.org/mongo-driver/bson"
	"go.mongodb.org/mongo-driver/bson/primitive"
)

// C02: GeoJSON (JSON and BSON). See spec/GeoJson_Trace.tla. Documents are re-represented as
// {"t":kind,"v":..} trees; numbers as ids of the float64 bit pattern.

type jdoc = map[string]interface{}

func dNull() jdoc        { return jdoc{"t": "null"} }
func dStr(s string) jdoc { return jdoc{"t": "str", "v": s} }
func dArr(v []interface{}) jdoc {
	if v == nil {
		v = []interface{}{}
	}
	return jdoc{"t": "arr", "v": v}
}
func dObj(m map[string]interface{}) jdoc {
	if len(m) == 0 {
		return jdoc{"t": "obj", "n": 0, "v": []interface{}{}}
	}
	return jdoc{"t": "obj", "n": len(m), "v": m}
}

// docOf converts a Go value (as produced by encoding/json with UseNumber, by geojson after decoding, or by
// bson) into a document; every number goes through float64 and is interned by bit pattern.
func docOf(in *wkbIntern, v interface{}) jdoc {
	switch t := v.(type) {
	case nil:
		return dNull()
	case bool:
		b := 0
		if t {
			b = 1
		}
		return jdoc{"t": "bool", "v": b}
	case string:
		return dStr(t)
	case json.Number:
		f, err := strconv.ParseFloat(string(t), 64)
		if err != nil {
			return jdoc{"t": "badnum", "v": string(t)}
		}
		return jdoc{"t": "num", "v": in.id(f)}
	case float64:
		return jdoc{"t": "num", "v": in.id(t)}
	case float32:
		return jdoc{"t": "num", "v": in.id(float64(t))}
	case int:
		return jdoc{"t": "num", "v": in.id(float64(t))}
	case int32:
		return jdoc{"t": "num", "v": in.id(float64(t))}
	case int64:
		return jdoc{"t": "num", "v": in.id(float64(t))}
	case []interface{}:
		out := make([]interface{}, len(t))
		for i := range t {
			out[i] = docOf(in, t[i])
		}
		return dArr(out)
	case primitive.A:
		return docOf(in, []interface{}(t))
	case map[string]interface{}:
		m := map[string]interface{}{}
		for k, x := range t {
			m[k] = docOf(in, x)
		}
		return dObj(m)
	case geojson.Properties:
		return docOf(in, map[string]interface{}(t))
	case primitive.M:
		return docOf(in, map[string]interface{}(t))
	case primitive.D:
		m := map[string]interface{}{}
		for _, e := range t {
			m[e.Key] = docOf(in, e.Value)
		}
		return dObj(m)
	}
	return jdoc{"t": "unknown", "v": fmt.Sprintf("%T", v)}
}

func parseJSONDoc(in *wkbIntern, data []byte) (jdoc, error) {
	dec := json.NewDecoder(bytes.NewReader(data))
	dec.UseNumber()
	var v interface{}
	if err := dec.Decode(&v); err != nil {
		return nil, err
	}
	return docOf(in, v), nil
}

func propsDoc(in *wkbIntern, p geojson.Properties) jdoc {
	if len(p) == 0 {
		return dNull() // nil and empty property maps are the same document: "properties": null
	}
	return docOf(in, map[string]interface{}(p))
}

func featModel(in *wkbIntern, f *geojson.Feature) jdoc {
	id := jdoc{"t": "none"}
	switch t := f.ID.(type) {
	case nil:
	case string:
		id = dStr(t)
	default:
		id = docOf(in, t)
	}
	bbox := []int{}
	for _, v := range f.BBox {
		bbox = append(bbox, in.id(v))
	}
	g, _ := encGeom(f.Geometry, in.fn())
	return jdoc{"id": id, "bbox": bbox, "props": propsDoc(in, f.Properties), "g": g}
}

func c02Value(c *ctx, depth int) interface{} {
	switch c.rng.Intn(9) {
	case 0:
		return nil
	case 1:
		return c.rng.Intn(2) == 0
	case 2:
		return float64(c.rng.Intn(100))
	case 3:
		return wktFloat(c)
	case 4:
		return []string{"", "a", "é", "x y", "null"}[c.rng.Intn(5)]
	case 5:
		return c.rng.Intn(1000) // a Go int
	case 6:
		if depth <= 0 {
			return "leaf"
		}
		var a []interface{}
		for i := 0; i < c.rng.Intn(3); i++ {
			a = append(a, c02Value(c, depth-1))
		}
		if a == nil {
			a = []interface{}{}
		}
		return a
	default:
		if depth <= 0 {
			return 1.5
		}
		m := map[string]interface{}{}
		for i := 0; i < 1+c.rng.Intn(2); i++ {
			m[[]string{"k", "type", "n"}[c.rng.Intn(3)]] = c02Value(c, depth-1)
		}
		return m
	}
}

func c02Feature(c *ctx) *geojson.Feature {
	var g orb.Geometry
	for {
		g = randGeom(c, 2, 4, func() float64 { return wktFloat(c) })
		if !hasNilSlice(g) {
			break
		}
	}
	if c.rng.Intn(12) == 0 {
		g = nil
	}
	f := geojson.NewFeature(g)
	switch c.rng.Intn(4) {
	case 0:
		// (strings that look like something else to a document store: 24 hex digits in either case, 24 other characters)
		f.ID = []string{"a", "17", "", "5F3E2A1B9C8D7E6F5A4B3C2D", "5f3e2a1b9c8d7e6f5a4b3c2d", "zzzzzzzzzzzzzzzzzzzzzzzz", "507F1F77BCF86CD799439011"}[c.rng.Intn(7)]
		if f.ID == "" {
			f.ID = "id-0"
		}
	case 1:
		f.ID = float64(c.rng.Intn(100000))
		if c.rng.Intn(6) == 0 { // whole numbers at and beyond the edges of the integer types
			f.ID = []float64{1 << 53, 1<<53 + 2, 1 << 62, 1 << 63, -(1 << 63), 1 << 64, 1<<63 + 2048, 4294967296}[c.rng.Intn(8)]
		}
	case 2:
		f.ID = c.rng.Intn(100000)
	}
	for i := 0; i < c.rng.Intn(4); i++ {
		f.Properties[[]string{"name", "v", "type", "é", "n1"}[c.rng.Intn(5)]] = c02Value(c, 2)
	}
	if c.rng.Intn(8) == 0 {
		// two names of equal length that collide under a common 32-bit hash (see hashnames.go), together or alone: a name
		// is its bytes, whatever a table in between makes of it
		pair := collidingNames()[c.rng.Intn(len(collidingNames()))]
		switch c.rng.Intn(3) {
		case 0:
			f.Properties[pair[0]] = c02Value(c, 1)
		case 1:
			f.Properties[pair[1]] = c02Value(c, 1)
		default:
			f.Properties[pair[0]], f.Properties[pair[1]] = c02Value(c, 1), c02Value(c, 1)
		}
	}
	if c.rng.Intn(5) == 0 {
		f.Properties = nil
	}
	if c.rng.Intn(3) == 0 {
		f.BBox = geojson.BBox{wktFloat(c), wktFloat(c), wktFloat(c), wktFloat(c)}
		switch c.rng.Intn(6) { // a box at the origin, of no extent, with a third dimension: a bbox like any other
		case 0:
			f.BBox = geojson.BBox{0, 0, 0, 0}
		case 1:
			f.BBox = geojson.BBox{0, 0, -5, 0, 0, 12}
		case 2:
			f.BBox = geojson.BBox{0, 0, 0, wktFloat(c)}
		}
	}
	return f
}

// nil slices marshal to "coordinates": null - outside the quantifier (finite geometries with coordinates)
func hasNilSlice(g orb.Geometry) bool {
	if g == nil {
		return false
	}
	if isNilSlice(g) {
		return true
	}
	switch v := g.(type) {
	case orb.MultiLineString:
		for _, l := range v {
			if l == nil {
				return true
			}
		}
	case orb.Polygon:
		for _, l := range v {
			if l == nil {
				return true
			}
		}
	case orb.MultiPolygon:
		for _, p := range v {
			if p == nil {
				return true
			}
			for _, l := range p {
				if l == nil {
					return true
				}
			}
		}
	case orb.Collection:
		for _, m := range v {
			if hasNilSlice(m) {
				return true
			}
		}
	}
	return false
}

// stdJSON is a custom codec that forwards to the standard library.
type stdJSON struct{}

func (stdJSON) Marshal(v interface{}) ([]byte, error)      { return json.Marshal(v) }
func (stdJSON) Unmarshal(data []byte, v interface{}) error { return json.Unmarshal(data, v) }

// long-lived helper receivers (one per kind and encoding) with what they returned last time
var c02Held = *geojson.NewGeometry(orb.Point{0, 0})
var c02Mix = &geojson.Geometry{}
var c02MixN int

var (
	c02HP, c02HPb   geojson.Point
	c02HMP, c02HMPb geojson.MultiPoint
	c02HL, c02HLb   geojson.LineString
	c02HML, c02HMLb geojson.MultiLineString
	c02HPg, c02HPgb geojson.Polygon
	c02HMg, c02HMgb geojson.MultiPolygon
	c02HPrev        = map[string]orb.Geometry{}
	c02HPrevBits    = map[string]string{}
)

func c02Helpers(g orb.Geometry, data, bdata []byte) int {
	ok := 1
	try := func(key string, dec func() (orb.Geometry, error)) {
		got, err := dec()
		if err != nil || !orb.Equal(got, g) {
			ok = 0
		}
		if prev, has := c02HPrev[key]; has && geomBits(prev) != c02HPrevBits[key] {
			ok = 0
		}
		c02HPrev[key], c02HPrevBits[key] = got, geomBits(got)
	}
	switch g.(type) {
	case orb.Point:
		try("P", func() (orb.Geometry, error) { err := c02HP.UnmarshalJSON(data); return c02HP.Geometry(), err })
		try("Pb", func() (orb.Geometry, error) { err := c02HPb.UnmarshalBSON(bdata); return c02HPb.Geometry(), err })
	case orb.MultiPoint:
		try("MP", func() (orb.Geometry, error) { err := c02HMP.UnmarshalJSON(data); return c02HMP.Geometry(), err })
		try("MPb", func() (orb.Geometry, error) { err := c02HMPb.UnmarshalBSON(bdata); return c02HMPb.Geometry(), err })
	case orb.LineString:
		try("L", func() (orb.Geometry, error) { err := c02HL.UnmarshalJSON(data); return c02HL.Geometry(), err })
		try("Lb", func() (orb.Geometry, error) { err := c02HLb.UnmarshalBSON(bdata); return c02HLb.Geometry(), err })
	case orb.MultiLineString:
		try("ML", func() (orb.Geometry, error) { err := c02HML.UnmarshalJSON(data); return c02HML.Geometry(), err })
		try("MLb", func() (orb.Geometry, error) { err := c02HMLb.UnmarshalBSON(bdata); return c02HMLb.Geometry(), err })
	case orb.Polygon:
		try("Pg", func() (orb.Geometry, error) { err := c02HPg.UnmarshalJSON(data); return c02HPg.Geometry(), err })
		try("Pgb", func() (orb.Geometry, error) { err := c02HPgb.UnmarshalBSON(bdata); return c02HPgb.Geometry(), err })
	case orb.MultiPolygon:
		try("Mg", func() (orb.Geometry, error) { err := c02HMg.UnmarshalJSON(data); return c02HMg.Geometry(), err })
		try("Mgb", func() (orb.Geometry, error) { err := c02HMgb.UnmarshalBSON(bdata); return c02HMgb.Geometry(), err })
	}
	return ok
}

func init() {
	register("geojson", func(c *ctx) {
		// values that every event decodes into again (a decoder loop reusing one variable), and the bytes handed out
		// by the previous marshal calls (to see that later calls do not write to them)
		reG, reGb := &geojson.Geometry{}, &geojson.Geometry{}
		reF, reFb := &geojson.Feature{}, &geojson.Feature{}
		reFC, reFCb := &geojson.FeatureCollection{}, &geojson.FeatureCollection{}
		var prevKept geojson.Feature
		prevKeptText := ""
		keptIn := newWkbIntern() // one interner for the kept value's before / after texts (ids of seen values are stable)
		var prevOut, prevCopy [][]byte
		// what the marshal calls of the previous event returned is still what it was (results do not live in memory the
		// library writes again), and it belongs to the caller, who may overwrite it now
		checkHeld := func() int {
			ok := 1
			for i := range prevOut {
				if !bytes.Equal(prevOut[i], prevCopy[i]) {
					ok = 0
				}
				for j := range prevOut[i] {
					prevOut[i][j] = 0xA5
				}
			}
			prevOut, prevCopy = nil, nil
			return ok
		}
		hold := func(outs ...[]byte) {
			for _, o := range outs {
				prevOut = append(prevOut, o)
				prevCopy = append(prevCopy, append([]byte{}, o...))
			}
		}
		n := c.pick(4000, 80000)
		for i := 0; i < n; i++ {
			st := checkHeld()
			in := newWkbIntern()
			// now and then the caller also marshals an empty geometry by itself (the null document) and keeps the bytes
			if c.rng.Intn(8) == 0 {
				if d, err := []*geojson.Geometry{geojson.NewGeometry(orb.Collection{}), {}}[c.rng.Intn(2)].MarshalJSON(); err == nil {
					hold(d)
				}
			}
			// package configuration: for every fifth event the package marshals / unmarshals through a caller-supplied codec
			// (here one that simply forwards to encoding/json): nothing observable may change
			geojson.CustomJSONMarshaler, geojson.CustomJSONUnmarshaler = nil, nil
			switch i % 10 {
			case 4:
				geojson.CustomJSONMarshaler, geojson.CustomJSONUnmarshaler = stdJSON{}, stdJSON{}
			case 7:
				geojson.CustomJSONMarshaler = stdJSON{} // only one of the two hooks set
			case 9:
				geojson.CustomJSONUnmarshaler = stdJSON{}
			}
			switch i % 4 {
			case 0: // bare geometry (non-empty: a top-level null is not a geometry document)
				var g orb.Geometry
				for {
					g = randGeom(c, 2, 4, func() float64 { return wktFloat(c) })
					if col, ok := g.(orb.Collection); !hasNilSlice(g) && !(ok && len(col) == 0) {
						break
					}
				}
				if i%16 == 8 {
					// boxes that are equal as values and differ in the sign of a zero, one event after the other (a bound is written
					// as the polygon it denotes, every coordinate as it is)
					z := []float64{0, math.Copysign(0, -1)}[(i/16)%2]
					g = orb.Bound{Min: orb.Point{z, -3}, Max: orb.Point{5, z}}
					if c.rng.Intn(2) == 0 {
						g = orb.Collection{orb.Bound{Min: orb.Point{z, -3}, Max: orb.Point{5, z}}, orb.Point{1, 1}}
					}
				}
				gm, _ := encGeom(g, in.fn())
				e := jdoc{"k": "geom", "g": gm, "err": "", "same": 0, "nt": 1, "routes": 0, "stable": st, "hkept": 1}
				setCurrent("geojson.Geometry", gm)
				site := guard(func() {
					ng := geojson.NewGeometry(g)
					data, err := ng.MarshalJSON()
					// (the value NewGeometry made is the caller's: its coordinates are overwritten once it has been marshalled)
					defer func() {
						for _, p := range flatPoints(ng.Coordinates) {
							_ = p
						}
						if poly, ok := ng.Coordinates.(orb.Polygon); ok {
							for _, r := range poly {
								for k := range r {
									r[k] = orb.Point{9e9, -9e9}
								}
							}
						}
					}()
					hold(data)
					if err != nil {
						e["err"] = err.Error()
						return
					}
					doc, perr := parseJSONDoc(in, data)
					if perr != nil {
						e["err"] = "produced invalid JSON: " + perr.Error()
						return
					}
					e["doc"] = doc
					dg, err := geojson.UnmarshalGeometry(data)
					if err != nil {
						e["err"] = err.Error()
						return
					}
					e["dec"], _ = encGeom(dg.Geometry(), in.fn())
					again, _ := geojson.NewGeometry(dg.Geometry()).MarshalJSON()
					if bytes.Equal(again, data) {
						e["same"] = 1
					}
					bdata, err := bson.Marshal(geojson.NewGeometry(g))
					if err != nil {
						e["err"] = "bson: " + err.Error()
						return
					}
					bg := &geojson.Geometry{}
					if err := bson.Unmarshal(bdata, bg); err != nil {
						e["err"] = "bson: " + err.Error()
						return
					}
					e["decb"], _ = encGeom(bg.Geometry(), in.fn())
					// the same bytes decoded into values that held earlier results
					if err := json.Unmarshal(data, reG); err != nil {
						e["err"] = "reused value: " + err.Error()
						return
					}
					e["re"], _ = encGeom(reG.Geometry(), in.fn())
					if err := bson.Unmarshal(bdata, reGb); err != nil {
						e["err"] = "bson, reused value: " + err.Error()
						return
					}
					e["reb"], _ = encGeom(reGb.Geometry(), in.fn())
					// one long-lived value that takes JSON and BSON documents in turn (this order in one event, the other in the
					// next): what it holds after each decode is that document's geometry
					c02MixN++
					for step := 0; step < 2; step++ {
						var err error
						if (step+c02MixN)%2 == 0 {
							err = json.Unmarshal(data, c02Mix)
						} else {
							err = bson.Unmarshal(bdata, c02Mix)
						}
						if err != nil || geomBits(c02Mix.Geometry()) != geomBits(dg.Geometry()) {
							e["err"] = fmt.Sprintf("value reused across JSON and BSON decodes (step %d): %v", step, err)
							return
						}
					}
					// the typed helpers (geojson.Point, LineString, ...) as long-lived receivers: each decodes this document into
					// the receiver that took the previous documents of its kind, returns the same value, and leaves alone what
					// it returned before (results kept by the caller do not live in the receiver's memory)
					e["hkept"] = c02Helpers(g, data, bdata)
					// other routes to the same document: json.Marshal, a Geometry literal around the value
					viaStd, _ := json.Marshal(geojson.NewGeometry(g))
					lit, _ := (&geojson.Geometry{Coordinates: g}).MarshalJSON()
					blit, _ := bson.Marshal(&geojson.Geometry{Coordinates: g})
					// (Geometry marshals through pointer receivers by design; Feature and FeatureCollection through value
					// receivers, and are also handed over by value below)
					// ... and a long-lived Geometry value whose Coordinates field is simply assigned the next geometry (whatever
					// kind the value held before)
					c02Held.Coordinates = g
					held, _ := c02Held.MarshalJSON()
					bheld, _ := bson.Marshal(&c02Held)
					if bytes.Equal(viaStd, data) && bytes.Equal(lit, data) && bytes.Equal(blit, bdata) && bytes.Equal(held, data) && bytes.Equal(bheld, bdata) {
						e["routes"] = 1
					}
					hold(again, viaStd, lit, held)
				})
				if site != "" {
					c.emit(panicEvent("geojson.Geometry", site, gm))
					continue
				}
				for _, k := range []string{"doc", "dec", "decb", "re", "reb"} {
					if _, ok := e[k]; !ok {
						e[k] = dNull()
					}
				}
				c.emit(e)
			case 1, 2: // feature
				f := c02Feature(c)
				fm := featModel(in, f)
				e := jdoc{"k": "feat", "f": fm, "err": "", "same": 0, "nt": 1, "routes": 0, "stable": st, "idb": 1, "kept": 1, "insame": 1}
				setCurrent("geojson.Feature", fm)
				site := guard(func() {
					data, err := f.MarshalJSON()
					hold(data)
					if err != nil {
						e["err"] = err.Error()
						return
					}
					doc, perr := parseJSONDoc(in, data)
					if perr != nil {
						e["err"] = "produced invalid JSON: " + perr.Error()
						return
					}
					e["doc"] = doc
					df, err := geojson.UnmarshalFeature(data)
					if err != nil {
						e["err"] = err.Error()
						return
					}
					e["dec"] = featModel(in, df)
					again, _ := df.MarshalJSON()
					if bytes.Equal(again, data) {
						e["same"] = 1
					}
					bdata, err := bson.Marshal(f)
					if err != nil {
						e["err"] = "bson: " + err.Error()
						return
					}
					bf := &geojson.Feature{}
					if err := bson.Unmarshal(bdata, bf); err != nil {
						e["err"] = "bson: " + err.Error()
						return
					}
					e["decb"] = featModel(in, bf)
					// what was decoded is the caller's: once it has been looked at, properties are written into it (whatever it
					// had or lacked) - no later decode shows them
					defer func() {
						for _, x := range []*geojson.Feature{df, bf} {
							if x.Properties == nil {
								x.Properties = geojson.Properties{}
							}
							x.Properties["scribbled by the caller"] = true
						}
					}()
					// an integer id is still that integer after BSON (which has integer types)
					if want, isInt := f.ID.(int); isInt {
						e["idb"] = 0
						switch got := bf.ID.(type) {
						case int32:
							e["idb"] = b2i(int(got) == want)
						case int64:
							e["idb"] = b2i(int(got) == want)
						case int:
							e["idb"] = b2i(got == want)
						}
					}
					if err := json.Unmarshal(data, reF); err != nil {
						e["err"] = "reused value: " + err.Error()
						return
					}
					e["re"] = featModel(in, reF)
					// the value decoded for the previous feature event was kept (by value, as a decoding loop appending *f does):
					// decoding the next document into the same variable must leave it alone
					if prevKeptText != "" && fmt.Sprint(featModel(keptIn, &prevKept)) != prevKeptText {
						e["kept"] = 0
					}
					prevKept = *reF
					prevKeptText = fmt.Sprint(featModel(keptIn, &prevKept))
					// marshalling does not change its input
					if fmt.Sprint(featModel(in, f)) != fmt.Sprint(fm) {
						e["insame"] = 0
					}
					if err := bson.Unmarshal(bdata, reFb); err != nil {
						e["err"] = "bson, reused value: " + err.Error()
						return
					}
					e["reb"] = featModel(in, reFb)
					viaStd, _ := json.Marshal(f)
					viaVal, _ := json.Marshal(*f) // by value
					valF := &geojson.Feature{}
					vb, verr := bson.Marshal(*f)
					if verr == nil {
						verr = bson.Unmarshal(vb, valF)
					}
					if bytes.Equal(viaStd, data) && bytes.Equal(viaVal, data) && verr == nil && fmt.Sprint(featModel(in, valF)) == fmt.Sprint(featModel(in, bf)) {
						e["routes"] = 1
					}
					hold(again, viaStd, viaVal)
				})
				if site != "" {
					c.emit(panicEvent("geojson.Feature", site, fm))
					continue
				}
				for _, k := range []string{"doc", "dec", "decb", "re", "reb"} {
					if _, ok := e[k]; !ok {
						e[k] = dNull()
					}
				}
				c.emit(e)
			default: // feature collection with foreign members
				fc := geojson.NewFeatureCollection()
				for j := 0; j < c.rng.Intn(4); j++ {
					fc.Append(c02Feature(c))
				}
				if c.rng.Intn(3) == 0 {
					fc.BBox = geojson.BBox{1, 2, wktFloat(c), 4}
				}
				if c.rng.Intn(2) == 0 {
					fc.ExtraMembers = map[string]interface{}{}
					// (also an empty, non-nil map; and names that mean something elsewhere: in a feature, in a geometry, to a
					// document store)
					names := []string{"title", "Type", "crs", "Features", "x", "v1.2", "v1\uff0e2", "a$b", "\u4fa1\u683c\uff04", "\uff04",
						"_id", "id", "geometry", "properties", "coordinates", "geometries", "$ref", "_"}
					for j := 0; j < c.rng.Intn(3); j++ {
						fc.ExtraMembers[names[c.rng.Intn(len(names))]] = c02Value(c, 1)
					}
				}
				model := func(x *geojson.FeatureCollection) jdoc {
					feats := []interface{}{}
					for _, f := range x.Features {
						feats = append(feats, featModel(in, f))
					}
					bbox := []int{}
					for _, v := range x.BBox {
						bbox = append(bbox, in.id(v))
					}
					keys := make([]string, 0, len(x.ExtraMembers))
					for k := range x.ExtraMembers {
						keys = append(keys, k)
					}
					sort.Strings(keys)
					extra := map[string]interface{}{}
					for _, k := range keys {
						extra[k] = docOf(in, x.ExtraMembers[k])
					}
					var ex interface{} = extra
					if len(extra) == 0 {
						ex = []interface{}{}
					}
					return jdoc{"feats": feats, "bbox": bbox, "extra": ex}
				}
				m := model(fc)
				e := jdoc{"k": "fc", "fc": m, "err": "", "same": 0, "nt": 1, "routes": 0, "stable": st, "insame": 1}
				setCurrent("geojson.FeatureCollection", m)
				site := guard(func() {
					data, err := fc.MarshalJSON()
					hold(data)
					if err != nil {
						e["err"] = err.Error()
						return
					}
					doc, perr := parseJSONDoc(in, data)
					if perr != nil {
						e["err"] = "produced invalid JSON: " + perr.Error()
						return
					}
					e["doc"] = doc
					dfc, err := geojson.UnmarshalFeatureCollection(data)
					if err != nil {
						e["err"] = err.Error()
						return
					}
					e["dec"] = model(dfc)
					again, _ := dfc.MarshalJSON()
					if bytes.Equal(again, data) {
						e["same"] = 1
					}
					bdata, err := bson.Marshal(fc)
					if err != nil {
						e["err"] = "bson: " + err.Error()
						return
					}
					bfc := &geojson.FeatureCollection{}
					if err := bson.Unmarshal(bdata, bfc); err != nil {
						e["err"] = "bson: " + err.Error()
						return
					}
					e["decb"] = model(bfc)
					if err := json.Unmarshal(data, reFC); err != nil {
						e["err"] = "reused value: " + err.Error()
						return
					}
					e["re"] = model(reFC)
					if fmt.Sprint(model(fc)) != fmt.Sprint(m) { // marshalling (JSON and BSON) left the collection, and its foreign members, as they were
						e["insame"] = 0
					}
					if err := bson.Unmarshal(bdata, reFCb); err != nil {
						e["err"] = "bson, reused value: " + err.Error()
						return
					}
					e["reb"] = model(reFCb)
					viaStd, _ := json.Marshal(fc)
					// ... and the collection handed over by value (not through a pointer), to both encoders
					viaVal, _ := json.Marshal(*fc)
					valFC := geojson.NewFeatureCollection()
					vb, verr := bson.Marshal(*fc)
					if verr == nil {
						verr = bson.Unmarshal(vb, valFC)
					}
					if bytes.Equal(viaStd, data) && bytes.Equal(viaVal, data) && verr == nil && fmt.Sprint(model(valFC)) == fmt.Sprint(model(bfc)) {
						e["routes"] = 1
					}
					hold(again, viaStd, viaVal)
				})
				if site != "" {
					c.emit(panicEvent("geojson.FeatureCollection", site, m))
					continue
				}
				for _, k := range []string{"doc", "dec", "decb", "re", "reb"} {
					if _, ok := e[k]; !ok {
						e[k] = dNull()
					}
				}
				c.emit(e)
			}
		}
		geojson.CustomJSONMarshaler, geojson.CustomJSONUnmarshaler = nil, nil
		// integer feature ids through BSON, which has integer types: the same integer comes back, also beyond 2^53
		// (JSON numbers decode to float64, so such ids are outside the JSON half of the statement)
		for i := 0; i < c.pick(200, 2000); i++ {
			id := []int{1<<53 + 1, 1<<62 + 3, -(1<<53 + 5), 1<<53 - 1, 1 << 31, -(1 << 31) - 1, 7, 0, -1}[c.rng.Intn(9)] + c.rng.Intn(3)
			f := geojson.NewFeature(orb.Point{1, 2})
			f.ID = id
			e := jdoc{"k": "bsonid", "idb": 0, "infc": i % 2, "nt": 1}
			setCurrent("geojson BSON id", id)
			site := guard(func() {
				var got interface{}
				if i%2 == 0 {
					b, err := bson.Marshal(f)
					bf := &geojson.Feature{}
					if err != nil || bson.Unmarshal(b, bf) != nil {
						return
					}
					got = bf.ID
				} else {
					fc := geojson.NewFeatureCollection()
					fc.Append(f)
					b, err := bson.Marshal(fc)
					bfc := &geojson.FeatureCollection{}
					if err != nil || bson.Unmarshal(b, bfc) != nil || len(bfc.Features) != 1 {
						return
					}
					got = bfc.Features[0].ID
				}
				switch v := got.(type) {
				case int32:
					e["idb"] = b2i(int(v) == id)
				case int64:
					e["idb"] = b2i(int(v) == id)
				case int:
					e["idb"] = b2i(v == id)
				}
			})
			if site != "" {
				c.emit(panicEvent("geojson BSON id", site, id))
				continue
			}
			c.emit(e)
		}
	})
}
