package main

import (
	"encoding/json"
	"fmt"
	"sort"

	"github.com/paulmach/orb"
	"github.com/paulmach/orb/clip"
	"github.com/paulmach/orb/encoding/mvt"
	"github.com/paulmach/orb/geojson"
	"github.com/paulmach/orb/planar"
	"github.com/paulmach/orb/simplify"
)

// The mvt.Layer pipeline: Clip, Simplify, RemoveEmpty over Layers. See spec/MvtLayer.tla, spec/MvtLayer_Trace.tla.
// One event = one layer before and after one operation; what the per-geometry function returns for each
// feature's geometry is obtained by calling it directly on a copy.

type layerGeoms struct{ ids map[string]int }

func (lg *layerGeoms) id(g orb.Geometry) int {
	if g == nil {
		return 0
	}
	k := fmt.Sprintf("%T%v", g, g)
	if id, ok := lg.ids[k]; ok {
		return id
	}
	id := len(lg.ids) + 1
	lg.ids[k] = id
	return id
}

var x01Box = orb.Bound{Min: orb.Point{0, 0}, Max: orb.Point{10, 10}}

// x01Geom: a geometry of a given class for an operation. class 0: the operation removes the feature,
// 1: leaves the geometry as it is, 2: changes it.
func x01Geom(c *ctx, op string, class int) orb.Geometry {
	r := func(n int) float64 { return float64(c.rng.Intn(n)) }
	switch op {
	case "clip":
		switch class {
		case 0:
			switch c.rng.Intn(4) {
			case 0:
				return orb.Point{20 + r(5), r(10)}
			case 1:
				return orb.LineString{{12, 1 + r(3)}, {15, 5}, {13, 9}}
			case 2:
				return orb.Polygon{{{-5, -5}, {-1, -5}, {-1, -1 - r(3)}, {-5, -5}}}
			}
			return orb.MultiPoint{{-1, 3}, {11, r(9)}}
		case 1:
			switch c.rng.Intn(4) {
			case 0:
				return orb.Point{1 + r(8), 1 + r(8)}
			case 1:
				return orb.LineString{{1, 1 + r(8)}, {5, 5}, {9, 1 + r(8)}}
			case 2:
				return orb.Polygon{{{2, 2}, {8, 2}, {8, 3 + r(5)}, {2, 2}}}
			}
			return orb.MultiLineString{{{1, 1}, {2, 2 + r(5)}}, {{3, 3}, {4, 8}}}
		default:
			switch c.rng.Intn(4) {
			case 0:
				return orb.LineString{{5, 1 + r(8)}, {15, 1 + r(8)}}
			case 1:
				return orb.Polygon{{{5, 2}, {15, 2}, {15, 4 + r(4)}, {5, 4}, {5, 2}}}
			case 2:
				return orb.MultiPoint{{1 + r(8), 5}, {12, 5}}
			}
			return orb.Collection{orb.Point{3, 3}, orb.LineString{{-5, 5}, {5, 5 + r(4)}}}
		}
	case "simplify":
		switch class {
		case 0:
			return nil
		case 1:
			switch c.rng.Intn(3) {
			case 0:
				return orb.Point{r(10), r(10)}
			case 1:
				return orb.LineString{{0, 0}, {10, r(10)}}
			}
			return orb.LineString{{0, 0}, {5, 5 + r(4)}, {10, 0}}
		default:
			if c.rng.Intn(2) == 0 {
				return orb.LineString{{0, 0}, {1 + r(8), 0}, {10, 0}}
			}
			return orb.MultiLineString{{{0, 0}, {5, 0.1}, {10, 0}}, {{0, 5}, {10, 5 + r(3)}}}
		}
	default: // removeempty with limits 5 (length) and 9 (area)
		switch class {
		case 0:
			switch c.rng.Intn(4) {
			case 0:
				return nil
			case 1:
				return orb.LineString{{0, 0}, {1 + r(3), 0}}
			case 2:
				return orb.Polygon{{{0, 0}, {2, 0}, {2, 1 + r(3)}, {0, 0}}}
			}
			return orb.MultiLineString{{{0, 0}, {1, 0}}, {{5, 5}, {5, 6 + r(2)}}}
		default:
			switch c.rng.Intn(5) {
			case 0:
				return orb.Point{r(10), r(10)}
			case 1:
				return orb.LineString{{0, 0}, {5 + r(3), 0}} // length = the limit when r = 0
			case 2:
				return orb.Polygon{{{0, 0}, {6, 0}, {6, 3 + r(3)}, {0, 0}}} // area = the limit when r = 0
			case 3:
				return orb.MultiPoint{}
			}
			return orb.Ring{{0, 0}, {9, 0}, {9, 9}, {0, 0}}
		}
	}
}

type x01Feat struct {
	Tag int `json:"tag"`
	G   int `json:"g"`
	Dim int `json:"dim"`
	Big int `json:"big"`
}

// x01Run applies op to the layers (through Layers or through each Layer) and emits one event per layer.
func x01Run(c *ctx, op string, classes [][]int, viaLayers bool) {
	if op == "removeempty" { // two classes only: removed or kept as it is
		for _, cl := range classes {
			for j := range cl {
				if cl[j] == 2 {
					cl[j] = 1
				}
			}
		}
	}
	lg := &layerGeoms{ids: map[string]int{}}
	var layers mvt.Layers
	var before [][]x01Feat
	var want [][]int
	tags := map[*geojson.Feature]int{}
	simp := simplify.DouglasPeucker(0.5)
	var lastF *geojson.Feature
	var lastX x01Feat
	var lastW, lastK int
	for li, cl := range classes {
		// (the extent of a layer says in which units its coordinates are; the box handed to Clip is in those units already)
		l := &mvt.Layer{Name: fmt.Sprintf("l%d", li), Version: 2, Extent: []uint32{4096, 4096, 512, 2048, 8192, 256}[c.rng.Intn(6)]}
		var bf []x01Feat
		var w []int
		if op == "clip" && lastF != nil && c.rng.Intn(3) == 0 {
			// the last feature of the layer before is a feature of this layer too (one object in two layers): each layer is
			// processed for itself
			l.Features = append(l.Features, lastF)
			bf, w = append(bf, lastX), append(w, lastW)
			classes[li] = append([]int{lastK}, cl...)
		}
		for _, k := range cl {
			g := x01Geom(c, op, k)
			f := geojson.NewFeature(g)
			f.ID = len(tags) + 1
			if c.rng.Intn(3) == 0 { // a bbox member that says nothing true about the geometry (stale, or in other units)
				f.BBox = geojson.BBox{1, 1, 2, 2}
			}
			tags[f] = len(tags) + 1
			l.Features = append(l.Features, f)
			x := x01Feat{Tag: tags[f], G: lg.id(g), Dim: -1}
			var res orb.Geometry
			if g != nil {
				x.Dim = g.Dimensions()
			}
			switch op {
			case "clip":
				res = clip.Geometry(x01Box, orb.Clone(g))
			case "simplify":
				res = simp.Simplify(orb.Clone(g))
			default:
				res = g
				if g != nil && ((x.Dim == 1 && planar.Length(g) >= 5) || (x.Dim == 2 && planar.Area(g) >= 9)) {
					x.Big = 1
				}
			}
			bf = append(bf, x)
			w = append(w, lg.id(res))
			lastF, lastX, lastW, lastK = f, x, lg.id(res), k
		}
		layers = append(layers, l)
		before = append(before, bf)
		want = append(want, w)
	}
	setCurrent("mvt.Layer."+op, classes)
	site := guard(func() {
		switch {
		case op == "clip" && viaLayers:
			layers.Clip(x01Box)
		case op == "clip":
			for _, l := range layers {
				l.Clip(x01Box)
			}
		case op == "simplify" && viaLayers:
			layers.Simplify(simp)
		case op == "simplify":
			for _, l := range layers {
				l.Simplify(simp)
			}
		case viaLayers:
			layers.RemoveEmpty(5, 9)
		default:
			for _, l := range layers {
				l.RemoveEmpty(5, 9)
			}
		}
	})
	if site != "" {
		c.emit(panicEvent("mvt.Layer."+op, site, classes))
		return
	}
	for li, l := range layers {
		out := []x01Feat{}
		for _, f := range l.Features {
			out = append(out, x01Feat{Tag: tags[f], G: lg.id(f.Geometry)})
		}
		if before[li] == nil {
			before[li], want[li] = []x01Feat{}, []int{}
		}
		c.emit(map[string]interface{}{"k": "layer", "op": op, "cls": classes[li], "feats": before[li], "want": want[li], "out": out, "nt": 1})
	}
}

func x01Family(ops []string) func(c *ctx) {
	return func(c *ctx) {
		// (R) every result vector of the bounded model, as a layer on its own and as the middle one of three
		var raws []string
		readCases(c.cases, func(raw json.RawMessage) { raws = append(raws, string(raw)) })
		sort.Strings(raws)
		for i, raw := range raws {
			var cs struct {
				R []int `json:"r"`
			}
			if err := json.Unmarshal([]byte(raw), &cs); err != nil {
				fatal(err)
			}
			for _, op := range ops {
				cl := append([]int{}, cs.R...)
				if op == "removeempty" {
					for j := range cl {
						if cl[j] == 2 {
							cl[j] = 1
						}
					}
				}
				x01Run(c, op, [][]int{cl}, i%2 == 0)
				x01Run(c, op, [][]int{{1, 0}, cl, {0, 2 - (i % 2)}}, i%2 == 1)
			}
		}
		// (T) seeded longer layers
		n := c.pick(300, 6000)
		for i := 0; i < n; i++ {
			var classes [][]int
			for l := 0; l < 1+c.rng.Intn(3); l++ {
				var cl []int
				for j := 0; j < c.rng.Intn(12); j++ {
					cl = append(cl, c.rng.Intn(3))
				}
				classes = append(classes, cl)
			}
			op := ops[c.rng.Intn(len(ops))]
			if op == "removeempty" {
				for _, cl := range classes {
					for j := range cl {
						cl[j] %= 2
					}
				}
			}
			x01Run(c, op, classes, c.rng.Intn(2) == 0)
		}
	}
}

// x01Pipeline applies a random sequence of operations to the same layers; one event per layer and step, in one
// shard, preceded by a "reset". The trace spec carries each layer's feature list from step to step.
func x01Pipeline(c *ctx, idx int) {
	shard := idx % c.shards
	lg := &layerGeoms{ids: map[string]int{}}
	tags := map[*geojson.Feature]int{}
	simp := simplify.DouglasPeucker(0.5)
	var layers mvt.Layers
	for li := 0; li < 1+c.rng.Intn(3); li++ {
		l := &mvt.Layer{Name: fmt.Sprintf("l%d", li), Version: 2, Extent: []uint32{4096, 512, 8192}[c.rng.Intn(3)]}
		for j := 0; j < c.rng.Intn(9); j++ {
			op := []string{"clip", "simplify", "removeempty"}[c.rng.Intn(3)]
			f := geojson.NewFeature(x01Geom(c, op, c.rng.Intn(3)%(map[string]int{"clip": 3, "simplify": 3, "removeempty": 2}[op])))
			tags[f] = len(tags) + 1
			l.Features = append(l.Features, f)
		}
		layers = append(layers, l)
	}
	c.emitTo(shard, map[string]interface{}{"k": "pipe", "op": "reset"})
	for step := 0; step < 2+c.rng.Intn(4); step++ {
		op := []string{"clip", "simplify", "removeempty"}[c.rng.Intn(3)]
		var before [][]x01Feat
		var want [][]int
		for _, l := range layers {
			bf, w := []x01Feat{}, []int{}
			for _, f := range l.Features {
				g := f.Geometry
				x := x01Feat{Tag: tags[f], G: lg.id(g), Dim: -1}
				if g != nil {
					x.Dim = g.Dimensions()
				}
				var res orb.Geometry
				switch op {
				case "clip":
					res = clip.Geometry(x01Box, orb.Clone(g))
				case "simplify":
					res = simp.Simplify(orb.Clone(g))
				default:
					res = g
					if g != nil && ((x.Dim == 1 && planar.Length(g) >= 5) || (x.Dim == 2 && planar.Area(g) >= 9)) {
						x.Big = 1
					}
				}
				bf = append(bf, x)
				w = append(w, lg.id(res))
			}
			before, want = append(before, bf), append(want, w)
		}
		setCurrent("mvt.Layers."+op+" (pipeline)", step)
		site := guard(func() {
			switch op {
			case "clip":
				layers.Clip(x01Box)
			case "simplify":
				layers.Simplify(simp)
			default:
				layers.RemoveEmpty(5, 9)
			}
		})
		if site != "" {
			c.emitTo(shard, panicEvent("mvt.Layers."+op, site, step))
			return
		}
		for li, l := range layers {
			out := []x01Feat{}
			for _, f := range l.Features {
				out = append(out, x01Feat{Tag: tags[f], G: lg.id(f.Geometry)})
			}
			c.emitTo(shard, map[string]interface{}{"k": "pipe", "op": op, "fn": "pipeline " + op, "layer": li + 1, "step": step, "feats": before[li], "want": want[li], "out": out, "nt": 1})
		}
	}
}

func init() {
	register("mvtpipeline", func(c *ctx) {
		for i := 0; i < c.pick(800, 16000); i++ {
			x01Pipeline(c, i)
		}
	})
	register("mvtlayerclip", x01Family([]string{"clip"}))
	register("mvtlayer", x01Family([]string{"clip", "simplify", "removeempty"}))
}
