package main

import (
	"encoding/json"
	"sort"

	"github.com/paulmach/orb"
)

// Extended coverage X06: kind tables and bound accessors. See spec/CoreAccessors_Trace.tla.

func init() {
	register("accessors", func(c *ctx) {
		// (R) the bounded shape set: Dimensions and GeoJSONType of every shape
		var cases []string
		readCases(c.cases, func(raw json.RawMessage) { cases = append(cases, string(raw)) })
		sort.Strings(cases)
		for _, raw := range cases {
			var cs struct {
				G json.RawMessage `json:"g"`
			}
			if err := json.Unmarshal([]byte(raw), &cs); err != nil {
				fatal(err)
			}
			g := decodeGeomJSON(cs.G, func(id int) float64 { return float64(id - 1) })
			if g == nil {
				continue
			}
			gm, _ := encGeom(g, intFn)
			e := map[string]interface{}{"k": "kinds", "g": gm, "nt": 1}
			setCurrent("Dimensions", gm)
			if site := guard(func() { e["dim"], e["type"] = g.Dimensions(), g.GeoJSONType() }); site != "" {
				c.emit(panicEvent("Dimensions/GeoJSONType", site, gm))
				continue
			}
			c.emit(e)
		}
		// (T) bounds, well-formed or not
		iv := func() int { return c.rng.Intn(21) - 10 }
		pt := func(p orb.Point) [2]int { return [2]int{int(p[0]), int(p[1])} }
		for i := 0; i < c.pick(3000, 60000); i++ {
			b := [4]int{iv(), iv(), iv(), iv()}
			o := [4]int{iv(), iv(), iv(), iv()}
			switch c.rng.Intn(6) {
			case 0:
				b = [4]int{0, 0, 0, 0}
			case 1:
				o = b
			}
			d := c.rng.Intn(9) - 4
			bb := orb.Bound{Min: orb.Point{float64(b[0]), float64(b[1])}, Max: orb.Point{float64(b[2]), float64(b[3])}}
			ob := orb.Bound{Min: orb.Point{float64(o[0]), float64(o[1])}, Max: orb.Point{float64(o[2]), float64(o[3])}}
			e := map[string]interface{}{"k": "bacc", "b": b, "other": o, "d": d, "nt": 1}
			setCurrent("Bound accessors", e)
			site := guard(func() {
				p := bb.Pad(float64(d))
				e["pad"] = [4]int{int(p.Min[0]), int(p.Min[1]), int(p.Max[0]), int(p.Max[1])}
				ce := bb.Center()
				e["center2"] = [2]int{int(2 * ce[0]), int(2 * ce[1])}
				e["top"], e["bottom"], e["left"], e["right"] = int(bb.Top()), int(bb.Bottom()), int(bb.Left()), int(bb.Right())
				e["lefttop"], e["rightbottom"] = pt(bb.LeftTop()), pt(bb.RightBottom())
				e["empty"], e["zero"], e["eq"] = 0, 0, 0
				if bb.IsEmpty() {
					e["empty"] = 1
				}
				if bb.IsZero() {
					e["zero"] = 1
				}
				if bb.Equal(ob) {
					e["eq"] = 1
				}
				ring := [][2]int{}
				for _, q := range bb.ToRing() {
					ring = append(ring, pt(q))
				}
				e["ring"] = ring
				poly := [][][2]int{}
				for _, r := range bb.ToPolygon() {
					rr := [][2]int{}
					for _, q := range r {
						rr = append(rr, pt(q))
					}
					poly = append(poly, rr)
				}
				e["polygon"] = poly
				s := bb.Bound()
				e["self"] = [4]int{int(s.Min[0]), int(s.Min[1]), int(s.Max[0]), int(s.Max[1])}
			})
			if site != "" {
				c.emit(panicEvent("Bound accessors", site, e))
				continue
			}
			c.emit(e)
		}
	})
}
