package main

import (
	"encoding/json"

	"github.com/paulmach/orb"
	"github.com/paulmach/orb/clip/smartclip"
)

// Extended coverage X08: smartWrap against the state machine of spec/SmartWrap.tla. TLC emits every valid
// configuration of pieces on an outline of 4K slots; each is built as real rings (the pieces as chords of the box,
// joined outside the box along the outline the way the spec's cycles say), clipped by the real code, and the
// pieces found in each result polygon - in order - are what TLC compares with the cycles of the spec.

const x08U = 120 // lattice units between slots (lattice 1/60)

type x08Geom struct {
	K, W, H int // slots per side; width and height of the box (different, and such that no slot is a side's midpoint)
}

// slot: the point of position t (left side downwards, bottom rightwards, right side upwards, top leftwards)
func (g x08Geom) slot(t int) [2]int {
	side, j := t/g.K, t%g.K
	d := (j + 1) * x08U
	switch side {
	case 0:
		return [2]int{0, g.H - d}
	case 1:
		return [2]int{d, 0}
	case 2:
		return [2]int{g.W, d}
	}
	return [2]int{g.W - d, g.H}
}

func (g x08Geom) normal(t int) [2]int { // outward
	return [][2]int{{-1, 0}, {0, -1}, {1, 0}, {0, 1}}[t/g.K]
}

// mid: the one inner vertex of a piece - the middle of the chord, pushed into the box when both ends are on one side
func (g x08Geom) mid(s, e int) [2]int {
	a, b := g.slot(s), g.slot(e)
	m := [2]int{(a[0] + b[0]) / 2, (a[1] + b[1]) / 2}
	if s/g.K == e/g.K {
		n := g.normal(s)
		span := s - e
		if span < 0 {
			span = -span
		}
		m[0] -= n[0] * 12 * span
		m[1] -= n[1] * 12 * span
	}
	return m
}

// arc: from the end position te outwards, along the outline at distance d outside the box to the start position ts
func (g x08Geom) arc(te, ts int) [][2]int {
	const d = 60
	out := func(t int) [2]int {
		p, n := g.slot(t), g.normal(t)
		return [2]int{p[0] + n[0]*d, p[1] + n[1]*d}
	}
	corner := func(side int) [2]int { // the corner passed after that side
		return [][2]int{{-d, -d}, {g.W + d, -d}, {g.W + d, g.H + d}, {-d, g.H + d}}[side]
	}
	path := [][2]int{out(te)}
	side := te / g.K
	if !(ts/g.K == side && ts > te) {
		for {
			path = append(path, corner(side))
			side = (side + 1) % 4
			if side == ts/g.K {
				break
			}
		}
	}
	return append(path, out(ts))
}

func init() {
	register("smartwrap", func(c *ctx) {
		readCases(c.cases, func(raw json.RawMessage) {
			var cs struct {
				P      int      `json:"p"`
				Pieces [][2]int `json:"pieces"`
				Cycles [][]int  `json:"cycles"`
			}
			if err := json.Unmarshal(raw, &cs); err != nil {
				fatal(err)
			}
			g := x08Geom{K: cs.P / 4}
			g.W = (g.K+1)*x08U + x08U/2 // the side midpoints fall between slots
			g.H = g.W + x08U
			for _, o := range []int{1, -1} {
				// the rings, one per cycle of the spec; ring order and each ring's first piece vary
				cycles := append([][]int{}, cs.Cycles...)
				c.rng.Shuffle(len(cycles), func(a, b int) { cycles[a], cycles[b] = cycles[b], cycles[a] })
				const off = 240
				place := func(p [2]int) [2]int {
					if o < 0 {
						p[0] = g.W - p[0] // mirrored: the same figure wound clockwise
					}
					return [2]int{p[0] + off, p[1] + off}
				}
				var in [][][][2]int
				// what a result vertex is: a piece's inner vertex (its number), a corner of the box (-1 .. -4 in the order the
				// outline passes them), the midpoint of a side (-5 .. -8), or a piece's end on the outline (99: not listed)
				tokens := map[[2]int]int{}
				for ci, cn := range [][2]int{{0, 0}, {g.W, 0}, {g.W, g.H}, {0, g.H}} {
					tokens[place(cn)] = -(ci + 1)
				}
				for si, sm := range [][2]int{{0, g.H / 2}, {g.W / 2, 0}, {g.W, g.H / 2}, {g.W / 2, g.H}} { // side midpoints
					tokens[place(sm)] = -(5 + si)
				}
				for _, cyc := range cycles {
					r := c.rng.Intn(len(cyc))
					cyc = append(append([]int{}, cyc[r:]...), cyc[:r]...)
					var ring [][2]int
					for k, p := range cyc { // 1-based piece numbers
						s, e := cs.Pieces[p-1][0], cs.Pieces[p-1][1]
						m := place(g.mid(s, e))
						tokens[m] = p
						tokens[place(g.slot(s))], tokens[place(g.slot(e))] = 99, 99
						ring = append(ring, place(g.slot(s)), m, place(g.slot(e)))
						next := cs.Pieces[cyc[(k+1)%len(cyc)]-1][0]
						for _, q := range g.arc(e, next) {
							ring = append(ring, place(q))
						}
					}
					ring = append(ring, ring[0])
					in = append(in, [][][2]int{ring})
				}
				box := [4]int{off, off, off + g.W, off + g.H}
				fn := []string{"MultiPolygon", "Geometry"}[c.rng.Intn(2)]
				if len(in) == 1 {
					fn = []string{"Ring", "Polygon", "Geometry", "MultiPolygon"}[c.rng.Intn(4)]
				}
				e := map[string]interface{}{"k": "sw", "fn": fn, "p": cs.P, "pieces": cs.Pieces, "o": o, "nt": 1}
				setCurrent("smartclip."+fn+"(pieces)", e)
				s := float64(c16S)
				b, mp := toBound(box, s), mpOf(in, s)
				oo := orb.CCW
				if o < 0 {
					oo = orb.CW
				}
				var out orb.MultiPolygon
				site := guard(func() {
					switch fn {
					case "Ring":
						out = smartclip.Ring(b, mp[0][0], oo)
					case "Polygon":
						out = smartclip.Polygon(b, mp[0], oo)
					case "MultiPolygon":
						out = smartclip.MultiPolygon(b, mp, oo)
					default:
						var arg orb.Geometry = mp
						if len(mp) == 1 {
							arg = mp[0]
						}
						switch v := smartclip.Geometry(b, arg, oo).(type) {
						case orb.Polygon:
							out = orb.MultiPolygon{v}
						case orb.MultiPolygon:
							out = v
						}
					}
				})
				if site != "" {
					c.emit(panicEvent("smartclip."+fn+"(pieces)", site, e))
					continue
				}
				q, ok := quantMP(out, s)
				if !ok {
					c.emit(map[string]interface{}{"k": "offlattice", "fn": "smartclip." + fn, "in": e})
					continue
				}
				// the pieces met along each result polygon's outer ring, in order; shape flags
				groups := [][]int{}
				shape := 1
				for _, poly := range q {
					if len(poly) != 1 || len(poly[0]) < 4 || poly[0][0] != poly[0][len(poly[0])-1] {
						shape = 0
						continue
					}
					grp := []int{}
					for _, v := range poly[0][:len(poly[0])-1] {
						if tok, ok := tokens[v]; ok {
							if tok != 99 {
								grp = append(grp, tok)
							}
						} else {
							grp = append(grp, 0) // a vertex that is neither a piece's nor a corner
						}
						if v[0] < box[0] || v[0] > box[2] || v[1] < box[1] || v[1] > box[3] {
							shape = 0
						}
					}
					if (shoelace2(poly[0]) > 0) != (o > 0) {
						shape = 0
					}
					groups = append(groups, grp)
				}
				e["groups"], e["shape"] = groups, shape
				c.emit(e)
			}
		})
	})
}
