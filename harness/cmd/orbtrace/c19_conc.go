package main

import (
	"encoding/json"
	"fmt"
	"sort"
	"sync"

	"github.com/paulmach/orb"
	"github.com/paulmach/orb/quadtree"
)

// C19: concurrent read-only queries.
//  qtsched  (R) replays TLC-generated interleavings: one goroutine per query, each node visit gated
//           through the caller-supplied FilterFunc of the *Matching entry points.
//  qtrace   (T) free-running goroutines (the binary is built with -race by the driver).
// Both emit QuadtreeList_Trace events: the tree is built with observed add/rmid events, then one
// "query" event per goroutine carries its results, the same queries run alone, and the node walk
// before and after.

type qtQueryEv struct {
	qtEv
	AFinds [][]int  `json:"afinds"`
	AKNN   [][]int  `json:"aknn"`
	AInb   [][]int  `json:"ainb"`
	Nodes0 [][7]int `json:"nodes0"`
	Sched  []int    `json:"sched"`
}

func qtWalk(q *quadtree.Quadtree) [][7]int {
	e := qtEv{}
	qtObserve(q, &e, &qtQueries{noQuery: true}, false)
	return e.Nodes
}

// qtBuild builds a tree by adds then removals-by-id, emitting the observed events to the shard.
func qtBuild(c *ctx, shard int, bndLo, bndHi int, pts [][2]int, rem []int) (*quadtree.Quadtree, map[int]*qtPtr, bool) {
	bnd := [4]int{bndLo, bndLo, bndHi, bndHi}
	q := quadtree.New(orb.Bound{Min: orb.Point{float64(bndLo), float64(bndLo)}, Max: orb.Point{float64(bndHi), float64(bndHi)}})
	ptrs := map[int]*qtPtr{}
	next := 1
	c.emitTo(shard, qtEv{K: "qt", Op: "reset", Items: [][3]int{}, Nodes: [][7]int{}, Finds: [][]int{}, KNN: [][]int{}, Inb: [][]int{}})
	step := func(op string, p [2]int, id int) bool {
		e, site := qtApply(q, ptrs, &next, bnd, op, p, id, nil)
		if site == "" {
			site = guard(func() { qtObserve(q, &e, &qtQueries{noQuery: true}, false) })
		}
		if site != "" {
			c.emitTo(shard, panicEvent("quadtree."+op, site, pts))
			return false
		}
		c.emitTo(shard, e)
		return true
	}
	for _, p := range pts {
		if !step("add", p, 0) {
			return nil, nil, false
		}
	}
	for _, id := range rem {
		if _, ok := ptrs[id]; ok {
			if !step("rmid", [2]int{}, id) {
				return nil, nil, false
			}
		}
	}
	return q, ptrs, true
}

var c19Side *quadtree.Quadtree
var c19SidePts []orb.Point
var c19SideAlone []string

func idsOf(res []orb.Pointer) []int {
	out := []int{}
	for _, x := range res {
		out = append(out, x.(*qtPtr).id)
	}
	return out
}

func init() {
	register("qtsched", func(c *ctx) {
		n := 0
		readCases(c.cases, func(raw json.RawMessage) {
			var cs struct {
				Sched []int    `json:"sched"`
				Pts   [][2]int `json:"pts"`
				Rem   []int    `json:"rem"`
				Qs    [][2]int `json:"qs"`
				Kinds []int    `json:"kinds"`
			}
			if err := json.Unmarshal(raw, &cs); err != nil {
				fatal(err)
			}
			shard := n % c.shards
			n++
			setCurrent("quadtree(scheduled)", cs)
			q, _, ok := qtBuild(c, shard, 0, 256, cs.Pts, cs.Rem)
			if !ok {
				return
			}
			np := len(cs.Qs)
			before := qtWalk(q)
			// gates: goroutine i blocks in its filter until the controller hands it a token
			token := make([]chan struct{}, np)
			yield := make(chan int)     // goroutine i reached a gate
			finish := make(chan int)    // goroutine i returned
			free := make(chan struct{}) // closed when the schedule is exhausted
			for i := range token {
				token[i] = make(chan struct{})
			}
			results := make([][]int, np)
			sites := make([]string, np)
			var wg sync.WaitGroup
			for i := 0; i < np; i++ {
				wg.Add(1)
				go func(i int) {
					defer wg.Done()
					gate := func(p orb.Pointer) bool {
						select {
						case <-free:
							return true
						default:
						}
						yield <- i
						select {
						case <-token[i]:
						case <-free:
						}
						return true
					}
					<-token[i]
					sites[i] = guard(func() {
						pt := orb.Point{float64(cs.Qs[i][0]), float64(cs.Qs[i][1])}
						if cs.Kinds[i] == 1 {
							if r := q.Matching(pt, gate); r != nil {
								results[i] = []int{r.(*qtPtr).id}
							} else {
								results[i] = []int{}
							}
						} else {
							results[i] = idsOf(q.KNearestMatching(nil, pt, cs.Kinds[i], gate))
						}
					})
					finish <- i
				}(i)
			}
			// controller
			state := make([]int, np) // 0 = waiting for its first token, 1 = at a gate, 2 = finished
			live := np
			run := func(i int) {
				token[i] <- struct{}{}
				select {
				case j := <-yield:
					state[j] = 1
				case j := <-finish:
					state[j] = 2
					live--
				}
			}
			for _, p := range cs.Sched {
				i := p - 1
				if i < 0 || i >= np || state[i] == 2 {
					continue
				}
				run(i)
			}
			// schedule exhausted: release everybody
			for i := 0; i < np; i++ {
				if state[i] == 0 {
					// never started: start it now; it will free-run once `free` is closed
					go func(i int) { token[i] <- struct{}{} }(i)
				}
			}
			close(free)
			for live > 0 {
				select {
				case <-yield:
				case <-finish:
					live--
				}
			}
			wg.Wait()
			for i := 0; i < np; i++ {
				if sites[i] != "" {
					c.emitTo(shard, panicEvent("quadtree(scheduled)", sites[i], cs))
					return
				}
			}
			// the same queries alone, and the tree afterwards
			e := qtQueryEv{Sched: cs.Sched, Nodes0: before}
			e.K, e.Op, e.Bnd = "qt", "query", [4]int{0, 0, 256, 256}
			qtObserve(q, &e.qtEv, &qtQueries{noQuery: true}, false)
			e.Finds, e.KNN, e.Inb, e.AFinds, e.AKNN, e.AInb = [][]int{}, [][]int{}, [][]int{}, [][]int{}, [][]int{}, [][]int{}
			for i := 0; i < np; i++ {
				pt := orb.Point{float64(cs.Qs[i][0]), float64(cs.Qs[i][1])}
				if cs.Kinds[i] == 1 {
					id := 0
					if len(results[i]) > 0 {
						id = results[i][0]
					}
					aid := 0
					if r := q.Find(pt); r != nil {
						aid = r.(*qtPtr).id
					}
					e.Finds = append(e.Finds, []int{cs.Qs[i][0], cs.Qs[i][1], 1, 0, id})
					e.AFinds = append(e.AFinds, []int{cs.Qs[i][0], cs.Qs[i][1], 1, 0, aid})
				} else {
					row := []int{cs.Qs[i][0], cs.Qs[i][1], cs.Kinds[i], 0, 1, 0}
					e.KNN = append(e.KNN, append(append([]int{}, row...), results[i]...))
					e.AKNN = append(e.AKNN, append(append([]int{}, row...), idsOf(q.KNearest(nil, pt, cs.Kinds[i]))...))
				}
			}
			e.NT = 1
			c.emitTo(shard, e)
		})
	})

	register("qtrace", func(c *ctx) {
		// the other tree: 400 points, asked for the 300 nearest from four places (answers taken now, alone)
		c19Side = quadtree.New(orb.Bound{Min: orb.Point{0, 0}, Max: orb.Point{1024, 1024}})
		for j := 0; j < 400; j++ {
			c19Side.Add(&qtPtr{id: 100000 + j, p: orb.Point{float64((j * 37) % 1024), float64((j * 101) % 1024)}})
		}
		c19SidePts = []orb.Point{{0, 0}, {512, 512}, {1000, 10}, {300, 900}}
		c19SideAlone = nil
		for _, sp := range c19SidePts {
			c19SideAlone = append(c19SideAlone, fmt.Sprint(idsOf(c19Side.KNearest(nil, sp, 300))))
		}
		ntrees := c.pick(24, 200)
		for t := 0; t < ntrees; t++ {
			shard := t % c.shards
			// a seeded tree with removals (emptied nodes stay behind)
			npts := 20 + c.rng.Intn(60)
			var pts [][2]int
			for i := 0; i < npts; i++ {
				p := [2]int{c.rng.Intn(1025), c.rng.Intn(1025)}
				if c.rng.Intn(5) == 0 {
					p[c.rng.Intn(2)] = 64 * c.rng.Intn(17)
				}
				pts = append(pts, p)
			}
			if t%4 == 2 { // a bigger tree that lost half of its points (dozens of emptied leaves stay behind)
				for i := 0; i < 150; i++ {
					pts = append(pts, [2]int{c.rng.Intn(1025), c.rng.Intn(1025)})
				}
				npts = len(pts)
			}
			var rem []int
			for i := 0; i < npts/3+(t%4/2)*npts/4; i++ {
				rem = append(rem, 1+c.rng.Intn(npts))
			}
			if t%6 == 5 { // a tree that was filled and then emptied completely (the nodes stay behind, without values)
				pts = pts[:3+c.rng.Intn(6)]
				npts = len(pts)
				rem = rem[:0]
				for i := 1; i <= npts; i++ {
					rem = append(rem, i)
				}
			}
			if t%12 == 9 { // a tree nothing was ever added to: the first thing that happens to it is being asked
				pts, npts, rem = nil, 0, nil
			}
			sort.Ints(rem)
			setCurrent("quadtree(concurrent)", pts)
			q, _, ok := qtBuild(c, shard, 0, 1024, pts, rem)
			if !ok {
				continue
			}
			before := qtWalk(q)
			ng := 2 + c.rng.Intn(31)
			type plan struct {
				qs *qtQueries
				ev qtEv
			}
			plans := make([]plan, ng)
			slots := make([]orb.Pointer, ng*4096) // one array of result slots, a region of it per goroutine
			for g := range plans {
				qs := &qtQueries{ks: [][]int{{1, 3, 8}, {1, 3, 8}, {1, 8, 300}}[g%3], mds: []int{0, 300, 5000}, filters: [][2]int{{1, 0}, {2, g % 2}}, rev: g%3 == 1} // some goroutines ask the filtered questions first
				for i := 0; i < 6; i++ {
					qs.pts = append(qs.pts, [2]int{c.rng.Intn(1025), c.rng.Intn(1025)})
				}
				for i := 0; i < 3; i++ {
					x0, y0 := c.rng.Intn(900), c.rng.Intn(900)
					qs.boxes = append(qs.boxes, [4]int{x0, y0, x0 + c.rng.Intn(400), y0 + c.rng.Intn(400)})
				}
				if t%2 == 0 {
					qs.region = slots[g*4096 : (g+1)*4096]
				}
				plans[g].qs = qs
			}
			hammerPts := make([]orb.Point, 600)
			hammerAlone := make([]int, len(hammerPts))
			for hi := range hammerPts {
				hammerPts[hi] = orb.Point{float64(c.rng.Intn(1025)), float64(c.rng.Intn(1025))}
				hammerAlone[hi] = qtID(q.Find(hammerPts[hi]))
			}
			hammerK2 := make([]string, len(hammerPts))
			for hi := range hammerPts {
				hammerK2[hi] = fmt.Sprint(idsOf(q.KNearest(nil, hammerPts[hi], 2)))
			}
			sites := make([]string, ng)
			var wg sync.WaitGroup
			start := make(chan struct{})
			for g := 0; g < ng; g++ {
				wg.Add(1)
				go func(g int) {
					defer wg.Done()
					<-start
					sites[g] = guard(func() {
						abortAndAsk := func(rep int) bool {
							func() {
								defer func() { recover() }()
								seen := 0
								q.KNearestMatching(nil, orb.Point{float64(100 * g), 512}, 5, func(orb.Pointer) bool {
									seen++
									if seen == 4 {
										panic("the caller's filter gives up")
									}
									return true
								})
							}()
							hi := (g*17 + rep*5) % len(hammerPts)
							return fmt.Sprint(idsOf(q.KNearest(nil, hammerPts[hi], 2))) == hammerK2[hi]
						}
						if g%3 == 0 {
							// a caller whose filter gives up half-way (it panics and recovers, as callers may): the queries that follow,
							// its own and everybody else's, are not affected by what that search left behind
							func() {
								defer func() { recover() }()
								seen := 0
								q.KNearestMatching(nil, orb.Point{float64(100 * g), 512}, 2, func(orb.Pointer) bool {
									seen++
									if seen == 3 {
										panic("the caller's filter gives up")
									}
									return true
								})
							}()
						}
						for rep := 0; rep < 3; rep++ { // repeat so that the goroutines overlap for a while
							var e qtEv
							askedRight := true
							for a := 0; a < 20; a++ { // (twenty times: a search given up, then an ordinary one - which must be ordinary)
								askedRight = abortAndAsk(rep*20+a) && askedRight
							}
							qtObserve(q, &e, plans[g].qs, g%2 == 0) // with and without per-goroutine buffers
							if !askedRight {
								e.Inb = append(e.Inb, []int{0, 0, 0, 0, 1, 0, -3}) // no model accepts this row
							}
							// ... and questions to ANOTHER pre-built tree in between (k = 300 of its 400 points): trees share nothing
							if g%2 == 1 {
								for si, sp := range c19SidePts {
									if fmt.Sprint(idsOf(c19Side.KNearest(nil, sp, 300))) != c19SideAlone[si] {
										e.Inb = append(e.Inb, []int{0, 0, 0, 0, 1, 0, -3}) // no model accepts this row
									}
								}
							}
							// ... and the plain nearest-point question, thousands of times over a few hundred places that all
							// goroutines share (answers taken before anybody started): nothing a reader keeps for itself may be
							// mistaken for another reader's
							if rep == 2 {
								for it := 0; it < 4000; it++ {
									hi := (g*131 + it*7) % len(hammerPts)
									if qtID(q.Find(hammerPts[hi])) != hammerAlone[hi] {
										e.Inb = append(e.Inb, []int{0, 0, 0, 0, 1, 0, -3}) // no model accepts this row
										break
									}
								}
							}
							plans[g].ev = e
						}
					})
				}(g)
			}
			close(start)
			wg.Wait()
			after := qtWalk(q)
			for g := 0; g < ng; g++ {
				if sites[g] != "" {
					c.emitTo(shard, panicEvent("quadtree(concurrent)", sites[g], pts))
					continue
				}
				var alone qtEv
				qtObserve(q, &alone, plans[g].qs, false)
				plans[g].ev.Items = alone.Items
				e := qtQueryEv{qtEv: plans[g].ev, AFinds: alone.Finds, AKNN: alone.KNN, AInb: alone.Inb, Nodes0: before, Sched: []int{ng}}
				e.K, e.Op, e.Bnd, e.NT = "qt", "query", [4]int{0, 0, 1024, 1024}, 1
				e.Nodes = after
				c.emitTo(shard, e)
			}
		}
	})
}
