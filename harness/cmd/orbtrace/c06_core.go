package main

import (
	"math"

	"unsafe"

	"github.com/paulmach/orb"
)

// C06: Clone / Equal / Bound / Bound methods / Reverse / Orientation. See spec/Core_Trace.tla.
// Coordinates are small integers, so the value itself is its id and its rank.

type vref struct {
	path []int
	p    *orb.Point
}

// vertexRefs returns a pointer to every vertex stored in a slice reachable from g, with its index path.
func vertexRefs(g orb.Geometry, prefix []int) []vref {
	var out []vref
	add := func(path []int, ps []orb.Point) {
		for i := range ps {
			out = append(out, vref{append(append([]int{}, path...), i+1), &ps[i]})
		}
	}
	switch v := g.(type) {
	case orb.MultiPoint:
		add(prefix, v)
	case orb.LineString:
		add(prefix, v)
	case orb.Ring:
		add(prefix, v)
	case orb.MultiLineString:
		for i := range v {
			add(append(append([]int{}, prefix...), i+1), v[i])
		}
	case orb.Polygon:
		for i := range v {
			add(append(append([]int{}, prefix...), i+1), v[i])
		}
	case orb.MultiPolygon:
		for i := range v {
			for j := range v[i] {
				add(append(append([]int{}, prefix...), i+1, j+1), v[i][j])
			}
		}
	case orb.Collection:
		for i := range v {
			out = append(out, vertexRefs(v[i], append(append([]int{}, prefix...), i+1))...)
		}
	}
	return out
}

// sliceAddrs interns the backing-array pointer of every non-empty slice reachable from g.
func sliceAddrs(g orb.Geometry, tab map[unsafe.Pointer]int) []int {
	var out []int
	id := func(p unsafe.Pointer) {
		if p == nil {
			return
		}
		if _, ok := tab[p]; !ok {
			tab[p] = len(tab) + 1
		}
		out = append(out, tab[p])
	}
	pts := func(ps []orb.Point) {
		if len(ps) > 0 {
			id(unsafe.Pointer(unsafe.SliceData(ps)))
		}
	}
	var walk func(g orb.Geometry)
	walk = func(g orb.Geometry) {
		switch v := g.(type) {
		case orb.MultiPoint:
			pts(v)
		case orb.LineString:
			pts(v)
		case orb.Ring:
			pts(v)
		case orb.MultiLineString:
			if len(v) > 0 {
				id(unsafe.Pointer(unsafe.SliceData(v)))
			}
			for _, l := range v {
				pts(l)
			}
		case orb.Polygon:
			if len(v) > 0 {
				id(unsafe.Pointer(unsafe.SliceData(v)))
			}
			for _, l := range v {
				pts(l)
			}
		case orb.MultiPolygon:
			if len(v) > 0 {
				id(unsafe.Pointer(unsafe.SliceData(v)))
			}
			for _, p := range v {
				if len(p) > 0 {
					id(unsafe.Pointer(unsafe.SliceData(p)))
				}
				for _, l := range p {
					pts(l)
				}
			}
		case orb.Collection:
			if len(v) > 0 {
				id(unsafe.Pointer(unsafe.SliceData(v)))
			}
			for _, m := range v {
				walk(m)
			}
		}
	}
	walk(g)
	if out == nil {
		out = []int{}
	}
	return out
}

func typedClone(g orb.Geometry) orb.Geometry {
	switch v := g.(type) {
	case orb.Point:
		return v
	case orb.MultiPoint:
		return v.Clone()
	case orb.LineString:
		return v.Clone()
	case orb.Ring:
		return v.Clone()
	case orb.MultiLineString:
		return v.Clone()
	case orb.Polygon:
		return v.Clone()
	case orb.MultiPolygon:
		return v.Clone()
	case orb.Collection:
		return v.Clone()
	case orb.Bound:
		return v
	}
	return nil
}

func boundEnc(b orb.Bound) []int {
	if b.IsEmpty() {
		return []int{}
	}
	return []int{int(c06Un(b.Min[0])), int(c06Un(b.Min[1])), int(c06Un(b.Max[0])), int(c06Un(b.Max[1]))}
}

// The box operations only compare coordinates, so they commute with any strictly increasing map of the coordinate
// axis. c06St is such a map that sends the ends of the small integer lattice to the ends of the float64 range: 4 to
// +Inf (an unbounded box: a half plane, the whole plane) or to the largest finite value, 3 to 1e300. c06Un is its
// inverse; the model keeps seeing the lattice.
func c06St(mode int, x float64) float64 {
	a := math.Abs(x)
	switch {
	case mode == 1 && a == 4:
		return math.Copysign(math.Inf(1), x)
	case mode == 2 && a == 4:
		return math.Copysign(math.MaxFloat64, x)
	case mode == 2 && a == 3:
		return math.Copysign(1e300, x)
	}
	return x
}

func c06Un(x float64) float64 {
	switch a := math.Abs(x); {
	case math.IsInf(x, 0) || a == math.MaxFloat64:
		return math.Copysign(4, x)
	case a == 1e300:
		return math.Copysign(3, x)
	}
	return x
}

// c06Shapes: degenerate-rich shapes over small integer coordinates.
func c06Shape(c *ctx, depth int) orb.Geometry {
	iv := func() float64 { return float64(c.rng.Intn(9) - 4) }
	return randGeom(c, depth, 3, iv)
}

func init() {
	register("core", func(c *ctx) {
		// a process that has cloned, compared and bounded tens of thousands of values before (nil and empty ones of every
		// kind among them): what the calls below answer does not depend on how many came before
		guard(func() {
			warm := []orb.Geometry{orb.Point{}, orb.MultiPoint(nil), orb.MultiPoint{}, orb.LineString(nil), orb.LineString{}, orb.Ring(nil), orb.Ring{},
				orb.MultiLineString(nil), orb.MultiLineString{nil}, orb.Polygon(nil), orb.Polygon{nil}, orb.MultiPolygon(nil), orb.MultiPolygon{nil},
				orb.Collection(nil), orb.Collection{}, orb.Collection{orb.Collection(nil), orb.Collection{}}, orb.Bound{}}
			for i := 0; i < 30000; i++ {
				for _, g := range warm {
					typedClone(g)
					orb.Clone(g)
					orb.Equal(g, g)
					g.Bound()
				}
			}
		})
		// sizes: the box of a million and more vertices (the extreme ones among the very last), ten thousand and more nested
		// collections in one value - cloned, compared, bounded; judged here against plain scans, the verdict by TLC
		for _, n := range []int{1<<20 + 1, 1<<20 + 5, 1<<20 + 7, 1 << 20, c.pick(1<<18+3, 1<<21+3)} {
			e := map[string]interface{}{"k": "corebig", "n": n, "nt": 1, "ok": 1, "what": ""}
			setCurrent("Bound(big)", e)
			site := guard(func() {
				pts := make([]orb.Point, n)
				for j := range pts {
					pts[j] = orb.Point{float64(j%1000) - 500, float64(j%777) - 300}
				}
				hi, lo := 1+c.rng.Intn(6), 1+c.rng.Intn(6)
				pts[n-hi], pts[n-lo] = orb.Point{5000, 4000}, orb.Point{-6000, -7000}
				if hi == lo {
					pts[n-1] = orb.Point{5000, 4000}
					pts[0] = orb.Point{-6000, -7000}
				}
				want := orb.Bound{Min: orb.Point{-6000, -7000}, Max: orb.Point{5000, 4000}}
				for name, g := range map[string]orb.Geometry{"MultiPoint": orb.MultiPoint(pts), "LineString": orb.LineString(pts), "Ring": orb.Ring(pts),
					"Polygon": orb.Polygon{orb.Ring(pts)}, "MultiLineString": orb.MultiLineString{{{0, 0}}, orb.LineString(pts)}, "Collection": orb.Collection{orb.Point{1, 1}, orb.LineString(pts)}} {
					if b := g.Bound(); b != want {
						e["ok"], e["what"] = 0, "bound of a "+name
					}
				}
				if cl := orb.LineString(pts).Clone(); !cl.Equal(orb.LineString(pts)) || !orb.Equal(orb.Clone(orb.MultiPoint(pts)), orb.MultiPoint(pts)) {
					e["ok"], e["what"] = 0, "clone / equal"
				}
			})
			if site != "" {
				c.emit(panicEvent("Bound(big)", site, e))
				continue
			}
			c.emit(e)
		}
		for _, n := range []int{10001, 25000, c.pick(40000, 200000)} {
			e := map[string]interface{}{"k": "corebig", "n": n, "nt": 1, "ok": 1, "what": ""}
			setCurrent("Collection(many)", e)
			site := guard(func() {
				col := make(orb.Collection, n)
				for j := range col {
					col[j] = orb.Collection{orb.Point{float64(j % 100), float64(j % 37)}}
					if j%5 == 0 {
						col[j] = orb.Collection{orb.Collection{orb.MultiPoint{{float64(j % 100), float64(j % 37)}}}}
					}
				}
				col[n-1] = orb.Collection{orb.Point{-9, 500}}
				cl := col.Clone()
				gc := orb.Clone(col)
				if !orb.Equal(col, cl) || !orb.Equal(col, col) || !col.Equal(cl) || !orb.Equal(gc, col) {
					e["ok"], e["what"] = 0, "a collection of many collections is not equal to its clone / itself"
				}
				if b := col.Bound(); b != (orb.Bound{Min: orb.Point{-9, 0}, Max: orb.Point{99, 500}}) {
					e["ok"], e["what"] = 0, "bound of a collection of many collections"
				}
				other := cl.Clone()
				other[n/2] = orb.Collection{orb.Point{1e6, 1e6}}
				if orb.Equal(col, other) {
					e["ok"], e["what"] = 0, "collections that differ in one member compare equal"
				}
			})
			if site != "" {
				c.emit(panicEvent("Collection(many)", site, e))
				continue
			}
			c.emit(e)
		}
		n := c.pick(6000, 150000)
		for i := 0; i < n; i++ {
			switch i % 6 {
			case 0: // clone + in-place edits
				g := c06Shape(c, 2)
				for _, fn := range []string{"orb.Clone", "typed"} {
					gm, _ := encGeom(g, intFn)
					e := map[string]interface{}{"k": "clone", "fn": fn, "g": gm, "topnil": 0}
					if isNilSlice(g) {
						e["topnil"] = 1
					}
					setCurrent(fn, gm)
					var cl orb.Geometry
					muts := []interface{}{}
					site := guard(func() {
						if fn == "orb.Clone" {
							cl = orb.Clone(g)
						} else {
							cl = typedClone(g)
						}
						tab := map[unsafe.Pointer]int{}
						e["ga"], e["ca"] = sliceAddrs(g, tab), sliceAddrs(cl, tab)
						e["cl"], _ = encGeom(cl, intFn)
						edit := func(side string, refs []vref) {
							for _, r := range refs {
								old := *r.p
								*r.p = orb.Point{99, float64(50 + len(muts))}
								o, _ := encGeom(g, intFn)
								cc, _ := encGeom(cl, intFn)
								muts = append(muts, map[string]interface{}{"side": side, "path": r.path, "v": []int{99, 50 + len(muts)}, "o": o, "c": cc})
								*r.p = old
							}
						}
						edit("c", vertexRefs(cl, nil))
						edit("o", vertexRefs(g, nil))
					})
					if site != "" {
						c.emit(panicEvent(fn, site, gm))
						continue
					}
					e["muts"] = muts
					if len(muts) > 0 {
						e["nt"] = 1
					}
					c.emit(e)
				}
			case 1: // Equal on related pairs
				a := c06Shape(c, 2)
				var b orb.Geometry
				switch c.rng.Intn(7) {
				case 6: // collections with a nil member: against the same collection with a geometry in that place, with the
					// nil in another place, and against a copy (nested one level down too)
					m1, m2 := c06Shape(c, 1), c06Shape(c, 1)
					colA := orb.Collection{nil, m1}
					var colB orb.Collection
					switch c.rng.Intn(4) {
					case 0:
						colB = orb.Collection{m2, m1}
					case 1:
						colB = orb.Collection{m1, nil}
					case 2:
						colB = orb.Collection{nil, m1}
					default:
						colB = orb.Collection{nil}
					}
					a, b = colA, colB
					if c.rng.Intn(3) == 0 {
						a, b = orb.Collection{colA, m2}, orb.Collection{colB, m2}
					}
					if c.rng.Intn(2) == 0 {
						a, b = b, a
					}
				case 5: // a box and the ring / polygon that has exactly that box (same GeoJSON type word, different kinds), either order
					bb := orb.MultiPoint{{float64(c.rng.Intn(5)), float64(c.rng.Intn(5))}, {float64(5 + c.rng.Intn(4)), float64(5 + c.rng.Intn(4))}}.Bound()
					if a != nil && c.rng.Intn(2) == 0 {
						bb = a.Bound()
					}
					var other orb.Geometry
					switch c.rng.Intn(4) {
					case 0:
						other = bb.ToPolygon()
					case 1:
						other = bb.ToRing()
					case 2:
						other = orb.Polygon{orb.Ring{bb.Min, bb.Max, bb.Min}} // another shape with the same box
					default:
						other = orb.Collection{bb}
					}
					a, b = bb, other
					if c.rng.Intn(2) == 0 {
						a, b = b, a
					}
				case 0:
					b = orb.Clone(a)
				case 1: // perturb one vertex of a copy
					b = typedClone(a)
					if refs := vertexRefs(b, nil); len(refs) > 0 {
						r := refs[c.rng.Intn(len(refs))]
						(*r.p)[c.rng.Intn(2)] += 1
					}
				case 2: // re-nest: same vertices under another kind
					switch v := a.(type) {
					case orb.LineString:
						b = orb.Ring(v)
					case orb.Ring:
						b = orb.Polygon{v}
					case orb.MultiPoint:
						b = orb.LineString(v)
					case orb.Polygon:
						b = orb.MultiPolygon{v}
					default:
						b = orb.Collection{a}
					}
				case 3: // drop / add a trailing member (half of the time the shorter value is a view of the very same array)
					b = typedClone(a)
					if c.rng.Intn(2) == 0 {
						switch v := a.(type) {
						case orb.MultiPoint:
							if len(v) > 1 {
								b = v[:len(v)-1]
							}
						case orb.LineString:
							if len(v) > 1 {
								b = v[:len(v)-1]
							}
						case orb.Ring:
							if len(v) > 1 {
								b = v[:len(v)-1]
							}
						case orb.Polygon:
							if len(v) > 1 {
								b = v[:len(v)-1]
							}
						}
						break
					}
					switch v := b.(type) {
					case orb.MultiPoint:
						b = append(v, orb.Point{1, 1})
					case orb.LineString:
						if len(v) > 0 {
							b = v[:len(v)-1]
						}
					case orb.Polygon:
						b = append(v, orb.Ring{})
					case orb.Collection:
						b = append(v, orb.Point{0, 0})
					}
				default:
					b = c06Shape(c, 2)
				}
				ga, _ := encGeom(a, intFn)
				gb, _ := encGeom(b, intFn)
				e := map[string]interface{}{"k": "equal", "a": ga, "b": gb}
				setCurrent("orb.Equal", e)
				site := guard(func() {
					e["ab"], e["ba"], e["aa"], e["bb"] = orb.Equal(a, b), orb.Equal(b, a), orb.Equal(a, a), orb.Equal(b, b)
				})
				if site != "" {
					c.emit(panicEvent("orb.Equal", site, e))
					continue
				}
				e["nt"] = 1
				c.emit(e)
				// a clone that differs from the original by the least possible amount in one coordinate (and by a relative 1e-14,
				// 1e-12) at small and at large magnitudes: not equal
				if pts := flatPoints(a); len(pts) > 0 && !hasNilSlice(a) {
					if _, isB := a.(orb.Bound); !isB {
						scale := []float64{1, 1000, 1e8}[c.rng.Intn(3)]
						big := mapGeom(a, func(p orb.Point) orb.Point { return orb.Point{p[0]*scale + 0.5, p[1]*scale - 0.25} })
						k, n := c.rng.Intn(len(pts)), 0
						mode := c.rng.Intn(3)
						near := mapGeom(big, func(p orb.Point) orb.Point {
							if n == k {
								d := c.rng.Intn(2)
								switch mode {
								case 0:
									p[d] = math.Nextafter(p[d], math.Inf(1))
								case 1:
									p[d] = p[d] * (1 + 1e-14)
								default:
									p[d] = p[d] * (1 - 1e-12)
								}
							}
							n++
							return p
						})
						eu := map[string]interface{}{"k": "equlp", "nt": 1, "differs": b2i(geomBits(big) != geomBits(near))}
						site = guard(func() {
							eu["ab"], eu["ba"], eu["aa"] = orb.Equal(big, near), orb.Equal(near, big), orb.Equal(near, near)
						})
						if site != "" {
							c.emit(panicEvent("orb.Equal", site, eu))
						} else {
							c.emit(eu)
						}
					}
				}
				// zero is zero: a copy in which every zero coordinate carries the other sign is equal to the original
				if pts := flatPoints(a); len(pts) > 0 && !hasNilSlice(a) {
					zeros := 0
					neg := mapGeom(a, func(p orb.Point) orb.Point {
						for d := 0; d < 2; d++ {
							if p[d] == 0 {
								p[d] = math.Copysign(0, -1)
								zeros++
							}
						}
						return p
					})
					if zeros > 0 {
						ez := map[string]interface{}{"k": "eqzero", "nt": 1}
						site = guard(func() { ez["ab"], ez["ba"] = orb.Equal(a, neg), orb.Equal(neg, a) })
						if site != "" {
							c.emit(panicEvent("orb.Equal", site, ez))
						} else {
							c.emit(ez)
						}
					}
				}
				// bounds are equal when their corners are - empty ones too (an empty bound has corners like any other)
				{
					mkb := func() orb.Bound {
						return orb.Bound{Min: orb.Point{float64(c.rng.Intn(5) - 2), float64(c.rng.Intn(5) - 2)}, Max: orb.Point{float64(c.rng.Intn(5) - 2), float64(c.rng.Intn(5) - 2)}}
					}
					b1, b2 := mkb(), mkb()
					if c.rng.Intn(3) == 0 {
						b2 = b1
					}
					eb := map[string]interface{}{"k": "equb", "nt": 1, "same": b2i(b1 == b2)}
					site = guard(func() {
						eb["ab"] = orb.Equal(b1, b2) && b1.Equal(b2) && orb.Equal(orb.Collection{b1}, orb.Collection{b2})
						eb["any"] = orb.Equal(b1, b2) || b1.Equal(b2) || orb.Equal(orb.Collection{b1}, orb.Collection{b2})
					})
					if site != "" {
						c.emit(panicEvent("orb.Equal", site, eb))
					} else {
						c.emit(eb)
					}
				}
				// a third value for transitivity
				cc := orb.Clone(b)
				if c.rng.Intn(3) == 0 {
					cc = c06Shape(c, 1)
				}
				gc, _ := encGeom(cc, intFn)
				e3 := map[string]interface{}{"k": "equal3", "a": ga, "b": gb, "c": gc, "nt": 1}
				site = guard(func() { e3["ab"], e3["bc"], e3["ac"] = orb.Equal(a, b), orb.Equal(b, cc), orb.Equal(a, cc) })
				if site != "" {
					c.emit(panicEvent("orb.Equal", site, e3))
					continue
				}
				c.emit(e3)
			case 2, 3: // Bound is the tight box
				g := c06Shape(c, 2)
				if c.rng.Intn(12) == 0 {
					// nested collections that are views of one member array (all[:1], all[:2], all): each is the collection of
					// the members it holds, however many share their first element
					iv := func() float64 { return float64(c.rng.Intn(9) - 4) }
					all := orb.Collection{orb.Point{iv(), iv()}, orb.LineString{{iv(), iv()}, {iv(), iv()}}, orb.Point{iv(), iv()}}
					g = orb.Collection{all[:1], all[:2], all}
					if c.rng.Intn(2) == 0 {
						g = orb.Collection{all[:2], all[:1], orb.Collection{all}}
					}
				}
				gm, _ := encGeom(g, intFn)
				e := map[string]interface{}{"k": "bound", "g": gm}
				setCurrent("Bound", gm)
				if g == nil {
					continue
				}
				mode := []int{0, 0, 0, 1, 2}[c.rng.Intn(5)]
				gs := g // (as it is, views of shared arrays and all, when nothing is stretched)
				if mode != 0 {
					gs = mapGeom(g, func(p orb.Point) orb.Point { return orb.Point{c06St(mode, p[0]), c06St(mode, p[1])} })
				}
				site := guard(func() { e["b"] = boundEnc(gs.Bound()) })
				if site != "" {
					c.emit(panicEvent("Bound", site, gm))
					continue
				}
				if len(e["b"].([]int)) > 0 {
					e["nt"] = 1
				}
				c.emit(e)
			case 4: // Bound methods
				var mk func() orb.Bound
				mk = func() orb.Bound {
					mp := orb.MultiPoint{}
					for j := 0; j < c.rng.Intn(3); j++ {
						mp = append(mp, orb.Point{float64(c.rng.Intn(9) - 4), float64(c.rng.Intn(9) - 4)})
					}
					return mp.Bound()
				}
				// empty bounds that are not the one an empty geometry gives: a box padded inwards beyond its size, Min and Max
				// the wrong way round in one coordinate or in both - empty is empty, whatever its corners say
				mk0 := mk
				mk = func() orb.Bound {
					b := mk0()
					switch c.rng.Intn(8) {
					case 0:
						return orb.Bound{Min: orb.Point{float64(1 + c.rng.Intn(3)), -2}, Max: orb.Point{float64(-c.rng.Intn(3)), 3}}
					case 1:
						return orb.Bound{Min: orb.Point{-2, float64(2 + c.rng.Intn(3))}, Max: orb.Point{3, float64(1 - c.rng.Intn(3))}}
					case 2:
						if !b.IsEmpty() {
							return b.Pad(-float64(5 + c.rng.Intn(4)))
						}
					}
					return b
				}
				a, b, cc := mk(), mk(), mk()
				p := orb.Point{float64(c.rng.Intn(9) - 4), float64(c.rng.Intn(9) - 4)}
				e := map[string]interface{}{"k": "bop", "a": boundEnc(a), "b": boundEnc(b), "c": boundEnc(cc), "p": []int{int(p[0]), int(p[1])}, "nt": 1}
				if mode := []int{0, 0, 0, 1, 2}[c.rng.Intn(5)]; mode != 0 { // the same figure with its outermost lines at infinity
					sp := func(q orb.Point) orb.Point { return orb.Point{c06St(mode, q[0]), c06St(mode, q[1])} }
					sb := func(x orb.Bound) orb.Bound { return orb.Bound{Min: sp(x.Min), Max: sp(x.Max)} }
					a, b, cc, p = sb(a), sb(b), sb(cc), sp(p)
				}
				setCurrent("Bound methods", e)
				site := guard(func() {
					e["uab"], e["uba"] = boundEnc(a.Union(b)), boundEnc(b.Union(a))
					e["uabc"], e["ubca"] = boundEnc(a.Union(b).Union(cc)), boundEnc(a.Union(b.Union(cc)))
					e["uaa"] = boundEnc(a.Union(a))
					e["ext"] = boundEnc(a.Extend(p))
					e["con"], e["conu"] = a.Contains(p), a.Union(b).Contains(p)
					e["iab"], e["iba"] = a.Intersects(b), b.Intersects(a)
				})
				if site != "" {
					c.emit(panicEvent("Bound methods", site, e))
					continue
				}
				c.emit(e)
			default: // Reverse / Orientation
				k := c.rng.Intn(7)
				ls := make(orb.LineString, k)
				for j := range ls {
					ls[j] = orb.Point{float64(c.rng.Intn(9) - 4), float64(c.rng.Intn(9) - 4)}
				}
				if c.rng.Intn(12) == 0 {
					ls = nil
				}
				ok := true
				e := map[string]interface{}{"k": "rev", "ls": encPts(ls, intFn, &ok)}
				setCurrent("LineString.Reverse", e)
				site := guard(func() {
					w := ls.Clone()
					w.Reverse()
					e["r1"] = encPts(w, intFn, &ok)
					w.Reverse()
					e["r2"] = encPts(w, intFn, &ok)
				})
				if site != "" {
					c.emit(panicEvent("LineString.Reverse", site, e))
				} else {
					if k > 1 {
						e["nt"] = 1
					}
					c.emit(e)
				}
				r := orb.Ring(ls.Clone())
				if len(r) > 2 && c.rng.Intn(2) == 0 {
					r = append(r, r[0]) // closed spelling
				}
				e2 := map[string]interface{}{"k": "orient", "r": encPts(r, intFn, &ok)}
				setCurrent("Ring.Orientation", e2)
				site = guard(func() {
					e2["o"] = int(r.Orientation())
					w := r.Clone()
					w.Reverse()
					e2["orev"] = int(w.Orientation())
					// the same ring far from the origin (an exact translation: integer coordinates): which way it winds does
					// not depend on where it lies
					off := []float64{1e8, 1 << 26, 1 << 27, -(1 << 30), 1e12, 1 << 45}[c.rng.Intn(6)]
					far := r.Clone()
					for j := range far {
						far[j][0] += off
						far[j][1] -= off
					}
					e2["ofar"] = int(far.Orientation())
					far.Reverse()
					e2["ofarrev"] = int(far.Orientation())
					// a ring that reads the same in both directions (out to two arbitrary points and back the same way) is its
					// own reverse, so its orientation is its own negative: none - whatever the coordinates
					dec := func() orb.Point {
						return orb.Point{float64(c.rng.Intn(4000)-2000) / 10, float64(c.rng.Intn(4000)-2000) / []float64{10, 3, 7, 1e7}[c.rng.Intn(4)]}
					}
					pa, pb, pc := dec(), dec(), dec()
					pal := orb.Ring{pa, pb, pc, pb, pa}
					if c.rng.Intn(2) == 0 {
						pal = pal[:4]
					}
					e2["opal"] = int(pal.Orientation())
					// the ring with every edge cut into 32 or 64 equal parts (exact: the figure is scaled by 64 first), started
					// anywhere: hundreds of vertices, wound the same way
					e2["olong"] = e2["o"]
					if base := ls; len(base) >= 3 {
						m := []int{32, 64}[c.rng.Intn(2)]
						long := orb.Ring{}
						for j := range base {
							p, q := base[j], base[(j+1)%len(base)]
							for t := 0; t < m; t++ {
								long = append(long, orb.Point{p[0]*64 + (q[0]-p[0])*float64(64/m*t), p[1]*64 + (q[1]-p[1])*float64(64/m*t)})
							}
						}
						s := c.rng.Intn(len(long))
						long = append(append(orb.Ring{}, long[s:]...), long[:s]...)
						if c.rng.Intn(2) == 0 {
							long = append(long, long[0])
						}
						e2["olong"] = int(long.Orientation())
					}
				})
				if site != "" {
					c.emit(panicEvent("Ring.Orientation", site, e2))
					continue
				}
				if e2["o"] != 0 {
					e2["nt"] = 1
				}
				c.emit(e2)
			}
		}
	})
}
