package main

import (
	"fmt"
	"math"
	"sort"

	"github.com/paulmach/orb"
	"github.com/paulmach/orb/planar"
	"github.com/paulmach/orb/quadtree"
)

// C11, sizes: trees of thousands of pointers (deep cells, duplicates, points on midlines) through phases of adding,
// removing and adding again; after each phase every kind of query is compared with a plain scan over the pointers
// that should be stored. The comparison is done here (distances, not identities: ties are free); TLC checks the
// verdicts.

func init() {
	register("qtbig", func(c *ctx) {
		for it := 0; it < c.pick(6, 40); it++ {
			n := []int{300, 2000, 5000, 20000}[c.rng.Intn(4)]
			if !c.thorough() && n > 5000 {
				n = 5000
			}
			bnd := orb.Bound{Min: orb.Point{-512, -256}, Max: orb.Point{512, 768}}
			q := quadtree.New(bnd)
			live := map[*qtPtr]bool{}
			var all, twins []*qtPtr
			var pairs [][2]*qtPtr // a stored point and its neighbour one float64 away
			coord := func(lo, hi float64) float64 {
				switch c.rng.Intn(5) {
				case 0:
					return lo + (hi-lo)*float64(c.rng.Intn(17))/16 // midlines, the bound itself
				case 1:
					return lo + (hi-lo)/2 + float64(c.rng.Intn(7)-3)*math.Ldexp(1, -20) // a cluster at the centre: deep cells
				}
				return lo + (hi-lo)*c.rng.Float64()
			}
			e := map[string]interface{}{"k": "big", "n": n, "nt": 1, "ok": 1, "what": ""}
			setCurrent("quadtree(big)", e)
			fail := func(what string) {
				if e["ok"] == 1 {
					e["ok"], e["what"] = 0, what
				}
			}
			verify := func(phase string) {
				pts := make([]*qtPtr, 0, len(live))
				for p := range live {
					pts = append(pts, p)
				}
				dists := func(qp orb.Point, accept func(*qtPtr) bool) []float64 {
					ds := []float64{}
					for _, p := range pts {
						if accept == nil || accept(p) {
							ds = append(ds, planar.DistanceSquared(p.p, qp))
						}
					}
					sort.Float64s(ds)
					return ds
				}
				// the two points of a pair, asked for from the origin and from next to it (their distances from there are about as
				// large as their coordinates: the squared distances differ in the last place or two, the distances themselves
				// often not at all): among the two - a filter lets only them through - the nearer one is the nearest
				for j := 0; j < 60 && j < len(pairs); j++ {
					pr := pairs[c.rng.Intn(len(pairs))]
					if !live[pr[0]] || !live[pr[1]] {
						continue
					}
					qp := []orb.Point{{0, 0}, {0.5, -0.25}, {math.Ldexp(1, -20), math.Ldexp(1, -20)}, {-1, 2}}[c.rng.Intn(4)]
					d0, d1 := planar.DistanceSquared(pr[0].p, qp), planar.DistanceSquared(pr[1].p, qp)
					got := q.Matching(qp, func(x orb.Pointer) bool { return x.(*qtPtr) == pr[0] || x.(*qtPtr) == pr[1] })
					if got == nil || planar.DistanceSquared(got.Point(), qp) != math.Min(d0, d1) {
						fail(phase + ": the nearer of two points one float64 apart")
					}
				}
				for j := 0; j < 90; j++ {
					progress() // (the scans below are the harness's own work)
					qp := orb.Point{coord(-600, 600), coord(-300, 800)}
					if j >= 60 {
						// asked from a few whole units beside a pair of points that are one float64 apart: their squared distances
						// differ by an ulp or two, their distances often not at all - the nearer one is still the nearer one
						if len(twins) == 0 {
							break
						}
						t := twins[c.rng.Intn(len(twins))]
						off := [][2]float64{{3, 4}, {-4, 3}, {5, 12}, {-12, -5}, {8, 15}, {1, 1}, {-2, 7}, {0, 5}}[c.rng.Intn(8)]
						qp = orb.Point{t.p[0] + off[0], t.p[1] + off[1]}
					}
					var accept func(*qtPtr) bool
					var filter quadtree.FilterFunc
					if j%3 == 0 {
						accept = func(p *qtPtr) bool { return p.id%3 != 0 }
						filter = func(p orb.Pointer) bool { return p.(*qtPtr).id%3 != 0 }
					}
					ds := dists(qp, accept)
					var f orb.Pointer
					if filter == nil {
						f = q.Find(qp)
					} else {
						f = q.Matching(qp, filter)
					}
					if (f == nil) != (len(ds) == 0) || (f != nil && (planar.DistanceSquared(f.Point(), qp) != ds[0] || !live[f.(*qtPtr)])) {
						fail(phase + ": nearest")
					}
					k := []int{1, 5, 17, 100, 1000}[j%5]
					lim := 0.0
					var res []orb.Pointer
					switch {
					case j%2 == 0 && filter == nil:
						res = q.KNearest(nil, qp, k)
					case j%2 == 0:
						res = q.KNearestMatching(nil, qp, k, filter)
					default:
						lim = 10 + 300*c.rng.Float64()
						if filter == nil {
							res = q.KNearest(nil, qp, k, lim)
						} else {
							res = q.KNearestMatching(nil, qp, k, filter, lim)
						}
					}
					want := ds
					if lim > 0 {
						want = want[:sort.SearchFloat64s(want, lim*lim)] // strictly within the limit
					}
					if len(want) > k {
						want = want[:k]
					}
					if len(res) != len(want) {
						fail(fmt.Sprintf("%s: k-nearest count %d, want %d (k=%d)", phase, len(res), len(want), k))
					} else {
						seen := map[*qtPtr]bool{}
						for x, r := range res {
							if planar.DistanceSquared(r.Point(), qp) != want[x] || !live[r.(*qtPtr)] || seen[r.(*qtPtr)] {
								fail(phase + ": k-nearest order / membership")
								break
							}
							seen[r.(*qtPtr)] = true
						}
					}
					w, h := 400*c.rng.Float64(), 400*c.rng.Float64()
					box := orb.Bound{Min: qp, Max: orb.Point{qp[0] + w, qp[1] + h}}
					var in []orb.Pointer
					if filter == nil {
						in = q.InBound(nil, box)
					} else {
						in = q.InBoundMatching(nil, box, filter)
					}
					cnt := 0
					for _, p := range pts {
						if (accept == nil || accept(p)) && box.Contains(p.p) {
							cnt++
						}
					}
					seen := map[*qtPtr]bool{}
					for _, r := range in {
						p := r.(*qtPtr)
						if !live[p] || seen[p] || !box.Contains(p.p) || (accept != nil && !accept(p)) {
							fail(phase + ": bound search membership")
							break
						}
						seen[p] = true
					}
					if len(in) != cnt {
						fail(fmt.Sprintf("%s: bound search count %d, want %d", phase, len(in), cnt))
					}
				}
			}
			site := guard(func() {
				for j := 0; j < n; j++ {
					p := &qtPtr{id: j + 1, p: orb.Point{coord(-512, 512), coord(-256, 768)}}
					if j > 0 && c.rng.Intn(10) == 0 {
						orig := all[c.rng.Intn(len(all))]
						p.p = orig.p            // duplicates of stored points
						if c.rng.Intn(2) == 0 { // ... or its neighbour one float64 away in one coordinate: nearly the same distance from anywhere
							ax := c.rng.Intn(2)
							p.p[ax] = math.Nextafter(p.p[ax], []float64{0, 256}[ax]) // towards the middle: stays inside the bound
							twins = append(twins, p)
							pairs = append(pairs, [2]*qtPtr{orig, p})
						}
					}
					all = append(all, p)
					if err := q.Add(p); err != nil {
						fail("add inside the bound refused")
					}
					live[p] = true
				}
				if q.Add(&qtPtr{id: -1, p: orb.Point{513, 0}}) == nil {
					fail("add outside the bound accepted")
				}
				verify("filled")
				for j, p := range all { // remove two thirds, by identity and by point
					if j%3 == 0 {
						continue
					}
					p := p
					var ok bool
					if j%3 == 1 {
						ok = q.Remove(p, func(x orb.Pointer) bool { return x.(*qtPtr) == p })
						delete(live, p)
					} else {
						ok = q.Remove(p, nil) // any pointer at that point
						found := false
						for o := range live {
							if o.p == p.p {
								found = true
								break
							}
						}
						if ok != found {
							fail("remove by point: reported match")
						}
						if ok { // one of the pointers at that point is gone: find out which by asking the tree
							gone := 0
							for o := range live {
								if o.p == p.p {
									still := q.Matching(o.p, func(x orb.Pointer) bool { return x.(*qtPtr) == o })
									if still == nil {
										delete(live, o)
										gone++
									}
								}
							}
							if gone != 1 {
								fail(fmt.Sprintf("remove by point removed %d pointers", gone))
							}
						}
						continue
					}
					if !ok {
						fail("remove by identity of a stored pointer reported no match")
					}
				}
				verify("thinned")
				for j := 0; j < n/4; j++ { // and filled up again (emptied nodes are reused)
					p := &qtPtr{id: n + j + 1, p: orb.Point{coord(-512, 512), coord(-256, 768)}}
					q.Add(p)
					live[p] = true
				}
				verify("refilled")
			})
			if site != "" {
				c.emit(panicEvent("quadtree(big)", site, e))
				continue
			}
			c.emit(e)
		}
		// pointers of another shape: the tree stores whatever implements orb.Pointer - here plain struct values that carry
		// a slice (values of such a type cannot be compared with ==). Filled, searched, thinned by point and by a caller's
		// match function, searched again; compared with a scan as above.
		for it := 0; it < c.pick(6, 40); it++ {
			n := 50 + c.rng.Intn(400)
			bnd := orb.Bound{Min: orb.Point{0, 0}, Max: orb.Point{64, 64}}
			switch it % 4 { // every other tree has a bound without an end in one direction or in all (a tree for "anywhere")
			case 1:
				bnd = orb.Bound{Min: orb.Point{math.Inf(-1), math.Inf(-1)}, Max: orb.Point{math.Inf(1), math.Inf(1)}}
			case 3:
				bnd = orb.Bound{Min: orb.Point{math.Inf(-1), 0}, Max: orb.Point{math.Inf(1), 64}}
			}
			q := quadtree.New(bnd)
			live := map[string]qtVal{}
			e := map[string]interface{}{"k": "big", "n": n, "nt": 1, "ok": 1, "what": ""}
			setCurrent("quadtree(value pointers)", e)
			fail := func(what string) {
				if e["ok"] == 1 {
					e["ok"], e["what"] = 0, "value pointers: "+what
				}
			}
			verify := func(phase string) {
				for j := 0; j < 40; j++ {
					qp := orb.Point{float64(c.rng.Intn(65)), float64(c.rng.Intn(65))}
					var ds []float64
					for _, v := range live {
						ds = append(ds, planar.DistanceSquared(v.p, qp))
					}
					sort.Float64s(ds)
					f := q.Find(qp)
					if (f == nil) != (len(ds) == 0) || (f != nil && planar.DistanceSquared(f.Point(), qp) != ds[0]) {
						fail(phase + ": find")
					}
					k := 1 + c.rng.Intn(6)
					kn := q.KNearest(nil, qp, k)
					if len(kn) != minInt(k, len(ds)) {
						fail(phase + ": k-nearest count")
					}
					for x, r := range kn {
						if _, ok := live[r.(qtVal).tags[0]]; !ok || planar.DistanceSquared(r.Point(), qp) != ds[x] {
							fail(phase + ": k-nearest order")
							break
						}
					}
					box := orb.MultiPoint{qp, {float64(c.rng.Intn(65)), float64(c.rng.Intn(65))}}.Bound()
					cnt := 0
					for _, v := range live {
						if box.Contains(v.p) {
							cnt++
						}
					}
					if got := q.InBound(nil, box); len(got) != cnt {
						fail(fmt.Sprintf("%s: bound search count %d, want %d", phase, len(got), cnt))
					}
				}
			}
			site := guard(func() {
				for j := 0; j < n; j++ {
					v := qtVal{p: orb.Point{float64(c.rng.Intn(65)), float64(c.rng.Intn(65))}, tags: []string{fmt.Sprint("v", j)}}
					if q.Add(v) != nil {
						fail("add inside the bound refused")
					}
					live[v.tags[0]] = v
				}
				verify("filled")
				names := make([]string, 0, len(live))
				for k := range live {
					names = append(names, k)
				}
				sort.Strings(names)
				for j, name := range names {
					v, stored := live[name]
					if !stored { // went with an earlier removal by point
						continue
					}
					switch j % 3 {
					case 0: // by point: any value stored at that point goes
						if !q.Remove(v, nil) {
							fail("remove by point of a stored value reported no match")
						}
						gone := 0
						for _, o := range live {
							if o.p == v.p && q.Matching(o.p, func(x orb.Pointer) bool { return x.(qtVal).tags[0] == o.tags[0] }) == nil {
								delete(live, o.tags[0])
								gone++
							}
						}
						if gone != 1 {
							fail(fmt.Sprintf("remove by point removed %d values", gone))
						}
					case 1: // by the caller's notion of identity
						if !q.Remove(v, func(x orb.Pointer) bool { return x.(qtVal).tags[0] == name }) {
							fail("remove by match function of a stored value reported no match")
						}
						delete(live, name)
					}
				}
				if q.Remove(qtVal{p: orb.Point{0.5, 0.5}}, nil) {
					fail("remove by point where nothing is stored reported a match")
				}
				verify("thinned")
			})
			if site != "" {
				c.emit(panicEvent("quadtree(value pointers)", site, e))
				continue
			}
			c.emit(e)
		}
	})
}

// qtVal is an orb.Pointer that is a plain value and cannot be compared with ==.
type qtVal struct {
	p    orb.Point
	tags []string
}

func (v qtVal) Point() orb.Point { return v.p }
