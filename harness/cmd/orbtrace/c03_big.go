package main

import (
	"time"

	"github.com/paulmach/orb"
	"github.com/paulmach/orb/encoding/mvt"
	"github.com/paulmach/orb/geojson"
)

// C03, sizes: layers of a thousand and more features that repeat the same few property values compress more than
// tenfold; the gzipped path must return them all the same. The comparison of the decoded layers is done here, TLC
// checks the counts and that both paths agreed with the input.

func c03Big(c *ctx, n int, kind int) {
	fc := geojson.NewFeatureCollection()
	for i := 0; i < n; i++ {
		var g orb.Geometry = orb.Point{float64(i % 64), float64(i / 64 % 64)}
		if kind == 1 {
			g = orb.LineString{{float64(i % 64), 1}, {float64(i%64 + 1), 2}}
		}
		f := geojson.NewFeature(g)
		f.Properties = geojson.Properties{"class": "road", "oneway": true, "lanes": 2.0}
		if kind == 2 {
			f.ID = float64(i)
		}
		fc.Append(f)
	}
	e := map[string]interface{}{"k": "mvtbig", "n": n, "kind": kind, "nt": 1}
	setCurrent("mvt.MarshalGzipped(big)", e)
	site := guard(func() {
		layers := mvt.Layers{mvt.NewLayer("roads", fc)}
		same := func(dec mvt.Layers, err error) (int, int) {
			if err != nil || len(dec) != 1 || dec[0].Name != "roads" {
				return 0, -1
			}
			for i, f := range dec[0].Features {
				if i >= n || !orb.Equal(f.Geometry, fc.Features[i].Geometry) || f.Properties["class"] != "road" ||
					f.Properties["oneway"] != true || f.Properties["lanes"] != 2.0 || (kind == 2 && f.ID != float64(i)) {
					return 0, len(dec[0].Features)
				}
			}
			return 1, len(dec[0].Features)
		}
		data, err := mvt.Marshal(layers)
		if err != nil {
			e["plain"], e["np"], e["gz"], e["ng"], e["ratio"] = 0, -1, 0, -1, 0
			return
		}
		gz, err := mvt.MarshalGzipped(layers)
		if err != nil {
			gz = nil
		}
		e["plain"], e["np"] = same(mvt.Unmarshal(data))
		e["gz"], e["ng"] = same(mvt.UnmarshalGzipped(gz))
		e["ratio"] = 0
		if len(gz) > 0 {
			e["ratio"] = len(data) / len(gz)
		}
	})
	if site != "" {
		c.emit(panicEvent("mvt.MarshalGzipped(big)", site, e))
		return
	}
	c.emit(e)
}

func init() {
	register("mvtbig", func(c *ctx) {
		sizes := []int{100, 1000, 4000}
		if c.thorough() {
			sizes = append(sizes, 20000, 65536)
		}
		for _, n := range sizes {
			for kind := 0; kind < 3; kind++ {
				c03Big(c, n, kind)
			}
		}
		// several layers of very different sizes in one tile (thousands of features in all): they come back in the order
		// they were given, each with its features, and repeated marshals give the same bytes
		for _, n := range sizes[1:] {
			mk := func(name string, k int, props int) *mvt.Layer {
				fc := geojson.NewFeatureCollection()
				for i := 0; i < k; i++ {
					f := geojson.NewFeature(orb.LineString{{float64(i % 97), float64(i % 89)}, {float64(i%97 + 3), float64(i%89 + 1)}, {float64(i % 13), 7}})
					for p := 0; p < props; p++ {
						f.Properties[string(rune('a'+p))+name] = float64(i%7 + p)
					}
					fc.Append(f)
				}
				return mvt.NewLayer(name, fc)
			}
			layers := mvt.Layers{mk("a-big", n, 6), mk("c-small", 3, 1), mk("b-mid", n/4, 2), mk("d-none", 0, 0), mk("e-one", 1, 0)}
			total := n + 3 + n/4 + 1
			e := map[string]interface{}{"k": "mvtbig", "n": total, "kind": 10, "nt": 1, "plain": 0, "gz": 0, "np": -1, "ng": -1, "ratio": 0}
			setCurrent("mvt.Marshal(layers of many sizes)", e)
			site := guard(func() {
				same := func(dec mvt.Layers, err error) (int, int) {
					if err != nil || len(dec) != len(layers) {
						return 0, -1
					}
					cnt := 0
					for i, l := range dec {
						if l.Name != layers[i].Name || len(l.Features) != len(layers[i].Features) {
							return 0, -1
						}
						for j, f := range l.Features {
							if !orb.Equal(f.Geometry, layers[i].Features[j].Geometry) || len(f.Properties) != len(layers[i].Features[j].Properties) {
								return 0, -1
							}
						}
						cnt += len(l.Features)
					}
					return 1, cnt
				}
				d1, err := mvt.Marshal(layers)
				if err != nil {
					return
				}
				d2, _ := mvt.Marshal(layers)
				d3, _ := mvt.Marshal(layers)
				gz, _ := mvt.MarshalGzipped(layers)
				e["plain"], e["np"] = same(mvt.Unmarshal(d1))
				e["gz"], e["ng"] = same(mvt.UnmarshalGzipped(gz))
				if string(d1) != string(d2) || string(d1) != string(d3) {
					e["plain"] = 0
				}
			})
			if site != "" {
				c.emit(panicEvent("mvt.Marshal(layers of many sizes)", site, e))
			} else {
				c.emit(e)
			}
		}
		// the same layers marshalled (plain and gzipped) now and more than a second later: the same bytes
		{
			fc := geojson.NewFeatureCollection()
			f := geojson.NewFeature(orb.Point{1, 2})
			f.Properties = geojson.Properties{"a": "b"}
			fc.Append(f)
			layers := mvt.Layers{mvt.NewLayer("t", fc)}
			e := map[string]interface{}{"k": "mvtbig", "n": 1, "kind": 9, "nt": 1, "plain": 0, "gz": 0, "np": 1, "ng": 1, "ratio": 0}
			setCurrent("mvt.MarshalGzipped(twice)", e)
			site := guard(func() {
				d1, _ := mvt.Marshal(layers)
				g1, _ := mvt.MarshalGzipped(layers)
				time.Sleep(1200 * time.Millisecond)
				progress()
				d2, _ := mvt.Marshal(layers)
				g2, _ := mvt.MarshalGzipped(layers)
				e["plain"], e["gz"] = b2i(len(d1) > 0 && string(d1) == string(d2)), b2i(len(g1) > 0 && string(g1) == string(g2))
			})
			if site != "" {
				c.emit(panicEvent("mvt.MarshalGzipped(twice)", site, e))
			} else {
				c.emit(e)
			}
		}
	})
}
