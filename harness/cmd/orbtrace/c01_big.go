package main

import (
	"bytes"
	"encoding/binary"
	"encoding/hex"

	"github.com/paulmach/orb"
	"github.com/paulmach/orb/encoding/ewkb"
	"github.com/paulmach/orb/encoding/wkb"
)

// C01, sizes: geometries with about ten thousand vertices per part (the decoders allocate in capped steps beyond
// that) in both byte orders through every decode path. The value comparison is done here (orb.Equal on a ramp of
// distinct coordinates); TLC checks the byte length against the format and that every path returned the value.
// Also the hex entry points: the hex text is the hex of Marshal's bytes for the same SRID - zero included - whatever
// the package's default SRID is.

func c01Ramp(n int, off float64) []orb.Point {
	ps := make([]orb.Point, n)
	for i := range ps {
		ps[i] = orb.Point{off + float64(i), off - float64(2*i) - 0.5}
	}
	return ps
}

func c01Big(c *ctx, kind string, n int, pkg string, le bool, srid int) {
	var g orb.Geometry
	parts := []int{n}
	switch kind {
	case "LineString":
		g = orb.LineString(c01Ramp(n, 1))
	case "MultiPoint":
		g = orb.MultiPoint(c01Ramp(n, 2))
	case "Polygon":
		parts = []int{n, 5, n + 1}
		g = orb.Polygon{orb.Ring(c01Ramp(n, 3)), orb.Ring(c01Ramp(5, 4)), orb.Ring(c01Ramp(n+1, 5))}
	case "Nested": // a point inside n collections (collections nest to any depth)
		parts = []int{n}
		g = orb.Point{1.5, -2.5}
		for d := 0; d < n; d++ {
			g = orb.Collection{g}
		}
	default:
		parts = []int{3, n, 4}
		g = orb.MultiLineString{orb.LineString(c01Ramp(3, 6)), orb.LineString(c01Ramp(n, 7)), orb.LineString(c01Ramp(4, 8))}
	}
	var order binary.ByteOrder = binary.BigEndian
	if le {
		order = binary.LittleEndian
	}
	e := map[string]interface{}{"k": "wkbbig", "kind": kind, "parts": parts, "pkg": pkg, "le": b2i(le), "srid": srid, "nt": 1}
	setCurrent(pkg+".Marshal(big)", e)
	same := []int{}
	site := guard(func() {
		var data []byte
		var err error
		if pkg == "wkb" {
			data, err = wkb.Marshal(g, order)
		} else {
			data, err = ewkb.Marshal(g, srid, order)
		}
		if err != nil {
			data = nil
		}
		e["len"] = len(data)
		eq := func(v orb.Geometry, err error) int { return b2i(err == nil && v != nil && orb.Equal(v, g)) }
		// the decoded value is the caller's: it does not live in the bytes it was decoded from. The input is placed at
		// every alignment within a buffer, decoded, and the buffer then overwritten (as a database driver does with its
		// row buffer)
		if kind != "Nested" && n <= 10003 {
			buf := make([]byte, len(data)+8)
			for shift := 0; shift < 8; shift++ {
				in := buf[shift : shift+len(data)]
				copy(in, data)
				var v orb.Geometry
				var err error
				switch {
				case shift%2 == 0 && pkg == "wkb":
					v, err = wkb.Unmarshal(in)
				case shift%2 == 0:
					v, _, err = ewkb.Unmarshal(in)
				case pkg == "wkb":
					s := wkb.Scanner(nil)
					err = s.Scan(in)
					v = s.Geometry
				default:
					s := ewkb.Scanner(nil)
					err = s.Scan(in)
					v = s.Geometry
				}
				for i := range in {
					in[i] = 0xA5
				}
				same = append(same, eq(v, err))
			}
		}
		if pkg == "wkb" {
			same = append(same, eq(wkb.Unmarshal(data)))
			same = append(same, eq(wkb.NewDecoder(c01Reader(c.rng, data)).Decode()))
			s := wkb.Scanner(nil)
			err := s.Scan(data)
			same = append(same, eq(s.Geometry, err))
			s = wkb.Scanner(nil)
			err = s.Scan([]byte(hex.EncodeToString(data)))
			same = append(same, eq(s.Geometry, err))
		} else {
			v, sr, err := ewkb.Unmarshal(data)
			same = append(same, eq(v, err)*b2i(sr == srid))
			v, sr, err = ewkb.NewDecoder(c01Reader(c.rng, data)).Decode()
			same = append(same, eq(v, err)*b2i(sr == srid))
			s := ewkb.Scanner(nil)
			err = s.Scan(data)
			same = append(same, eq(s.Geometry, err)*b2i(s.SRID == srid))
			s = ewkb.Scanner(nil)
			err = s.Scan([]byte(hex.EncodeToString(data)))
			same = append(same, eq(s.Geometry, err)*b2i(s.SRID == srid))
		}
		// typed destinations
		switch kind {
		case "LineString":
			var ls orb.LineString
			if pkg == "wkb" {
				same = append(same, b2i(wkb.Scanner(&ls).Scan(data) == nil && orb.Equal(ls, g)))
			} else {
				same = append(same, b2i(ewkb.Scanner(&ls).Scan(data) == nil && orb.Equal(ls, g)))
			}
		case "Polygon":
			var p orb.Polygon
			if pkg == "wkb" {
				same = append(same, b2i(wkb.Scanner(&p).Scan(data) == nil && orb.Equal(p, g)))
			} else {
				same = append(same, b2i(ewkb.Scanner(&p).Scan(data) == nil && orb.Equal(p, g)))
			}
		}
	})
	if site != "" {
		c.emit(panicEvent(pkg+".Marshal(big)", site, e))
		return
	}
	e["same"] = same
	c.emit(e)
}

// c01Plain: a geometry of the kinds WKB has (no ring, no bound, no nil or empty part), so that it comes back equal.
func c01Plain(c *ctx, depth int) orb.Geometry {
	pts := func(n int) []orb.Point {
		ps := make([]orb.Point, n)
		for i := range ps {
			ps[i] = orb.Point{float64(c.rng.Intn(100)), float64(c.rng.Intn(100)) / 4}
		}
		return ps
	}
	k := c.rng.Intn(7)
	if depth == 0 && k == 6 {
		k = 0
	}
	switch k {
	case 0:
		return pts(1)[0]
	case 1:
		return orb.MultiPoint(pts(1 + c.rng.Intn(4)))
	case 2:
		return orb.LineString(pts(1 + c.rng.Intn(4)))
	case 3:
		return orb.MultiLineString{orb.LineString(pts(2)), orb.LineString(pts(1 + c.rng.Intn(3)))}
	case 4:
		return orb.Polygon{orb.Ring(pts(4)), orb.Ring(pts(3))}
	case 5:
		return orb.MultiPolygon{{orb.Ring(pts(3))}, {orb.Ring(pts(4)), orb.Ring(pts(3))}}
	}
	col := orb.Collection{}
	for i := 0; i < 1+c.rng.Intn(3); i++ {
		col = append(col, c01Plain(c, depth-1))
	}
	return col
}

// c01Hex: the hex entry points against Marshal, under both default SRIDs.
func c01Hex(c *ctx, g orb.Geometry, srid int, le bool, defSRID int) {
	var order binary.ByteOrder = binary.BigEndian
	if le {
		order = binary.LittleEndian
	}
	e := map[string]interface{}{"k": "wkbhex", "srid": srid, "dsrid": defSRID, "le": b2i(le), "nt": 1}
	setCurrent("ewkb.MarshalToHex", e)
	old := ewkb.DefaultSRID
	ewkb.DefaultSRID = defSRID
	defer func() { ewkb.DefaultSRID = old }()
	site := guard(func() {
		b, err1 := ewkb.Marshal(g, srid, order)
		h, err2 := ewkb.MarshalToHex(g, srid, order)
		e["hex"] = b2i(err1 == nil && err2 == nil && h == hex.EncodeToString(b))
		e["must"] = b2i(ewkb.MustMarshalToHex(g, srid, order) == hex.EncodeToString(b) && bytes.Equal(ewkb.MustMarshal(g, srid, order), b))
		wb, err3 := wkb.Marshal(g, order)
		wh, err4 := wkb.MarshalToHex(g, order)
		e["whex"] = b2i(err3 == nil && err4 == nil && wh == hex.EncodeToString(wb) && wkb.MustMarshalToHex(g, order) == wh)
		// and what a scanner reads back from the hex text: the value with the SRID that was asked for
		s := ewkb.Scanner(nil)
		err := s.Scan([]byte(h))
		e["back"] = b2i(err == nil && orb.Equal(s.Geometry, g) && s.SRID == srid)
	})
	if site != "" {
		c.emit(panicEvent("ewkb.MarshalToHex", site, e))
		return
	}
	c.emit(e)
}

func init() {
	register("wkbbig", func(c *ctx) {
		sizes := []int{9999, 10000, 10001, 10003, 20001}
		if c.thorough() {
			sizes = append(sizes, 19999, 20000, 30001, 65536, 65537)
		}
		for _, depth := range []int{17, 100, 101, 150, 1000} {
			for _, le := range []bool{true, false} {
				c01Big(c, "Nested", depth, "wkb", le, 0)
				c01Big(c, "Nested", depth, "ewkb", le, 4326)
			}
		}
		for _, kind := range []string{"LineString", "MultiPoint", "Polygon", "MultiLineString"} {
			for _, n := range sizes {
				for _, le := range []bool{true, false} {
					c01Big(c, kind, n, "wkb", le, 0)
					c01Big(c, kind, n, "ewkb", le, []int{0, 4326, 1 + c.rng.Intn(1<<31-1)}[c.rng.Intn(3)])
				}
			}
		}
		for i := 0; i < c.pick(300, 6000); i++ {
			g := c01Plain(c, 2)
			srid := []int{0, 0, 4326, 3857, 1 + c.rng.Intn(1<<31-1)}[c.rng.Intn(5)]
			c01Hex(c, g, srid, c.rng.Intn(2) == 0, []int{4326, 0, 3857}[c.rng.Intn(3)])
		}
	})
}
