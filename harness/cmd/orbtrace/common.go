// Command orbtrace drives the real paulmach/orb API and records one NDJSON event per call for the
// TLA+ trace specifications in /verif/spec. It never computes an oracle: it only re-represents
// arguments and results as integers/strings TLC can read (see DESIGN.md section 2.2).
package main

import (
	"bufio"
	"bytes"
	"encoding/json"
	"flag"
	"fmt"
	"math"
	"math/rand"
	"os"
	"path/filepath"
	"reflect"
	"runtime"
	"sort"
	"strings"
	"sync"
	"sync/atomic"
	"time"
)

// ---- sub-command registry -----------------------------------------------------------------

type family struct {
	name string
	run  func(c *ctx)
}

var families = map[string]func(c *ctx){}

func register(name string, f func(c *ctx)) { families[name] = f }

// ---- run context ---------------------------------------------------------------------------

type ctx struct {
	tier   string
	seed   int64
	shards int
	out    string
	name   string
	cases  string // optional file with TLC-generated cases (one JSON per line)
	n      int    // optional size override
	rng    *rand.Rand
	mu     sync.Mutex
	w      []*bufio.Writer
	f      []*os.File
	count  []int
	rr     int
	kinds  map[string]int // events written, by kind
}

func (c *ctx) thorough() bool { return c.tier == "thorough" }

// pick returns q for the quick tier and t for the thorough tier, unless -n overrides.
func (c *ctx) pick(q, t int) int {
	if c.n > 0 {
		return c.n
	}
	if c.thorough() {
		return t
	}
	return q
}

func (c *ctx) open() {
	for i := 0; i < c.shards; i++ {
		p := filepath.Join(c.out, fmt.Sprintf("%s.%02d.ndjson", c.name, i))
		f, err := os.Create(p)
		if err != nil {
			fatal(err)
		}
		c.f = append(c.f, f)
		c.w = append(c.w, bufio.NewWriterSize(f, 1<<20))
		c.count = append(c.count, 0)
	}
}

func (c *ctx) close() {
	for i := range c.w {
		c.w[i].Flush()
		c.f[i].Close()
	}
}

// emit writes the event to the next shard in round-robin order.
func (c *ctx) emit(v interface{}) {
	progress() // an event written is progress too: only a call that does not come back counts as a hang
	c.mu.Lock()
	s := c.rr % c.shards
	c.rr++
	c.mu.Unlock()
	c.emitTo(s, v)
}

// emitTo writes the event to a given shard (stateful families keep one history in one shard).
func (c *ctx) emitTo(s int, v interface{}) {
	b, err := json.Marshal(v)
	if err != nil {
		fatal(err)
	}
	if bytes.Contains(b, []byte("null")) {
		// the TLA+ Json module rejects null: re-encode with every null replaced by an empty array
		var x interface{}
		if err := json.Unmarshal(b, &x); err != nil {
			fatal(err)
		}
		if b, err = json.Marshal(denull(x)); err != nil {
			fatal(err)
		}
	}
	kind := kindOf(v)
	c.mu.Lock()
	c.w[s].Write(b)
	c.w[s].WriteByte('\n')
	c.count[s]++
	if c.kinds == nil {
		c.kinds = map[string]int{}
	}
	c.kinds[kind]++
	c.mu.Unlock()
	progress()
}

// kindOf reads the event's kind (member "k") without parsing the document again: the summary line lists how many
// events of each kind were written, so that a generator branch that silently stopped producing is noticed (the
// check compares the list with spec/expected_kinds.json).
func kindOf(v interface{}) string {
	switch e := v.(type) {
	case map[string]interface{}:
		if k, ok := e["k"].(string); ok {
			if fn, ok := e["fn"].(string); ok { // the entry point or sub-generator, where the event names one
				return k + "/" + fn
			}
			return k
		}
	default:
		rv := reflect.ValueOf(v)
		if rv.Kind() == reflect.Ptr {
			rv = rv.Elem()
		}
		if rv.Kind() == reflect.Struct {
			if f := rv.FieldByName("K"); f.IsValid() && f.Kind() == reflect.String {
				if fn := rv.FieldByName("Fn"); fn.IsValid() && fn.Kind() == reflect.String && fn.String() != "" {
					return f.String() + "/" + fn.String()
				}
				return f.String()
			}
		}
	}
	return "?"
}

func denull(x interface{}) interface{} {
	switch v := x.(type) {
	case nil:
		return []interface{}{}
	case []interface{}:
		for i := range v {
			v[i] = denull(v[i])
		}
	case map[string]interface{}:
		for k := range v {
			v[k] = denull(v[k])
		}
	}
	return x
}

func fatal(err interface{}) {
	fmt.Fprintln(os.Stderr, "orbtrace: fatal:", err)
	os.Exit(2)
}

// ---- watchdog: a call that makes no progress for 30 s becomes a "timeout" event ---------------

var lastProgress int64
var current atomic.Value // string: JSON description of the call in flight

func progress() { atomic.StoreInt64(&lastProgress, time.Now().UnixNano()) }

func setCurrent(fn string, in interface{}) {
	progress() // the clock of the watchdog runs per call
	current.Store(callDesc{fn, in})
	progress()
}

type callDesc struct {
	Fn string
	In interface{}
}

func startWatchdog(c *ctx) {
	progress()
	go func() {
		for {
			time.Sleep(2 * time.Second)
			if time.Since(time.Unix(0, atomic.LoadInt64(&lastProgress))) > 30*time.Second {
				cd, _ := current.Load().(callDesc)
				c.emitTo(0, map[string]interface{}{"k": "timeout", "fn": cd.Fn, "in": cd.In})
				c.close()
				fmt.Fprintln(os.Stderr, "orbtrace: watchdog: call did not return:", cd.Fn)
				os.Exit(3)
			}
		}
	}()
}

// ---- panic guard ----------------------------------------------------------------------------

// guard runs f and returns "" or, if f panicked, the innermost orb function on the panicking stack
// (a function name, not a line number, so the signature survives unrelated edits).
func guard(f func()) (site string) {
	defer func() {
		if r := recover(); r != nil {
			site = panicSite()
			if site == "" {
				site = "unknown"
			}
		}
	}()
	f()
	return ""
}

// lastPanicOrigin: the function in which the last recovered panic was raised (the innermost frame that is not
// the Go runtime); "" when it is the orb function reported as the site.
var lastPanicOrigin string

func panicSite() string {
	pc := make([]uintptr, 64)
	n := runtime.Callers(3, pc)
	frames := runtime.CallersFrames(pc[:n])
	lastPanicOrigin = ""
	origin := ""
	for {
		fr, more := frames.Next()
		if origin == "" && !strings.HasPrefix(fr.Function, "runtime.") && fr.Function != "" {
			origin = fr.Function
		}
		if strings.HasPrefix(fr.Function, "github.com/paulmach/orb") {
			if !strings.HasPrefix(origin, "github.com/paulmach/orb") {
				lastPanicOrigin = origin
			}
			return strings.TrimPrefix(fr.Function, "github.com/paulmach/")
		}
		if !more {
			break
		}
	}
	lastPanicOrigin = origin
	return ""
}

// panicEvent is the event recorded for a panicking call: no trace spec allows k = "panic". origin names the
// third-party function that raised the panic when it was not raised in orb's own code.
func panicEvent(fn, site string, in interface{}) map[string]interface{} {
	return map[string]interface{}{"k": "panic", "fn": fn, "site": site, "origin": lastPanicOrigin, "in": in}
}

// ---- projections ------------------------------------------------------------------------------

// quant projects v onto the lattice (1/scale)Z; ok is false when v is not within 1e-7 lattice
// units of a lattice point or does not fit comfortably in a TLC integer.
// figScale: the figure is handed to the code at its own size or a few thousand million times smaller or larger (an exact
// scaling by a power of two: the lattice unit shrinks or grows with it, nothing else changes) - what is cut where does
// not depend on the size of the figure.
var figScaleN int

func figScale() float64 {
	figScaleN++
	return []float64{1, 1, 1, math.Ldexp(1, 30), math.Ldexp(1, -20), math.Ldexp(1, 44)}[figScaleN%6]
}

func quant(v float64, scale float64) (int, bool) {
	s := v * scale
	r := math.Round(s)
	if math.IsNaN(s) || math.IsInf(s, 0) || math.Abs(r) > 1e8 || math.Abs(s-r) > 1e-7 {
		return 0, false
	}
	return int(r), true
}

// ranks replaces each distinct float by its rank in IEEE order (-0 == +0); NaN gets rank -1.
func ranks(vals []float64) []int {
	u := append([]float64(nil), vals...)
	sort.Float64s(u)
	uniq := u[:0]
	for i, v := range u {
		if math.IsNaN(v) {
			continue
		}
		if i == 0 || len(uniq) == 0 || v != uniq[len(uniq)-1] {
			uniq = append(uniq, v)
		}
	}
	out := make([]int, len(vals))
	for i, v := range vals {
		if math.IsNaN(v) {
			out[i] = -1
			continue
		}
		out[i] = sort.SearchFloat64s(uniq, v)
	}
	return out
}

// bitIntern gives each distinct 64-bit pattern a small positive id.
type bitIntern struct {
	ids map[uint64]int
}

func newBitIntern() *bitIntern { return &bitIntern{ids: map[uint64]int{}} }
func (b *bitIntern) id(v float64) int {
	k := math.Float64bits(v)
	if id, ok := b.ids[k]; ok {
		return id
	}
	id := len(b.ids) + 1
	b.ids[k] = id
	return id
}

// ---- main -------------------------------------------------------------------------------------

func main() {
	if len(os.Args) < 2 {
		names := []string{}
		for k := range families {
			names = append(names, k)
		}
		sort.Strings(names)
		fmt.Fprintln(os.Stderr, "usage: orbtrace <family> [-tier quick|thorough] [-seed n] [-shards n] -out dir [-cases file]\nfamilies:", strings.Join(names, " "))
		os.Exit(2)
	}
	name := os.Args[1]
	run, ok := families[name]
	if !ok {
		fatal("unknown family " + name)
	}
	fs := flag.NewFlagSet(name, flag.ExitOnError)
	c := &ctx{name: name}
	fs.StringVar(&c.tier, "tier", "quick", "quick|thorough")
	fs.Int64Var(&c.seed, "seed", 1, "seed")
	fs.IntVar(&c.shards, "shards", 16, "number of shard files")
	fs.StringVar(&c.out, "out", "", "output directory")
	fs.StringVar(&c.cases, "cases", "", "file with TLC-generated cases")
	fs.IntVar(&c.n, "n", 0, "size override for seeded generators")
	fs.Parse(os.Args[2:])
	if c.out == "" {
		fatal("-out is required")
	}
	c.rng = rand.New(rand.NewSource(c.seed))
	c.open()
	startWatchdog(c)
	func() {
		// a panic that comes through library code from a call the family did not put under guard() is a finding about the
		// library like any other: it is written as a panic event (the rest of the family's events is lost) and the trace
		// goes to TLC. A panic with no library frame on the stack is a fault of the harness and stays fatal.
		defer func() {
			if r := recover(); r != nil {
				site := panicSite()
				if site == "" {
					panic(r)
				}
				cd, _ := current.Load().(callDesc)
				c.emitTo(0, panicEvent("unguarded call after "+cd.Fn, site, fmt.Sprint(r)))
			}
		}()
		run(c)
	}()
	c.close()
	total := 0
	for _, n := range c.count {
		total += n
	}
	kj, _ := json.Marshal(c.kinds)
	if c.kinds == nil {
		kj = []byte("{}")
	}
	fmt.Printf("{\"family\":%q,\"events\":%d,\"shards\":%d,\"kinds\":%s}\n", name, total, c.shards, kj)
}

// readCases reads TLC-generated cases: one JSON document per line.
func readCases(path string, each func(raw json.RawMessage)) {
	f, err := os.Open(path)
	if err != nil {
		fatal(err)
	}
	defer f.Close()
	sc := bufio.NewScanner(f)
	sc.Buffer(make([]byte, 1<<20), 1<<26)
	for sc.Scan() {
		line := strings.TrimSpace(sc.Text())
		if line == "" {
			continue
		}
		each(json.RawMessage(line))
	}
}
