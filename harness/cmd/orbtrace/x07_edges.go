package main

import (
	"github.com/paulmach/orb"
	"github.com/paulmach/orb/clip"
	"github.com/paulmach/orb/geo"
	"github.com/paulmach/orb/maptile"
	"github.com/paulmach/orb/quadtree"
)

// X07, edge cases of small functions as a decision table (spec/Misc.tla, EdgeOutcome): what = the case,
// outcome = what the real function did, in the table's vocabulary.

func x07Edge(c *ctx, what string, f func() string) {
	out := ""
	setCurrent("edge:"+what, nil)
	if site := guard(func() { out = f() }); site != "" {
		out = "panic"
	}
	c.emit(map[string]interface{}{"k": "edge", "what": what, "outcome": out, "nt": 1})
}

func boundStr(b orb.Bound, want orb.Bound) string {
	if b == want {
		return "want"
	}
	return "other"
}

func init() {
	register("miscedges", func(c *ctx) {
		ls := orb.LineString{{10, 20}, {11, 21}, {12, 20}}
		first := func(p orb.Point, b float64, ls orb.LineString) string {
			if p == ls[0] && b == 0 {
				return "first"
			}
			return "other"
		}
		x07Edge(c, "along.empty", func() string { geo.PointAtDistanceAlongLine(orb.LineString{}, 10); return "returned" })
		x07Edge(c, "along.nil", func() string { geo.PointAtDistanceAlongLine(nil, 10); return "returned" })
		x07Edge(c, "along.negative", func() string { p, b := geo.PointAtDistanceAlongLine(ls, -5); return first(p, b, ls) })
		x07Edge(c, "along.single", func() string { p, b := geo.PointAtDistanceAlongLine(ls[:1], 1000); return first(p, b, ls) })
		x07Edge(c, "along.zero", func() string { p, _ := geo.PointAtDistanceAlongLine(ls, 0); return first(p, 0, ls) })
		x07Edge(c, "along.beyond", func() string {
			p, _ := geo.PointAtDistanceAlongLine(ls, 1e9)
			if p == ls[2] {
				return "last"
			}
			return "other"
		})
		t := maptile.New(1, 1, 2)
		x07Edge(c, "czr.inverted", func() string { maptile.ChildrenInZoomRange(t, 4, 3); return "returned" })
		x07Edge(c, "czr.shallow", func() string { maptile.ChildrenInZoomRange(t, 1, 3); return "returned" })
		x07Edge(c, "czr.same", func() string {
			ts := maptile.ChildrenInZoomRange(t, 2, 2)
			if len(ts) == 1 && ts[0] == t {
				return "self"
			}
			return "other"
		})
		bnd := orb.Bound{Min: orb.Point{-3, 2}, Max: orb.Point{5, 9}}
		x07Edge(c, "qt.bound", func() string { return boundStr(quadtree.New(bnd).Bound(), bnd) })
		empty := orb.Bound{Min: orb.Point{1, 1}, Max: orb.Point{-1, -1}}
		empty2 := orb.Bound{Min: orb.Point{7, 7}, Max: orb.Point{6, 6}}
		a := orb.Bound{Min: orb.Point{0, 0}, Max: orb.Point{4, 4}}
		b := orb.Bound{Min: orb.Point{2, 1}, Max: orb.Point{6, 3}}
		far := orb.Bound{Min: orb.Point{10, 10}, Max: orb.Point{12, 12}}
		x07Edge(c, "clipbound.bothempty", func() string { return boundStr(clip.Bound(empty, empty2), empty2) })
		x07Edge(c, "clipbound.firstempty", func() string { return boundStr(clip.Bound(empty, a), a) })
		x07Edge(c, "clipbound.secondempty", func() string { return boundStr(clip.Bound(a, empty), a) })
		x07Edge(c, "clipbound.overlap", func() string {
			return boundStr(clip.Bound(a, b), orb.Bound{Min: orb.Point{2, 1}, Max: orb.Point{4, 3}})
		})
		x07Edge(c, "clipbound.commutes", func() string { return boundStr(clip.Bound(b, a), clip.Bound(a, b)) })
		x07Edge(c, "clipbound.disjoint", func() string {
			if clip.Bound(a, far).IsEmpty() {
				return "empty"
			}
			return "other"
		})
		x07Edge(c, "clipgeom.bound", func() string {
			g := clip.Geometry(a, b)
			if gb, ok := g.(orb.Bound); ok {
				return boundStr(gb, orb.Bound{Min: orb.Point{2, 1}, Max: orb.Point{4, 3}})
			}
			return "other"
		})
		x07Edge(c, "clipgeom.bound.disjoint", func() string {
			if clip.Geometry(a, far) == nil {
				return "nil"
			}
			return "other"
		})
		// a box around a point: near a pole it takes every longitude and stops at the pole; across the antimeridian its
		// longitudes wrap (west edge east of the east edge)
		x07Edge(c, "around.pole.north", func() string {
			bb := geo.NewBoundAroundPoint(orb.Point{20, 89.5}, 100000)
			if bb.Min[0] == -180 && bb.Max[0] == 180 && bb.Max[1] == 90 && bb.Min[1] < 89.5 && bb.Min[1] > 88 {
				return "capped"
			}
			return "other"
		})
		x07Edge(c, "around.pole.south", func() string {
			bb := geo.NewBoundAroundPoint(orb.Point{-100, -89.9}, 50000)
			if bb.Min[0] == -180 && bb.Max[0] == 180 && bb.Min[1] == -90 && bb.Max[1] > -89.9 && bb.Max[1] < -89 {
				return "capped"
			}
			return "other"
		})
		x07Edge(c, "around.antimeridian.east", func() string {
			bb := geo.NewBoundAroundPoint(orb.Point{179.9, 10}, 50000)
			if bb.Min[0] > 179 && bb.Min[0] < 179.9 && bb.Max[0] < -179 && bb.Max[0] > -180 {
				return "wrapped"
			}
			return "other"
		})
		x07Edge(c, "around.antimeridian.west", func() string {
			bb := geo.NewBoundAroundPoint(orb.Point{-179.9, -10}, 50000)
			if bb.Max[0] < -179 && bb.Max[0] > -179.9 && bb.Min[0] > 179 && bb.Min[0] < 180 {
				return "wrapped"
			}
			return "other"
		})
	})
}
