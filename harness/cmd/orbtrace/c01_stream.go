package main

import (
	"bufio"
	"bytes"
	"encoding/binary"
	"encoding/json"
	"errors"
	"io"
	"math"
	"sort"
	"testing/iotest"

	"github.com/paulmach/orb"
	"github.com/paulmach/orb/encoding/ewkb"
	"github.com/paulmach/orb/encoding/wkb"
)

// C01 (streams): one Encoder and one Decoder over one byte pipe. See spec/WkbStream.tla and
// spec/WkbStream_Trace.tla. A history is a "reset" event (with the coordinate table of the whole
// history) followed by one event per operation; a history stays in one shard.

type wsOp struct {
	Op     string          `json:"op"`
	Le     bool            `json:"le"`
	Srid   int             `json:"srid"`
	Sr     int             `json:"sr"`
	G      json.RawMessage `json:"g"`
	geom   orb.Geometry
	chunk  int // bytes per Read of the decoder's reader (0: everything available)
	budget int // bytes the writer still accepts (-1: unlimited)
}

// chunkReader hands out at most n bytes per Read.
type chunkReader struct {
	r io.Reader
	n *int
	// eager: report io.EOF together with the last bytes instead of on a separate empty read (io.Reader allows both)
	eager bool
}

func (c chunkReader) Read(p []byte) (int, error) {
	if *c.n > 0 && len(p) > *c.n {
		p = p[:*c.n]
	}
	n, err := c.r.Read(p)
	if b, ok := c.r.(interface{ Len() int }); ok && c.eager && err == nil && b.Len() == 0 {
		err = io.EOF
	}
	return n, err
}

// c01Reader wraps encoded bytes in one of the shapes an io.Reader may legally have: everything at once, one byte
// or half the request per read, through a bufio.Reader, and with io.EOF delivered together with the last bytes.
func c01Reader(rng interface{ Intn(int) int }, data []byte) io.Reader {
	base := bytes.NewReader(data)
	switch rng.Intn(6) {
	case 0:
		return iotest.DataErrReader(base)
	case 1:
		return iotest.OneByteReader(base)
	case 2:
		return iotest.HalfReader(base)
	case 3:
		return bufio.NewReaderSize(base, 16)
	case 4:
		return iotest.DataErrReader(iotest.HalfReader(base))
	}
	return base
}

// limitWriter accepts budget more bytes, then fails (a short write with an error).
type limitWriter struct {
	w      io.Writer
	budget *int
}

var errWriterFull = errors.New("writer full")

func (l limitWriter) Write(p []byte) (int, error) {
	if *l.budget < 0 {
		return l.w.Write(p)
	}
	if len(p) <= *l.budget {
		*l.budget -= len(p)
		return l.w.Write(p)
	}
	n, _ := l.w.Write(p[:*l.budget])
	*l.budget = 0
	return n, errWriterFull
}

// wsRun replays one history through the real encoder and decoder of one package.
func wsRun(c *ctx, shard int, pkg string, ops []wsOp) {
	in := newWkbIntern()
	// package configuration read when the encoder is created: the default SRID of ewkb encoders
	dsrid := 0
	if pkg == "ewkb" {
		dsrid = []int{4326, 4326, 0, 3857}[c.rng.Intn(4)]
		ewkb.DefaultSRID = dsrid
		defer func() { ewkb.DefaultSRID = 4326 }()
	}
	var pipe bytes.Buffer
	chunk, budget := 0, -1
	var encW *wkb.Encoder
	var encE *ewkb.Encoder
	var decW *wkb.Decoder
	var decE *ewkb.Decoder
	w := limitWriter{&pipe, &budget}
	r := chunkReader{&pipe, &chunk, c.rng.Intn(2) == 0}
	if pkg == "wkb" {
		encW, decW = wkb.NewEncoder(w), wkb.NewDecoder(r)
	} else {
		encE, decE = ewkb.NewEncoder(w), ewkb.NewDecoder(r)
	}
	var evs []map[string]interface{}
	for _, o := range ops {
		o := o
		e := map[string]interface{}{"k": "ws", "op": o.Op, "pkg": pkg}
		setCurrent(pkg+" stream "+o.Op, nil)
		site := guard(func() {
			switch o.Op {
			case "order":
				var bo binary.ByteOrder = binary.BigEndian
				e["le"] = 0
				if o.Le {
					bo = binary.LittleEndian
					e["le"] = 1
				}
				if pkg == "wkb" {
					encW.SetByteOrder(bo)
				} else {
					encE.SetByteOrder(bo)
				}
			case "srid":
				e["srid"] = o.Srid
				encE.SetSRID(o.Srid)
			case "enc":
				gm, _ := encGeom(o.geom, in.fn())
				e["g"], e["sr"], e["topnil"] = gm, o.Sr, 0
				if o.geom != nil && isNilSlice(o.geom) {
					e["topnil"] = 1
				}
				budget = o.budget
				before := pipe.Len()
				var err error
				if pkg == "wkb" {
					err = encW.Encode(o.geom)
				} else if o.Sr < 0 {
					err = encE.Encode(o.geom)
				} else {
					err = encE.Encode(o.geom, o.Sr)
				}
				budget = -1
				e["wrote"] = bytesToInts(append([]byte{}, pipe.Bytes()[before:]...))
				e["err"] = 0
				if err != nil {
					e["err"] = 1
				}
				e["rem"] = pipe.Len()
			case "dec":
				chunk = o.chunk
				var g orb.Geometry
				var srid int
				var err error
				if pkg == "wkb" {
					g, err = decW.Decode()
				} else {
					g, srid, err = decE.Decode()
				}
				e["chunk"] = o.chunk
				e["v"], e["srid"] = map[string]interface{}{"t": "nil"}, 0
				switch {
				case err == nil:
					e["res"] = "ok"
					e["v"], _ = encGeom(g, in.fn())
					e["srid"] = srid
				case err == io.EOF:
					e["res"] = "eof"
				default:
					e["res"] = "err"
				}
				e["rem"] = pipe.Len()
			}
		})
		if site != "" {
			evs = append(evs, panicEvent(pkg+" stream "+o.Op, site, e["g"]))
			break
		}
		evs = append(evs, e)
	}
	c.emitTo(shard, map[string]interface{}{"k": "ws", "op": "reset", "pkg": pkg, "dsrid": dsrid, "tab": in.tab()})
	for _, e := range evs {
		e["nt"] = 1
		c.emitTo(shard, e)
	}
}

func wsWkbOk(ops []wsOp) bool {
	for _, o := range ops {
		if o.Op == "srid" || (o.Op == "enc" && o.Sr > 0) {
			return false
		}
	}
	return true
}

func init() {
	// (R) every history of the bounded stream model, replayed with whole and one-byte reads
	register("wkbstream", func(c *ctx) {
		pat := []float64{
			math.Float64frombits(0x0100000020000001), math.Float64frombits(0), math.Float64frombits(0xffffffffffffffff),
		}
		var raws []string
		readCases(c.cases, func(raw json.RawMessage) { raws = append(raws, string(raw)) })
		sort.Strings(raws)
		for i, raw := range raws {
			if !c.thorough() && i%4 != int(c.seed)%4 {
				continue // quick tier: a quarter of the histories (which quarter depends on the seed)
			}
			var h struct {
				Ops []wsOp `json:"ops"`
			}
			if err := json.Unmarshal([]byte(raw), &h); err != nil {
				fatal(err)
			}
			for j := range h.Ops {
				o := &h.Ops[j]
				o.budget = -1
				if o.Op == "enc" {
					o.geom = decodeGeomJSON(o.G, func(id int) float64 { return pat[id-1] })
				}
				if o.Op == "dec" {
					o.chunk = []int{0, 1, 3}[(i+j)%3]
				}
			}
			// every history ends with decodes until the end of the stream is reported
			ops := append([]wsOp{}, h.Ops...)
			for k := 0; k <= len(h.Ops); k++ {
				ops = append(ops, wsOp{Op: "dec", chunk: (i + k) % 2, budget: -1})
			}
			wsRun(c, i%c.shards, "ewkb", ops)
			if wsWkbOk(ops) {
				wsRun(c, i%c.shards, "wkb", ops)
			}
		}
	})
	// (T) seeded histories: random geometries over every float class, chunked reads, a writer that fails part-way
	register("wkbstreamrandom", func(c *ctx) {
		n := c.pick(600, 12000)
		for i := 0; i < n; i++ {
			pkg := "ewkb"
			if i%3 == 0 {
				pkg = "wkb"
			}
			var ops []wsOp
			pending := 0
			nops := 3 + c.rng.Intn(10)
			for j := 0; j < nops; j++ {
				switch k := c.rng.Intn(10); {
				case k == 0:
					ops = append(ops, wsOp{Op: "order", Le: c.rng.Intn(2) == 0})
				case k == 1 && pkg == "ewkb":
					ops = append(ops, wsOp{Op: "srid", Srid: c.rng.Intn(3) * (1 + c.rng.Intn(1<<31-1)) / 2})
				case k < 7:
					maxPts := 4
					if c.rng.Intn(40) == 0 {
						maxPts = 120
					}
					var g orb.Geometry
					if c.rng.Intn(15) != 0 {
						g = randGeom(c, 2, maxPts, func() float64 { return randFloat(c) })
					}
					sr := -1
					if pkg == "wkb" {
						sr = 0
					} else if c.rng.Intn(2) == 0 {
						sr = c.rng.Intn(2) * (1 + c.rng.Intn(1<<31-1))
					}
					ops = append(ops, wsOp{Op: "enc", geom: g, Sr: sr, budget: -1})
					pending++
				default:
					ops = append(ops, wsOp{Op: "dec", chunk: []int{0, 1, 2, 5, 16, 17}[c.rng.Intn(6)], budget: -1})
					if pending > 0 {
						pending--
					}
				}
			}
			if c.rng.Intn(3) == 0 { // the writer fails somewhere inside (or exactly at the end of) one more message
				g := randGeom(c, 2, 4, func() float64 { return randFloat(c) })
				sr := 0
				if pkg == "ewkb" {
					sr = c.rng.Intn(2) * 4326
				}
				ops = append(ops, wsOp{Op: "enc", geom: g, Sr: sr, budget: c.rng.Intn(60)})
				pending++
			}
			for k := 0; k <= pending; k++ {
				ops = append(ops, wsOp{Op: "dec", chunk: []int{0, 1, 7}[c.rng.Intn(3)], budget: -1})
			}
			wsRun(c, i%c.shards, pkg, ops)
		}
	})
}
