package main

import (
	"encoding/json"
	"fmt"
	"math"
	"sort"
	"strconv"
	"strings"
	"unicode"

	"github.com/paulmach/orb"
	"github.com/paulmach/orb/encoding/wkt"
)

// C04: WKT text. See spec/Wkt_Trace.tla.

// wktTokens splits a WKT text into the tokens of spec/Wkt.tla; numbers become "#<id>" with the id of
// the float64 strconv.ParseFloat yields (trusted: strconv decides which float a decimal string denotes).
func wktTokens(s string, in *wkbIntern) ([]string, bool) {
	var out []string
	i := 0
	for i < len(s) {
		ch := rune(s[i])
		switch {
		case ch == '(' || ch == ')' || ch == ',':
			out = append(out, string(ch))
			i++
		case unicode.IsSpace(ch):
			j := i
			for j < len(s) && unicode.IsSpace(rune(s[j])) {
				j++
			}
			out = append(out, " ")
			i = j
		case unicode.IsLetter(ch):
			j := i
			for j < len(s) && unicode.IsLetter(rune(s[j])) {
				j++
			}
			w := strings.ToUpper(s[i:j])
			if w == "NAN" || w == "INF" || w == "E" { // part of a number spelled with letters
				return nil, false
			}
			out = append(out, w)
			i = j
		default:
			j := i
			for j < len(s) && !unicode.IsSpace(rune(s[j])) && s[j] != '(' && s[j] != ')' && s[j] != ',' {
				j++
			}
			f, err := strconv.ParseFloat(s[i:j], 64)
			if err != nil {
				return nil, false
			}
			out = append(out, "#"+strconv.Itoa(in.id(f)))
			i = j
		}
	}
	return out, true
}

// finite floats over the full range, forcing exponent forms and 17-digit mantissas
func wktFloat(c *ctx) float64 {
	if c.rng.Intn(12) == 0 {
		// the neighbours of short decimals (what decimal arithmetic leaves behind: 0.1 + 0.02 = 0.12000000000000001): a
		// decimal with up to seven places between 1e-4 and 1e6, and the float64 next to it on either side
		places := c.rng.Intn(8)
		d := math.Round(c.rng.Float64()*math.Pow(10, float64(c.rng.Intn(7)))*math.Pow(10, float64(places))) / math.Pow(10, float64(places))
		d = math.Copysign(d, float64(1-2*c.rng.Intn(2)))
		switch c.rng.Intn(3) {
		case 0:
			return math.Nextafter(d, math.Inf(1))
		case 1:
			return math.Nextafter(d, math.Inf(-1))
		}
		return d
	}
	switch c.rng.Intn(11) {
	case 10:
		// values that are exactly representable in single precision (coordinates widened from float32): their shortest
		// float64 spelling is longer than their shortest float32 spelling
		switch c.rng.Intn(5) {
		case 0:
			return float64(float32(c.rng.Float64()*360 - 180))
		case 1:
			return float64(float32(0.1)) * float64(1+c.rng.Intn(9))
		case 2:
			return math.Ldexp(1, 24+c.rng.Intn(40)) + float64([]int{0, 256, 4096}[c.rng.Intn(3)])*float64(c.rng.Intn(2))
		case 3:
			return []float64{math.MaxFloat32, -math.MaxFloat32, math.SmallestNonzeroFloat32, float64(float32(1e-40)), 16777217, 1073741824, 2147483904}[c.rng.Intn(7)]
		}
		return float64(float32(c.rng.NormFloat64() * 1e6))
	case 0:
		return float64(c.rng.Intn(361) - 180)
	case 1:
		return c.rng.Float64()*360 - 180 // 15-17 significant digits
	case 2:
		return math.Float64frombits(uint64(c.rng.Int63())&0x7fefffffffffffff) * float64(1-2*c.rng.Intn(2)) // any finite magnitude
	case 3:
		return c.rng.Float64() * 1e-5 // < 1e-4: exponent form
	case 4:
		return c.rng.Float64() * 1e22 // >= 1e21: exponent form
	case 5:
		return math.Copysign(0, -1)
	case 6:
		// the values at the very ends of the finite range and of the plain-decimal range
		return []float64{1e21, math.MaxFloat64, -math.MaxFloat64, math.Nextafter(math.MaxFloat64, 0), math.SmallestNonzeroFloat64,
			-math.SmallestNonzeroFloat64, 1e21 - 131072, 999999.9999999999, 1e6, 4.9e-324 * 3}[c.rng.Intn(10)]
	case 7:
		return 0.0001
	case 8:
		return math.SmallestNonzeroFloat64 * float64(1+c.rng.Intn(1000))
	default:
		return math.Round(c.rng.NormFloat64()*1e6) / 1e3
	}
}

func wktPrintable(g orb.Geometry) bool { // polygons / multi-lines with a zero-vertex part print "()": not WKT
	switch v := g.(type) {
	case orb.Ring:
		return true // the empty ring is an empty value: POLYGON EMPTY
	case orb.Polygon:
		for _, r := range v {
			if len(r) == 0 {
				return false
			}
		}
	case orb.MultiLineString:
		for _, r := range v {
			if len(r) == 0 {
				return false
			}
		}
	case orb.MultiPolygon:
		for _, p := range v {
			if len(p) == 0 {
				return false
			}
			for _, r := range p {
				if len(r) == 0 {
					return false
				}
			}
		}
	case orb.Collection:
		for _, m := range v {
			if m == nil || !wktPrintable(m) {
				return false
			}
		}
	}
	return true
}

// c04Typed runs the seven typed parse functions on one text: accepted (1), incorrect geometry (2), another failure (0).
func c04Typed(text string) []int {
	typed := make([]int, 7)
	res := func(err error) int {
		if err == nil {
			return 1
		}
		if err == wkt.ErrIncorrectGeometry {
			return 2
		}
		return 0
	}
	var e1 error
	_, e1 = wkt.UnmarshalPoint(text)
	typed[0] = res(e1)
	_, e1 = wkt.UnmarshalMultiPoint(text)
	typed[1] = res(e1)
	_, e1 = wkt.UnmarshalLineString(text)
	typed[2] = res(e1)
	_, e1 = wkt.UnmarshalMultiLineString(text)
	typed[3] = res(e1)
	_, e1 = wkt.UnmarshalPolygon(text)
	typed[4] = res(e1)
	_, e1 = wkt.UnmarshalMultiPolygon(text)
	typed[5] = res(e1)
	_, e1 = wkt.UnmarshalCollection(text)
	typed[6] = res(e1)
	return typed
}

var c04PrevBytes []byte
var c04PrevText string

// texts the parsers refuse, parsed now and then before a valid one: what a refused text left behind must not reach the next
var c04Refused = []string{
	"GEOMETRYCOLLECTION(POINT(9 9),POINT(1 2 3),POINT(8 8))", "GEOMETRYCOLLECTION(LINESTRING(1 1,2 2),POLYGON((0 0,1 x)),POINT(7 7))",
	"MULTIPOLYGON(((0 0,1 0,1 1,0 0)),((5 5,6 5,6 6,5)))", "LINESTRING(1 2,3)", "POLYGON((0 0,1 1,2 2", "MULTIPOINT((1 2),(3))",
	"GEOMETRYCOLLECTION(GEOMETRYCOLLECTION(POINT(4 4),POINT(bad)),POINT(5 5))", "POINT(1 2) trailing", "",
}
var c04Calls int

func c04Event(c *ctx, g orb.Geometry) (string, *wkbIntern, map[string]interface{}) {
	c04Calls++
	if c04Calls%3 == 0 {
		guard(func() {
			t := c04Refused[(c04Calls/3)%len(c04Refused)]
			wkt.Unmarshal(t)
			wkt.UnmarshalCollection(t)
			wkt.UnmarshalMultiPolygon(t)
		})
	}
	in := newWkbIntern()
	gm, _ := encGeom(g, in.fn())
	e := map[string]interface{}{"k": "wkt", "g": gm, "err": 0, "typed": []int{}}
	setCurrent("wkt.MarshalString", gm)
	var text string
	var out orb.Geometry
	var err error
	typed := make([]int, 7)
	site := guard(func() {
		text = wkt.MarshalString(g)
		b := wkt.Marshal(g)
		if string(b) != text {
			text = "\x00marshal and marshalstring differ"
		}
		// operation history: the bytes returned by the PREVIOUS Marshal call must still read the same after
		// this one (a result that aliases a reused buffer changes under the caller's feet)
		if c04PrevBytes != nil && string(c04PrevBytes) != c04PrevText {
			c.emit(map[string]interface{}{"k": "aliased", "fn": "wkt.Marshal", "was": c04PrevText, "now": string(c04PrevBytes)})
		}
		// ... and they are the caller's: overwritten now, which must not show in anything encoded later
		for i := range c04PrevBytes {
			c04PrevBytes[i] = '#'
		}
		c04PrevBytes, c04PrevText = b, string(b)
		if g == nil {
			return
		}
		out, err = wkt.Unmarshal(text)
		typed = c04Typed(text)
	})
	if site != "" {
		c.emit(panicEvent("wkt.Marshal/Unmarshal", site, gm))
		return "", nil, nil
	}
	toks, ok := wktTokens(text, in)
	if !ok {
		e["err"] = 3
		toks = []string{}
	}
	if toks == nil {
		toks = []string{}
	}
	e["tokens"], e["typed"] = toks, typed
	if err != nil {
		e["err"] = 1
		e["errtext"] = err.Error()
	}
	e["out"], _ = encGeom(out, in.fn())
	if g != nil {
		e["nt"] = 1
	}
	c.emit(e)
	return text, in, gm
}

type wktPat struct {
	Gaps [2]int `json:"gaps"`
	Kase string `json:"kase"`
	Ws   string `json:"ws"`
}

// respell applies a pattern to a text: white space inserted at admissible gaps, keyword case changed.
func respell(text string, p wktPat) string {
	// split into raw tokens keeping the text of each
	var toks []string
	i := 0
	for i < len(text) {
		ch := text[i]
		switch {
		case ch == '(' || ch == ')' || ch == ',' || ch == ' ':
			toks = append(toks, string(ch))
			i++
		default:
			j := i
			for j < len(text) && text[j] != '(' && text[j] != ')' && text[j] != ',' && text[j] != ' ' {
				j++
			}
			toks = append(toks, text[i:j])
			i = j
		}
	}
	admissible := func(k int) bool { // gap before token k (0..len)
		if k == 0 || k == len(toks) {
			return true
		}
		isP := func(s string) bool { return s == "(" || s == ")" || s == "," }
		return isP(toks[k-1]) || isP(toks[k])
	}
	ws := map[string]string{"space": " ", "tab": "\t", "two": "  "}[p.Ws]
	ins := map[int]bool{}
	for _, g := range p.Gaps {
		k := g * len(toks) / 12
		for d := 0; d <= len(toks); d++ { // nearest admissible gap
			if k+d <= len(toks) && admissible(k+d) {
				ins[k+d] = true
				break
			}
			if k-d >= 0 && admissible(k-d) {
				ins[k-d] = true
				break
			}
		}
	}
	var sb strings.Builder
	for k, t := range toks {
		if ins[k] {
			sb.WriteString(ws)
		}
		if len(t) > 0 && unicode.IsLetter(rune(t[0])) && !strings.ContainsAny(t, "0123456789.+-") {
			switch p.Kase {
			case "lower":
				t = strings.ToLower(t)
			case "mixed":
				b := []byte(strings.ToLower(t))
				for x := 0; x < len(b); x += 2 {
					b[x] = byte(unicode.ToUpper(rune(b[x])))
				}
				t = string(b)
			}
		}
		sb.WriteString(t)
	}
	if ins[len(toks)] {
		sb.WriteString(ws)
	}
	return sb.String()
}

func init() {
	register("wkt", func(c *ctx) {
		var pats []wktPat
		var raws []string
		readCases(c.cases, func(raw json.RawMessage) { raws = append(raws, string(raw)) })
		sort.Strings(raws)
		for _, r := range raws {
			var p wktPat
			if err := json.Unmarshal([]byte(r), &p); err != nil {
				fatal(err)
			}
			pats = append(pats, p)
		}
		if len(pats) == 0 {
			fatal("no re-spelling patterns")
		}
		n := c.pick(6000, 150000)
		for i := 0; i < n; i++ {
			var g orb.Geometry
			for {
				g = randGeom(c, 3, 5, func() float64 { return wktFloat(c) })
				if wktPrintable(g) {
					break
				}
			}
			if i%211 == 0 {
				g = nil
			}
			if i%97 == 5 { // collections nested to any depth: 5 .. 40 levels around a small geometry
				g = orb.Point{wktFloat(c), 1}
				for d := 5 + c.rng.Intn(36); d > 0; d-- {
					col := orb.Collection{g}
					if c.rng.Intn(3) == 0 {
						col = orb.Collection{orb.Point{2, 3}, g}
					}
					g = col
				}
			}
			text, in, gm := c04Event(c, g)
			if g == nil || in == nil {
				continue
			}
			// re-spellings: every TLC pattern for the first texts, a seeded few for the rest
			np := 2
			if i < c.pick(3, 200) {
				np = len(pats)
			}
			for k := 0; k < np; k++ {
				p := pats[(i*7+k*13)%len(pats)]
				if np == len(pats) {
					p = pats[k]
				}
				t2 := respell(text, p)
				e := map[string]interface{}{"k": "resp", "g": gm, "pat": fmt.Sprintf("%v", p), "err": 0, "nt": 1}
				setCurrent("wkt.Unmarshal(respelled)", t2)
				var out orb.Geometry
				var err error
				var typed []int
				if site := guard(func() { out, err = wkt.Unmarshal(t2); typed = c04Typed(t2) }); site != "" {
					c.emit(panicEvent("wkt.Unmarshal(respelled)", site, t2))
					continue
				}
				if err != nil {
					e["err"], e["errtext"], e["text"] = 1, err.Error(), t2
				}
				e["out"], _ = encGeom(out, in.fn())
				e["typed"] = typed // the typed parse functions see the same re-spelled text
				c.emit(e)
			}
		}
	})
}
