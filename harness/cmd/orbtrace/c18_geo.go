package main

import (
	"math"

	"github.com/paulmach/orb"
	"github.com/paulmach/orb/geo"
)

// C18: spherical measures. See spec/GeoSphere_Trace.tla.

func um(v float64) int { return clipInt(math.Abs(v) * 1e6) } // metres -> micrometres, clipped

func ppb(a, b float64) int { // |a-b| / |b| in parts per billion
	if b == 0 {
		if a == 0 {
			return 0
		}
		return 1000000000
	}
	return clipInt(math.Abs(a-b) / math.Abs(b) * 1e9)
}

func init() {
	register("geo", func(c *ctx) {
		rpt := func() orb.Point { return orb.Point{c.rng.Float64()*360 - 180, c.rng.Float64()*178 - 89} }
		n := c.pick(6000, 120000)
		for i := 0; i < n; i++ {
			in := newBitIntern()
			a, b := rpt(), rpt()
			switch c.rng.Intn(5) {
			case 0: // straddling the antimeridian, either order
				a[0], b[0] = 180-c.rng.Float64()*2, -180+c.rng.Float64()*2
				if c.rng.Intn(2) == 0 {
					a, b = b, a
				}
			case 1: // close pairs below 80 degrees: the "fast" distance must agree
				a[1] = c.rng.Float64()*158 - 79
				// separations of every magnitude from a few kilometres down to under a millimetre (1e-1 .. 1e-8 degree),
				// also purely along a parallel or a meridian
				sc := math.Pow(10, -1-c.rng.Float64()*7)
				b = orb.Point{a[0] + (c.rng.Float64()-0.5)*sc, a[1] + (c.rng.Float64()-0.5)*sc}
				switch c.rng.Intn(4) {
				case 0:
					b[1] = a[1]
				case 1:
					b[0] = a[0]
				}
			case 2: // gridded
				a = orb.Point{float64(c.rng.Intn(361) - 180), float64(c.rng.Intn(179) - 89)}
				b = orb.Point{float64(c.rng.Intn(361) - 180), float64(c.rng.Intn(179) - 89)}
			}
			fab, fba := geo.Distance(a, b), geo.Distance(b, a)
			hab, hba := geo.DistanceHaversine(a, b), geo.DistanceHaversine(b, a)
			e := map[string]interface{}{"k": "gdist", "fab": in.id(fab), "fba": in.id(fba), "hab": in.id(hab), "hba": in.id(hba),
				"hcm": clipInt(hab * 100), "fcm": clipInt(fab * 100), "near": 0, "fmm": 0, "hmm": 0, "nt": 1}
			if hab < 10000 && math.Abs(a[1]) < 80 && math.Abs(b[1]) < 80 {
				e["near"], e["fmm"], e["hmm"] = 1, clipInt(fab*1000), clipInt(hab*1000)
			}
			c.emit(e)
			// bearing / distance, midpoint
			bearing := c.rng.Float64()*360 - 180
			d := c.rng.Float64() * 5e6
			if i%4 == 0 { // the cardinal and half-cardinal bearings exactly, from high latitudes too (the way leads over a pole)
				bearing = []float64{0, 180, -180, 90, -90, 45, -135}[c.rng.Intn(7)]
				if c.rng.Intn(2) == 0 {
					a[1] = []float64{1, -1}[c.rng.Intn(2)] * (70 + c.rng.Float64()*19)
				}
			}
			switch c.rng.Intn(10) {
			case 0:
				d = 0
			case 1: // a step, a hand, a finger: short distances are distances
				d = []float64{0.002, 0.01, 0.05, 0.06, 0.5, 3, 40}[c.rng.Intn(7)]
			}
			p2 := geo.PointAtBearingAndDistance(a, bearing, d)
			c.emit(map[string]interface{}{"k": "gbear", "res": um(geo.DistanceHaversine(a, p2) - d), "nt": 1})
			if hab < 5e6 {
				m := geo.Midpoint(a, b)
				c.emit(map[string]interface{}{"k": "gmid", "res": um(geo.DistanceHaversine(a, m) - geo.DistanceHaversine(m, b)), "nt": 1})
			}
			// length = sum of segment distances
			ls := orb.LineString{a}
			if c.rng.Intn(6) == 0 { // a line that starts next to the antimeridian and wanders across it
				ls[0][0] = []float64{179.5, -179.5, 180, -180, 178.2}[c.rng.Intn(5)]
			}
			sum, sumh := 0.0, 0.0
			for j := 0; j < 1+c.rng.Intn(5); j++ {
				nx := orb.Point{ls[len(ls)-1][0] + (c.rng.Float64()-0.5)*4, math.Max(-89, math.Min(89, ls[len(ls)-1][1]+(c.rng.Float64()-0.5)*4))}
				if nx[0] > 180 { // longitudes stay in [-180, 180]: the next vertex lies on the other side
					nx[0] -= 360
				} else if nx[0] < -180 {
					nx[0] += 360
				}
				sum += geo.Distance(ls[len(ls)-1], nx)
				sumh += geo.DistanceHaversine(ls[len(ls)-1], nx)
				ls = append(ls, nx)
			}
			// (the deprecated spelling LengthHaversign is the same function: its difference is added to the haversine residual)
			c.emit(map[string]interface{}{"k": "glen", "res": um(geo.Length(ls) - sum), "resh": um(geo.LengthHaversine(ls)-sumh) + um(geo.LengthHaversign(ls)-geo.LengthHaversine(ls)), "nt": 1})
			// the same segments held by the other kinds: a ring (its stored segments, nothing added), two lines sharing the
			// split vertex, a polygon of two rings, a collection of those - all sums of the segment distances
			if i%4 == 0 && len(ls) >= 3 {
				h := 1 + c.rng.Intn(len(ls)-2)
				s1, s1h := 0.0, 0.0
				for j := 0; j+1 < len(ls); j++ {
					s1 += geo.Distance(ls[j], ls[j+1])
					s1h += geo.DistanceHaversine(ls[j], ls[j+1])
				}
				var g orb.Geometry
				w, wh := s1, s1h
				switch c.rng.Intn(4) {
				case 0:
					g = orb.Ring(ls)
				case 1:
					g = orb.MultiLineString{ls[:h+1], ls[h:]}
				case 2:
					g = orb.Polygon{orb.Ring(ls), orb.Ring(ls[:h+1])}
					for j := 0; j < h; j++ {
						w += geo.Distance(ls[j], ls[j+1])
						wh += geo.DistanceHaversine(ls[j], ls[j+1])
					}
				default:
					g = orb.Collection{ls, orb.Point{1, 2}, orb.MultiLineString{ls}, orb.Collection{orb.Ring(ls)}}
					w, wh = 3*s1, 3*s1h
				}
				if i%8 == 0 { // a box is measured as the ring it denotes: four sides, each a great-circle (or fast) distance
					b := orb.MultiPoint(ls).Bound()
					r := b.ToRing()
					w, wh = 0, 0
					for j := 0; j+1 < len(r); j++ {
						w += geo.Distance(r[j], r[j+1])
						wh += geo.DistanceHaversine(r[j], r[j+1])
					}
					g = b
					if c.rng.Intn(2) == 0 {
						g = orb.Collection{b, orb.Point{3, 3}}
					}
				}
				c.emit(map[string]interface{}{"k": "glen", "res": um(geo.Length(g) - w), "resh": um(geo.LengthHaversine(g) - wh), "nt": 1})
			}
		}
		// boxes with rational-sine parallels: Area = K * width * (sin top - sin bottom)
		lats := []int{-90, -30, 0, 30, 90}
		for _, w := range []int{1, 2, 3, 5, 10, 45, 90, 180, 360} {
			for bi := 0; bi < len(lats); bi++ {
				for ti := bi + 1; ti < len(lats); ti++ {
					for _, lon0 := range []int{-180, -90, -3, 0, 17, 100} {
						if lon0+w > 180 {
							continue
						}
						b := orb.Bound{Min: orb.Point{float64(lon0), float64(lats[bi])}, Max: orb.Point{float64(lon0 + w), float64(lats[ti])}}
						ar := geo.Area(b)
						c.emit(map[string]interface{}{"k": "gbox", "w": w, "bottom": lats[bi], "top": lats[ti], "km2": clipInt(ar / 1e6), "nt": 1})
						ar2 := geo.Area(b.ToPolygon())
						c.emit(map[string]interface{}{"k": "gbox", "w": w, "bottom": lats[bi], "top": lats[ti], "km2": clipInt(ar2 / 1e6), "nt": 1})
					}
				}
			}
		}
		// rings of 3..12 integer-degree vertices: rotations, reversal, closing, polygons with holes, multipolygons
		nr := c.pick(3000, 60000)
		for i := 0; i < nr; i++ {
			k := 3 + c.rng.Intn(10)
			lon0, lat0 := c.rng.Intn(300)-150, c.rng.Intn(120)-60
			ring := make([][2]int, k)
			r := make(orb.Ring, k)
			simple := 0
			if st := starRing(c, k, [2]int{7, 7}, 8); st != nil && c.rng.Intn(3) > 0 {
				// a simple (star-shaped) ring, in either winding: only for these is "sign = winding" meaningful
				if c.rng.Intn(2) == 0 {
					st = reverse2(st)
				}
				simple, k = 1, len(st)
				ring, r = make([][2]int, k), make(orb.Ring, k)
				for j := range st {
					ring[j] = [2]int{lon0 + st[j][0], lat0 + st[j][1]}
				}
			} else {
				for j := range ring {
					ring[j] = [2]int{lon0 + c.rng.Intn(9), lat0 + c.rng.Intn(9)}
				}
			}
			for j := range ring {
				r[j] = orb.Point{float64(ring[j][0]), float64(ring[j][1])}
			}
			base := geo.SignedArea(r)
			if ShoeSign(ring) == 0 {
				continue
			}
			var rel []int
			for rot := 1; rot < k; rot++ {
				rr := append(append(orb.Ring{}, r[rot:]...), r[:rot]...)
				rel = append(rel, ppb(geo.SignedArea(rr), base))
			}
			rev := r.Clone()
			rev.Reverse()
			rel = append(rel, ppb(-geo.SignedArea(rev), base))
			closed := append(r.Clone(), r[0])
			rel = append(rel, ppb(geo.SignedArea(closed), base))
			// the ring's backing array continues into other rings' vertices (a shared coordinate buffer)
			buf := make(orb.Ring, 0, 3*k+2)
			buf = append(buf, r...)
			buf = append(buf, orb.Point{999, 88}, orb.Point{-999, -88})
			shared := buf[:k:cap(buf)]
			before := buf[k]
			rel = append(rel, ppb(geo.SignedArea(shared), base))
			if buf[k] != before {
				rel = append(rel, 1000000000) // the call wrote beyond the ring
			}
			// polygon = |outer| - sum |holes| ; multi = sum
			hole := orb.Ring{{float64(lon0 + 1), float64(lat0 + 1)}, {float64(lon0 + 2), float64(lat0 + 1)}, {float64(lon0 + 1), float64(lat0 + 2)}}
			if c.rng.Intn(2) == 0 {
				hole.Reverse() // holes of either winding
			}
			poly := orb.Polygon{r, hole}
			want := math.Abs(base) - math.Abs(geo.SignedArea(hole))
			for h := c.rng.Intn(3); h > 0; h-- { // further holes, of either winding: each is subtracted
				h2 := orb.Ring{{float64(lon0 + 3 + h), float64(lat0 + 1)}, {float64(lon0 + 4 + h), float64(lat0 + 1)}, {float64(lon0 + 3 + h), float64(lat0 + 2 + h)}}
				if c.rng.Intn(2) == 0 {
					h2.Reverse()
				}
				poly = append(poly, h2)
				want -= math.Abs(geo.SignedArea(h2))
			}
			pa := geo.Area(poly)
			mp := orb.MultiPolygon{poly, {r}}
			if c.rng.Intn(3) == 0 { // members without rings (what is left of a part that was clipped or simplified away) add nothing
				j := c.rng.Intn(3)
				mp = append(mp[:j:j], append(orb.MultiPolygon{orb.Polygon{}}, mp[j:]...)...)
				if c.rng.Intn(2) == 0 {
					mp = append(mp, nil)
				}
			}
			sign := 0
			if base > 0 {
				sign = 1
			} else if base < 0 {
				sign = -1
			}
			// a collection sums over whatever it holds: polygons, a bare ring, a box, things without area, a nested collection
			box := orb.Bound{Min: orb.Point{float64(lon0), float64(lat0)}, Max: orb.Point{float64(lon0 + 2), float64(lat0 + 1)}}
			coll := orb.Collection{poly, orb.Point{3, 4}, r, orb.LineString(r), box, orb.Collection{mp, rev}}
			collWant := pa + math.Abs(base) + geo.Area(box) + (pa + math.Abs(base)) + math.Abs(base)
			multires := ppb(geo.Area(mp), pa+math.Abs(base))
			if cr := ppb(geo.Area(coll), collWant); cr > multires {
				multires = cr
			}
			c.emit(map[string]interface{}{"k": "garea", "ring": ring, "rel": rel, "sign": sign, "simple": simple,
				"polyres": ppb(pa, want), "multires": multires, "nt": 1})
		}
	})
}

// ShoeSign: sign of the planar shoelace of an integer ring (only to skip zero-area rings in the generator)
func ShoeSign(r [][2]int) int {
	s := shoelace2(r)
	if s > 0 {
		return 1
	}
	if s < 0 {
		return -1
	}
	return 0
}
