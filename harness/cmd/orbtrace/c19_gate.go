package main

import (
	"fmt"
	"math"
	"sync"
	"sync/atomic"
	"time"

	"github.com/paulmach/orb"
	"github.com/paulmach/orb/quadtree"
)

// C19, paused queries: query A is stopped in the middle (inside its filter callback, or inside the Point() method of a
// stored pointer it is looking at) while query B - any kind, any arguments - runs from start to finish on the same
// tree; then A goes on. Every interleaving is allowed, this one included: B must complete, and both must return what
// they return alone. (A query that cannot complete while another is in progress - readers excluding readers, or a
// later query made to wait for an earlier one - shows here as completed = 0 after a few seconds.)

var qtPointGate struct {
	mu    sync.Mutex
	armed bool
	hit   chan struct{} // closed when the armed gate is reached
	wait  chan struct{} // the gated call continues when this is closed
}

// qtGatePoint is called from qtPtr.Point(): the first call after arming blocks.
func qtGatePoint() {
	qtPointGate.mu.Lock()
	if !qtPointGate.armed {
		qtPointGate.mu.Unlock()
		return
	}
	qtPointGate.armed = false
	atomic.StoreInt32(&qtPointArmed, 0)
	hit, wait := qtPointGate.hit, qtPointGate.wait
	qtPointGate.mu.Unlock()
	close(hit)
	<-wait
}

type qtGateQuery struct {
	kind string // find, matching, knn, knnm, inb, inbm
	pt   orb.Point
	k    int
	lim  float64 // 0: none
	box  orb.Bound
}

func (qq qtGateQuery) run(q *quadtree.Quadtree, f quadtree.FilterFunc) []int {
	one := func(p orb.Pointer) []int {
		if p == nil {
			return []int{}
		}
		return []int{p.(*qtPtr).id}
	}
	var lim []float64
	if qq.lim > 0 {
		lim = []float64{qq.lim}
	}
	switch qq.kind {
	case "find":
		return one(q.Find(qq.pt))
	case "matching":
		return one(q.Matching(qq.pt, f))
	case "knn":
		return idsOf(q.KNearest(nil, qq.pt, qq.k, lim...))
	case "knnm":
		return idsOf(q.KNearestMatching(nil, qq.pt, qq.k, f, lim...))
	case "inb":
		return idsOf(q.InBound(nil, qq.box))
	default:
		return idsOf(q.InBoundMatching(nil, qq.box, f))
	}
}

func init() {
	register("qtgate", func(c *ctx) {
		kinds := []string{"find", "matching", "knn", "knnm", "inb", "inbm"}
		n := c.pick(150, 1500)
		for it := 0; it < n; it++ {
			// a tree of 12..40 points, some removed again
			q := quadtree.New(orb.Bound{Min: orb.Point{0, 0}, Max: orb.Point{256, 256}})
			var ptrs []*qtPtr
			for j := 0; j < 12+c.rng.Intn(29); j++ {
				p := &qtPtr{id: j + 1, p: orb.Point{float64(c.rng.Intn(257)), float64(c.rng.Intn(257))}}
				ptrs = append(ptrs, p)
				q.Add(p)
			}
			for j := 0; j < c.rng.Intn(5); j++ {
				v := ptrs[c.rng.Intn(len(ptrs))]
				q.Remove(v, func(x orb.Pointer) bool { return x.(*qtPtr) == v })
			}
			deep := it%6 == 1
			gateID := 0
			if deep {
				// a tree that is deep and branching at every level: points closing in on a corner geometrically (42 halvings),
				// each level with a point in each of the other three quarters; query A will be stopped at the innermost point, with a long list
				// of cells still to visit, while B walks the same tree from the other end
				q = quadtree.New(orb.Bound{Min: orb.Point{0, 0}, Max: orb.Point{256, 256}})
				ptrs = ptrs[:0]
				add := func(x, y float64) {
					p := &qtPtr{id: len(ptrs) + 1, p: orb.Point{x, y}}
					ptrs = append(ptrs, p)
					q.Add(p)
				}
				add(0.3*256, 0.2*256)
				for lvl := 1; lvl <= 42; lvl++ {
					sd := math.Ldexp(256, -(lvl - 1)) // side of the cell that is split on this level
					add(0.75*sd, 0.25*sd)
					add(0.25*sd, 0.75*sd)
					add(0.75*sd, 0.75*sd)
					add(0.15*sd, 0.1*sd) // stays in the lower left quarter: one level further down
				}
				gateID = len(ptrs) // the innermost point
			}
			mk := func(kind string) qtGateQuery {
				pt := orb.Point{float64(c.rng.Intn(257)), float64(c.rng.Intn(257))}
				qq := qtGateQuery{kind: kind, pt: pt, k: 1 + c.rng.Intn(6)}
				if c.rng.Intn(2) == 0 {
					qq.lim = float64(20 + c.rng.Intn(200))
				}
				w := float64(10 + c.rng.Intn(150))
				qq.box = orb.Bound{Min: orb.Point{pt[0] - w, pt[1] - w}, Max: orb.Point{pt[0] + w, pt[1] + w}}
				return qq
			}
			a, b := mk(kinds[c.rng.Intn(6)]), mk(kinds[c.rng.Intn(6)])
			if it%5 == 0 { // the same point and the same k with different limits (or none), both unfiltered
				b = a
				a.kind, b.kind = "knn", "knn"
				a.lim, b.lim = float64(30+c.rng.Intn(60)), 0
				if c.rng.Intn(2) == 0 {
					b.lim = a.lim + float64(10+c.rng.Intn(100))
				}
			}
			accept := func(p orb.Pointer) bool { return p.(*qtPtr).id%4 != 0 }
			if deep {
				accept = func(p orb.Pointer) bool { return true }
				a = qtGateQuery{kind: []string{"inbm", "knnm"}[c.rng.Intn(2)], pt: orb.Point{0, 0}, k: 1000, box: orb.Bound{Min: orb.Point{0, 0}, Max: orb.Point{256, 256}}}
				b = qtGateQuery{kind: []string{"knn", "inb", "find"}[c.rng.Intn(3)], pt: orb.Point{255, 255}, k: 1000, box: orb.Bound{Min: orb.Point{0, 0}, Max: orb.Point{200, 200}}}
			}
			e := map[string]interface{}{"k": "gate", "a": a.kind, "b": b.kind, "nt": 1, "completed": 1, "same": 1}
			setCurrent("quadtree(paused query)", fmt.Sprint(a, b))
			var aloneA, aloneB []int
			if site := guard(func() { aloneA, aloneB = a.run(q, accept), b.run(q, accept) }); site != "" {
				c.emit(panicEvent("quadtree(paused query)", site, e))
				continue
			}
			// arm the gate: in A's filter if it has one, else in the Point() method of the first pointer A looks at
			hit, wait := make(chan struct{}), make(chan struct{})
			var once sync.Once
			gatedFilter := func(p orb.Pointer) bool {
				if gateID == 0 || p.(*qtPtr).id == gateID {
					once.Do(func() { close(hit); <-wait })
				}
				return accept(p)
			}
			usesFilter := a.kind == "matching" || a.kind == "knnm" || a.kind == "inbm"
			if !usesFilter {
				qtPointGate.mu.Lock()
				qtPointGate.armed, qtPointGate.hit, qtPointGate.wait = true, hit, wait
				qtPointGate.mu.Unlock()
				atomic.StoreInt32(&qtPointArmed, 1)
			}
			var resA, resB []int
			doneA, doneB := make(chan string, 1), make(chan string, 1)
			go func() { doneA <- guard(func() { resA = a.run(q, gatedFilter) }) }()
			reached := false
			select {
			case <-hit:
				reached = true
			case s := <-doneA: // A never reached a gate (an empty search): nothing to interleave
				doneA <- s
			case <-time.After(15 * time.Second):
			}
			progress()
			if reached {
				go func() { doneB <- guard(func() { resB = b.run(q, accept) }) }()
				select {
				case s := <-doneB:
					if s != "" || fmt.Sprint(resB) != fmt.Sprint(aloneB) {
						e["same"] = 0
					}
				case <-time.After(12 * time.Second):
					e["completed"] = 0 // B cannot finish while A is in progress
				}
				progress()
			}
			qtPointGate.mu.Lock()
			qtPointGate.armed = false
			qtPointGate.mu.Unlock()
			atomic.StoreInt32(&qtPointArmed, 0)
			close(wait)
			select {
			case s := <-doneA:
				if s != "" || fmt.Sprint(resA) != fmt.Sprint(aloneA) {
					e["same"] = 0
				}
			case <-time.After(15 * time.Second):
				e["completed"] = 0
			}
			if e["completed"] == 0 {
				// whatever is still blocked stays behind in its goroutine; the tree is not used again
				c.emit(e)
				continue
			}
			c.emit(e)
		}
	})
}
