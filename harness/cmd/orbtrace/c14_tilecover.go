package main

import (
	"fmt"
	"math"
	"sort"

	"github.com/paulmach/orb"
	"github.com/paulmach/orb/maptile"
	"github.com/paulmach/orb/maptile/tilecover"
)

// C14: tile covers and MergeUp. See spec/TileCover_Trace.tla.
// Geometry lives on a lattice of 1/64 tile inside a W x W tile window at zoom z; lattice points are
// inverted to lon/lat here (inverse mercator written out: internal/mercator cannot be imported) and a
// case is kept only if maptile.Fraction maps every point back within 1e-6 tile (else it is a generator
// miss, never a verdict).

const c14U = 64

func c14Inv(tx, ty float64, z uint32) orb.Point {
	maxt := float64(uint64(1) << z)
	lon := 360.0 * (tx/maxt - 0.5)
	lat := 2.0*math.Atan(math.Exp(math.Pi-(2*math.Pi)*(ty/maxt)))*(180.0/math.Pi) - 90.0
	if 2*ty == maxt {
		lat = 0 // the equator is the one tile-row edge with an exact latitude: vertices exactly on a row edge
	}
	return orb.Point{lon, lat}
}

type c14Win struct {
	z      uint32
	bx, by int
	w      int
	u      int // lattice units per tile (0 = c14U)
}

func (wn c14Win) units() int {
	if wn.u == 0 {
		return c14U
	}
	return wn.u
}

func (wn c14Win) pt(p [2]int) (orb.Point, bool) {
	tx, ty := float64(wn.bx)+float64(p[0])/float64(wn.units()), float64(wn.by)+float64(p[1])/float64(wn.units())
	ll := c14Inv(tx, ty, wn.z)
	f := maptile.Fraction(ll, maptile.Zoom(wn.z))
	return ll, math.Abs(f[0]-tx) <= 1e-6 && math.Abs(f[1]-ty) <= 1e-6
}

func (wn c14Win) pts(ps [][2]int) ([]orb.Point, bool) {
	out := make([]orb.Point, len(ps))
	ok := true
	for i, p := range ps {
		var o bool
		out[i], o = wn.pt(p)
		ok = ok && o
	}
	return out, ok
}

func (wn c14Win) cover(set maptile.Set) ([][2]int, bool) {
	out := [][2]int{}
	inside := true
	for t, v := range set {
		if !v {
			continue
		}
		x, y := int(t.X)-wn.bx, int(t.Y)-wn.by
		if x < 0 || y < 0 || x >= wn.w || y >= wn.w || uint32(t.Z) != wn.z {
			inside = false
		}
		out = append(out, [2]int{x, y})
	}
	sort.Slice(out, func(i, j int) bool {
		if out[i][0] != out[j][0] {
			return out[i][0] < out[j][0]
		}
		return out[i][1] < out[j][1]
	})
	// the cover is the caller's: emptied and scribbled on once it has been read, which no later cover may show
	for t := range set {
		delete(set, t)
	}
	if set != nil {
		set[maptile.New(5, 6, 3)], set[maptile.New(0, 0, 0)] = true, false
	}
	return out, inside
}

func c14RandWin(c *ctx, w int) c14Win {
	z := uint32(3 + c.rng.Intn(20)) // zooms 3..22 (a window of w tiles needs 2^z > w+2)
	for (1 << z) <= w+2 {
		z++
	}
	maxt := 1 << z
	wn := c14Win{z: z, bx: c.rng.Intn(maxt - w), by: 1 + c.rng.Intn(maxt-w-1), w: w}
	if c.rng.Intn(3) == 0 { // a window across the equator (row edge k of the window is the equator)
		wn.by = maxt/2 - 1 - c.rng.Intn(w-1)
	}
	return wn
}

// star-shaped simple polygon about (cx, cy) in lattice units: strictly increasing exact angle
func c14Star(c *ctx, cx, cy, rad, step, k int) [][2]int {
	type pa struct {
		p [2]int
		a float64
	}
	var ps []pa
	for i := 0; i < k*3 && len(ps) < k; i++ {
		p := [2]int{cx + step*(c.rng.Intn(2*rad/step+1)-rad/step), cy + step*(c.rng.Intn(2*rad/step+1)-rad/step)}
		if p[0] == cx && p[1] == cy {
			continue
		}
		ps = append(ps, pa{p, math.Atan2(float64(p[1]-cy), float64(p[0]-cx))})
	}
	sort.Slice(ps, func(i, j int) bool { return ps[i].a < ps[j].a })
	var out [][2]int
	half := func(x, y int) int {
		if y > 0 || (y == 0 && x > 0) {
			return 0
		}
		return 1
	}
	for _, q := range ps {
		if len(out) > 0 {
			a := out[len(out)-1]
			ax, ay, bx, by := a[0]-cx, a[1]-cy, q.p[0]-cx, q.p[1]-cy
			if ax*by-ay*bx == 0 && half(ax, ay) == half(bx, by) {
				continue // same direction from the centre
			}
		}
		out = append(out, q.p)
	}
	if len(out) < 3 {
		return nil
	}
	for i := range out {
		a, b := out[i], out[(i+1)%len(out)]
		ax, ay, bx, by := a[0]-cx, a[1]-cy, b[0]-cx, b[1]-cy
		if ax*by-ay*bx <= 0 {
			return nil // not strictly counter-clockwise about the centre: reject
		}
	}
	return out
}

func init() {
	register("tilecover", func(c *ctx) {
		const W = 5
		// (1) lines: exhaustive segments between points of a 13x13 sub-lattice of a 3x3 window (all exact
		// corner and edge crossings), then seeded paths
		if true {
			wn := c14Win{z: 6, bx: 20, by: 20, w: 5} // the inner 3x3 tiles of a 5x5 window, so that covers cannot leave it
			step := 16
			var lat [][2]int
			for x := c14U; x <= 4*c14U; x += step {
				for y := c14U; y <= 4*c14U; y += step {
					lat = append(lat, [2]int{x, y})
				}
			}
			stride := c.pick(5, 1)
			k := 0
			for _, a := range lat {
				for _, b := range lat {
					k++
					if k%stride != 0 {
						continue
					}
					c14Line(c, wn, [][][2]int{{a, b}}, "LineString")
				}
			}
		}
		nl := c.pick(6000, 150000)
		for i := 0; i < nl; i++ {
			wn := c14RandWin(c, W)
			step := []int{1, 8, 16, 32, 64}[c.rng.Intn(5)]
			mk := func() [][2]int {
				k := 2 + c.rng.Intn(3)
				p := make([][2]int, k)
				for j := range p {
					p[j] = [2]int{c14U + step*c.rng.Intn((W*c14U-2*c14U)/step+1), c14U + step*c.rng.Intn((W*c14U-2*c14U)/step+1)}
				}
				return p
			}
			switch c.rng.Intn(4) {
			case 0:
				c14Line(c, wn, [][][2]int{mk(), mk()}, "MultiLineString")
			case 1:
				c14Line(c, wn, [][][2]int{mk()}, "Geometry")
			default:
				c14Line(c, wn, [][][2]int{mk()}, "LineString")
			}
		}
		// (1b) very fine geometry on a 1/8192-tile lattice in a 3x3 window at low zooms: tiny lines, densely
		// sampled long lines, sub-tile polygons (a line much shorter than a tile still has positive length)
		nf := c.pick(1500, 30000)
		for i := 0; i < nf; i++ {
			z := uint32(2 + c.rng.Intn(9))
			maxt := 1 << z
			wn := c14Win{z: z, bx: c.rng.Intn(maxt - 3), by: c.rng.Intn(maxt - 3), w: 3, u: 8192}
			if wn.by == 0 {
				wn.by = 1 % (maxt - 3)
			}
			k := 2 + c.rng.Intn(12)
			p := make([][2]int, k)
			p[0] = [2]int{8192 + c.rng.Intn(8192), 8192 + c.rng.Intn(8192)}
			maxStep := []int{1, 3, 40, 700}[c.rng.Intn(4)]
			dx, dy := c.rng.Intn(2*maxStep+1)-maxStep, c.rng.Intn(2*maxStep+1)-maxStep
			for j := 1; j < k; j++ { // a roughly straight, densely sampled line
				p[j] = [2]int{p[j-1][0] + dx + c.rng.Intn(3) - 1, p[j-1][1] + dy + c.rng.Intn(3) - 1}
			}
			leaves := false // the cover is recorded relative to the 3x3 window: the line has to stay inside it
			for _, q := range p {
				if q[0] < 64 || q[1] < 64 || q[0] > 3*8192-64 || q[1] > 3*8192-64 {
					leaves = true
				}
			}
			if leaves {
				continue
			}
			if i%4 == 0 && k >= 4 {
				tri := [][2]int{p[0], {p[0][0] + 1 + c.rng.Intn(maxStep+1), p[0][1]}, {p[0][0], p[0][1] + 1 + c.rng.Intn(maxStep+1)}}
				c14Poly(c, wn, [][][2]int{tri}, "Polygon")
				continue
			}
			c14Line(c, wn, [][][2]int{p}, "LineString")
		}
		// (2) polygons: star-shaped outer rings (convex, concave, thin, sub-tile, many tiles), optional hole
		np := c.pick(2500, 40000)
		for i := 0; i < np; i++ {
			wn := c14RandWin(c, W)
			step := []int{1, 4, 16, 32, 64}[c.rng.Intn(5)]
			rad := []int{20, 60, 120}[c.rng.Intn(3)]
			outer := c14Star(c, W*c14U/2, W*c14U/2, rad, step, 3+c.rng.Intn(7))
			if outer == nil {
				continue
			}
			poly := [][][2]int{outer}
			if c.rng.Intn(3) == 0 { // a hole: the same construction scaled towards the centre
				hole := make([][2]int, len(outer))
				okh := true
				for j, p := range outer {
					hole[len(outer)-1-j] = [2]int{W*c14U/2 + (p[0]-W*c14U/2)/3, W*c14U/2 + (p[1]-W*c14U/2)/3}
				}
				for j := range hole {
					if hole[j] == hole[(j+1)%len(hole)] || hole[j] == [2]int{W * c14U / 2, W * c14U / 2} {
						okh = false
					}
				}
				if okh {
					poly = append(poly, hole)
				}
			}
			var more [][][2]int
			if o2 := c14Star(c, W*c14U/2+c.rng.Intn(41)-20, W*c14U/2+c.rng.Intn(41)-20, []int{20, 40, 60}[c.rng.Intn(3)], step, 3+c.rng.Intn(5)); o2 != nil {
				more = [][][2]int{o2} // overlapping or nested second member (used by the MultiPolygon entry only)
			}
			if more != nil {
				c14Poly(c, wn, poly, []string{"Polygon", "Geometry", "Ring", "MultiPolygon", "MultiPolygon"}[c.rng.Intn(5)], more)
			} else {
				c14Poly(c, wn, poly, []string{"Polygon", "Geometry", "Ring", "MultiPolygon"}[c.rng.Intn(4)])
			}
		}
		// (2b) polygons of many tiles with a small hole somewhere inside (a hole that fits in one tile row, while the
		// outer ring spans several), in a 9x9 window; vertices sometimes repeated in a row, also the closing one
		nb := c.pick(500, 8000)
		for i := 0; i < nb; i++ {
			const WB = 9
			wn := c14RandWin(c, WB)
			cx, cy := WB*c14U/2, WB*c14U/2
			step := []int{1, 8, 32, 64, 64}[c.rng.Intn(5)]
			outer := c14Star(c, cx, cy, []int{120, 200, 250}[c.rng.Intn(3)], step, 4+c.rng.Intn(8))
			if outer == nil {
				continue
			}
			// the disc about the centre that the star-shaped ring certainly contains
			inr := math.Inf(1)
			for j := range outer {
				a, b := outer[j], outer[(j+1)%len(outer)]
				ax, ay, bx, by := float64(a[0]-cx), float64(a[1]-cy), float64(b[0]-cx), float64(b[1]-cy)
				dx, dy := bx-ax, by-ay
				t := math.Max(0, math.Min(1, -(ax*dx+ay*dy)/(dx*dx+dy*dy)))
				inr = math.Min(inr, math.Hypot(ax+t*dx, ay+t*dy))
			}
			poly := [][][2]int{outer}
			hr := 4 + c.rng.Intn(24)
			if room := int(inr) - hr - 2; room > 0 && c.rng.Intn(4) > 0 {
				ox, oy := c.rng.Intn(2*room+1)-room, c.rng.Intn(2*room+1)-room
				if ox*ox+oy*oy < room*room {
					if h := c14Star(c, cx+ox, cy+oy, hr, 1, 3+c.rng.Intn(4)); h != nil {
						for a, b := 0, len(h)-1; a < b; a, b = a+1, b-1 {
							h[a], h[b] = h[b], h[a]
						}
						poly = append(poly, h)
					}
				}
			}
			for ri := range poly { // any start vertex, either direction (the closing edge may then run any way)
				r := poly[ri]
				k := c.rng.Intn(len(r))
				r = append(append([][2]int{}, r[k:]...), r[:k]...)
				if c.rng.Intn(2) == 0 {
					for a, b := 0, len(r)-1; a < b; a, b = a+1, b-1 {
						r[a], r[b] = r[b], r[a]
					}
				}
				poly[ri] = r
			}
			if c.rng.Intn(3) == 0 { // repeated vertices
				for ri := range poly {
					r := poly[ri]
					j := c.rng.Intn(len(r) + 1)
					if c.rng.Intn(2) == 0 {
						j = len(r)
					}
					if j == len(r) {
						r = append(r, r[0], r[0]) // closed twice (c14Poly closes once more)
					} else {
						r = append(r[:j+1], r[j:]...)
					}
					poly[ri] = r
				}
			}
			if inner := c14Star(c, cx+c.rng.Intn(31)-15, cy+c.rng.Intn(31)-15, 30+c.rng.Intn(60), step, 3+c.rng.Intn(5)); inner != nil && c.rng.Intn(2) == 0 {
				c14Poly(c, wn, poly, "MultiPolygon", [][][2]int{inner}, [][][2]int{outer}) // nested member and a duplicate of the outer ring
			} else {
				c14Poly(c, wn, poly, []string{"Polygon", "Geometry", "MultiPolygon"}[c.rng.Intn(3)])
			}
		}
		// (2d) rings that start and end on a tile-row edge with an exact latitude (the equator), closing vertex
		// doubled in half of the cases, the last edge arriving from either side
		for i := 0; i < c.pick(3000, 30000); i++ {
			z := uint32(4 + c.rng.Intn(12))
			maxt := 1 << z
			k := 2 + c.rng.Intn(2) // the equator is row edge k of the window
			wn := c14Win{z: z, bx: c.rng.Intn(maxt - W), by: maxt/2 - k, w: W}
			eq := k * c14U
			// a star about a centre one lattice step or two off the equator, so that lattice rows of vertices fall on it
			cy := eq + []int{-64, -32, 32, 64}[c.rng.Intn(4)]
			outer := c14Star(c, W*c14U/2, cy, 60, []int{16, 32, 64}[c.rng.Intn(3)], 3+c.rng.Intn(7))
			if outer == nil {
				continue
			}
			var on []int
			for j, p := range outer {
				if p[1] == eq {
					on = append(on, j)
				}
			}
			if len(on) == 0 {
				continue
			}
			st := on[c.rng.Intn(len(on))]
			r := append(append([][2]int{}, outer[st:]...), outer[:st]...)
			if c.rng.Intn(2) == 0 { // the other direction, still starting at the same vertex
				for a, b := 1, len(r)-1; a < b; a, b = a+1, b-1 {
					r[a], r[b] = r[b], r[a]
				}
			}
			if c.rng.Intn(2) == 0 {
				r = append(r, r[0], r[0])
			}
			c14Poly(c, wn, [][][2]int{r}, []string{"Polygon", "Ring", "Geometry", "MultiPolygon"}[c.rng.Intn(4)])
		}
		// (2c) the corner of the world and the shallow zooms: windows whose first tile is tile (0, 0), and whole-world
		// windows at zooms 0..2; geometry may lie in the first tile
		nw := c.pick(1200, 20000)
		for i := 0; i < nw; i++ {
			var wn c14Win
			if i%2 == 0 {
				z := uint32(c.rng.Intn(3))
				wn = c14Win{z: z, w: 1 << z}
			} else {
				wn = c14Win{z: uint32(3 + c.rng.Intn(12)), w: W}
			}
			lim := wn.w * c14U
			if wn.z >= 3 {
				lim = (wn.w - 1) * c14U // keep the cover inside the window
			}
			step := []int{1, 8, 16, 32}[c.rng.Intn(4)]
			co := func() int { return 1 + step*c.rng.Intn((lim-2)/step+1) }
			if i%3 == 0 {
				rad := (lim - 4) / 2
				if rad > 100 {
					rad = 100
				}
				cx, cy := rad+1+c.rng.Intn(lim-2*rad-1), rad+1+c.rng.Intn(lim-2*rad-1)
				if c.rng.Intn(2) == 0 {
					cx, cy = rad+1, rad+1 // in the first tile
				}
				if outer := c14Star(c, cx, cy, rad, 1, 3+c.rng.Intn(6)); outer != nil {
					c14Poly(c, wn, [][][2]int{outer}, []string{"Polygon", "Ring", "Geometry"}[c.rng.Intn(3)])
				}
				continue
			}
			k := 2 + c.rng.Intn(3)
			pth := make([][2]int, k)
			for j := range pth {
				pth[j] = [2]int{co(), co()}
			}
			if c.rng.Intn(2) == 0 {
				pth[0] = [2]int{1 + c.rng.Intn(c14U-2), 1 + c.rng.Intn(c14U-2)} // starts in tile (0, 0)
			}
			c14Line(c, wn, [][][2]int{pth}, []string{"LineString", "Geometry", "MultiLineString"}[c.rng.Intn(3)])
		}
		// (2e) tilecover.Bound: every tile between the tiles of the two corners; corners close to tile edges at deep zooms
		for i := 0; i < c.pick(800, 12000); i++ {
			z := uint32(3 + c.rng.Intn(20))
			if i%3 == 0 {
				z = uint32(19 + c.rng.Intn(4))
			}
			maxt := 1 << z
			wn := c14Win{z: z, bx: c.rng.Intn(maxt - 3), by: 1 + c.rng.Intn(maxt-4), w: 3, u: 8192}
			near := func() int { // a lattice coordinate inside the window, often a hair away from a tile edge
				t := c.rng.Intn(3) * 8192
				switch c.rng.Intn(4) {
				case 0:
					return t + 1 + c.rng.Intn(100)
				case 1:
					return t + 8192 - 1 - c.rng.Intn(100)
				}
				return t + 1 + c.rng.Intn(8190)
			}
			x0, x1, y0, y1 := near(), near(), near(), near()
			if x0 > x1 {
				x0, x1 = x1, x0
			}
			if y0 > y1 {
				y0, y1 = y1, y0
			}
			// lattice y grows southwards: the bound's Min corner is (west, south) = (x0, y1)
			sw, ok1 := wn.pt([2]int{x0, y1})
			ne, ok2 := wn.pt([2]int{x1, y0})
			if !ok1 || !ok2 {
				continue
			}
			e := map[string]interface{}{"k": "bound", "z": z, "u": 8192, "b": [4]int{x0, y0, x1, y1}, "nt": 1}
			setCurrent("tilecover.Bound", e)
			var set maptile.Set
			site := guard(func() {
				if i%2 == 0 {
					set = tilecover.Bound(orb.Bound{Min: sw, Max: ne}, maptile.Zoom(z))
				} else {
					set, _ = tilecover.Geometry(orb.Bound{Min: sw, Max: ne}, maptile.Zoom(z))
				}
			})
			if site != "" {
				c.emit(panicEvent("tilecover.Bound", site, e))
				continue
			}
			e["cover"], _ = wn.cover(set)
			c.emit(e)
		}
		// (3) points and collections
		nq := c.pick(1500, 15000)
		for i := 0; i < nq; i++ {
			wn := c14RandWin(c, W)
			span := W
			if i%5 == 0 { // the shallow zooms: the window is the whole world
				z := uint32(c.rng.Intn(3))
				wn = c14Win{z: z, w: 1 << z}
				span = wn.w
			}
			var lps [][2]int
			for j := 0; j < 1+c.rng.Intn(3); j++ {
				lps = append(lps, [2]int{8 + 16*c.rng.Intn(span*4), 8 + 16*c.rng.Intn(span*4)}) // away from tile edges
			}
			ps, ok := wn.pts(lps)
			if !ok {
				continue
			}
			e := map[string]interface{}{"k": "point", "z": wn.z, "u": wn.units(), "pts": lps, "nt": 1}
			setCurrent("tilecover.MultiPoint", e)
			var set maptile.Set
			site := guard(func() {
				if len(ps) == 1 {
					set = tilecover.Point(ps[0], maptile.Zoom(wn.z))
				} else {
					set = tilecover.MultiPoint(ps, maptile.Zoom(wn.z))
				}
			})
			if site != "" {
				c.emit(panicEvent("tilecover.MultiPoint", site, e))
				continue
			}
			e["cover"], _ = wn.cover(set)
			c.emit(e)
			// a collection of the points and a line through them: union law
			line := orb.LineString(ps)
			col := orb.Collection{orb.MultiPoint(ps), line, ps[0]}
			var each [][][2]int
			var cset maptile.Set
			var cerr error
			site = guard(func() {
				for _, m := range col {
					s, _ := tilecover.Geometry(m, maptile.Zoom(wn.z))
					cv, _ := wn.cover(s)
					each = append(each, cv)
				}
				cset, cerr = tilecover.Collection(col, maptile.Zoom(wn.z))
			})
			if site != "" || cerr != nil {
				c.emit(panicEvent("tilecover.Collection", site, e))
				continue
			}
			cv, _ := wn.cover(cset)
			c.emit(map[string]interface{}{"k": "coll", "z": wn.z, "each": each, "cover": cv, "nt": 1})
		}
		// (3b) values without a vertex (empty but not nil) at the shallowest zooms, alone and as members: nothing to cover,
		// through the generic entry point as through the typed ones
		for z := 0; z <= 3; z++ {
			empties := []orb.Geometry{orb.MultiPoint{}, orb.LineString{}, orb.MultiLineString{}, orb.Ring{}, orb.Polygon{}, orb.MultiPolygon{}, orb.Collection{},
				orb.MultiLineString{{}}, orb.Collection{orb.LineString{}, orb.MultiPoint{}}}
			for _, g := range empties {
				e := map[string]interface{}{"k": "coll", "z": z, "each": [][][2]int{}, "nt": 1}
				setCurrent("tilecover.Geometry(empty)", fmt.Sprintf("%T %d", g, z))
				var set, set2 maptile.Set
				var err error
				site := guard(func() {
					set, err = tilecover.Geometry(g, maptile.Zoom(z))
					set2, _ = tilecover.Collection(orb.Collection{g, orb.Collection{g}}, maptile.Zoom(z))
				})
				if site != "" {
					c.emit(panicEvent("tilecover.Geometry(empty)", site, e))
					continue
				}
				cv := [][2]int{}
				for t := range set {
					cv = append(cv, [2]int{int(t.X), int(t.Y)})
				}
				for t := range set2 {
					cv = append(cv, [2]int{int(t.X), int(t.Y)})
				}
				if err != nil {
					cv = append(cv, [2]int{-1, -1})
				}
				e["cover"] = cv
				c.emit(e)
			}
		}
		// (4) MergeUp: every subset of the 16 zoom-2 tiles (thorough) / a seeded 4096 of them (quick), every
		// min zoom, plus seeded zoom-4 sets built from blocks; each repeated so that Go's map order varies
		mergeScratch := maptile.Set{}
		merge := func(z int, tiles [][3]int, min int) {
			e := map[string]interface{}{"k": "merge", "z": z, "min": min, "in": tiles, "nt": 1}
			setCurrent("tilecover.MergeUp", e)
			results := map[string][][3]int{}
			site := guard(func() {
				for rep := 0; rep < 4; rep++ {
					set := maptile.Set{}
					if rep == 3 {
						// the caller's scratch map: it still holds the keys of earlier covers (other zooms too), all false
						if len(mergeScratch) > 300 {
							mergeScratch = maptile.Set{}
						}
						for k := range mergeScratch {
							mergeScratch[k] = false
						}
						set = mergeScratch
					}
					for _, t := range tiles {
						set[maptile.New(uint32(t[0]), uint32(t[1]), maptile.Zoom(t[2]))] = true
					}
					out := tilecover.MergeUp(set, maptile.Zoom(min))
					var rows [][3]int
					for t, v := range out {
						if v {
							rows = append(rows, [3]int{int(t.X), int(t.Y), int(t.Z)})
						}
					}
					sort.Slice(rows, func(i, j int) bool {
						for d := 0; d < 3; d++ {
							if rows[i][d] != rows[j][d] {
								return rows[i][d] < rows[j][d]
							}
						}
						return false
					})
					key := ""
					for _, r := range rows {
						key += string(rune(r[0]+1)) + string(rune(r[1]+1)) + string(rune(r[2]+1))
					}
					results[key] = rows
				}
			})
			if site != "" {
				c.emit(panicEvent("tilecover.MergeUp", site, e))
				return
			}
			e["runs"] = len(results)
			for _, rows := range results {
				if rows == nil {
					rows = [][3]int{}
				}
				e["out"] = rows
				break
			}
			c.emit(e)
		}
		// covers at zooms 0 and 1 (the whole world in one tile, or in up to four): every subset, every min zoom up to theirs
		merge(0, [][3]int{{0, 0, 0}}, 0)
		for mask := 1; mask < 16; mask++ {
			var tiles [][3]int
			for b := 0; b < 4; b++ {
				if mask&(1<<uint(b)) != 0 {
					tiles = append(tiles, [3]int{b % 2, b / 2, 1})
				}
			}
			merge(1, tiles, 0)
			merge(1, tiles, 1)
		}
		nsub := c.pick(4096, 65536)
		for i := 0; i < nsub; i++ {
			mask := i
			if !c.thorough() {
				mask = c.rng.Intn(65536)
			}
			var tiles [][3]int
			for b := 0; b < 16; b++ {
				if mask&(1<<uint(b)) != 0 {
					tiles = append(tiles, [3]int{b % 4, b / 4, 2})
				}
			}
			if tiles == nil {
				continue
			}
			merge(2, tiles, i%3)
		}
		nz4 := c.pick(600, 6000)
		for i := 0; i < nz4; i++ {
			present := map[[2]int]bool{}
			for j := 0; j < 1+c.rng.Intn(6); j++ { // blocks of 1, 4, 16 or 64 tiles, aligned or not
				s := 1 << uint(c.rng.Intn(4))
				x0, y0 := c.rng.Intn(16), c.rng.Intn(16)
				if c.rng.Intn(3) > 0 {
					x0, y0 = x0/s*s, y0/s*s
				}
				for x := x0; x < x0+s && x < 16; x++ {
					for y := y0; y < y0+s && y < 16; y++ {
						present[[2]int{x, y}] = true
					}
				}
			}
			var tiles [][3]int
			for p := range present {
				tiles = append(tiles, [3]int{p[0], p[1], 4})
			}
			sort.Slice(tiles, func(i, j int) bool {
				if tiles[i][0] != tiles[j][0] {
					return tiles[i][0] < tiles[j][0]
				}
				return tiles[i][1] < tiles[j][1]
			})
			merge(4, tiles, c.rng.Intn(5))
		}
	})
}

func c14Line(c *ctx, wn c14Win, paths [][][2]int, fn string) {
	var mls orb.MultiLineString
	for _, p := range paths {
		ps, ok := wn.pts(p)
		if !ok {
			return // generator miss
		}
		mls = append(mls, orb.LineString(ps))
	}
	e := map[string]interface{}{"k": "line", "fn": fn, "z": wn.z, "w": wn.w, "u": wn.units(), "paths": paths, "err": 0}
	setCurrent("tilecover."+fn, e)
	var set maptile.Set
	var err error
	site := guard(func() {
		switch fn {
		case "LineString":
			set = tilecover.LineString(mls[0], maptile.Zoom(wn.z))
		case "MultiLineString":
			set = tilecover.MultiLineString(mls, maptile.Zoom(wn.z))
		default:
			set, err = tilecover.Geometry(mls[0], maptile.Zoom(wn.z))
		}
	})
	if site != "" {
		c.emit(panicEvent("tilecover."+fn, site, e))
		return
	}
	cv, inside := wn.cover(set)
	if err != nil || !inside {
		e["err"] = 1
	}
	e["cover"] = cv
	if len(cv) > 1 {
		e["nt"] = 1
	}
	c.emit(e)
}

var c14Calls int

func c14Poly(c *ctx, wn c14Win, poly [][][2]int, fn string, more ...[][][2]int) {
	mk := func(poly [][][2]int) (orb.Polygon, bool) {
		var p orb.Polygon
		for _, r := range poly {
			ps, ok := wn.pts(append(append([][2]int{}, r...), r[0])) // explicitly closed ring
			if !ok {
				return nil, false
			}
			p = append(p, orb.Ring(ps))
		}
		return p, true
	}
	p, ok := mk(poly)
	if !ok {
		return
	}
	polys := [][][][2]int{poly}
	if fn == "Ring" {
		p = p[:1]
		polys = [][][][2]int{{poly[0]}}
	}
	mpoly := orb.MultiPolygon{p}
	if fn == "MultiPolygon" { // further members, which may overlap the first or lie inside it: the cover is the union
		for _, m := range more {
			q, ok := mk(m)
			if !ok {
				return
			}
			mpoly = append(mpoly, q)
			polys = append(polys, m)
		}
	}
	e := map[string]interface{}{"k": "poly", "fn": fn, "z": wn.z, "w": wn.w, "u": wn.units(), "polys": polys, "err": 0}
	setCurrent("tilecover."+fn, e)
	var set maptile.Set
	var err error
	c14Calls++
	site := guard(func() {
		// history: every third cover follows covers that failed (an unclosed ring crossing tile rows, alone and as a hole
		// of a polygon, reports uneven intersections) - what a failed call left behind must not reach this one
		if c14Calls%3 == 0 {
			open := orb.Ring{{-10, -10}, {10, 20}, {30, -5}}
			tilecover.Ring(open, maptile.Zoom(wn.z%6+2))
			if c14Calls%2 == 0 {
				tilecover.Polygon(orb.Polygon{{{-20, -20}, {40, -20}, {40, 40}, {-20, 40}, {-20, -20}}, open}, maptile.Zoom(wn.z%6+2))
			}
		}
		switch fn {
		case "Polygon":
			set, err = tilecover.Polygon(p, maptile.Zoom(wn.z))
		case "Ring":
			set, err = tilecover.Ring(p[0], maptile.Zoom(wn.z))
		case "MultiPolygon":
			set, err = tilecover.MultiPolygon(mpoly, maptile.Zoom(wn.z))
		default:
			set, err = tilecover.Geometry(p, maptile.Zoom(wn.z))
		}
	})
	if site != "" {
		c.emit(panicEvent("tilecover."+fn, site, e))
		return
	}
	cv, inside := wn.cover(set)
	if err != nil || !inside {
		e["err"] = 1
	}
	e["cover"] = cv
	if len(cv) > 1 {
		e["nt"] = 1
	}
	c.emit(e)
	// the same shape as a member of a collection - a bare ring, a polygon, next to a point and a nested collection: the
	// cover of the collection is the union of the covers of its members
	if c14Calls%4 == 1 && err == nil && inside {
		var col orb.Collection
		switch fn {
		case "Ring":
			col = orb.Collection{p[0][0], p[0], orb.Collection{p[0]}}
		case "MultiPolygon":
			col = orb.Collection{mpoly, p[0][0]}
		default:
			col = orb.Collection{p, orb.LineString(p[0][:2]), orb.Collection{p[0]}}
		}
		var each [][][2]int
		var cset maptile.Set
		var cerr error
		ok := true
		site = guard(func() {
			for _, m := range col {
				s, err := tilecover.Geometry(m, maptile.Zoom(wn.z))
				cv, in := wn.cover(s)
				ok = ok && err == nil && in
				each = append(each, cv)
			}
			cset, cerr = tilecover.Collection(col, maptile.Zoom(wn.z))
		})
		if site != "" {
			c.emit(panicEvent("tilecover.Collection", site, e))
			return
		}
		if !ok {
			return // a member on its own already fails: reported by the member's own event
		}
		ccv, cin := wn.cover(cset)
		if cerr != nil || !cin {
			ccv = [][2]int{{-1, -1}} // the members are fine and the collection is not: never their union
		}
		c.emit(map[string]interface{}{"k": "coll", "z": wn.z, "each": each, "cover": ccv, "nt": 1})
	}
}
