package main

import (
	"fmt"
	"github.com/paulmach/orb"
)

// Generic geometry encoding for TLC (GeomValue.tla): {"t":kind,"c":coords} / {"t":"Collection","g":[..]} /
// {"t":"nil"}; coordinates are integers produced by a per-value projection (lattice, rank or bit ids).

type coordFn func(p orb.Point) ([2]int, bool)

func latticeFn(s float64) coordFn {
	return func(p orb.Point) ([2]int, bool) {
		x, ok1 := quant(p[0], s)
		y, ok2 := quant(p[1], s)
		return [2]int{x, y}, ok1 && ok2
	}
}

func encPts(ps []orb.Point, f coordFn, ok *bool) [][2]int {
	out := make([][2]int, 0, len(ps))
	for _, p := range ps {
		q, o := f(p)
		if !o {
			*ok = false
		}
		out = append(out, q)
	}
	return out
}

func encGeom(g orb.Geometry, f coordFn) (map[string]interface{}, bool) {
	ok := true
	var enc func(g orb.Geometry) map[string]interface{}
	enc = func(g orb.Geometry) map[string]interface{} {
		switch v := g.(type) {
		case nil:
			return map[string]interface{}{"t": "nil"}
		case orb.Point:
			q, o := f(v)
			if !o {
				ok = false
			}
			return map[string]interface{}{"t": "Point", "c": q}
		case orb.MultiPoint:
			return map[string]interface{}{"t": "MultiPoint", "c": encPts(v, f, &ok)}
		case orb.LineString:
			return map[string]interface{}{"t": "LineString", "c": encPts(v, f, &ok)}
		case orb.Ring:
			return map[string]interface{}{"t": "Ring", "c": encPts(v, f, &ok)}
		case orb.MultiLineString:
			c := make([][][2]int, 0, len(v))
			for _, ls := range v {
				c = append(c, encPts(ls, f, &ok))
			}
			return map[string]interface{}{"t": "MultiLineString", "c": c}
		case orb.Polygon:
			c := make([][][2]int, 0, len(v))
			for _, r := range v {
				c = append(c, encPts(r, f, &ok))
			}
			return map[string]interface{}{"t": "Polygon", "c": c}
		case orb.MultiPolygon:
			c := make([][][][2]int, 0, len(v))
			for _, p := range v {
				pc := make([][][2]int, 0, len(p))
				for _, r := range p {
					pc = append(pc, encPts(r, f, &ok))
				}
				c = append(c, pc)
			}
			return map[string]interface{}{"t": "MultiPolygon", "c": c}
		case orb.Collection:
			gs := make([]interface{}, 0, len(v))
			for _, m := range v {
				gs = append(gs, enc(m))
			}
			return map[string]interface{}{"t": "Collection", "g": gs}
		case orb.Bound:
			a, o1 := f(v.Min)
			b, o2 := f(v.Max)
			if !o1 || !o2 {
				ok = false
			}
			return map[string]interface{}{"t": "Bound", "c": [4]int{a[0], a[1], b[0], b[1]}}
		}
		ok = false
		return map[string]interface{}{"t": "unknown"}
	}
	r := enc(g)
	return r, ok
}

// integer-lattice constructors
func ringOf(r [][2]int, s float64) orb.Ring {
	out := make(orb.Ring, len(r))
	for i, p := range r {
		out[i] = orb.Point{float64(p[0]) / s, float64(p[1]) / s}
	}
	return out
}

func mpOf(mp [][][][2]int, s float64) orb.MultiPolygon {
	out := make(orb.MultiPolygon, 0, len(mp))
	for _, p := range mp {
		poly := make(orb.Polygon, 0, len(p))
		for _, r := range p {
			poly = append(poly, ringOf(r, s))
		}
		out = append(out, poly)
	}
	return out
}

func quantMP(mp orb.MultiPolygon, s float64) ([][][][2]int, bool) {
	ok := true
	f := latticeFn(s)
	out := make([][][][2]int, 0, len(mp))
	for _, p := range mp {
		pc := make([][][2]int, 0, len(p))
		for _, r := range p {
			pc = append(pc, encPts(r, f, &ok))
		}
		out = append(out, pc)
	}
	return out, ok
}

// spareCopy returns a deep copy of g in which every slice has two spare elements of capacity filled with
// sentinel values, and a function reporting whether those hidden elements are still what they were. A
// function that appends to its (read-only) argument writes there - into memory the caller may be using
// for the neighbouring geometry of a shared buffer.
func spareCopy(g orb.Geometry) (orb.Geometry, func() bool) {
	var fulls []interface{}
	sentinel := orb.Point{-7777, 7777}
	pts := func(ps []orb.Point) []orb.Point {
		if ps == nil {
			return nil
		}
		full := make([]orb.Point, len(ps)+2)
		copy(full, ps)
		full[len(ps)], full[len(ps)+1] = sentinel, sentinel
		fulls = append(fulls, full[len(ps):])
		return full[:len(ps)]
	}
	var cp func(g orb.Geometry) orb.Geometry
	cp = func(g orb.Geometry) orb.Geometry {
		switch v := g.(type) {
		case orb.MultiPoint:
			return orb.MultiPoint(pts(v))
		case orb.LineString:
			return orb.LineString(pts(v))
		case orb.Ring:
			return orb.Ring(pts(v))
		case orb.MultiLineString:
			if v == nil {
				return v
			}
			full := make(orb.MultiLineString, len(v)+2)
			for i := range v {
				full[i] = orb.LineString(pts(v[i]))
			}
			full[len(v)], full[len(v)+1] = orb.LineString{sentinel}, orb.LineString{sentinel}
			fulls = append(fulls, full[len(v):])
			return full[:len(v)]
		case orb.Polygon:
			if v == nil {
				return v
			}
			full := make(orb.Polygon, len(v)+2)
			for i := range v {
				full[i] = orb.Ring(pts(v[i]))
			}
			full[len(v)], full[len(v)+1] = orb.Ring{sentinel}, orb.Ring{sentinel}
			fulls = append(fulls, full[len(v):])
			return full[:len(v)]
		case orb.MultiPolygon:
			if v == nil {
				return v
			}
			full := make(orb.MultiPolygon, len(v)+2)
			for i := range v {
				if p := cp(v[i]); p != nil {
					full[i] = p.(orb.Polygon)
				}
			}
			full[len(v)], full[len(v)+1] = orb.Polygon{{sentinel}}, orb.Polygon{{sentinel}}
			fulls = append(fulls, full[len(v):])
			return full[:len(v)]
		case orb.Collection:
			if v == nil {
				return v
			}
			full := make(orb.Collection, len(v)+2)
			for i := range v {
				full[i] = cp(v[i])
			}
			full[len(v)], full[len(v)+1] = sentinel, sentinel
			fulls = append(fulls, full[len(v):])
			return full[:len(v)]
		}
		return g
	}
	out := cp(g)
	before := fmt.Sprint(fulls...)
	return out, func() bool { return fmt.Sprint(fulls...) == before }
}

// sharedBuffer returns a copy of g whose point slices are consecutive sections of one array, each with capacity
// reaching into the following ones (the layout a caller gets by carving geometries out of one coordinate
// buffer). A function that appends to one part overwrites the start of the next.
// sharedArena, when set, is the array sharedBuffer carves from (callers switch it on for runs of events).
var sharedArena []orb.Point

func sharedBuffer(g orb.Geometry) orb.Geometry {
	n := 0
	var count func(g orb.Geometry)
	count = func(g orb.Geometry) {
		switch v := g.(type) {
		case orb.MultiPoint:
			n += len(v)
		case orb.LineString:
			n += len(v)
		case orb.Ring:
			n += len(v)
		case orb.MultiLineString:
			for _, l := range v {
				n += len(l)
			}
		case orb.Polygon:
			for _, l := range v {
				n += len(l)
			}
		case orb.MultiPolygon:
			for _, p := range v {
				for _, l := range p {
					n += len(l)
				}
			}
		case orb.Collection:
			for _, m := range v {
				count(m)
			}
		}
	}
	count(g)
	buf := make([]orb.Point, n)
	if len(sharedArena) >= n && n > 0 {
		// a long-lived buffer that held other geometries before (same addresses, other contents): what a function kept
		// about an earlier geometry must not be taken for this one
		buf = sharedArena[:n]
	}
	at := 0
	take := func(ps []orb.Point) []orb.Point {
		if ps == nil {
			return nil
		}
		s := buf[at : at+len(ps)]
		copy(s, ps)
		at += len(ps)
		return s
	}
	var cp func(g orb.Geometry) orb.Geometry
	cp = func(g orb.Geometry) orb.Geometry {
		switch v := g.(type) {
		case orb.MultiPoint:
			return orb.MultiPoint(take(v))
		case orb.LineString:
			return orb.LineString(take(v))
		case orb.Ring:
			return orb.Ring(take(v))
		case orb.MultiLineString:
			out := make(orb.MultiLineString, len(v))
			for i := range v {
				out[i] = orb.LineString(take(v[i]))
			}
			return out
		case orb.Polygon:
			out := make(orb.Polygon, len(v))
			for i := range v {
				out[i] = orb.Ring(take(v[i]))
			}
			return out
		case orb.MultiPolygon:
			out := make(orb.MultiPolygon, len(v))
			for i := range v {
				out[i] = cp(v[i]).(orb.Polygon)
			}
			return out
		case orb.Collection:
			out := make(orb.Collection, len(v))
			for i := range v {
				out[i] = cp(v[i])
			}
			return out
		}
		return g
	}
	return cp(g)
}

// prevTracker remembers the geometry a call returned (the very value, not a copy) and what it looked like; check
// reports, after the next call, whether it still looks the same (1) - results must not live in memory that later
// calls reuse - and then remembers the new result.
type prevTracker struct {
	ref  orb.Geometry
	snap string
}

func (t *prevTracker) check(next orb.Geometry) int {
	ok := 1
	if t.ref != nil && fmt.Sprint(t.ref) != t.snap {
		ok = 0
	}
	t.ref, t.snap = next, fmt.Sprint(next)
	return ok
}

// mapGeom returns a copy of g with f applied to every vertex, in storage order (the harness's own mapper: it does
// not go through the library's projection helpers).
func mapGeom(g orb.Geometry, f func(orb.Point) orb.Point) orb.Geometry {
	pts := func(ps []orb.Point) []orb.Point {
		if ps == nil {
			return nil
		}
		out := make([]orb.Point, len(ps))
		for i, p := range ps {
			out[i] = f(p)
		}
		return out
	}
	switch v := g.(type) {
	case orb.Point:
		return f(v)
	case orb.MultiPoint:
		return orb.MultiPoint(pts(v))
	case orb.LineString:
		return orb.LineString(pts(v))
	case orb.Ring:
		return orb.Ring(pts(v))
	case orb.MultiLineString:
		out := make(orb.MultiLineString, len(v))
		for i := range v {
			out[i] = orb.LineString(pts(v[i]))
		}
		return out
	case orb.Polygon:
		out := make(orb.Polygon, len(v))
		for i := range v {
			out[i] = orb.Ring(pts(v[i]))
		}
		return out
	case orb.MultiPolygon:
		out := make(orb.MultiPolygon, len(v))
		for i := range v {
			out[i] = mapGeom(v[i], f).(orb.Polygon)
		}
		return out
	case orb.Collection:
		out := make(orb.Collection, len(v))
		for i := range v {
			out[i] = mapGeom(v[i], f)
		}
		return out
	case orb.Bound:
		return orb.Bound{Min: f(v.Min), Max: f(v.Max)}
	}
	return g
}
