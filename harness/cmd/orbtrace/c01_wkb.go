package main

import (
	"bytes"
	"encoding/binary"
	"encoding/hex"
	"encoding/json"
	"fmt"
	"math"
	"sort"
	"strings"

	"github.com/paulmach/orb"
	"github.com/paulmach/orb/encoding/ewkb"
	"github.com/paulmach/orb/encoding/wkb"
)

// C01: wkb / ewkb round trip, decode-path agreement, scanner coercions. See spec/Wkb_Trace.tla.

// wkbIntern: coordinate bit pattern -> id, with the byte table and IEEE ranks.
type wkbIntern struct {
	bits *bitIntern
	vals []float64
}

func newWkbIntern() *wkbIntern { return &wkbIntern{bits: newBitIntern()} }
func (in *wkbIntern) id(v float64) int {
	n := len(in.bits.ids)
	id := in.bits.id(v)
	if len(in.bits.ids) > n {
		in.vals = append(in.vals, v)
	}
	return id
}
func (in *wkbIntern) fn() coordFn {
	return func(p orb.Point) ([2]int, bool) { return [2]int{in.id(p[0]), in.id(p[1])}, true }
}
func (in *wkbIntern) tab() [][]int {
	out := make([][]int, len(in.vals))
	for i, v := range in.vals {
		var b [8]byte
		binary.BigEndian.PutUint64(b[:], math.Float64bits(v))
		row := make([]int, 8)
		for j := range b {
			row[j] = int(b[j])
		}
		out[i] = row
	}
	return out
}
func (in *wkbIntern) ranks() ([]int, int) {
	r := ranks(in.vals)
	nan := 0
	for i, v := range in.vals {
		if math.IsNaN(v) {
			nan = 1
			r[i] = 0
		}
	}
	return r, nan
}

func bytesToInts(b []byte) []int {
	out := make([]int, len(b))
	for i, x := range b {
		out[i] = int(x)
	}
	return out
}

type wkbDest struct {
	name string
	mk   func() (interface{}, func() orb.Geometry)
}

var wkbDests = []wkbDest{
	{"nil", func() (interface{}, func() orb.Geometry) { return nil, nil }},
	{"Point", func() (interface{}, func() orb.Geometry) {
		var v orb.Point
		return &v, func() orb.Geometry { return v }
	}},
	{"MultiPoint", func() (interface{}, func() orb.Geometry) {
		var v orb.MultiPoint
		return &v, func() orb.Geometry { return v }
	}},
	{"LineString", func() (interface{}, func() orb.Geometry) {
		var v orb.LineString
		return &v, func() orb.Geometry { return v }
	}},
	{"MultiLineString", func() (interface{}, func() orb.Geometry) {
		var v orb.MultiLineString
		return &v, func() orb.Geometry { return v }
	}},
	{"Ring", func() (interface{}, func() orb.Geometry) { var v orb.Ring; return &v, func() orb.Geometry { return v } }},
	{"Polygon", func() (interface{}, func() orb.Geometry) {
		var v orb.Polygon
		return &v, func() orb.Geometry { return v }
	}},
	{"MultiPolygon", func() (interface{}, func() orb.Geometry) {
		var v orb.MultiPolygon
		return &v, func() orb.Geometry { return v }
	}},
	{"Collection", func() (interface{}, func() orb.Geometry) {
		var v orb.Collection
		return &v, func() orb.Geometry { return v }
	}},
	{"Bound", func() (interface{}, func() orb.Geometry) {
		var v orb.Bound
		return &v, func() orb.Geometry { return v }
	}},
}

// scanners (with their destinations) that live for the whole run
type c01Scanner struct {
	w   *wkb.GeometryScanner
	e   *ewkb.GeometryScanner
	get func() orb.Geometry
	// what the previous scan handed out (the Geometry attribute and the typed destination's value at that time) and
	// its coordinates bit for bit: a later scan into the same destination must not write into it
	prev     []orb.Geometry
	prevBits []string
}

// geomBits: kind and coordinates of a geometry, bit for bit (NaNs included).
func geomBits(g orb.Geometry) string {
	if g == nil {
		return "nil"
	}
	var sb strings.Builder
	fmt.Fprintf(&sb, "%T", g)
	if b, ok := g.(orb.Bound); ok {
		g = orb.MultiPoint{b.Min, b.Max}
	}
	var walk func(g orb.Geometry)
	walk = func(g orb.Geometry) {
		switch v := g.(type) {
		case orb.Collection:
			for _, m := range v {
				fmt.Fprintf(&sb, "|%T", m)
				walk(m)
			}
		case orb.MultiLineString:
			for _, l := range v {
				sb.WriteString("/")
				walk(l)
			}
		case orb.Polygon:
			for _, l := range v {
				sb.WriteString("/")
				walk(l)
			}
		case orb.MultiPolygon:
			for _, l := range v {
				sb.WriteString("#")
				walk(l)
			}
		default:
			for _, p := range flatPoints(g) {
				fmt.Fprintf(&sb, " %x,%x", math.Float64bits(p[0]), math.Float64bits(p[1]))
			}
		}
	}
	walk(g)
	return sb.String()
}

var c01Scanners = map[string]*c01Scanner{}

var c01PrevOut, c01PrevCopy [][]byte

func c01Persistent(pkg string, d wkbDest, prefix bool) *c01Scanner {
	key := pkg + "/" + d.name
	if prefix && pkg != "wkb" {
		// (the wkb scanner is one constructor for every framing: the same object sees SRID-prefixed rows and then raw or
		// hex ones; the ewkb prefix scanner is a different constructor)
		key += "/prefix"
	}
	if ps, ok := c01Scanners[key]; ok {
		return ps
	}
	dest, get := d.mk()
	ps := &c01Scanner{get: get}
	switch {
	case pkg == "wkb":
		ps.w = wkb.Scanner(dest)
	case prefix:
		ps.e = ewkb.ScannerPrefixSRID(dest)
	default:
		ps.e = ewkb.Scanner(dest)
	}
	c01Scanners[key] = ps
	return ps
}

// c01Event marshals g with one package / order / srid and observes every decode path.
func c01Event(c *ctx, g orb.Geometry, pkg string, le bool, srid int, psrid int, allDests bool) {
	in := newWkbIntern()
	gm, _ := encGeom(g, in.fn())
	e := map[string]interface{}{"k": "wkb", "pkg": pkg, "srid": srid, "psrid": psrid, "g": gm, "topnil": 0, "cross": 1}
	if g != nil && isNilSlice(g) {
		e["topnil"] = 1 // a typed nil slice at the top level is a nil geometry for the encoder
	}
	if le {
		e["le"] = 1
	} else {
		e["le"] = 0
	}
	var order binary.ByteOrder = binary.BigEndian
	if le {
		order = binary.LittleEndian
	}
	// the packages' default byte order is configuration that outlives calls: a quarter of the events run with it set to
	// big endian (Value / ValuePrefixSRID marshal in the default order; the SRID prefix itself is always little endian)
	defLE := c.rng.Intn(4) != 0
	e["defle"] = 1
	if !defLE {
		e["defle"] = 0
		wkb.DefaultByteOrder, ewkb.DefaultByteOrder = binary.BigEndian, binary.BigEndian
		defer func() { wkb.DefaultByteOrder, ewkb.DefaultByteOrder = binary.LittleEndian, binary.LittleEndian }()
	}
	e["vpsrid"], e["vpok"] = psrid, 1
	setCurrent(pkg+".Marshal", gm)
	var data, val, valp []byte
	var err error
	var decb, decs orb.Geometry
	var sridB, sridS int
	var errB, errS error
	type scanRes struct {
		Dest  string                 `json:"dest"`
		Fr    string                 `json:"fr"`
		Ok    int                    `json:"ok"`
		Wrong int                    `json:"wrong"`
		V     map[string]interface{} `json:"v"`
		Srid  int                    `json:"srid"`
		Valid int                    `json:"valid"`
		Reuse int                    `json:"reuse"` // 1: a scanner kept across events gave the same answer
	}
	var scans []scanRes
	site := guard(func() {
		if pkg == "wkb" {
			data, err = wkb.Marshal(g, order)
		} else {
			data, err = ewkb.Marshal(g, srid, order)
		}
		if err != nil || g == nil || isNilSlice(g) {
			if pkg == "wkb" {
				v, _ := wkb.Value(g).Value()
				if b, ok := v.([]byte); ok {
					val = b
				}
			}
			return
		}
		if pkg == "wkb" {
			decb, errB = wkb.Unmarshal(append([]byte{}, data...))
			decs, errS = wkb.NewDecoder(c01Reader(c.rng, data)).Decode()
			v, _ := wkb.Value(g).Value()
			val, _ = v.([]byte)
		} else {
			decb, sridB, errB = ewkb.Unmarshal(append([]byte{}, data...))
			decs, sridS, errS = ewkb.NewDecoder(c01Reader(c.rng, data)).Decode()
			v, _ := ewkb.Value(g, srid).Value()
			val, _ = v.([]byte)
			v, _ = ewkb.ValuePrefixSRID(g, psrid).Value()
			valp, _ = v.([]byte)
			// the wkb package reads EWKB too (the SRID is ignored, as its readme says): its three decode paths return the
			// same geometry for these bytes
			{
				wv, werr := wkb.Unmarshal(append([]byte{}, data...))
				sv, serr := wkb.NewDecoder(c01Reader(c.rng, data)).Decode()
				sc := wkb.Scanner(nil)
				cerr := sc.Scan(append([]byte{}, data...))
				hx := wkb.Scanner(nil)
				herr := hx.Scan([]byte(hex.EncodeToString(data)))
				for _, r := range []struct {
					g   orb.Geometry
					err error
				}{{wv, werr}, {sv, serr}, {sc.Geometry, cerr}, {hx.Geometry, herr}} {
					if r.err != nil || geomBits(r.g) != geomBits(decb) {
						e["cross"] = 0
					}
				}
			}
			// what ValuePrefixSRID wrote is what ScannerPrefixSRID reads: same SRID, same geometry
			ps := ewkb.ScannerPrefixSRID(nil)
			if err := ps.Scan(append([]byte{}, valp...)); err != nil || !(orb.Equal(ps.Geometry, decb) || hasNaN(decb)) {
				e["vpok"] = 0
			} else {
				e["vpsrid"] = ps.SRID
			}
		}
		// scanner: destinations x framings
		frames := []string{"raw", "hex", "xhex", "prefix"}
		for di, d := range wkbDests {
			if !allDests && di != 0 && di != 1+c.rng.Intn(len(wkbDests)-1) {
				continue
			}
			for _, fr := range frames {
				var input []byte
				switch fr {
				case "raw":
					input = append([]byte{}, data...)
				case "hex":
					input = []byte(hex.EncodeToString(data))
					if c.rng.Intn(2) == 0 {
						input = bytes.ToUpper(input)
					}
				case "xhex":
					input = append([]byte("\\x"), []byte(hex.EncodeToString(data))...)
				case "prefix":
					// MySQL framing: 4-byte little-endian SRID followed by the WKB of the geometry.
					// ewkb: ScannerPrefixSRID. wkb: the documented retry heuristic, which only applies
					// when the prefix cannot be mistaken for a header (low SRID byte not 0 or 1).
					// (low SRID byte not 0 or 1) or for hex text ("\\x", "00", "01" as the first two bytes).
					if b0, b1 := psrid&0xff, (psrid>>8)&0xff; pkg == "wkb" &&
						(b0 <= 1 || (b0 == '\\' && b1 == 'x') || (b0 == '0' && (b1 == '0' || b1 == '1'))) {
						continue
					}
					var body []byte
					if pkg == "wkb" {
						body = data
					} else {
						body, _ = ewkb.Marshal(g, srid, order)
					}
					input = make([]byte, 4, 4+len(body))
					binary.LittleEndian.PutUint32(input, uint32(psrid))
					input = append(input, body...)
				}
				dest, get := d.mk()
				r := scanRes{Dest: d.name, Fr: fr, V: map[string]interface{}{"t": "nil"}}
				var serr error
				var got orb.Geometry
				if pkg == "wkb" {
					s := wkb.Scanner(dest)
					serr = s.Scan(input)
					got = s.Geometry
					if s.Valid {
						r.Valid = 1
					}
					if serr == wkb.ErrIncorrectGeometry {
						r.Wrong = 1
					}
				} else {
					var s *ewkb.GeometryScanner
					if fr == "prefix" {
						s = ewkb.ScannerPrefixSRID(dest)
					} else {
						s = ewkb.Scanner(dest)
					}
					serr = s.Scan(input)
					got = s.Geometry
					r.Srid = s.SRID
					if s.Valid {
						r.Valid = 1
					}
					if serr == ewkb.ErrIncorrectGeometry {
						r.Wrong = 1
					}
				}
				// the same input through the scanner (and destination) that already served earlier events - a rows.Scan loop
				r.Reuse = 1
				if ps := c01Persistent(pkg, d, fr == "prefix"); ps != nil {
					var perr error
					var pg orb.Geometry
					var psrid int
					var pvalid bool
					if ps.w != nil {
						perr = ps.w.Scan(append([]byte{}, input...))
						pg, pvalid = ps.w.Geometry, ps.w.Valid
					} else {
						perr = ps.e.Scan(append([]byte{}, input...))
						pg, psrid, pvalid = ps.e.Geometry, ps.e.SRID, ps.e.Valid
					}
					same := (perr == nil) == (serr == nil) && (perr == nil || perr.Error() == serr.Error())
					if same && perr == nil {
						same = psrid == r.Srid && pvalid == (r.Valid == 1) && (orb.Equal(pg, got) || hasNaN(got))
						if same && ps.get != nil && get != nil {
							same = orb.Equal(ps.get(), get()) || hasNaN(get())
						}
					}
					if !same {
						r.Reuse = 0
					}
					// what the previous scan with this scanner handed out is still what it was
					for i, pv := range ps.prev {
						if geomBits(pv) != ps.prevBits[i] {
							r.Reuse = 0
						}
					}
					ps.prev, ps.prevBits = ps.prev[:0], ps.prevBits[:0]
					if perr == nil {
						ps.prev = append(ps.prev, pg)
						if ps.get != nil {
							ps.prev = append(ps.prev, ps.get())
						}
						for _, pv := range ps.prev {
							ps.prevBits = append(ps.prevBits, geomBits(pv))
						}
					}
				}
				if serr == nil {
					r.Ok = 1
					if get != nil {
						// the typed destination and the scanner's Geometry attribute must agree
						if !orb.Equal(get(), got) && !hasNaN(got) {
							r.Ok = 2
						}
						got = get()
					}
					r.V, _ = encGeom(got, in.fn())
				}
				scans = append(scans, r)
			}
		}
	})
	if site != "" {
		c.emit(panicEvent(pkg+".Marshal/Unmarshal/Scan", site, gm))
		return
	}
	if err != nil {
		c.emit(map[string]interface{}{"k": "wkberr", "fn": pkg + ".Marshal", "err": err.Error(), "in": gm})
		return
	}
	dec := func(v orb.Geometry, srid int, err error) map[string]interface{} {
		if err != nil {
			return map[string]interface{}{"ok": 0, "v": map[string]interface{}{"t": "nil"}, "srid": 0, "err": err.Error()}
		}
		m, _ := encGeom(v, in.fn())
		return map[string]interface{}{"ok": 1, "v": m, "srid": srid}
	}
	// what Value() and Marshal returned for the previous event is still what it was (results do not live in shared buffers)
	e["vstable"] = 1
	for i := range c01PrevOut {
		if !bytes.Equal(c01PrevOut[i], c01PrevCopy[i]) {
			e["vstable"] = 0
		}
	}
	c01PrevOut = [][]byte{val, valp, data}
	c01PrevCopy = [][]byte{append([]byte{}, val...), append([]byte{}, valp...), append([]byte{}, data...)}
	e["bytes"] = bytesToInts(data)
	e["decb"], e["decs"] = dec(decb, sridB, errB), dec(decs, sridS, errS)
	// what the two decoders returned encodes to the bytes it was decoded from (an empty value does not come back as
	// a typed nil, which the encoder treats as no geometry at all)
	e["reenc"] = 1
	if g != nil && !isNilSlice(g) {
		for _, dv := range []orb.Geometry{decb, decs} {
			var re []byte
			if pkg == "wkb" {
				re, _ = wkb.Marshal(dv, order)
			} else {
				re, _ = ewkb.Marshal(dv, srid, order)
			}
			if !bytes.Equal(re, data) {
				e["reenc"] = 0
			}
		}
	}
	if scans == nil {
		scans = []scanRes{}
	}
	e["scans"] = scans
	e["val"], e["valp"] = bytesToInts(val), bytesToInts(valp)
	e["tab"] = in.tab()
	e["rk"], e["hasnan"] = in.ranks()
	if g != nil {
		e["nt"] = 1
	}
	c.emit(e)
}

func isNilSlice(g orb.Geometry) bool {
	switch v := g.(type) {
	case orb.MultiPoint:
		return v == nil
	case orb.LineString:
		return v == nil
	case orb.Ring:
		return v == nil
	case orb.MultiLineString:
		return v == nil
	case orb.Polygon:
		return v == nil
	case orb.MultiPolygon:
		return v == nil
	case orb.Collection:
		return v == nil
	}
	return false
}

func hasNaN(g orb.Geometry) bool {
	if g == nil {
		return false
	}
	nan := false
	var walk func(g orb.Geometry)
	pts := func(ps []orb.Point) {
		for _, p := range ps {
			if math.IsNaN(p[0]) || math.IsNaN(p[1]) {
				nan = true
			}
		}
	}
	walk = func(g orb.Geometry) {
		switch v := g.(type) {
		case orb.Point:
			pts([]orb.Point{v})
		case orb.MultiPoint:
			pts(v)
		case orb.LineString:
			pts(v)
		case orb.Ring:
			pts(v)
		case orb.MultiLineString:
			for _, l := range v {
				pts(l)
			}
		case orb.Polygon:
			for _, l := range v {
				pts(l)
			}
		case orb.MultiPolygon:
			for _, p := range v {
				for _, l := range p {
					pts(l)
				}
			}
		case orb.Collection:
			for _, m := range v {
				walk(m)
			}
		case orb.Bound:
			pts([]orb.Point{v.Min, v.Max})
		}
	}
	walk(g)
	return nan
}

// decodeGeomJSON builds an orb geometry from the GeomValue JSON of a TLC case; f maps ids to floats.
func decodeGeomJSON(raw json.RawMessage, f func(id int) float64) orb.Geometry {
	var m struct {
		T string            `json:"t"`
		C json.RawMessage   `json:"c"`
		G []json.RawMessage `json:"g"`
	}
	if err := json.Unmarshal(raw, &m); err != nil {
		fatal(err)
	}
	pt := func(p [2]int) orb.Point { return orb.Point{f(p[0]), f(p[1])} }
	pts := func(ps [][2]int) []orb.Point {
		out := make([]orb.Point, 0, len(ps))
		for _, p := range ps {
			out = append(out, pt(p))
		}
		return out
	}
	switch m.T {
	case "nil":
		return nil
	case "Point":
		var p [2]int
		json.Unmarshal(m.C, &p)
		return pt(p)
	case "MultiPoint", "LineString", "Ring":
		var ps [][2]int
		json.Unmarshal(m.C, &ps)
		switch m.T {
		case "MultiPoint":
			return orb.MultiPoint(pts(ps))
		case "LineString":
			return orb.LineString(pts(ps))
		}
		return orb.Ring(pts(ps))
	case "Polygon", "MultiLineString":
		var pss [][][2]int
		json.Unmarshal(m.C, &pss)
		if m.T == "Polygon" {
			out := orb.Polygon{}
			for _, ps := range pss {
				out = append(out, orb.Ring(pts(ps)))
			}
			return out
		}
		out := orb.MultiLineString{}
		for _, ps := range pss {
			out = append(out, orb.LineString(pts(ps)))
		}
		return out
	case "MultiPolygon":
		var psss [][][][2]int
		json.Unmarshal(m.C, &psss)
		out := orb.MultiPolygon{}
		for _, pss := range psss {
			p := orb.Polygon{}
			for _, ps := range pss {
				p = append(p, orb.Ring(pts(ps)))
			}
			out = append(out, p)
		}
		return out
	case "Bound":
		var b [4]int
		json.Unmarshal(m.C, &b)
		return orb.Bound{Min: orb.Point{f(b[0]), f(b[1])}, Max: orb.Point{f(b[2]), f(b[3])}}
	case "Collection":
		out := orb.Collection{}
		for _, r := range m.G {
			out = append(out, decodeGeomJSON(r, f))
		}
		return out
	}
	fatal("unknown kind " + m.T)
	return nil
}

// randFloat draws from every float64 class.
func randFloat(c *ctx) float64 {
	switch c.rng.Intn(12) {
	case 0:
		return math.Float64frombits(0x7ff8000000000000 | uint64(c.rng.Int63())&0x7ffffffffffff) // NaN payloads
	case 1:
		return math.Inf(1 - 2*c.rng.Intn(2))
	case 2:
		return math.Copysign(0, -1)
	case 3:
		return math.Float64frombits(uint64(c.rng.Int63()) & 0xfffffffffffff) // subnormal
	case 4:
		return math.Float64frombits(c.rng.Uint64()) // random bits
	case 5:
		return math.Float64frombits(0x0100000020000001) // looks like a header
	case 6:
		return float64(c.rng.Intn(361) - 180)
	default:
		return c.rng.NormFloat64() * 100
	}
}

// randGeom builds a random geometry (no nil members) with up to maxPts vertices per part.
func randGeom(c *ctx, depth, maxPts int, fl func() float64) orb.Geometry {
	pt := func() orb.Point { return orb.Point{fl(), fl()} }
	pts := func() []orb.Point {
		n := c.rng.Intn(maxPts + 1)
		if c.rng.Intn(10) == 0 {
			return nil // nil slice
		}
		out := make([]orb.Point, n)
		for i := range out {
			out[i] = pt()
		}
		return out
	}
	k := c.rng.Intn(9)
	if depth <= 0 && k == 8 {
		k = c.rng.Intn(8)
	}
	switch k {
	case 0:
		return pt()
	case 1:
		return orb.MultiPoint(pts())
	case 2:
		return orb.LineString(pts())
	case 3:
		return orb.Ring(pts())
	case 4:
		mls := orb.MultiLineString{}
		for i := 0; i < c.rng.Intn(4); i++ {
			mls = append(mls, orb.LineString(pts()))
		}
		return mls
	case 5:
		p := orb.Polygon{}
		for i := 0; i < c.rng.Intn(4); i++ {
			p = append(p, orb.Ring(pts()))
		}
		return p
	case 6:
		mp := orb.MultiPolygon{}
		for i := 0; i < c.rng.Intn(3); i++ {
			p := orb.Polygon{}
			for j := 0; j < c.rng.Intn(3); j++ {
				p = append(p, orb.Ring(pts()))
			}
			mp = append(mp, p)
		}
		return mp
	case 7:
		a, b := pt(), pt() // a well-formed bound: Min <= Max in both axes
		for d := 0; d < 2; d++ {
			if b[d] < a[d] {
				a[d], b[d] = b[d], a[d]
			}
		}
		return orb.Bound{Min: a, Max: b}
	default:
		col := orb.Collection{}
		for i := 0; i < c.rng.Intn(4); i++ {
			m := randGeom(c, depth-1, maxPts, fl)
			if isNilSlice(m) { // collection members are never typed-nil (outside the quantifier)
				switch m.(type) {
				case orb.MultiPoint:
					m = orb.MultiPoint{}
				case orb.LineString:
					m = orb.LineString{}
				case orb.Ring:
					m = orb.Ring{}
				}
			}
			col = append(col, m)
		}
		return col
	}
}

func init() {
	// (R) every shape of the TLC-generated bounded set x both packages x orders x srids x all destinations x framings
	register("wkbshapes", func(c *ctx) {
		pat := []float64{
			math.Float64frombits(0x0100000020000001), math.Float64frombits(0), math.Float64frombits(0xffffffffffffffff),
		}
		srids := []int{0, 1, 4326, 2147483647}
		var cases []json.RawMessage
		readCases(c.cases, func(raw json.RawMessage) { cases = append(cases, append(json.RawMessage{}, raw...)) })
		sort.Slice(cases, func(i, j int) bool { return string(cases[i]) < string(cases[j]) })
		for i, raw := range cases {
			var cs struct {
				G json.RawMessage `json:"g"`
			}
			if err := json.Unmarshal(raw, &cs); err != nil {
				fatal(err)
			}
			g := decodeGeomJSON(cs.G, func(id int) float64 { return pat[id-1] })
			for _, le := range []bool{true, false} {
				c01Event(c, g, "wkb", le, 0, 4326+i%7, true)
				for _, srid := range srids {
					if !c.thorough() && srid != srids[i%4] && srid != 0 {
						continue
					}
					c01Event(c, g, "ewkb", le, srid, 4326+i%5, true)
				}
			}
		}
	})
	// (T) seeded random geometries over every float64 class
	register("wkbrandom", func(c *ctx) {
		n := c.pick(2500, 60000)
		for i := 0; i < n; i++ {
			maxPts := 6
			if i%50 == 0 {
				maxPts = 200
			}
			var g orb.Geometry
			if i%97 != 0 {
				g = randGeom(c, 4, maxPts, func() float64 { return randFloat(c) })
			}
			le := c.rng.Intn(2) == 0
			srid := 0
			if c.rng.Intn(3) > 0 {
				srid = 1 + c.rng.Intn(1<<31-1)
				if c.rng.Intn(4) == 0 { // SRIDs whose bytes look like something else: a byte order mark and a type word, hex digits
					srid = []int{1 << 24, 2 << 24, 3 << 24, 5 << 24, 7 << 24, 1, 256, 1 << 16, 0x01000001, 0x3030, 0x3130, 0x785c, 0x30303030}[c.rng.Intn(13)]
				}
			}
			psrid := 1 + c.rng.Intn(1<<31-1)
			if c.rng.Intn(6) == 0 { // prefix SRIDs whose first bytes spell hex digits, the \x marker or a byte order mark
				psrid = []int{0x3030, 0x3130, 0x785c, 0x30303030, 0x10003030, 0x7fff3130, 0x0001785c, 1, 256, 0x01000000}[c.rng.Intn(10)]
			}
			if c.rng.Intn(2) == 0 {
				c01Event(c, g, "wkb", le, 0, psrid, maxPts <= 6)
			} else {
				c01Event(c, g, "ewkb", le, srid, psrid, maxPts <= 6)
			}
		}
	})
}
