package main

import (
	"github.com/paulmach/orb"
	"github.com/paulmach/orb/planar"
	"math"
)

// C09: planar.RingContains / PolygonContains / MultiPolygonContains on small dyadic lattices.
// Event: {k:"contains", fn, mp:[[[ [x,y].. ]..]..], q:[[x,y]..], ans:[0|1..], nt} with every
// coordinate in units of 1/4 (real value = int/4, exact in float64).

type containsEv struct {
	K   string       `json:"k"`
	Fn  string       `json:"fn"`
	MP  [][][][2]int `json:"mp"`
	Q   [][2]int     `json:"q"`
	Ans []int        `json:"ans"`
	NT  int          `json:"nt"`
}

const c09Scale = 4.0

// c09Off translates the whole configuration (ring and query points) in the real call; the events keep the
// untranslated lattice coordinates, the predicate being translation invariant. All sums are exact in float64.
var c09Off [2]float64
var c09Calls int
var c09Arena = make([]orb.Point, 512)

var c09Offsets = [][2]float64{{0, 0}, {16384, 16384}, {500000, 4000000}, {1 << 20, -(1 << 22)}, {-(1 << 30), 1 << 30}, {1 << 40, 1 << 40}, {0.25, -1e6}}

// c09Mul scales the whole configuration by a power of two (exact, like the translation): what contains what does not
// depend on the unit - also when the unit is 2^-600 or 2^600 of the lattice step (products of two coordinates are
// then beyond the float64 range, the coordinates themselves are far from it)
var c09Mul = 1.0
var c09Muls = []float64{1, 1, 1, 1, 1, 1, math.Ldexp(1, -600), math.Ldexp(1, 600), math.Ldexp(1, -540), math.Ldexp(1, 510), math.Ldexp(1, -1000), math.Ldexp(1, 900), math.Ldexp(1, -100), math.Ldexp(1, 200)}

func c09Pt(p [2]int) orb.Point {
	return orb.Point{(float64(p[0])/c09Scale + c09Off[0]) * c09Mul, (float64(p[1])/c09Scale + c09Off[1]) * c09Mul}
}

func c09Ring(r [][2]int) orb.Ring {
	out := make(orb.Ring, len(r))
	for i, p := range r {
		out[i] = c09Pt(p)
	}
	return out
}

func c09Run(c *ctx, fn string, mp [][][][2]int, q [][2]int) {
	e := containsEv{K: "contains", Fn: fn, MP: mp, Q: q}
	c09Mul = c09Muls[(c09Calls/3)%len(c09Muls)]
	var g orb.MultiPolygon
	for _, p := range mp {
		var poly orb.Polygon
		for _, r := range p {
			poly = append(poly, c09Ring(r))
		}
		g = append(g, poly)
	}
	// the rings are consecutive sections of one coordinate buffer (each with capacity reaching into the next): a
	// containment test is a read-only question and must not disturb its neighbours
	// ... and for runs of six events out of eight that buffer is one and the same array, refilled in place: the next
	// geometry sits at the addresses of the previous one
	c09Calls++
	if c09Calls%8 < 6 {
		sharedArena = c09Arena
	}
	g = sharedBuffer(g).(orb.MultiPolygon)
	sharedArena = nil
	setCurrent("planar."+fn, mp)
	ones := 0
	site := guard(func() {
		for _, qp := range q {
			pt := c09Pt(qp)
			var in bool
			switch fn {
			case "ring":
				in = planar.RingContains(g[0][0], pt)
			case "poly":
				in = planar.PolygonContains(g[0], pt)
			default:
				in = planar.MultiPolygonContains(g, pt)
			}
			if in {
				e.Ans = append(e.Ans, 1)
				ones++
			} else {
				e.Ans = append(e.Ans, 0)
			}
		}
	})
	if site != "" {
		c.emit(panicEvent("planar."+fn, site, mp))
		return
	}
	if ones > 0 && ones < len(q) {
		e.NT = 1
	}
	c.emit(e)
}

func absInt(v int) int {
	if v < 0 {
		return -v
	}
	return v
}

func latticeQ(lo, hi, step int) [][2]int {
	var q [][2]int
	for x := lo; x <= hi; x += step {
		for y := lo; y <= hi; y += step {
			q = append(q, [2]int{x, y})
		}
	}
	return q
}

func init() {
	register("contains", func(c *ctx) {
		// (1) exhaustive: every 3-vertex ring on the 4x4 integer grid against the 49 points of the
		// half-step lattice (units of 1/4: grid step 4, query step 2, range 0..12).
		q49 := latticeQ(0, 12, 2)
		grid := func(i int) [2]int { return [2]int{4 * (i % 4), 4 * (i / 4)} }
		for a := 0; a < 16; a++ {
			for b := 0; b < 16; b++ {
				for d := 0; d < 16; d++ {
					c09Off = c09Offsets[(a+3*b+5*d)%len(c09Offsets)]
					c09Run(c, "ring", [][][][2]int{{{grid(a), grid(b), grid(d)}}}, q49)
				}
			}
		}
		// (2) every 4-vertex ring (65 536): all in the thorough tier, a seeded sample in quick.
		if c.thorough() {
			for i := 0; i < 65536; i++ {
				c09Off = c09Offsets[i%len(c09Offsets)]
				c09Run(c, "ring", [][][][2]int{{{grid(i & 15), grid((i >> 4) & 15), grid((i >> 8) & 15), grid(i >> 12)}}}, q49)
			}
		} else {
			for n := 0; n < 4096; n++ {
				i := c.rng.Intn(65536)
				c09Off = c09Offsets[c.rng.Intn(len(c09Offsets))]
				c09Run(c, "ring", [][][][2]int{{{grid(i & 15), grid((i >> 4) & 15), grid((i >> 8) & 15), grid(i >> 12)}}}, q49)
			}
		}
		// (3) seeded larger rings: up to 12 vertices on the half-integer grid 0..6 (units 1/4: even
		// numbers 0..24), repeated / collinear / axis-parallel edges arise densely on so small a
		// grid; closed and unclosed spelling; every rotation and the reversal of each ring.
		q := latticeQ(-2, 26, c.pick(2, 1)) // vertices sit on even numbers: step 2 hits every vertex (quick), step 1 adds the quarter points (thorough)
		nr := c.pick(600, 6000)
		for n := 0; n < nr; n++ {
			k := 3 + c.rng.Intn(10)
			if n%25 == 7 { // rings of dozens and hundreds of vertices, around the sizes where buffers and blocks end (and of one and two)
				k = []int{1, 2, 15, 16, 17, 31, 32, 33, 63, 64, 65, 127, 128, 129, 200}[c.rng.Intn(15)]
			}
			r := make([][2]int, k)
			for i := range r {
				r[i] = [2]int{2 * c.rng.Intn(13), 2 * c.rng.Intn(13)}
				if i > 0 && c.rng.Intn(6) == 0 {
					r[i] = r[i-1] // repeated vertex
				}
				if i > 0 && c.rng.Intn(4) == 0 {
					r[i][c.rng.Intn(2)] = r[i-1][c.rng.Intn(2)] // axis-parallel / diagonal alignments
				}
			}
			variants := [][][2]int{r}
			rot := c.rng.Intn(k)
			variants = append(variants, append(append([][2]int{}, r[rot:]...), r[:rot]...))
			rev := make([][2]int, k)
			for i := range r {
				rev[i] = r[k-1-i]
			}
			variants = append(variants, rev)
			closed := append(append([][2]int{}, r...), r[0])
			variants = append(variants, closed)
			c09Off = c09Offsets[c.rng.Intn(len(c09Offsets))] // every variant of one ring at the same place
			for _, v := range variants {
				c09Run(c, "ring", [][][][2]int{{v}}, q)
			}
		}
		// (3b) rings on the integer grid 0..16 (slanted edges whose run and rise are not powers of two) against the points
		// that lie exactly on their edges - the lattice points of each edge and its midpoint - and the points half a step
		// beside those
		for n := 0; n < c.pick(2000, 20000); n++ {
			k := 3 + c.rng.Intn(3)
			r := make([][2]int, k)
			for i := range r {
				r[i] = [2]int{4 * c.rng.Intn(17), 4 * c.rng.Intn(17)}
			}
			atOrigin := n%2 == 0
			if atOrigin { // a vertex at the origin itself: along the edges that start there nothing hides a slope's last place
				r[c.rng.Intn(k)] = [2]int{0, 0}
			}
			var qs [][2]int
			for i := range r {
				a, b := r[i], r[(i+1)%k]
				dx, dy := (b[0]-a[0])/4, (b[1]-a[1])/4
				g := gcdInt(absInt(dx), absInt(dy))
				if g == 0 {
					continue
				}
				for t := 0; t <= 2*g; t++ { // lattice points of the edge and the half-way points between them (units of 1/4: exact)
					q := [2]int{a[0] + (b[0]-a[0])*t/(2*g), a[1] + (b[1]-a[1])*t/(2*g)}
					if (b[0]-a[0])*t%(2*g) != 0 || (b[1]-a[1])*t%(2*g) != 0 {
						continue
					}
					qs = append(qs, q, [2]int{q[0] + 2, q[1]}, [2]int{q[0], q[1] - 2})
				}
			}
			if len(qs) == 0 {
				continue
			}
			c09Off = c09Offsets[c.rng.Intn(len(c09Offsets))]
			if atOrigin || c.rng.Intn(3) == 0 { // where they are: next to the origin the last places of a slope decide, far away they are rounded off
				c09Off = [2]float64{}
			}
			rot := c.rng.Intn(k)
			c09Run(c, "ring", [][][][2]int{{r}}, qs)
			c09Run(c, "ring", [][][][2]int{{append(append([][2]int{}, r[rot:]...), r[:rot]...)}}, qs)
			if n%4 == 0 { // the same ring as a hole of a square around everything
				c09Run(c, "poly", [][][][2]int{{{{-4, -4}, {68, -4}, {68, 68}, {-4, 68}}, r}}, qs)
			}
		}
		// (3c) a hair beside an edge: triangles on the integer grid 0..16, queried 2^-40 above and below the points that
		// lie exactly on their slanted edges. The model judges the point 1/512 above / below instead (coordinates in units
		// of 1/512): no other edge passes that close (an edge through grid points stays at least 1/32 away, vertically,
		// from any half-grid point it does not contain), so the answer is the same.
		for n := 0; n < c.pick(600, 6000); n++ {
			r := make([][2]int, 3)
			for i := range r {
				r[i] = [2]int{c.rng.Intn(17), c.rng.Intn(17)}
			}
			a, b := r[0], r[1]
			dx, dy := b[0]-a[0], b[1]-a[1]
			if dx == 0 || dy == 0 || (r[2][0]-a[0])*dy == (r[2][1]-a[1])*dx {
				continue // the first edge must be slanted, the triangle must have area
			}
			g := gcdInt(absInt(dx), absInt(dy))
			j := 1 + c.rng.Intn(2*g-1)                   // the lattice points of the edge and the points half-way between them, ends excluded
			qx2, qy2 := 2*a[0]+j*(dx/g), 2*a[1]+j*(dy/g) // twice the coordinates
			ring := orb.Ring{}
			var model [][2]int
			for _, v := range r {
				ring = append(ring, orb.Point{float64(v[0]), float64(v[1])})
				model = append(model, [2]int{v[0] * 512, v[1] * 512})
			}
			hair := math.Ldexp(1, -40)
			qs := []orb.Point{{float64(qx2) / 2, float64(qy2)/2 + hair}, {float64(qx2) / 2, float64(qy2)/2 - hair}, {float64(qx2) / 2, float64(qy2) / 2}}
			mq := [][2]int{{qx2 * 256, qy2*256 + 1}, {qx2 * 256, qy2*256 - 1}, {qx2 * 256, qy2 * 256}}
			e := containsEv{K: "contains", Fn: "ring", MP: [][][][2]int{{model}}, Q: mq, NT: 1}
			if n%3 == 1 { // as a hole of a big square: a hair outside the hole is in the polygon
				e.Fn = "poly"
				e.MP = [][][][2]int{{{{-512, -512}, {17 * 512, -512}, {17 * 512, 17 * 512}, {-512, 17 * 512}}, model}}
			}
			setCurrent("planar.RingContains(hair)", e)
			site := guard(func() {
				for _, q := range qs {
					in := planar.RingContains(ring, q)
					if e.Fn == "poly" {
						in = planar.PolygonContains(orb.Polygon{{{-1, -1}, {17, -1}, {17, 17}, {-1, 17}}, ring}, q)
					}
					e.Ans = append(e.Ans, b2i(in))
				}
			})
			if site != "" {
				c.emit(panicEvent("planar.RingContains(hair)", site, e))
				continue
			}
			c.emit(e)
		}
		// (4) polygons with holes and multipolygons from small boxes/triangles (holes may touch or
		// cross the outer ring: the statement is pointwise, "outer and no hole", whatever the rings are).
		np := c.pick(400, 4000)
		shape := func() [][2]int {
			x0, y0 := 2*c.rng.Intn(9), 2*c.rng.Intn(9)
			w, h := 2*(1+c.rng.Intn(6)), 2*(1+c.rng.Intn(6))
			switch c.rng.Intn(3) {
			case 0:
				return [][2]int{{x0, y0}, {x0 + w, y0}, {x0 + w, y0 + h}, {x0, y0 + h}, {x0, y0}}
			case 1:
				return [][2]int{{x0, y0}, {x0 + w, y0}, {x0, y0 + h}}
			default:
				return [][2]int{{x0, y0 + h}, {x0 + w, y0 + h}, {x0 + w/2, y0}, {x0, y0 + h}}
			}
		}
		// holes without area: a bow-tie whose two lobes cancel, a ring folded onto a line (their points still are "in the
		// hole": inside under the even-odd rule or on its boundary)
		flat := func() [][2]int {
			x0, y0 := 2*(1+c.rng.Intn(6)), 2*(1+c.rng.Intn(6))
			w := 2 * (1 + c.rng.Intn(3))
			switch c.rng.Intn(3) {
			case 0:
				return [][2]int{{x0, y0}, {x0 + 2*w, y0 + 2*w}, {x0 + 2*w, y0}, {x0, y0 + 2*w}} // symmetric bow-tie
			case 1:
				return [][2]int{{x0, y0}, {x0 + 2*w, y0 + w}, {x0 + w, y0 + w/2*1}, {x0, y0}} // out and back along (almost) one line
			default:
				return [][2]int{{x0, y0}, {x0 + 2*w, y0}, {x0 + w, y0}, {x0, y0}} // folded onto a horizontal segment
			}
		}
		for n := 0; n < np; n++ {
			var mp [][][][2]int
			for p := 0; p < 1+c.rng.Intn(3); p++ {
				poly := [][][2]int{shape()}
				for h := 0; h < c.rng.Intn(3); h++ {
					if c.rng.Intn(4) == 0 {
						poly = append(poly, flat())
					} else {
						poly = append(poly, shape())
					}
				}
				mp = append(mp, poly)
			}
			if n%3 == 0 { // land with a lake and an island in the lake (a later member inside a hole of an earlier one), either order
				x0, y0 := 2*c.rng.Intn(3), 2*c.rng.Intn(3)
				box := func(m, w int) [][2]int {
					return [][2]int{{x0 + m, y0 + m}, {x0 + m + w, y0 + m}, {x0 + m + w, y0 + m + w}, {x0 + m, y0 + m + w}, {x0 + m, y0 + m}}
				}
				land := [][][2]int{box(0, 20), box(4, 12)}
				island := [][][2]int{box(8, 4)}
				if c.rng.Intn(2) == 0 {
					island = append(island, box(9, 2)) // with a pond of its own
				}
				mp = [][][][2]int{land, island}
				if c.rng.Intn(2) == 0 {
					mp = [][][][2]int{island, land}
				}
			}
			c09Off = c09Offsets[c.rng.Intn(len(c09Offsets))]
			c09Run(c, "mpoly", mp, q)
			c09Run(c, "poly", mp[:1], q)
		}
	})
}
