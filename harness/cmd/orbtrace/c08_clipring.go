package main

import (
	"fmt"
	"math"

	"github.com/paulmach/orb"
	"github.com/paulmach/orb/clip"
	"github.com/paulmach/orb/encoding/mvt"
	"github.com/paulmach/orb/geojson"
)

// C08: clip.Ring / Polygon / MultiPolygon / MultiPoint / Bound / Collection / Geometry and mvt Layer.Clip.
// All lattice coordinates are multiples of 60 with differences <= 6*60, so every crossing with a box line is
// a lattice integer (60 is divisible by 1..6).  The real coordinate is lattice/c08S: c08S = 60 puts the
// vertices on the integer grid 0..6, c08S = 120 on the half-integer grid 0..3.

var c08S = 60

type clipRingEv struct {
	K     string       `json:"k"`
	Fn    string       `json:"fn"`
	Box   [4]int       `json:"box"`
	In    [][][][2]int `json:"in"`
	Out   [][][][2]int `json:"out"`
	Shape string       `json:"shape"`
	St    int          `json:"st"`
	NT    int          `json:"nt"`
	S     int          `json:"s"`
	PSt   int          `json:"pstable"`
}

var c08Prev prevTracker
var c08PrevIn orb.MultiPolygon
var c08PrevInSnap string

func closedRing(v [][2]int) [][2]int {
	return append(append([][2]int{}, v...), v[0])
}

// c08Ring calls one of the 2-d entry points on a lattice multipolygon and emits the event.
func c08Ring(c *ctx, fn string, box [4]int, in [][][][2]int, st int) [][][][2]int {
	s := float64(c08S) * figScale()
	b := toBound(box, s)
	g := mpOf(in, s)
	if c.rng.Intn(3) == 0 {
		// every third figure has its rings carved out of one coordinate array, one behind the other (the clip functions use
		// their input as scratch space; the memory behind a ring is not part of it)
		g = sharedBuffer(g).(orb.MultiPolygon)
	}
	e := clipRingEv{K: "clipring", Fn: fn, Box: box, In: in, St: st, S: c08S}
	var out orb.MultiPolygon
	shape := ""
	setCurrent("clip."+fn, e)
	site := guard(func() {
		switch fn {
		case "Ring":
			r := clip.Ring(b, g[0][0])
			if len(r) == 0 { // typed entry points: nil and empty are the same answer
				shape = "nil"
			} else {
				shape = "ring"
				out = orb.MultiPolygon{{r}}
			}
		case "Polygon":
			p := clip.Polygon(b, g[0])
			if len(p) == 0 {
				shape = "nil"
			} else {
				shape = "polygon"
				out = orb.MultiPolygon{p}
			}
		case "MultiPolygon":
			mp := clip.MultiPolygon(b, g)
			if len(mp) == 0 {
				shape = "nil"
			} else {
				shape = "multipolygon"
				out = mp
			}
		default: // Geometry*
			var arg orb.Geometry
			switch fn {
			case "GeometryRing":
				arg = g[0][0]
			case "GeometryPolygon":
				arg = g[0]
			default:
				arg = g
			}
			switch v := clip.Geometry(b, arg).(type) {
			case nil:
				shape = "nil"
			case orb.Ring:
				shape, out = "ring", orb.MultiPolygon{{v}}
			case orb.Polygon:
				shape, out = "polygon", orb.MultiPolygon{v}
			case orb.MultiPolygon:
				shape, out = "multipolygon", v
			default:
				shape = "other"
			}
		}
	})
	if site != "" {
		c.emit(panicEvent("clip."+fn, site, e))
		return nil
	}
	q, ok := quantMP(out, s)
	if !ok {
		c.emit(map[string]interface{}{"k": "offlattice", "fn": "clip." + fn, "in": e})
		return nil
	}
	e.Out, e.Shape = q, shape
	e.PSt = c08Prev.check(out)
	// the rings handed to the PREVIOUS call (scratch space during that call, the caller's again afterwards) still hold
	// what that call left in them: a later call does not write to memory it was lent earlier
	if c08PrevIn != nil && fmt.Sprint(c08PrevIn) != c08PrevInSnap {
		e.PSt = 0
	}
	c08PrevIn, c08PrevInSnap = g, fmt.Sprint(g)
	if len(q) > 0 && !eqMP(q, in) {
		e.NT = 1
	}
	c.emit(e)
	return q
}

func eqMP(a, b [][][][2]int) bool {
	if len(a) != len(b) {
		return false
	}
	for i := range a {
		if !eqPaths(a[i], b[i]) {
			return false
		}
	}
	return true
}

// c08Split clips one ring against a box and against its two halves at x = cut or y = cut.
func c08Split(c *ctx, box [4]int, ring [][2]int, axis int, cut int) {
	s := float64(c08S)
	lo, hi := box, box
	if axis == 0 {
		lo[2], hi[0] = cut, cut
	} else {
		lo[3], hi[1] = cut, cut
	}
	var res [3][][2]int
	e := map[string]interface{}{"k": "clipsplit", "fn": "Ring", "box": box, "axis": axis, "c": cut, "ring": ring}
	setCurrent("clip.Ring(split)", e)
	okAll := true
	site := guard(func() {
		for i, bx := range [][4]int{box, lo, hi} {
			r := clip.Ring(toBound(bx, s), ringOf(ring, s))
			ok := true
			res[i] = encPts(r, latticeFn(s), &ok)
			okAll = okAll && ok
		}
	})
	if site != "" {
		c.emit(panicEvent("clip.Ring", site, e))
		return
	}
	if !okAll {
		c.emit(map[string]interface{}{"k": "offlattice", "fn": "clip.Ring", "in": e})
		return
	}
	e["whole"], e["lo"], e["hi"] = res[0], res[1], res[2]
	if len(res[1]) > 0 && len(res[2]) > 0 {
		e["nt"] = 1
	}
	c.emit(e)
}

func init() {
	register("clipring", func(c *ctx) {
		const S = 60
		c08S = 60
		// boxes with corners on the integer grid 1..3 (quick) / 1..4 (thorough) of a 0..4 / 0..5 grid
		G, lo, hi := 5, 1, 3
		if c.thorough() {
			G, lo, hi = 6, 1, 4
		}
		var boxes [][4]int
		for x0 := lo; x0 <= hi; x0++ {
			for x1 := x0 + 1; x1 <= hi; x1++ {
				for y0 := lo; y0 <= hi; y0++ {
					for y1 := y0 + 1; y1 <= hi; y1++ {
						boxes = append(boxes, [4]int{x0 * S, y0 * S, x1 * S, y1 * S})
					}
				}
			}
		}
		n := G * G
		pt := func(i int) [2]int { return [2]int{(i % G) * S, (i / G) * S} }
		// (1) exhaustive: every closed 3-vertex ring on the grid x every box (query step 1/4 unit);
		// 4-vertex rings: all (thorough) or a seeded sample (quick).
		for _, box := range boxes {
			for a := 0; a < n; a++ {
				for b := 0; b < n; b++ {
					for d := 0; d < n; d++ {
						r := closedRing([][2]int{pt(a), pt(b), pt(d)})
						c08Ring(c, "Ring", box, [][][][2]int{{r}}, 15)
					}
				}
			}
		}
		n4 := c.pick(20000, 150000)
		for i := 0; i < n4; i++ {
			box := boxes[c.rng.Intn(len(boxes))]
			r := closedRing([][2]int{pt(c.rng.Intn(n)), pt(c.rng.Intn(n)), pt(c.rng.Intn(n)), pt(c.rng.Intn(n))})
			c08Ring(c, "Ring", box, [][][][2]int{{r}}, 15)
		}
		// (2) seeded arbitrary closed vertex lists (<= 12 vertices) on the 7x7 grid (integer or half-integer
		// real coordinates), star-shaped and self-touching shapes arise densely; every 2-d entry point; splits.
		half := func() [2]int { return [2]int{60 * c.rng.Intn(7), 60 * c.rng.Intn(7)} }
		rbox := func() [4]int {
			x0, y0 := 1+c.rng.Intn(4), 1+c.rng.Intn(4)
			return [4]int{x0 * S, y0 * S, (x0 + 1 + c.rng.Intn(5-x0)) * S, (y0 + 1 + c.rng.Intn(5-y0)) * S}
		}
		rring := func(maxk int) [][2]int {
			k := 3 + c.rng.Intn(maxk-2)
			v := make([][2]int, k)
			for i := range v {
				v[i] = half()
				if i > 0 && c.rng.Intn(5) == 0 {
					v[i][c.rng.Intn(2)] = v[i-1][c.rng.Intn(2)]
				}
			}
			return closedRing(v)
		}
		star := func() [][2]int { // star-shaped about (3,3): sorted by angle
			k := 3 + c.rng.Intn(10)
			type pa struct {
				p [2]int
				a float64
			}
			var ps []pa
			for len(ps) < k {
				p := half()
				if p == [2]int{180, 180} {
					continue
				}
				ps = append(ps, pa{p, math.Atan2(float64(p[1]-180), float64(p[0]-180))})
			}
			for i := 1; i < len(ps); i++ {
				for j := i; j > 0 && ps[j].a < ps[j-1].a; j-- {
					ps[j], ps[j-1] = ps[j-1], ps[j]
				}
			}
			v := make([][2]int, k)
			for i := range ps {
				v[i] = ps[i].p
			}
			return closedRing(v)
		}
		nr := c.pick(5000, 60000)
		for i := 0; i < nr; i++ {
			c08S = 60 + 60*(i%2)
			box := rbox()
			mk := func() [][2]int {
				if c.rng.Intn(2) == 0 {
					return star()
				}
				return rring(12)
			}
			switch c.rng.Intn(8) {
			case 0, 1:
				r := mk()
				c08Ring(c, "Ring", box, [][][][2]int{{r}}, 15)
				// all splits of the box at integer grid lines
				for cut := box[0] + S; cut < box[2]; cut += S {
					c08Split(c, box, r, 0, cut)
				}
				for cut := box[1] + S; cut < box[3]; cut += S {
					c08Split(c, box, r, 1, cut)
				}
			case 2:
				c08Ring(c, "GeometryRing", box, [][][][2]int{{mk()}}, 15)
			case 3, 4:
				poly := [][][2]int{mk()}
				for h := 0; h < c.rng.Intn(3); h++ {
					poly = append(poly, rring(6))
				}
				fn := "Polygon"
				if c.rng.Intn(2) == 0 {
					fn = "GeometryPolygon"
				}
				c08Ring(c, fn, box, [][][][2]int{poly}, 15)
			default:
				var mp [][][][2]int
				for p := 0; p < 1+c.rng.Intn(3); p++ {
					poly := [][][2]int{mk()}
					if c.rng.Intn(3) == 0 {
						poly = append(poly, rring(5))
					}
					mp = append(mp, poly)
				}
				fn := "MultiPolygon"
				if c.rng.Intn(2) == 0 {
					fn = "GeometryMultiPolygon"
				}
				c08Ring(c, fn, box, mp, 15)
			}
		}
		// (3) points, bounds, collections and mvt layers: structural laws
		np := c.pick(3000, 30000)
		for i := 0; i < np; i++ {
			c08S = 60 + 60*(i%2)
			S := float64(c08S)
			f := latticeFn(S)
			box := rbox()
			b := toBound(box, S)
			switch c.rng.Intn(4) {
			case 0: // points
				k := c.rng.Intn(5)
				in := make([][2]int, k)
				for j := range in {
					in[j] = half()
				}
				mpts := orb.MultiPoint(ringOf(in, S))
				e := map[string]interface{}{"k": "clippts", "box": box, "in": in}
				var out orb.MultiPoint
				shape := ""
				fn := []string{"MultiPoint", "GeometryMultiPoint", "GeometryPoint"}[c.rng.Intn(3)]
				if fn == "GeometryPoint" {
					in = [][2]int{half()}
					mpts = orb.MultiPoint(ringOf(in, S))
					e["in"] = in
				}
				e["fn"] = fn
				setCurrent("clip."+fn, e)
				site := guard(func() {
					if fn == "MultiPoint" {
						out = clip.MultiPoint(b, mpts)
						if len(out) == 0 {
							shape = "nil"
						} else {
							shape = "multipoint"
						}
						return
					}
					var arg orb.Geometry = mpts
					if fn == "GeometryPoint" {
						arg = mpts[0]
					}
					switch v := clip.Geometry(b, arg).(type) {
					case nil:
						shape = "nil"
					case orb.Point:
						shape, out = "point", orb.MultiPoint{v}
					case orb.MultiPoint:
						shape, out = "multipoint", v
					default:
						shape = "other"
					}
				})
				if site != "" {
					c.emit(panicEvent("clip."+fn, site, e))
					continue
				}
				ok := true
				e["out"], e["shape"] = encPts(out, f, &ok), shape
				if len(out) > 0 && len(out) < len(in) {
					e["nt"] = 1
				}
				c.emit(e)
			case 1: // bounds (possibly degenerate, never empty)
				x0, y0 := 60*c.rng.Intn(6), 60*c.rng.Intn(6)
				o := [4]int{x0, y0, x0 + 60*c.rng.Intn(7-x0/60), y0 + 60*c.rng.Intn(7-y0/60)}
				ob := toBound(o, S)
				e := map[string]interface{}{"k": "clipbound", "a": box, "b": o}
				setCurrent("clip.Bound", e)
				if c.rng.Intn(2) == 0 {
					e["fn"] = "Bound"
					var r orb.Bound
					if site := guard(func() { r = clip.Bound(b, ob) }); site != "" {
						c.emit(panicEvent("clip.Bound", site, e))
						continue
					}
					g, _ := encGeom(r, f)
					e["out"], e["shape"] = g["c"], "bound"
				} else {
					e["fn"] = "GeometryBound"
					if c.rng.Intn(5) == 0 { // an empty (inverted) bound as the geometry: nothing to keep, the generic clip returns nil
						if c.rng.Intn(2) == 0 {
							o[0], o[2] = o[2]+60, o[0]
						} else {
							o[1], o[3] = o[3]+60, o[1]
						}
						ob = toBound(o, S)
						e["b"] = o
					}
					var r orb.Geometry
					if site := guard(func() { r = clip.Geometry(b, ob) }); site != "" {
						c.emit(panicEvent("clip.Geometry", site, e))
						continue
					}
					if r == nil {
						e["out"], e["shape"] = [4]int{}, "nil"
					} else {
						g, _ := encGeom(r, f)
						e["out"], e["shape"] = g["c"], "bound"
						if g["t"] != "Bound" {
							e["shape"] = "other"
						}
					}
				}
				e["nt"] = 1
				c.emit(e)
			default: // collections / layers
				var members orb.Collection
				k := c.rng.Intn(5)
				for j := 0; j < k; j++ {
					switch c.rng.Intn(6) {
					case 0:
						p := half()
						members = append(members, orb.Point{float64(p[0]) / S, float64(p[1]) / S})
					case 1:
						members = append(members, orb.MultiPoint(ringOf([][2]int{half(), half()}, S)))
					case 2:
						members = append(members, orb.LineString(ringOf(rring(5), S)))
					case 3:
						members = append(members, ringOf(star(), S))
					case 4:
						members = append(members, orb.Polygon{ringOf(star(), S)})
					default:
						members = append(members, orb.Collection{orb.Polygon{ringOf(rring(6), S)}, orb.Point{180 / S, 180 / S}})
					}
				}
				e := map[string]interface{}{"k": "clipcoll"}
				var each []interface{}
				okAll := true
				var out orb.Geometry
				fn := []string{"Collection", "GeometryCollection", "LayerClip"}[c.rng.Intn(3)]
				e["fn"] = fn
				in, _ := encGeom(members, f)
				e["in"] = in
				setCurrent("clip."+fn, e)
				site := guard(func() {
					for _, m := range members {
						g, ok := encGeom(clip.Geometry(b, orb.Clone(m)), f)
						okAll = okAll && ok
						each = append(each, g)
					}
					switch fn {
					case "Collection":
						r := clip.Collection(b, members.Clone())
						if r == nil {
							r = orb.Collection{}
						}
						out = r
					case "GeometryCollection":
						out = clip.Geometry(b, members.Clone())
					default:
						layer := &mvt.Layer{Name: "l", Version: 2, Extent: []uint32{4096, 512, 8192, 2048}[c.rng.Intn(4)]} // (the box is in the layer's own units whatever the extent)
						for _, m := range members {
							layer.Features = append(layer.Features, geojson.NewFeature(orb.Clone(m)))
						}
						layer.Clip(b)
						r := orb.Collection{}
						for _, ft := range layer.Features {
							r = append(r, ft.Geometry)
						}
						out = r
					}
				})
				if site != "" {
					c.emit(panicEvent("clip."+fn, site, e))
					continue
				}
				g, ok := encGeom(out, f)
				if !ok || !okAll {
					c.emit(map[string]interface{}{"k": "offlattice", "fn": "clip." + fn, "in": e})
					continue
				}
				if each == nil {
					each = []interface{}{}
				}
				e["each"], e["out"] = each, g
				if len(members) > 1 {
					e["nt"] = 1
				}
				c.emit(e)
			}
		}
	})
}
