package main

import (
	"encoding/hex"
	"math"
	"sort"

	"github.com/paulmach/orb"
	"github.com/paulmach/orb/encoding/ewkb"
	"github.com/paulmach/orb/encoding/mvt"
	"github.com/paulmach/orb/encoding/wkb"
	"github.com/paulmach/orb/geo"
	"github.com/paulmach/orb/geojson"
	"github.com/paulmach/orb/maptile"
	"github.com/paulmach/orb/planar"
	"github.com/paulmach/orb/project"
	"go.mongodb.org/mongo-driver/bson"
)

// Extended coverage X07: small total functions. See spec/Misc.tla, spec/Misc_Trace.tla.

func b2i(b bool) int {
	if b {
		return 1
	}
	return 0
}

// x07Must calls one Must* accessor and classifies what happened.
func x07Must(fn string, p geojson.Properties, hasdef bool, stored interface{}) (outcome string, same int) {
	defer func() {
		if r := recover(); r != nil {
			outcome, same = "panic", 0
		}
	}()
	switch fn {
	case "MustBool":
		var v bool
		if hasdef {
			v = p.MustBool("k", true)
		} else {
			v = p.MustBool("k")
		}
		if s, ok := stored.(bool); ok {
			return "value", b2i(v == s)
		}
		return "default", b2i(v == true)
	case "MustInt":
		var v int
		if hasdef {
			v = p.MustInt("k", -77)
		} else {
			v = p.MustInt("k")
		}
		switch s := stored.(type) {
		case int:
			return "value", b2i(v == s)
		case float64:
			return "value", b2i(v == int(s))
		}
		return "default", b2i(v == -77)
	case "MustFloat64":
		var v float64
		if hasdef {
			v = p.MustFloat64("k", -7.5)
		} else {
			v = p.MustFloat64("k")
		}
		switch s := stored.(type) {
		case int:
			return "value", b2i(v == float64(s))
		case float64:
			return "value", b2i(v == s)
		}
		return "default", b2i(v == -7.5)
	default:
		var v string
		if hasdef {
			v = p.MustString("k", "dflt")
		} else {
			v = p.MustString("k")
		}
		if s, ok := stored.(string); ok {
			return "value", b2i(v == s)
		}
		return "default", b2i(v == "dflt")
	}
}

func init() {
	register("misc", func(c *ctx) {
		// (1) Properties.Must*: every accessor x kind of stored value x default supplied or not
		kinds := []struct {
			name string
			v    interface{}
			set  bool
		}{{"absent", nil, false}, {"nil", nil, true}, {"bool", false, true}, {"bool", true, true}, {"int", 42, true}, {"int", 0, true},
			{"float", 2.75, true}, {"float", -3.0, true}, {"string", "s", true}, {"string", "", true}, {"other", []int{1}, true}, {"other", int64(5), true}}
		for _, fn := range []string{"MustBool", "MustInt", "MustFloat64", "MustString"} {
			for _, k := range kinds {
				for _, hasdef := range []bool{false, true} {
					p := geojson.Properties{"other": 1}
					if k.set {
						p["k"] = k.v
					}
					outcome, same := x07Must(fn, p, hasdef, k.v)
					c.emit(map[string]interface{}{"k": "props", "fn": fn, "kind": k.name, "hasdef": b2i(hasdef), "outcome": outcome, "same": same, "nt": 1})
				}
			}
		}
		// (2) bbox
		for i := 0; i < c.pick(400, 4000); i++ {
			n := c.rng.Intn(9)
			bb := make([]int, n)
			var gb geojson.BBox
			isnil := c.rng.Intn(8) == 0
			if !isnil {
				gb = geojson.BBox{}
				for j := range bb {
					bb[j] = c.rng.Intn(41) - 20
					gb = append(gb, float64(bb[j]))
				}
			} else {
				bb = []int{}
			}
			b := [4]int{c.rng.Intn(21) - 10, c.rng.Intn(21) - 10, c.rng.Intn(21) - 10, c.rng.Intn(21) - 10}
			e := map[string]interface{}{"k": "bbox", "bb": bb, "isnil": b2i(isnil), "b": b, "nt": 1}
			site := guard(func() {
				e["valid"] = b2i(gb.Valid())
				bd := gb.Bound()
				e["bound"] = [4]int{int(bd.Min[0]), int(bd.Min[1]), int(bd.Max[0]), int(bd.Max[1])}
				nb := geojson.NewBBox(orb.Bound{Min: orb.Point{float64(b[0]), float64(b[1])}, Max: orb.Point{float64(b[2]), float64(b[3])}})
				fb := []int{}
				for _, v := range nb {
					fb = append(fb, int(v))
				}
				e["frombound"] = fb
			})
			if site != "" {
				c.emit(panicEvent("geojson.BBox", site, e))
				continue
			}
			c.emit(e)
		}
		// (3) mvt.NewLayers / ToFeatureCollections
		for i := 0; i < c.pick(300, 3000); i++ {
			in := map[string]*geojson.FeatureCollection{}
			innames := []string{}
			for _, name := range []string{"roads", "water", "", "poi", "b"}[:c.rng.Intn(6)] {
				fc := geojson.NewFeatureCollection()
				for j := 0; j < c.rng.Intn(4); j++ {
					fc.Append(geojson.NewFeature(orb.Point{float64(j), 1}))
				}
				in[name] = fc
				innames = append(innames, name)
			}
			e := map[string]interface{}{"k": "layers", "innames": innames, "nt": 1}
			site := guard(func() {
				ls := mvt.NewLayers(in)
				names := []string{}
				defaults, samef := 1, 1
				for _, l := range ls {
					names = append(names, l.Name)
					if l.Version != 1 || l.Extent != mvt.DefaultExtent {
						defaults = 0
					}
					fc := in[l.Name]
					if fc == nil || len(fc.Features) != len(l.Features) {
						samef = 0
						continue
					}
					for j := range fc.Features {
						if fc.Features[j] != l.Features[j] {
							samef = 0
						}
					}
				}
				sort.Strings(names)
				back := ls.ToFeatureCollections()
				ok := len(back) == len(in)
				for name, fc := range in {
					b := back[name]
					if b == nil || len(b.Features) != len(fc.Features) {
						ok = false
						continue
					}
					for j := range fc.Features {
						if b.Features[j] != fc.Features[j] {
							ok = false
						}
					}
				}
				e["names"], e["defaults"], e["samefeatures"], e["back"] = names, defaults, samef, b2i(ok)
			})
			if site != "" {
				c.emit(panicEvent("mvt.NewLayers", site, e))
				continue
			}
			sort.Strings(innames)
			e["innames"] = innames
			c.emit(e)
		}
		// (4) tiles -> feature collection: one polygon per tile, the tile's bound as a closed counter-clockwise ring
		for i := 0; i < c.pick(300, 3000); i++ {
			z := maptile.Zoom(c.rng.Intn(6))
			set := maptile.Set{}
			var tiles maptile.Tiles
			rows := [][3]int{}
			for j := 0; j < c.rng.Intn(6); j++ {
				t := maptile.New(uint32(c.rng.Intn(1<<z)), uint32(c.rng.Intn(1<<z)), z)
				if set[t] {
					continue
				}
				set[t] = true
				tiles = append(tiles, t)
				rows = append(rows, [3]int{int(t.X), int(t.Y), int(t.Z)})
			}
			for which := 0; which < 2; which++ {
				e := map[string]interface{}{"k": "tilefc", "tiles": rows, "which": which, "nt": 1}
				site := guard(func() {
					var fc *geojson.FeatureCollection
					if which == 0 {
						fc = set.ToFeatureCollection()
					} else {
						fc = tiles.ToFeatureCollection()
					}
					in := newBitIntern()
					enc := func(b orb.Bound) [4]int {
						return [4]int{in.id(b.Min[0]), in.id(b.Min[1]), in.id(b.Max[0]), in.id(b.Max[1])}
					}
					bounds, want := [][4]int{}, [][4]int{}
					polys := 1
					for _, f := range fc.Features {
						p, ok := f.Geometry.(orb.Polygon)
						if !ok || len(p) != 1 || !p[0].Closed() || p[0].Orientation() != orb.CCW {
							polys = 0
							continue
						}
						bounds = append(bounds, enc(p.Bound()))
					}
					for _, t := range tiles {
						want = append(want, enc(t.Bound()))
					}
					e["bounds"], e["want"], e["polys"] = bounds, want, polys
				})
				if site != "" {
					c.emit(panicEvent("ToFeatureCollection", site, e))
					continue
				}
				c.emit(e)
			}
		}
		// (5) hex / Must variants of the WKB encoders
		for i := 0; i < c.pick(400, 4000); i++ {
			g := randGeom(c, 2, 4, func() float64 { return randFloat(c) })
			srid := c.rng.Intn(2) * 4326
			e := map[string]interface{}{"k": "hex", "nt": 1}
			site := guard(func() {
				if i%2 == 0 {
					b, _ := wkb.Marshal(g)
					h, _ := wkb.MarshalToHex(g)
					e["hex"] = b2i(h == hex.EncodeToString(b))
					e["must"] = b2i(string(wkb.MustMarshal(g)) == string(b))
					e["musthex"] = b2i(wkb.MustMarshalToHex(g) == h)
				} else {
					b, _ := ewkb.Marshal(g, srid)
					h, _ := ewkb.MarshalToHex(g, srid)
					e["hex"] = b2i(h == hex.EncodeToString(b))
					e["must"] = b2i(string(ewkb.MustMarshal(g, srid)) == string(b))
					e["musthex"] = b2i(ewkb.MustMarshalToHex(g, srid) == h)
				}
			})
			if site != "" {
				c.emit(panicEvent("wkb hex", site, nil))
				continue
			}
			c.emit(e)
		}
		// (6) Ring.Closed
		for i := 0; i < c.pick(300, 3000); i++ {
			n := c.rng.Intn(7)
			r := orb.Ring{}
			rows := [][2]int{}
			for j := 0; j < n; j++ {
				p := [2]int{c.rng.Intn(3), c.rng.Intn(3)}
				if j > 0 && j == n-1 && c.rng.Intn(2) == 0 {
					p = rows[0]
				}
				rows = append(rows, p)
				r = append(r, orb.Point{float64(p[0]), float64(p[1])})
			}
			c.emit(map[string]interface{}{"k": "ringclosed", "r": rows, "closed": b2i(r.Closed()), "nt": 1})
		}
		// (6b) geojson helper types (Point .. MultiPolygon): same documents as Geometry, JSON and BSON, and back
		for i := 0; i < c.pick(300, 3000); i++ {
			pts := func(n int) []orb.Point {
				out := make([]orb.Point, n)
				for j := range out {
					out[j] = orb.Point{float64(c.rng.Intn(9)), float64(c.rng.Intn(9))}
				}
				return out
			}
			var g orb.Geometry
			e := map[string]interface{}{"k": "helpers", "json": 0, "bson": 0, "back": 0, "backb": 0, "lonlat": 0, "nt": 1}
			site := guard(func() {
				var jb, bb []byte
				var backJ, backB orb.Geometry
				switch i % 6 {
				case 0:
					v := geojson.Point(pts(1)[0])
					g = orb.Point(v)
					jb, _ = v.MarshalJSON()
					bb, _ = v.MarshalBSON()
					var a, b geojson.Point
					if a.UnmarshalJSON(jb) == nil && b.UnmarshalBSON(bb) == nil {
						backJ, backB = a.Geometry(), b.Geometry()
					}
				case 1:
					v := geojson.MultiPoint(pts(1 + c.rng.Intn(3)))
					g = orb.MultiPoint(v)
					jb, _ = v.MarshalJSON()
					bb, _ = v.MarshalBSON()
					var a, b geojson.MultiPoint
					if a.UnmarshalJSON(jb) == nil && b.UnmarshalBSON(bb) == nil {
						backJ, backB = a.Geometry(), b.Geometry()
					}
				case 2:
					v := geojson.LineString(pts(2 + c.rng.Intn(3)))
					g = orb.LineString(v)
					jb, _ = v.MarshalJSON()
					bb, _ = v.MarshalBSON()
					var a, b geojson.LineString
					if a.UnmarshalJSON(jb) == nil && b.UnmarshalBSON(bb) == nil {
						backJ, backB = a.Geometry(), b.Geometry()
					}
				case 3:
					v := geojson.MultiLineString{orb.LineString(pts(2)), orb.LineString(pts(3))}
					g = orb.MultiLineString(v)
					jb, _ = v.MarshalJSON()
					bb, _ = v.MarshalBSON()
					var a, b geojson.MultiLineString
					if a.UnmarshalJSON(jb) == nil && b.UnmarshalBSON(bb) == nil {
						backJ, backB = a.Geometry(), b.Geometry()
					}
				case 4:
					v := geojson.Polygon{orb.Ring(pts(4)), orb.Ring(pts(4))}
					g = orb.Polygon(v)
					jb, _ = v.MarshalJSON()
					bb, _ = v.MarshalBSON()
					var a, b geojson.Polygon
					if a.UnmarshalJSON(jb) == nil && b.UnmarshalBSON(bb) == nil {
						backJ, backB = a.Geometry(), b.Geometry()
					}
				default:
					v := geojson.MultiPolygon{{orb.Ring(pts(4))}, {orb.Ring(pts(5)), orb.Ring(pts(4))}}
					g = orb.MultiPolygon(v)
					jb, _ = v.MarshalJSON()
					bb, _ = v.MarshalBSON()
					var a, b geojson.MultiPolygon
					if a.UnmarshalJSON(jb) == nil && b.UnmarshalBSON(bb) == nil {
						backJ, backB = a.Geometry(), b.Geometry()
					}
				}
				wj, _ := geojson.NewGeometry(g).MarshalJSON()
				wb, _ := bson.Marshal(geojson.NewGeometry(g))
				e["json"], e["bson"] = b2i(string(jb) == string(wj)), b2i(string(bb) == string(wb))
				e["back"], e["backb"] = b2i(backJ != nil && orb.Equal(backJ, g)), b2i(backB != nil && orb.Equal(backB, g))
				q := pts(1)[0]
				e["lonlat"] = b2i(q.Lon() == q[0] && q.Lat() == q[1] && q.X() == q[0] && q.Y() == q[1] && q.Point() == q)
			})
			if site != "" {
				c.emit(panicEvent("geojson helper types", site, nil))
				continue
			}
			c.emit(e)
		}
		// (7) numeric relations, as residuals in units of 1e-12 (relative) / 1e-9 degree / millimetres
		rel := func(a, b float64) int {
			if a == b {
				return 0
			}
			return int(math.Round((a - b) / math.Max(math.Abs(b), 1e-300) * 1e12))
		}
		for i := 0; i < c.pick(1000, 20000); i++ {
			a := orb.Point{c.rng.Float64()*200 - 100, c.rng.Float64()*200 - 100}
			b := orb.Point{c.rng.Float64()*200 - 100, c.rng.Float64()*200 - 100}
			p := orb.Point{c.rng.Float64()*200 - 100, c.rng.Float64()*200 - 100}
			lat := c.rng.Float64()*170 - 85
			var res []int
			site := guard(func() {
				d := planar.Distance(a, b)
				res = append(res, rel(planar.DistanceSquared(a, b), d*d))
				s := planar.DistanceFromSegment(a, b, p)
				res = append(res, rel(s*s, planar.DistanceFromSegmentSquared(a, b, p)))
				res = append(res, rel(project.MercatorScaleFactor(orb.Point{a[0], lat})*math.Cos(lat/180*math.Pi), 1))
			})
			if site != "" {
				c.emit(panicEvent("planar/project numeric", site, nil))
				continue
			}
			c.emit(map[string]interface{}{"k": "num", "what": "planar", "res": res, "tol": 10000, "nt": 1}) // 1e-8 relative
		}
		for i := 0; i < c.pick(1000, 20000); i++ {
			from := orb.Point{c.rng.Float64()*340 - 170, c.rng.Float64()*150 - 75}
			bearing := c.rng.Float64()*360 - 180
			dist := 1000 + c.rng.Float64()*200000
			var res []int
			site := guard(func() {
				to := geo.PointAtBearingAndDistance(from, bearing, dist)
				// the bearing measured at the start points to where the trip went (nano-degrees, modulo 360)
				db := math.Mod(geo.Bearing(from, to)-bearing+540, 360) - 180
				res = append(res, int(math.Round(db*1e6))) // micro-degrees
				// a point along a line of two to five legs: at the asked distance along the line (millimetres) - on whichever leg
				// that falls, measured as the legs before it plus the way along it
				mid := geo.PointAtBearingAndDistance(to, bearing+40, dist/2)
				ls := orb.LineString{from, to, mid}
				for j := c.rng.Intn(4); j > 0; j-- {
					ls = append(ls, geo.PointAtBearingAndDistance(ls[len(ls)-1], bearing+float64(c.rng.Intn(160)-80), dist*(0.1+c.rng.Float64())))
				}
				total := geo.LengthHaversine(ls)
				want := total * 1.15 * c.rng.Float64()
				q, _ := geo.PointAtDistanceAlongLine(ls, want)
				if want >= total {
					res = append(res, int(math.Round(geo.DistanceHaversine(q, ls[len(ls)-1])*1000))) // must be the last point
				} else {
					before := 0.0
					for j := 0; j+1 < len(ls); j++ {
						leg := geo.DistanceHaversine(ls[j], ls[j+1])
						if want < before+leg {
							res = append(res, int(math.Round((before+geo.DistanceHaversine(ls[j], q)-want)*1000)))
							// and on that leg: no farther from its ends than the leg is long
							res = append(res, 1000*(1-b2i(geo.DistanceHaversine(ls[j], q) <= leg+0.01 && geo.DistanceHaversine(q, ls[j+1]) <= leg+0.01)))
							break
						}
						before += leg
					}
				}
				// the misspelled alias agrees with LengthHaversine
				res = append(res, int(math.Round((geo.LengthHaversign(ls)-total)*1000)))
				// a bound around a point contains the points at that distance to the north, south, east and west
				bd := geo.NewBoundAroundPoint(from, dist)
				worst := 0.0
				for _, br := range []float64{0, 90, 180, 270} {
					x := geo.PointAtBearingAndDistance(from, br, dist*0.999)
					if !bd.Contains(x) {
						worst = 1e6
					}
				}
				res = append(res, int(worst))
				// height of that bound: twice the distance (BoundHeight uses 111131.75 m per degree: 0.2 %)
				res = append(res, int(math.Round((geo.BoundHeight(bd)/(2*dist)-1)*1e4))) // units of 1e-4
				// width at the centre latitude: the haversine distance between the side mid-points
				cy := (bd.Min[1] + bd.Max[1]) / 2
				res = append(res, int(math.Round((geo.BoundWidth(bd)-geo.Distance(orb.Point{bd.Min[0], cy}, orb.Point{bd.Max[0], cy}))*1000)))
				// padding grows the box on every side
				pd := geo.BoundPad(bd, 500)
				res = append(res, 1000*(1-b2i(pd.Min[0] <= bd.Min[0] && pd.Min[1] < bd.Min[1] && pd.Max[0] >= bd.Max[0] && pd.Max[1] > bd.Max[1])))
			})
			if site != "" {
				c.emit(panicEvent("geo extras", site, nil))
				continue
			}
			c.emit(map[string]interface{}{"k": "num", "what": "geo", "res": res, "tol": 50, "nt": 1})
		}
	})
}
