package main

import (
	"math"

	"github.com/paulmach/orb"
	"github.com/paulmach/orb/maptile"
)

// C13: maptile arithmetic. See spec/Tile_Trace.tla.

func t3(t maptile.Tile) [3]int { return [3]int{int(t.X), int(t.Y), int(t.Z)} }

func tilesEnc(ts maptile.Tiles) [][3]int {
	out := make([][3]int, 0, len(ts))
	for _, t := range ts {
		out = append(out, t3(t))
	}
	return out
}

func c13Tile(c *ctx, t maptile.Tile) {
	e := map[string]interface{}{"k": "tile", "t": t3(t), "nt": 1}
	setCurrent("maptile.Tile", e)
	site := guard(func() {
		e["valid"] = t.Valid()
		k := t.Quadkey()
		digits := make([]int, int(t.Z))
		for i := 0; i < int(t.Z); i++ { // most significant digit first
			digits[int(t.Z)-1-i] = int((k >> (2 * uint(i))) & 3)
		}
		e["qk"] = digits
		e["fromqk"] = t3(maptile.FromQuadkey(k, t.Z))
		e["parent"] = t3(t.Parent())
		e["children"] = tilesEnc(t.Children())
		e["cvalid"] = 1 // the children (one zoom deeper: zoom 31 for a zoom-30 tile) and the parent are valid tiles themselves
		for _, ch := range t.Children() {
			if !ch.Valid() || ch.Parent() != t {
				e["cvalid"] = 0
			}
		}
		if t.Z > 0 && !t.Parent().Valid() {
			e["cvalid"] = 0
		}
		e["siblings"] = tilesEnc(t.Siblings())
		ranges := []interface{}{}
		for _, z := range []int{0, int(t.Z) - 1, int(t.Z), int(t.Z) + 1, int(t.Z) + 3, 30} {
			if z < 0 || z > 30 {
				continue
			}
			mn, mx := t.Range(maptile.Zoom(z))
			ranges = append(ranges, map[string]interface{}{"z": z, "min": t3(mn), "max": t3(mx)})
		}
		e["ranges"] = ranges
		czr := []interface{}{}
		for _, zz := range [][2]int{{0, 0}, {0, 1}, {1, 2}, {0, 2}, {2, 2}} {
			z1, z2 := int(t.Z)+zz[0], int(t.Z)+zz[1]
			if z2 > 30 {
				continue
			}
			ts := maptile.ChildrenInZoomRange(t, maptile.Zoom(z1), maptile.Zoom(z2))
			row := map[string]interface{}{"z1": z1, "z2": z2, "n": len(ts), "full": 1, "tiles": tilesEnc(ts)}
			czr = append(czr, row)
		}
		e["czr"] = czr
	})
	if site != "" {
		c.emit(panicEvent("maptile.Tile", site, t3(t)))
		return
	}
	c.emit(e)
}

func c13Pair(c *ctx, a, b maptile.Tile) {
	e := map[string]interface{}{"k": "pair", "a": t3(a), "b": t3(b), "nt": 1}
	setCurrent("maptile.pair", e)
	site := guard(func() {
		e["cab"], e["cba"] = a.Contains(b), b.Contains(a)
		e["sab"], e["sba"] = t3(a.SharedParent(b)), t3(b.SharedParent(a))
	})
	if site != "" {
		c.emit(panicEvent("maptile.pair", site, e))
		return
	}
	c.emit(e)
}

func c13At(c *ctx, p orb.Point, z maptile.Zoom) {
	e := map[string]interface{}{"k": "at", "z": int(z), "nt": 1}
	setCurrent("maptile.At", []float64{p[0], p[1], float64(z)})
	site := guard(func() {
		t := maptile.At(p, z)
		b := t.Bound()
		e["t"] = t3(t)
		e["rk"] = ranks([]float64{p[0], p[1], b.Min[0], b.Min[1], b.Max[0], b.Max[1]})
		e["inrange"], e["north"] = 1, 0
		if math.Abs(p[1]) > 85.0511 {
			e["inrange"] = 0
			if p[1] > 0 {
				e["north"] = 1
			}
		}
	})
	if site != "" {
		c.emit(panicEvent("maptile.At", site, []float64{p[0], p[1], float64(z)}))
		return
	}
	c.emit(e)
}

func c13Edges(c *ctx, t maptile.Tile) {
	in := newBitIntern()
	edges := func(t maptile.Tile) [4]int {
		b := t.Bound()
		return [4]int{in.id(b.Min[0]), in.id(b.Min[1]), in.id(b.Max[0]), in.id(b.Max[1])}
	}
	e := map[string]interface{}{"k": "edges", "tile": t3(t), "nt": 1, "haseast": 0, "hassouth": 0, "east": [4]int{}, "south": [4]int{}}
	setCurrent("maptile.Bound", t3(t))
	site := guard(func() {
		// history: bounds with a tile buffer were asked for first (of this tile and of one in another row) - what Bound()
		// returns afterwards must not depend on that. For an interior tile a buffer of one tile reaches exactly to the
		// far edges of its four neighbours.
		e["buf1"] = 1
		if mx := uint32(1) << uint32(t.Z); t.Z >= 2 && t.X >= 1 && t.Y >= 1 && t.X < mx-1 && t.Y < mx-1 {
			maptile.New(t.X, t.Y-1, t.Z).Bound(0.5)
			b1 := t.Bound(1)
			w, ea := maptile.New(t.X-1, t.Y, t.Z).Bound(), maptile.New(t.X+1, t.Y, t.Z).Bound()
			no, so := maptile.New(t.X, t.Y-1, t.Z).Bound(), maptile.New(t.X, t.Y+1, t.Z).Bound()
			if b1.Min[0] != w.Min[0] || b1.Max[0] != ea.Max[0] || b1.Max[1] != no.Max[1] || b1.Min[1] != so.Min[1] {
				e["buf1"] = 0
			}
		} else {
			t.Bound(0.75)
		}
		e["t"] = edges(t)
		max := uint32(1) << uint32(t.Z)
		if t.X+1 < max {
			e["haseast"], e["east"] = 1, edges(maptile.New(t.X+1, t.Y, t.Z))
		}
		if t.Y+1 < max {
			e["hassouth"], e["south"] = 1, edges(maptile.New(t.X, t.Y+1, t.Z))
		}
		kids := [][4]int{}
		for _, k := range t.Children() {
			kids = append(kids, edges(k))
		}
		e["kids"] = kids
		at := maptile.At(t.Center(), t.Z)
		c.emit(map[string]interface{}{"k": "center", "t": t3(t), "at": t3(at), "nt": 1})
	})
	if site != "" {
		c.emit(panicEvent("maptile.Bound", site, t3(t)))
		return
	}
	c.emit(e)
}

func init() {
	register("tile", func(c *ctx) {
		// (1) exhaustive: every tile to zoom ZT, every pair to zoom ZP
		zt, zp := c.pick(5, 8), c.pick(3, 4)
		var small []maptile.Tile
		for z := 0; z <= zt; z++ {
			n := uint32(1) << uint(z)
			for x := uint32(0); x < n; x++ {
				for y := uint32(0); y < n; y++ {
					t := maptile.New(x, y, maptile.Zoom(z))
					c13Tile(c, t)
					c13Edges(c, t)
					if z <= zp {
						small = append(small, t)
					}
				}
			}
		}
		for _, a := range small {
			for _, b := range small {
				c13Pair(c, a, b)
			}
		}
		// (2) seeded tiles to zoom 30 with adversarial bit patterns
		rt := func() maptile.Tile {
			z := c.rng.Intn(31)
			mask := uint32(1)<<uint(z) - 1
			var x, y uint32
			switch c.rng.Intn(4) {
			case 0:
				x, y = c.rng.Uint32(), c.rng.Uint32()
			case 1: // high bits set
				x, y = mask, mask^uint32(c.rng.Intn(4))
			case 2: // one bit each at different levels
				x, y = 1<<uint(c.rng.Intn(z+1)), 1<<uint(c.rng.Intn(z+1))
			default:
				x, y = c.rng.Uint32()&0xffff0000, c.rng.Uint32()&0x0000ffff
			}
			return maptile.New(x&mask, y&mask, maptile.Zoom(z))
		}
		n := c.pick(3000, 60000)
		for i := 0; i < n; i++ {
			a := rt()
			c13Tile(c, a)
			if a.Z <= 29 {
				c13Edges(c, a)
			}
			// related pairs: descendants / cousins that differ only in x or only in y at some level
			b := rt()
			switch c.rng.Intn(4) {
			case 0:
				d := maptile.Zoom(c.rng.Intn(int(30-a.Z) + 1))
				b = maptile.New(a.X<<d|uint32(c.rng.Intn(1<<uint(d%20))), a.Y<<d, a.Z+d)
			case 1:
				b = maptile.New(a.X^(1<<uint(c.rng.Intn(int(a.Z)+1))), a.Y, a.Z)
				b.X &= uint32(1)<<uint(a.Z) - 1
			case 2:
				b = maptile.New(a.X, a.Y^(1<<uint(c.rng.Intn(int(a.Z)+1))), a.Z)
				b.Y &= uint32(1)<<uint(a.Z) - 1
			}
			c13Pair(c, a, b)
		}
		// (3) points: grid incl. the antimeridian, the poles, the clamp latitudes and exact tile edges
		// (incl. the floating-point neighbours of the limits of the domain: the last longitude below 180, the first above
		// -180. Neighbours of interior tile edges are left out: one ulp next to an edge the projection cannot tell the
		// two sides apart, whichever way it is written)
		lons := []float64{-180, math.Nextafter(-180, 0), -179.999999, -90, -45, -0.0000001, 0, 0.0000001, 45, 90, 135, 179.999999, math.Nextafter(180, 0), 180}
		lats := []float64{-90, math.Nextafter(-90, 0), -89, -85.06, -85.0511, -85.05, -66.51326044311186, -45, 0, 1e-9, 45, 66.51326044311186,
			85.05, 85.0511, 85.06, 89, math.Nextafter(90, 0), 90}
		for _, lon := range lons {
			for _, lat := range lats {
				for _, z := range []int{0, 1, 2, 3, 7, 15, 22, 30} {
					c13At(c, orb.Point{lon, lat}, maptile.Zoom(z))
				}
			}
		}
		np := c.pick(4000, 100000)
		for i := 0; i < np; i++ {
			z := maptile.Zoom(c.rng.Intn(31))
			p := orb.Point{c.rng.Float64()*360 - 180, c.rng.Float64()*180 - 90}
			if i%3 == 0 { // the corners of a tile bound fed back as points
				t := rt()
				b := t.Bound()
				p = []orb.Point{b.Min, b.Max, b.LeftTop(), b.RightBottom()}[c.rng.Intn(4)]
				z = t.Z
			}
			c13At(c, p, z)
		}
	})
}
