package main

import (
	"encoding/json"
	"math"
	"sort"
	"sync/atomic"

	"github.com/paulmach/orb"
	"github.com/paulmach/orb/quadtree"
)

// C11: quadtree histories. Event per operation: see spec/QuadtreeList_Trace.tla.

type qtPtr struct {
	id int
	p  orb.Point
	l  [2]int // the point in model coordinates (see qtMap)
}

// qtMap relates model coordinates (integers) to the float64 coordinates given to the real tree.
//
//	plain:  real = int
//	scaled: real = int / div (div a power of two: exact), distance limits likewise - a unit-square tree
//	ranked: real = pool[int], an arbitrary increasing table of floats (non-dyadic bounds, cell midlines, values
//	        one ulp apart): only order-based operations are judged (add, remove, bound search)
type qtMap struct {
	div    float64
	ranked bool
	pool   []float64
	lo, hi int
}

func (m *qtMap) real(v int) float64 {
	if m == nil {
		return float64(v)
	}
	if m.ranked {
		return m.pool[v]
	}
	return float64(v) / m.div
}
func (m *qtMap) dist(v int) float64 {
	if m == nil {
		return float64(v)
	}
	return float64(v) / m.div
}
func (m *qtMap) pt(p [2]int) orb.Point { return orb.Point{m.real(p[0]), m.real(p[1])} }

// cell converts a cell edge to model units of 1/1024 (exact for plain and scaled maps)
func (m *qtMap) cell(v float64) int {
	if m == nil {
		return int(v * 1024)
	}
	if m.ranked {
		return 0
	}
	return int(v * m.div * 1024)
}

func (p *qtPtr) Point() orb.Point {
	if atomic.LoadInt32(&qtPointArmed) != 0 { // C19 paused-query scenarios: see c19_gate.go
		qtGatePoint()
	}
	return p.p
}

var qtPointArmed int32

type qtEv struct {
	K     string   `json:"k"`
	Op    string   `json:"op"`
	Bnd   [4]int   `json:"bnd"`
	Pt    [2]int   `json:"pt"`
	ID    int      `json:"id"`
	Res   string   `json:"res"`
	Exp   string   `json:"exp"`
	Items [][3]int `json:"items"`
	Nodes [][7]int `json:"nodes"`
	Finds [][]int  `json:"finds"`
	KNN   [][]int  `json:"knn"`
	Inb   [][]int  `json:"inb"`
	NT    int      `json:"nt"`
	Rk    int      `json:"ranked"`
	Tree  [][2]int `json:"tree"`  // the real node tree: rows {path code, pointer id (0 = emptied node)}
	XTree [][2]int `json:"xtree"` // the node tree the implementation-shaped spec predicts (replayed histories)
	HasX  int      `json:"hasx"`
}

type qtQueries struct {
	pts     [][2]int
	ks      []int
	mds     []int
	rev     bool // the filters in reverse order
	boxes   [][4]int
	filters [][2]int
	noQuery bool
	m       *qtMap
	// region, when set, is this caller's part of an array of result slots shared by all callers: k-nearest results
	// are asked into successive 16-slot windows of it (length 0, capacity reaching to the end of the shared array - the
	// slots behind a window belong to somebody else)
	region    []orb.Pointer
	regionPos int
}

func accept(f [2]int) quadtree.FilterFunc {
	if f[0] == 1 {
		return nil // the unfiltered entry points
	}
	return func(p orb.Pointer) bool { return p.(*qtPtr).id%f[0] == f[1] }
}

// qtObserve fills the contents, node walk and query rows of an event from the real tree.
func qtObserve(q *quadtree.Quadtree, e *qtEv, qs *qtQueries, bufs bool) {
	e.Items, e.Nodes, e.Finds, e.KNN, e.Inb = [][3]int{}, [][7]int{}, [][]int{}, [][]int{}, [][]int{}
	e.Tree = [][2]int{}
	if e.XTree == nil {
		e.XTree = [][2]int{}
	}
	if qs.noQuery {
		// contents from the node walk only: no query touches the tree (C19 compares the walk before/after)
		q.VerifWalk(func(path []int, v orb.Pointer, cell orb.Bound) {
			if v != nil {
				vp := v.(*qtPtr)
				e.Items = append(e.Items, [3]int{vp.id, vp.l[0], vp.l[1]})
			}
		})
	} else {
		all := q.InBound(nil, orb.Bound{Min: orb.Point{-1e9, -1e9}, Max: orb.Point{1e9, 1e9}})
		for _, x := range all {
			if xp, ok := x.(*qtPtr); ok && xp != nil {
				e.Items = append(e.Items, [3]int{xp.id, xp.l[0], xp.l[1]})
			} else {
				e.Items = append(e.Items, [3]int{-1, 0, 0}) // a nil in the result: no model has such an item
			}
		}
		for i := range all { // the result is ours: wiping it must not matter to anybody
			all[i] = nil
		}
	}
	q.VerifWalk(func(path []int, v orb.Pointer, cell orb.Bound) {
		// cell edges in units of 1/1024 (exact: the generators keep the tree shallower than 10 halvings of
		// an integer-wide cell)
		m := qs.m
		row := [7]int{0, 0, 0, m.cell(cell.Min[0]), m.cell(cell.Max[0]), m.cell(cell.Min[1]), m.cell(cell.Max[1])}
		if v != nil {
			vp := v.(*qtPtr)
			row[0], row[1], row[2] = vp.id, vp.l[0], vp.l[1]
		}
		e.Nodes = append(e.Nodes, row)
		if len(path) <= 13 { // the path code fits a TLC integer
			code := 1
			for _, k := range path {
				code = 4*code + k
			}
			e.Tree = append(e.Tree, [2]int{code, row[0]})
		}
	})
	// distance limits are handed over as slices that live for the whole observation (limits...): a query must not
	// write to its caller's slice
	// md > 0: that distance; md = 0: no limit given; md = -1: a limit of exactly zero (negative limits are not a meaningful input: the code squares them)
	limVal := func(md int) float64 {
		switch md {
		case -1:
			return 0
		}
		return qs.m.dist(md)
	}
	lims := map[int][]float64{}
	lim := func(md int) []float64 {
		if l, ok := lims[md]; ok {
			return l
		}
		lims[md] = []float64{limVal(md)}
		return lims[md]
	}
	// a result belongs to the caller: it must still hold what it held when it was returned once all the other queries
	// of the observation have run (results do not live in memory that later queries reuse), and what the caller does
	// to it afterwards (here: wipes it) is nobody else's business
	type heldRes struct {
		res []orb.Pointer
		ids []int
	}
	var held []heldRes
	wipe := func(res []orb.Pointer) {
		ids := make([]int, len(res))
		for i, x := range res {
			ids[i] = qtID(x)
		}
		held = append(held, heldRes{res, ids})
	}
	defer func() {
		for _, h := range held {
			for i, x := range h.res {
				if qtID(x) != h.ids[i] {
					e.Inb = append(e.Inb, []int{0, 0, 0, 0, 1, 0, -3}) // an earlier result was overwritten: no model accepts this row
					break
				}
			}
		}
		for _, h := range held {
			for i := range h.res {
				h.res[i] = nil
			}
		}
	}()
	// (the filters in either order: whether the first search on a tree that has just changed is a filtered one or not
	// must not matter to the ones that follow)
	filters := qs.filters
	if qs.rev && len(filters) > 1 {
		filters = make([][2]int, len(qs.filters))
		for i := range qs.filters {
			filters[i] = qs.filters[len(qs.filters)-1-i]
		}
	}
	for _, f := range filters {
		ff := accept(f)
		for _, qp := range qs.pts {
			pt := qs.m.pt(qp)
			var fnd orb.Pointer
			if ff == nil {
				fnd = q.Find(pt)
			} else {
				fnd = q.Matching(pt, ff)
			}
			id := 0
			if fnd != nil {
				id = qtID(fnd)
			}
			e.Finds = append(e.Finds, []int{qp[0], qp[1], f[0], f[1], id})
			if ff != nil { // straight after a filtered search: the unfiltered nearest at the very same point (what one query
				// found must not colour the next)
				id2 := 0
				if again := q.Find(pt); again != nil {
					id2 = qtID(again)
				}
				e.Finds = append(e.Finds, []int{qp[0], qp[1], 1, 0, id2})
			}
			for _, k := range qs.ks {
				for _, md := range qs.mds {
					var buf []orb.Pointer
					if bufs { // caller-supplied result buffers of various capacities
						buf = make([]orb.Pointer, 0, ((k+md)%4+4)%4)
						if qs.region != nil && k <= 16 && qs.regionPos+16 <= len(qs.region) {
							buf = qs.region[qs.regionPos:qs.regionPos]
							qs.regionPos += 16
						}
					}
					var res []orb.Pointer
					switch {
					case ff == nil && md == 0:
						res = q.KNearest(buf, pt, k)
					case ff == nil:
						res = q.KNearest(buf, pt, k, lim(md)...)
					case md == 0:
						res = q.KNearestMatching(buf, pt, k, ff)
					default:
						res = q.KNearestMatching(buf, pt, k, ff, lim(md)...)
					}
					row := []int{qp[0], qp[1], k, md, f[0], f[1]}
					for _, x := range res {
						row = append(row, qtID(x))
					}
					if md != 0 && lim(md)[0] != limVal(md) {
						row = append(row, -2) // the caller's limit slice was written to
						lim(md)[0] = limVal(md)
					}
					wipe(res)
					e.KNN = append(e.KNN, row)
				}
			}
		}
		for _, b := range qs.boxes {
			bb := orb.Bound{Min: qs.m.pt([2]int{b[0], b[1]}), Max: qs.m.pt([2]int{b[2], b[3]})}
			var buf []orb.Pointer
			if bufs {
				buf = make([]orb.Pointer, 0, 2)
			}
			var res []orb.Pointer
			if ff == nil {
				res = q.InBound(buf, bb)
			} else {
				res = q.InBoundMatching(buf, bb, ff)
			}
			row := []int{b[0], b[1], b[2], b[3], f[0], f[1]}
			for _, x := range res {
				row = append(row, qtID(x))
			}
			wipe(res)
			e.Inb = append(e.Inb, row)
		}
	}
}

// qtID: the identity of a returned pointer; a nil in a result list is reported as -1 (no model accepts it)
func qtID(x orb.Pointer) int {
	if p, ok := x.(*qtPtr); ok && p != nil {
		return p.id
	}
	return -1
}

type qtOp struct {
	Op   string   `json:"op"`
	K    int      `json:"k"`
	ID   int      `json:"id"`
	Res  string   `json:"res"`
	Tree [][2]int `json:"tree"`
}

func sortRows2(r [][2]int) [][2]int {
	out := append([][2]int{}, r...)
	sort.Slice(out, func(i, j int) bool { return out[i][0] < out[j][0] })
	return out
}

// qtApply performs one operation on the real tree and returns the event (queries not yet filled).
func qtApply(q *quadtree.Quadtree, ptrs map[int]*qtPtr, next *int, bnd [4]int, op string, p [2]int, id int, m *qtMap) (qtEv, string) {
	e := qtEv{K: "qt", Op: op, Bnd: bnd, Pt: p, ID: id}
	if m != nil && m.ranked {
		e.Rk = 1
	}
	site := guard(func() {
		switch op {
		case "add":
			ptr := &qtPtr{id: *next, p: m.pt(p), l: p}
			e.ID = *next
			if err := q.Add(ptr); err != nil {
				e.Res = "err"
			} else {
				e.Res = "ok"
				ptrs[*next] = ptr
				*next++
			}
		case "rmpt":
			if q.Remove(m.pt(p), nil) {
				e.Res = "true"
			} else {
				e.Res = "false"
			}
		case "rmid":
			ptr := ptrs[id]
			e.Pt = ptr.l
			if q.Remove(ptr, func(x orb.Pointer) bool { return x.(*qtPtr) == ptr }) {
				e.Res = "true"
			} else {
				e.Res = "false"
			}
		}
	})
	return e, site
}

func init() {
	// (R) replay of TLC-generated histories (spec -> code)
	register("qtreplay", func(c *ctx) {
		qs := &qtQueries{
			pts:     [][2]int{{0, 0}, {100, 64}, {128, 130}, {250, 256}, {128, 128}, {64, 192}, {128, 28}}, // (128,28) is exactly 100 from (128,128)
			ks:      []int{1, 2, 3},
			mds:     []int{0, 100, 1000},
			boxes:   [][4]int{{0, 0, 256, 256}, {128, 128, 256, 256}, {0, 0, 128, 128}, {60, 190, 70, 200}, {129, 0, 256, 127}},
			filters: [][2]int{{1, 0}, {2, 1}},
		}
		bnd := [4]int{0, 0, 256, 256}
		n := 0
		readCases(c.cases, func(raw json.RawMessage) {
			var h struct {
				H   []qtOp   `json:"h"`
				Pts [][2]int `json:"pts"`
			}
			if err := json.Unmarshal(raw, &h); err != nil {
				fatal(err)
			}
			n++
			// thorough: histories of length 5 are many - every sixth is replayed, and the query family is
			// observed after the last operation only (every prefix is the end of a shorter history's sibling)
			if c.thorough() && n%6 != 0 {
				return
			}
			shard := (n / 6) % c.shards
			if !c.thorough() {
				shard = n % c.shards
			}
			q := quadtree.New(orb.Bound{Min: orb.Point{0, 0}, Max: orb.Point{256, 256}})
			ptrs := map[int]*qtPtr{}
			next := 1
			c.emitTo(shard, qtEv{K: "qt", Op: "reset", Items: [][3]int{}, Nodes: [][7]int{}, Finds: [][]int{}, KNN: [][]int{}, Inb: [][]int{}})
			for i, o := range h.H {
				var p [2]int
				if o.K > 0 {
					p = h.Pts[o.K-1]
				}
				setCurrent("quadtree."+o.Op, h)
				e, site := qtApply(q, ptrs, &next, bnd, o.Op, p, o.ID, nil)
				if site == "" {
					obs := qs
					if c.thorough() && i < len(h.H)-1 {
						obs = &qtQueries{}
					}
					site = guard(func() { qtObserve(q, &e, obs, i%2 == 1) })
				}
				if site != "" {
					c.emitTo(shard, panicEvent("quadtree."+o.Op, site, h))
					return
				}
				e.Exp = o.Res
				e.NT = 1
				e.XTree, e.HasX = sortRows2(o.Tree), 1
				e.Tree = sortRows2(e.Tree)
				c.emitTo(shard, e)
			}
		})
	})

	// (T) seeded random histories of hundreds of operations over 16 distinct points, in three coordinate maps
	register("qtrandom", func(c *ctx) {
		nh := c.pick(48, 192)
		for hI := 0; hI < nh; hI++ {
			shard := hI % c.shards
			// bound [0,1024]^2 (or an offset one); points on midlines of several depths, on the bound, duplicates
			off := 0
			if hI%3 == 1 {
				off = -512
			}
			var m *qtMap
			lo, hi := off, off+1024 // the tree bound in model coordinates
			switch hI % 6 {
			case 2, 5:
				m = &qtMap{div: 1024} // a unit-square tree: distance limits below 1
			case 3:
				m = qtRankedMap(c)
				off, lo, hi = 0, m.lo, m.hi
			}
			hiY := hi // every fourth tree is twice as wide as it is high (x and y limits must not be mixed up)
			if hI%4 == 1 && (m == nil || !m.ranked) {
				hiY = lo + (hi-lo)/2
			}
			bnd := [4]int{lo, lo, hi, hiY}
			q := quadtree.New(orb.Bound{Min: m.pt([2]int{lo, lo}), Max: m.pt([2]int{hi, hiY})})
			coord := func() int {
				if m != nil && m.ranked {
					if c.rng.Intn(12) == 0 {
						return c.rng.Intn(len(m.pool)) // possibly outside the bound
					}
					return lo + c.rng.Intn(hi-lo+1)
				}
				switch c.rng.Intn(4) {
				case 0:
					return off + 64*c.rng.Intn(17) // midlines / bound
				case 1:
					return off + 512
				}
				return off + c.rng.Intn(1025)
			}
			var alphabet [][2]int
			for len(alphabet) < 16 {
				p := [2]int{coord(), coord()}
				if (m == nil || !m.ranked) && c.rng.Intn(12) == 0 {
					p[c.rng.Intn(2)] = off + 1024 + 1 + c.rng.Intn(50) // outside the bound
				}
				alphabet = append(alphabet, p)
			}
			if m != nil && m.ranked && c.rng.Intn(2) == 0 {
				// points that differ by less than the square root of the smallest float64 (where the table has them)
				var tiny []int
				for k, v := range m.pool {
					if v == 0 || (v != 0 && v > -1e-160 && v < 1e-160) {
						tiny = append(tiny, k)
					}
				}
				if len(tiny) >= 3 {
					y := alphabet[0][1]
					for k := 0; k < 4 && k < len(tiny); k++ {
						alphabet[k] = [2]int{tiny[c.rng.Intn(len(tiny))], y}
						if k%2 == 1 {
							alphabet[k] = [2]int{y, tiny[c.rng.Intn(len(tiny))]}
						}
					}
				}
			}
			qs := &qtQueries{ks: []int{1, 2, 5}, mds: []int{0, 200}, filters: [][2]int{{1, 0}, {3, 1}}, m: m}
			if m == nil || !m.ranked {
				for i := 0; i < 4; i++ {
					qs.pts = append(qs.pts, alphabet[c.rng.Intn(16)], [2]int{off + c.rng.Intn(1025), off + c.rng.Intn(1025)})
				}
				// a limit that is exactly the distance between a query point and a stored point ("strictly within")
			exact:
				for _, a := range alphabet {
					for _, b := range alphabet {
						dx, dy := a[0]-b[0], a[1]-b[1]
						d2 := dx*dx + dy*dy
						r := int(math.Round(math.Sqrt(float64(d2))))
						if d2 > 0 && r*r == d2 && r < 2000 {
							qs.pts = append(qs.pts, a)
							qs.mds = append(qs.mds, r)
							break exact
						}
					}
				}
			}
			nbox := 3
			if m != nil && m.ranked {
				nbox = 8
			}
			for i := 0; i < nbox; i++ {
				a, b := alphabet[c.rng.Intn(16)], alphabet[c.rng.Intn(16)]
				if i%4 == 3 {
					b = a // the degenerate box {p, p}
				}
				bx := [4]int{a[0], a[1], b[0], b[1]}
				if bx[0] > bx[2] {
					bx[0], bx[2] = bx[2], bx[0]
				}
				if bx[1] > bx[3] {
					bx[1], bx[3] = bx[3], bx[1]
				}
				qs.boxes = append(qs.boxes, bx)
			}
			ptrs := map[int]*qtPtr{}
			next := 1
			live := []int{}
			c.emitTo(shard, qtEv{K: "qt", Op: "reset", Items: [][3]int{}, Nodes: [][7]int{}, Finds: [][]int{}, KNN: [][]int{}, Inb: [][]int{}})
			nops := 200 + c.rng.Intn(300)
			for i := 0; i < nops; i++ {
				op, p, id := "add", alphabet[c.rng.Intn(16)], 0
				dups := 0
				for _, lid := range live {
					if lp := ptrs[lid]; lp.l == p {
						dups++
					}
				}
				if dups >= 3 { // at most three live copies of a point: bounds the depth of duplicate chains
					op = "rmpt"
				}
				r := c.rng.Intn(10)
				grow := (i/60)%2 == 0 // alternate growing and shrinking phases
				if (grow && r >= 7) || (!grow && r >= 3) {
					if c.rng.Intn(2) == 0 || len(live) == 0 {
						op = "rmpt"
					} else {
						op, id = "rmid", live[c.rng.Intn(len(live))]
						if c.rng.Intn(8) == 0 && next > 1 {
							id = 1 + c.rng.Intn(next-1) // possibly already removed
						}
					}
				}
				setCurrent("quadtree."+op, alphabet)
				e, site := qtApply(q, ptrs, &next, bnd, op, p, id, m)
				if site == "" {
					ks0, mds0 := qs.ks, qs.mds
					if (m == nil || !m.ranked) && i%23 == 0 {
						// sizes: k around the number of stored pointers and around round numbers, a k followed by k+1 (whatever
						// a search keeps for later must fit the next one too); a limit of exactly zero: nothing lies
						// strictly within it, not even a pointer stored on the query point
						qs.ks = [][]int{{15, 16, 17}, {20, 21, 8, 9}, {len(e.Items) - 1, len(e.Items), len(e.Items) + 1}, {32, 33, 1}}[(i/23)%4]
						qs.mds = []int{0, -1, 300}
						for j, k := range qs.ks {
							if k < 1 {
								qs.ks[j] = 1
							}
						}
					}
					qs.rev = i%4 >= 2
					site = guard(func() { qtObserve(q, &e, qs, i%2 == 1) })
					qs.ks, qs.mds = ks0, mds0
				}
				if site != "" {
					c.emitTo(shard, panicEvent("quadtree."+op, site, alphabet))
					break
				}
				live = live[:0]
				for _, it := range e.Items {
					live = append(live, it[0])
				}
				e.NT = 1
				c.emitTo(shard, e)
			}
		}
	})
}

// qtRankedMap builds an increasing table of floats around a non-dyadic interval [l, r]: the interval ends, the
// midlines of its cells to depth 4 (by either way of writing a midpoint), their one-ulp neighbours, values in
// between and values outside. lo / hi are the table positions of l and r.
func qtRankedMap(c *ctx) *qtMap {
	ivs := [][2]float64{{-2, 0.2}, {0.1, 0.7}, {-1.3, 3.1}, {1e-3, 1e3}, {-180, 180.000001}, {0.3, 1.1}}
	iv := ivs[c.rng.Intn(len(ivs))]
	l, r := iv[0], iv[1]
	set := map[float64]bool{l: true, r: true}
	var rec func(a, b float64, d int)
	rec = func(a, b float64, d int) {
		if d == 0 {
			return
		}
		m1, m2 := (a+b)/2, a+(b-a)/2
		for _, v := range []float64{m1, m2} {
			set[v] = true
			if c.rng.Intn(3) == 0 {
				set[math.Nextafter(v, math.Inf(1))] = true
			}
			if c.rng.Intn(3) == 0 {
				set[math.Nextafter(v, math.Inf(-1))] = true
			}
		}
		rec(a, m1, d-1)
		rec(m1, b, d-1)
	}
	rec(l, r, 4)
	for i := 0; i < 12; i++ {
		set[l+(r-l)*c.rng.Float64()] = true
	}
	if l < 0 && r > 0 {
		// values so close together around zero that the square of their difference is zero in float64: different points all
		// the same
		for _, v := range []float64{0, 5e-324, -5e-324, 1e-170, -1e-170, 1e-200} {
			set[v] = true
		}
	}
	w := r - l
	for _, v := range []float64{l - w/3, l - w*2, math.Nextafter(l, math.Inf(-1)), math.Nextafter(r, math.Inf(1)), r + w/7, r + w*3} {
		set[v] = true
	}
	m := &qtMap{ranked: true}
	for v := range set {
		m.pool = append(m.pool, v)
	}
	sort.Float64s(m.pool)
	for i, v := range m.pool {
		if v == l {
			m.lo = i
		}
		if v == r {
			m.hi = i
		}
	}
	return m
}
