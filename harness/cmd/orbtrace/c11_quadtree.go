package main

import (
	"encoding/json"

	"github.com/paulmach/orb"
	"github.com/paulmach/orb/quadtree"
)

// C11: quadtree histories. Event per operation: see spec/QuadtreeList_Trace.tla.

type qtPtr struct {
	id int
	p  orb.Point
}

func (p *qtPtr) Point() orb.Point { return p.p }

type qtEv struct {
	K     string   `json:"k"`
	Op    string   `json:"op"`
	Bnd   [4]int   `json:"bnd"`
	Pt    [2]int   `json:"pt"`
	ID    int      `json:"id"`
	Res   string   `json:"res"`
	Exp   string   `json:"exp"`
	Items [][3]int `json:"items"`
	Nodes [][7]int `json:"nodes"`
	Finds [][]int  `json:"finds"`
	KNN   [][]int  `json:"knn"`
	Inb   [][]int  `json:"inb"`
	NT    int      `json:"nt"`
}

type qtQueries struct {
	pts     [][2]int
	ks      []int
	mds     []int
	boxes   [][4]int
	filters [][2]int
	noQuery bool
}

func accept(f [2]int) quadtree.FilterFunc {
	if f[0] == 1 {
		return nil // the unfiltered entry points
	}
	return func(p orb.Pointer) bool { return p.(*qtPtr).id%f[0] == f[1] }
}

// qtObserve fills the contents, node walk and query rows of an event from the real tree.
func qtObserve(q *quadtree.Quadtree, e *qtEv, qs *qtQueries, bufs bool) {
	e.Items, e.Nodes, e.Finds, e.KNN, e.Inb = [][3]int{}, [][7]int{}, [][]int{}, [][]int{}, [][]int{}
	if qs.noQuery {
		// contents from the node walk only: no query touches the tree (C19 compares the walk before/after)
		q.VerifWalk(func(path []int, v orb.Pointer, cell orb.Bound) {
			if v != nil {
				vp := v.(*qtPtr)
				e.Items = append(e.Items, [3]int{vp.id, int(vp.p[0]), int(vp.p[1])})
			}
		})
	} else {
		for _, x := range q.InBound(nil, orb.Bound{Min: orb.Point{-1e9, -1e9}, Max: orb.Point{1e9, 1e9}}) {
			xp := x.(*qtPtr)
			e.Items = append(e.Items, [3]int{xp.id, int(xp.p[0]), int(xp.p[1])})
		}
	}
	q.VerifWalk(func(path []int, v orb.Pointer, cell orb.Bound) {
		// cell edges in units of 1/1024 (exact: the generators keep the tree shallower than 10 halvings of
		// an integer-wide cell)
		row := [7]int{0, 0, 0, int(cell.Min[0] * 1024), int(cell.Max[0] * 1024), int(cell.Min[1] * 1024), int(cell.Max[1] * 1024)}
		if v != nil {
			vp := v.(*qtPtr)
			row[0], row[1], row[2] = vp.id, int(vp.p[0]), int(vp.p[1])
		}
		e.Nodes = append(e.Nodes, row)
	})
	for _, f := range qs.filters {
		ff := accept(f)
		for _, qp := range qs.pts {
			pt := orb.Point{float64(qp[0]), float64(qp[1])}
			var fnd orb.Pointer
			if ff == nil {
				fnd = q.Find(pt)
			} else {
				fnd = q.Matching(pt, ff)
			}
			id := 0
			if fnd != nil {
				id = fnd.(*qtPtr).id
			}
			e.Finds = append(e.Finds, []int{qp[0], qp[1], f[0], f[1], id})
			for _, k := range qs.ks {
				for _, md := range qs.mds {
					var buf []orb.Pointer
					if bufs { // caller-supplied result buffers of various capacities
						buf = make([]orb.Pointer, 0, (k+md)%4)
					}
					var res []orb.Pointer
					switch {
					case ff == nil && md == 0:
						res = q.KNearest(buf, pt, k)
					case ff == nil:
						res = q.KNearest(buf, pt, k, float64(md))
					case md == 0:
						res = q.KNearestMatching(buf, pt, k, ff)
					default:
						res = q.KNearestMatching(buf, pt, k, ff, float64(md))
					}
					row := []int{qp[0], qp[1], k, md, f[0], f[1]}
					for _, x := range res {
						row = append(row, x.(*qtPtr).id)
					}
					e.KNN = append(e.KNN, row)
				}
			}
		}
		for _, b := range qs.boxes {
			bb := orb.Bound{Min: orb.Point{float64(b[0]), float64(b[1])}, Max: orb.Point{float64(b[2]), float64(b[3])}}
			var buf []orb.Pointer
			if bufs {
				buf = make([]orb.Pointer, 0, 2)
			}
			var res []orb.Pointer
			if ff == nil {
				res = q.InBound(buf, bb)
			} else {
				res = q.InBoundMatching(buf, bb, ff)
			}
			row := []int{b[0], b[1], b[2], b[3], f[0], f[1]}
			for _, x := range res {
				row = append(row, x.(*qtPtr).id)
			}
			e.Inb = append(e.Inb, row)
		}
	}
}

type qtOp struct {
	Op  string `json:"op"`
	K   int    `json:"k"`
	ID  int    `json:"id"`
	Res string `json:"res"`
}

// qtApply performs one operation on the real tree and returns the event (queries not yet filled).
func qtApply(q *quadtree.Quadtree, ptrs map[int]*qtPtr, next *int, bnd [4]int, op string, p [2]int, id int) (qtEv, string) {
	e := qtEv{K: "qt", Op: op, Bnd: bnd, Pt: p, ID: id}
	site := guard(func() {
		switch op {
		case "add":
			ptr := &qtPtr{id: *next, p: orb.Point{float64(p[0]), float64(p[1])}}
			e.ID = *next
			if err := q.Add(ptr); err != nil {
				e.Res = "err"
			} else {
				e.Res = "ok"
				ptrs[*next] = ptr
				*next++
			}
		case "rmpt":
			if q.Remove(orb.Point{float64(p[0]), float64(p[1])}, nil) {
				e.Res = "true"
			} else {
				e.Res = "false"
			}
		case "rmid":
			ptr := ptrs[id]
			e.Pt = [2]int{int(ptr.p[0]), int(ptr.p[1])}
			if q.Remove(ptr, func(x orb.Pointer) bool { return x.(*qtPtr) == ptr }) {
				e.Res = "true"
			} else {
				e.Res = "false"
			}
		}
	})
	return e, site
}

func init() {
	// (R) replay of TLC-generated histories (spec -> code)
	register("qtreplay", func(c *ctx) {
		qs := &qtQueries{
			pts:     [][2]int{{0, 0}, {100, 64}, {128, 130}, {250, 256}, {128, 128}, {64, 192}},
			ks:      []int{1, 2, 3},
			mds:     []int{0, 100, 1000},
			boxes:   [][4]int{{0, 0, 256, 256}, {128, 128, 256, 256}, {0, 0, 128, 128}, {60, 190, 70, 200}, {129, 0, 256, 127}},
			filters: [][2]int{{1, 0}, {2, 1}},
		}
		bnd := [4]int{0, 0, 256, 256}
		n := 0
		readCases(c.cases, func(raw json.RawMessage) {
			var h struct {
				H   []qtOp   `json:"h"`
				Pts [][2]int `json:"pts"`
			}
			if err := json.Unmarshal(raw, &h); err != nil {
				fatal(err)
			}
			n++
			// thorough: histories of length 5 are many - every fourth is replayed, and the query family is
			// observed after the last operation only (every prefix is the end of a shorter history's sibling)
			if c.thorough() && n%4 != 0 {
				return
			}
			shard := (n / 4) % c.shards
			if !c.thorough() {
				shard = n % c.shards
			}
			q := quadtree.New(orb.Bound{Min: orb.Point{0, 0}, Max: orb.Point{256, 256}})
			ptrs := map[int]*qtPtr{}
			next := 1
			c.emitTo(shard, qtEv{K: "qt", Op: "reset", Items: [][3]int{}, Nodes: [][7]int{}, Finds: [][]int{}, KNN: [][]int{}, Inb: [][]int{}})
			for i, o := range h.H {
				var p [2]int
				if o.K > 0 {
					p = h.Pts[o.K-1]
				}
				setCurrent("quadtree."+o.Op, h)
				e, site := qtApply(q, ptrs, &next, bnd, o.Op, p, o.ID)
				if site == "" {
					obs := qs
					if c.thorough() && i < len(h.H)-1 {
						obs = &qtQueries{}
					}
					site = guard(func() { qtObserve(q, &e, obs, i%2 == 1) })
				}
				if site != "" {
					c.emitTo(shard, panicEvent("quadtree."+o.Op, site, h))
					return
				}
				e.Exp = o.Res
				e.NT = 1
				c.emitTo(shard, e)
			}
		})
	})

	// (T) seeded random histories of hundreds of operations over 16 distinct points
	register("qtrandom", func(c *ctx) {
		nh := c.pick(32, 320)
		for hI := 0; hI < nh; hI++ {
			shard := hI % c.shards
			// bound [0,1024]^2 (or an offset one); points on midlines of several depths, on the bound, duplicates
			off := 0
			if hI%3 == 1 {
				off = -512
			}
			bnd := [4]int{off, off, off + 1024, off + 1024}
			q := quadtree.New(orb.Bound{Min: orb.Point{float64(off), float64(off)}, Max: orb.Point{float64(off + 1024), float64(off + 1024)}})
			var alphabet [][2]int
			for len(alphabet) < 16 {
				var p [2]int
				for d := 0; d < 2; d++ {
					switch c.rng.Intn(4) {
					case 0:
						p[d] = off + 64*c.rng.Intn(17) // midlines / bound
					case 1:
						p[d] = off + 512
					default:
						p[d] = off + c.rng.Intn(1025)
					}
				}
				if c.rng.Intn(12) == 0 {
					p[c.rng.Intn(2)] = off + 1024 + 1 + c.rng.Intn(50) // outside the bound
				}
				alphabet = append(alphabet, p)
			}
			qs := &qtQueries{ks: []int{1, 2, 5}, mds: []int{0, 200}, filters: [][2]int{{1, 0}, {3, 1}}}
			for i := 0; i < 4; i++ {
				qs.pts = append(qs.pts, alphabet[c.rng.Intn(16)], [2]int{off + c.rng.Intn(1025), off + c.rng.Intn(1025)})
			}
			for i := 0; i < 3; i++ {
				a, b := alphabet[c.rng.Intn(16)], alphabet[c.rng.Intn(16)]
				bx := [4]int{a[0], a[1], b[0], b[1]}
				if bx[0] > bx[2] {
					bx[0], bx[2] = bx[2], bx[0]
				}
				if bx[1] > bx[3] {
					bx[1], bx[3] = bx[3], bx[1]
				}
				qs.boxes = append(qs.boxes, bx)
			}
			ptrs := map[int]*qtPtr{}
			next := 1
			live := []int{}
			c.emitTo(shard, qtEv{K: "qt", Op: "reset", Items: [][3]int{}, Nodes: [][7]int{}, Finds: [][]int{}, KNN: [][]int{}, Inb: [][]int{}})
			nops := 200 + c.rng.Intn(300)
			for i := 0; i < nops; i++ {
				op, p, id := "add", alphabet[c.rng.Intn(16)], 0
				dups := 0
				for _, lid := range live {
					if lp := ptrs[lid]; int(lp.p[0]) == p[0] && int(lp.p[1]) == p[1] {
						dups++
					}
				}
				if dups >= 3 { // at most three live copies of a point: bounds the depth of duplicate chains
					op = "rmpt"
				}
				r := c.rng.Intn(10)
				grow := (i/60)%2 == 0 // alternate growing and shrinking phases
				if (grow && r >= 7) || (!grow && r >= 3) {
					if c.rng.Intn(2) == 0 || len(live) == 0 {
						op = "rmpt"
					} else {
						op, id = "rmid", live[c.rng.Intn(len(live))]
						if c.rng.Intn(8) == 0 && next > 1 {
							id = 1 + c.rng.Intn(next-1) // possibly already removed
						}
					}
				}
				setCurrent("quadtree."+op, alphabet)
				e, site := qtApply(q, ptrs, &next, bnd, op, p, id)
				if site == "" {
					site = guard(func() { qtObserve(q, &e, qs, i%2 == 1) })
				}
				if site != "" {
					c.emitTo(shard, panicEvent("quadtree."+op, site, alphabet))
					break
				}
				live = live[:0]
				for _, it := range e.Items {
					live = append(live, it[0])
				}
				e.NT = 1
				c.emitTo(shard, e)
			}
		}
	})
}
