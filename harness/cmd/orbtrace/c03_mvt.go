package main

import (
	"bytes"
	"encoding/json"
	"fmt"
	"math"
	"reflect"
	"sort"

	"github.com/paulmach/orb"
	"github.com/paulmach/orb/encoding/mvt"
	"github.com/paulmach/orb/encoding/mvt/vectortile"
	"github.com/paulmach/orb/geojson"
)

// C03: mvt.Marshal / MarshalGzipped / Unmarshal / UnmarshalGzipped. See spec/Mvt_Trace.tla.

type mvtIntern struct {
	bits *bitIntern
	strs map[string]int
	keys map[string]int // rank-interned property keys (sorted order = id order)
	raws map[string]int
}

func (in *mvtIntern) str(s string) int {
	if id, ok := in.strs[s]; ok {
		return id
	}
	id := len(in.strs) + 1
	in.strs[s] = id
	return id
}

// value projects a property value as the encoder must see it: effective Go type (nil and
// uncomparable values become their JSON text), identity as a map key (raw) and widened value (w).
func (in *mvtIntern) value(v interface{}) map[string]interface{} {
	if v == nil || !reflect.TypeOf(v).Comparable() {
		data, _ := json.Marshal(v)
		v = string(data)
	}
	ty := fmt.Sprintf("%T", v)
	rawKey := fmt.Sprintf("%T|%v", v, v)
	raw, ok := in.raws[rawKey]
	if !ok {
		raw = len(in.raws) + 1
		in.raws[rawKey] = raw
	}
	var w int
	switch t := v.(type) {
	case string:
		w = in.str(t)
	case bool:
		if t {
			w = 1
		}
	default:
		w = in.bits.id(reflect.ValueOf(v).Convert(reflect.TypeOf(float64(0))).Float())
	}
	return map[string]interface{}{"ty": ty, "raw": raw, "w": w}
}

func intFn(p orb.Point) ([2]int, bool) {
	return [2]int{int(p[0]), int(p[1])}, p[0] == float64(int(p[0])) && p[1] == float64(int(p[1]))
}

// id projects a feature id: {present, identity of its numeric value} - the value is interned through its float64 bit
// pattern (exact up to 2^53), so that ids beyond 32 bits can be compared by TLC
func (in *mvtIntern) id(v interface{}) [2]int {
	switch t := v.(type) {
	case nil:
		return [2]int{0, 0}
	case int:
		return [2]int{1, in.bits.id(float64(t))}
	case int64:
		return [2]int{1, in.bits.id(float64(t))}
	case uint32:
		return [2]int{1, in.bits.id(float64(t))}
	case uint64:
		return [2]int{1, in.bits.id(float64(t))}
	case float64:
		return [2]int{1, in.bits.id(math.Trunc(t))} // (also beyond the int64 range: 2^63 .. 2^64)
	case uint:
		return [2]int{1, in.bits.id(float64(t))}
	case int8, int16, int32, uint8, uint16:
		return [2]int{1, in.bits.id(float64(reflect.ValueOf(v).Convert(reflect.TypeOf(int64(0))).Int()))}
	case float32:
		return [2]int{1, in.bits.id(float64(int64(t)))}
	}
	return [2]int{0, 0}
}

func mvtDecodedLayers(in *mvtIntern, ls mvt.Layers) ([]interface{}, bool) {
	out := []interface{}{}
	okAll := true
	for _, l := range ls {
		feats := []interface{}{}
		for _, f := range l.Features {
			g, ok := encGeom(f.Geometry, intFn)
			okAll = okAll && ok
			keys := make([]string, 0, len(f.Properties))
			for k := range f.Properties {
				keys = append(keys, k)
			}
			sort.Strings(keys)
			props := []interface{}{}
			for _, k := range keys {
				kid, known := in.keys[k]
				if !known {
					kid = -1
				}
				var val []interface{}
				switch t := f.Properties[k].(type) {
				case string:
					val = []interface{}{"str", in.str(t)}
				case bool:
					b := 0
					if t {
						b = 1
					}
					val = []interface{}{"bool", b}
				case float64:
					val = []interface{}{"num", in.bits.id(t)}
				default:
					val = []interface{}{fmt.Sprintf("%T", t), 0}
				}
				props = append(props, []interface{}{kid, val})
			}
			feats = append(feats, map[string]interface{}{"id": in.id(f.ID), "g": g, "props": props})
		}
		out = append(out, map[string]interface{}{"name": in.str(l.Name), "ver": int(l.Version), "ext": int(l.Extent), "feats": feats})
	}
	return out, okAll
}

func mvtLens(in *mvtIntern, data []byte) ([]interface{}, error) {
	var t vectortile.Tile
	if err := t.Unmarshal(data); err != nil {
		return nil, err
	}
	out := []interface{}{}
	for _, l := range t.Layers {
		keys := []int{}
		for _, k := range l.Keys {
			kid, ok := in.keys[k]
			if !ok {
				kid = -1
			}
			keys = append(keys, kid)
		}
		vals := []interface{}{}
		for _, v := range l.Values {
			switch {
			case v.StringValue != nil:
				vals = append(vals, []interface{}{"s", in.str(*v.StringValue)})
			case v.FloatValue != nil:
				vals = append(vals, []interface{}{"f", in.bits.id(float64(*v.FloatValue))})
			case v.DoubleValue != nil:
				vals = append(vals, []interface{}{"d", in.bits.id(*v.DoubleValue)})
			case v.IntValue != nil:
				vals = append(vals, []interface{}{"int", in.bits.id(float64(*v.IntValue))})
			case v.UintValue != nil:
				vals = append(vals, []interface{}{"uint", in.bits.id(float64(*v.UintValue))})
			case v.SintValue != nil:
				vals = append(vals, []interface{}{"sint", in.bits.id(float64(*v.SintValue))})
			case v.BoolValue != nil:
				b := 0
				if *v.BoolValue {
					b = 1
				}
				vals = append(vals, []interface{}{"b", b})
			default:
				vals = append(vals, []interface{}{"?", 0})
			}
		}
		feats := []interface{}{}
		for _, f := range l.Features {
			id := [2]int{0, 0}
			if f.Id != nil {
				id = [2]int{1, in.bits.id(float64(*f.Id))}
			}
			tags := []int{}
			for _, x := range f.Tags {
				tags = append(tags, int(x))
			}
			geom := []int{}
			for _, x := range f.Geometry {
				geom = append(geom, int(x))
			}
			feats = append(feats, map[string]interface{}{"id": id, "type": int(f.GetType()), "tags": tags, "geom": geom})
		}
		out = append(out, map[string]interface{}{"name": in.str(l.GetName()), "ver": int(l.GetVersion()), "ext": int(l.GetExtent()),
			"keys": keys, "vals": vals, "feats": feats})
	}
	return out, nil
}

// the properties map of the feature generated last (features may share one map object)
var c03PrevProps geojson.Properties

func init() {
	register("mvt", func(c *ctx) {
		big := func() float64 {
			switch c.rng.Intn(6) {
			case 0:
				return float64(c.rng.Intn(1<<28)) * float64(1-2*c.rng.Intn(2)) // |v| < 2^28
			case 1:
				return float64((1<<28)-1) * float64(1-2*c.rng.Intn(2))
			case 2:
				return float64(c.rng.Intn(7) - 3)
			default:
				return float64(c.rng.Intn(8193) - 4096)
			}
		}
		small := func() float64 { return float64(c.rng.Intn(16385) - 8192) }
		pt := func(f func() float64) orb.Point { return orb.Point{f(), f()} }
		ring := func(ccw bool) orb.Ring { // non-zero area, requested winding, closed or unclosed spelling
			for {
				k := 3 + c.rng.Intn(4)
				r := make(orb.Ring, k)
				for i := range r {
					r[i] = pt(small)
				}
				if c.rng.Intn(3) == 0 { // a tiny ring far from the origin: winding must not depend on where the ring is
					ox := float64((1<<26)+c.rng.Intn((1<<28)-(1<<26)-64)) * float64(1-2*c.rng.Intn(2))
					oy := float64((1<<26)+c.rng.Intn((1<<28)-(1<<26)-64)) * float64(1-2*c.rng.Intn(2))
					w := 1 + c.rng.Intn(3)
					for i := range r {
						r[i] = orb.Point{ox + float64(c.rng.Intn(w+1)), oy + float64(c.rng.Intn(w+1))}
					}
					// no vertex repeated in a row (also around the closure): a ring spelled a,b,c,a,a cannot keep its
					// doubled closing vertex through a format that leaves the closing vertex out
					dup := false
					for i := range r {
						dup = dup || r[i] == r[(i+1)%len(r)]
					}
					if dup {
						continue
					}
				}
				closed := append(r.Clone(), r[0])
				o := closed.Orientation()
				if o == 0 {
					continue
				}
				if (o == orb.CCW) != ccw {
					closed.Reverse()
				}
				if c.rng.Intn(2) == 0 {
					return closed
				}
				return closed[:len(closed)-1]
			}
		}
		polygon := func() orb.Polygon {
			p := orb.Polygon{ring(true)}
			for h := 0; h < c.rng.Intn(3); h++ {
				p = append(p, ring(false))
			}
			return p
		}
		var geom func(depth int) orb.Geometry
		geom = func(depth int) orb.Geometry {
			switch c.rng.Intn(11) {
			case 0:
				return pt(big)
			case 1:
				mp := orb.MultiPoint{}
				for i := 0; i < 1+c.rng.Intn(4); i++ {
					mp = append(mp, pt(big))
				}
				return mp
			case 2:
				ls := orb.LineString{}
				for i := 0; i < 1+c.rng.Intn(6); i++ { // a line may have a single vertex
					ls = append(ls, pt(big))
					if c.rng.Intn(5) == 0 { // ... and may stay where it is for a step (a vertex repeated in a row is a vertex)
						ls = append(ls, ls[len(ls)-1])
					}
				}
				return ls
			case 3:
				mls := orb.MultiLineString{}
				for i := 0; i < 1+c.rng.Intn(3); i++ {
					ls := orb.LineString{}
					for j := 0; j < 1+c.rng.Intn(5); j++ {
						ls = append(ls, pt(big))
						if c.rng.Intn(6) == 0 {
							ls = append(ls, ls[len(ls)-1])
						}
					}
					mls = append(mls, ls)
				}
				return mls
			case 4:
				return ring(c.rng.Intn(2) == 0)
			case 5, 6:
				return polygon()
			case 7:
				mp := orb.MultiPolygon{}
				for i := 0; i < 1+c.rng.Intn(3); i++ {
					mp = append(mp, polygon())
				}
				return mp
			case 8:
				a, b := pt(small), pt(small)
				if a[0] == b[0] || a[1] == b[1] {
					return pt(big)
				}
				return orb.MultiPoint{a, b}.Bound()
			case 9:
				return nil
			default:
				if depth > 0 || c.rng.Intn(3) != 0 {
					return pt(big)
				}
				col := orb.Collection{}
				for i := 0; i < 1+c.rng.Intn(3); i++ {
					g := geom(1)
					if g == nil {
						g = pt(big)
					}
					col = append(col, g)
				}
				return col
			}
		}
		sharedInts := []int{1, 2, 3, 4, 5}
		keyPool := []string{"a", "name", "B", "zz", "k1", "k10", "k2", "", "highway", "é"}
		value := func() interface{} {
			n := c.rng.Intn(4) // equal numbers of different Go types collide on purpose
			switch c.rng.Intn(23) {
			case 0:
				// (strings are byte strings: text that is not valid UTF-8 - a latin-1 byte, a cut multi-byte rune, an overlong
				// form, an encoded surrogate - comes back byte for byte, and the replacement character is a character)
				return []string{"x", "null", "1", "true", "caf\xe9", "a\xc3", "\xc0\xaf", "\xed\xa0\x80", "\uFFFD", "\xff\xfe"}[c.rng.Intn(10)]
			case 1:
				return c.rng.Intn(2) == 0
			case 2:
				return n
			case 3:
				return int8(n)
			case 4:
				return int16(-n)
			case 5:
				return int32(n)
			case 6:
				return int64(n) << uint(c.rng.Intn(40))
			case 7:
				return uint(n)
			case 8:
				return uint8(n)
			case 9:
				return uint16(n)
			case 10:
				return uint32(n)
			case 11:
				return uint64(n) << uint(c.rng.Intn(50))
			case 12:
				return float32(n)
			case 13:
				return float32(n) + 0.1
			case 14:
				return float64(n)
			case 15:
				return float64(n) + 0.1
			case 16:
				return nil
			case 17:
				return []interface{}{n, "s"}
			case 18:
				return map[string]interface{}{"k": n}
			case 19:
				return sharedInts[:1+n] // slices of one array: same start, different lengths
			case 22:
				return sharedInts[:0]
			case 20:
				return fmt.Sprintf("%d", n)
			default:
				return float64(n) * 1e-7
			}
		}
		// results of the previous event, kept to see that later calls leave them alone (no shared buffers)
		var prevDecGz mvt.Layers
		var prevDecGzText string
		var prevData, prevGz, prevDataCopy, prevGzCopy []byte
		var prevDec mvt.Layers
		var prevDecText string
		nev := c.pick(4000, 120000)
		for i := 0; i < nev; i++ {
			in := &mvtIntern{bits: newBitIntern(), strs: map[string]int{}, keys: map[string]int{}, raws: map[string]int{}}
			sorted := append([]string{}, keyPool...)
			sort.Strings(sorted)
			for r, k := range sorted {
				in.keys[k] = r + 1
			}
			var layers mvt.Layers
			var model []interface{}
			nt := 0
			for li := 0; li < c.rng.Intn(4); li++ {
				l := &mvt.Layer{Name: []string{"roads", "water", "", "poi"}[c.rng.Intn(4)], Version: uint32(1 + c.rng.Intn(2)), Extent: uint32(256 << uint(c.rng.Intn(6)))}
				feats := []interface{}{}
				for fi := 0; fi < c.rng.Intn(5); fi++ {
					f := geojson.NewFeature(geom(0))
					idv := c.rng.Intn(1 << 30)
					if c.rng.Intn(4) == 0 {
						idv = c.rng.Intn(3) // 0 is an id like any other
					}
					bigID := 0 // ids beyond 32 bits for the kinds that can hold them
					if c.rng.Intn(5) == 0 {
						bigID = []int{1 << 32, 1<<32 + 5, 5128740932, 1 << 35, 1<<53 - 1, 1<<52 + 1, 1<<52 + 4097}[c.rng.Intn(7)]
					}
					switch c.rng.Intn(14) {
					case 0:
						f.ID = idv % 1000
					case 1:
						f.ID = int64(idv)
						if bigID != 0 {
							f.ID = int64(bigID)
						}
					case 2:
						f.ID = uint32(idv)
					case 3:
						f.ID = float64(idv % 5000)
						if bigID != 0 {
							f.ID = float64(bigID)
						}
					case 4:
						f.ID = uint64(idv)
						if bigID != 0 {
							f.ID = uint64(bigID)
							if c.rng.Intn(2) == 0 { // the upper half of the unsigned range: ids are unsigned 64-bit numbers
								f.ID = []uint64{1 << 63, 1<<63 + 4096, math.MaxUint64, math.MaxUint64 - 2047, 1<<63 - 1024}[c.rng.Intn(5)]
							}
						}
					case 5:
						f.ID = int8(idv % 128)
					case 6:
						f.ID = int16(idv % 30000)
					case 7:
						f.ID = int32(idv)
					case 8:
						f.ID = uint(idv)
						if bigID != 0 && c.rng.Intn(2) == 0 {
							f.ID = uint(1<<63 + 4096)
						}
					case 9:
						f.ID = uint8(idv % 256)
					case 10:
						f.ID = uint16(idv % 60000)
					case 11:
						f.ID = float32(idv % 4096)
						if bigID != 0 {
							f.ID = float32(1<<23 + 1 + 2*(idv%4096)) // odd and exact in float32: adding a half would round
						}
					}
					nprops := c.rng.Intn(5)
					if nprops == 4 {
						f.Properties = nil
						nprops = 0
					}
					for p := 0; p < nprops; p++ {
						f.Properties[keyPool[c.rng.Intn(len(keyPool))]] = value()
					}
					// consecutive features - also the last of one layer and the first of the next - may share one map object
					if c03PrevProps != nil && c.rng.Intn(5) == 0 {
						f.Properties = c03PrevProps
					}
					c03PrevProps = f.Properties
					keys := make([]string, 0, len(f.Properties))
					for k := range f.Properties {
						keys = append(keys, k)
					}
					sort.Strings(keys)
					props := []interface{}{}
					for _, k := range keys {
						props = append(props, []interface{}{in.keys[k], in.value(f.Properties[k])})
					}
					g, _ := encGeom(f.Geometry, intFn)
					feats = append(feats, map[string]interface{}{"id": in.id(f.ID), "g": g, "props": props})
					l.Features = append(l.Features, f)
					if f.Geometry != nil {
						nt = 1
					}
				}
				layers = append(layers, l)
				model = append(model, map[string]interface{}{"name": in.str(l.Name), "ver": int(l.Version), "ext": int(l.Extent), "feats": feats})
			}
			if model == nil {
				model = []interface{}{}
			}
			e := map[string]interface{}{"k": "mvt", "layers": model, "nt": nt, "err": ""}
			setCurrent("mvt.Marshal", model)
			var data, gz []byte
			var err error
			distinct := map[string]bool{}
			site := guard(func() {
				for rep := 0; rep < 3 && err == nil; rep++ { // repeated marshals: map-order schedules
					data, err = mvt.Marshal(layers)
					distinct[string(data)] = true
				}
				if err == nil {
					gz, err = mvt.MarshalGzipped(layers)
				}
			})
			if site != "" {
				c.emit(panicEvent("mvt.Marshal", site, model))
				continue
			}
			if err != nil {
				e["err"] = "marshal: " + err.Error()
				e["nbytes"], e["tile"], e["dec"], e["decgz"] = 0, []interface{}{}, []interface{}{}, []interface{}{}
				c.emit(e)
				continue
			}
			e["nbytes"] = len(distinct)
			tile, lerr := mvtLens(in, data)
			if lerr != nil {
				e["err"] = "lens: " + lerr.Error()
				tile = []interface{}{}
			}
			e["tile"] = tile
			var dec, decgz mvt.Layers
			site = guard(func() {
				dec, err = mvt.Unmarshal(data)
				if err == nil {
					decgz, err = mvt.UnmarshalGzipped(gz)
				}
				if err == nil && !bytes.Equal(data, data) {
					err = fmt.Errorf("unreachable")
				}
			})
			if site != "" {
				c.emit(panicEvent("mvt.Unmarshal", site, model))
				continue
			}
			if err != nil {
				e["err"] = "unmarshal: " + err.Error()
			}
			d1, ok1 := mvtDecodedLayers(in, dec)
			d2, ok2 := mvtDecodedLayers(in, decgz)
			if !ok1 || !ok2 {
				e["err"] = "decoded coordinate is not an integer"
			}
			e["dec"], e["decgz"] = d1, d2
			// the bytes and layers returned for the previous event are still what they were
			e["stable"] = 1
			if !bytes.Equal(prevData, prevDataCopy) || !bytes.Equal(prevGz, prevGzCopy) {
				e["stable"] = 0
			}
			if prevDec != nil {
				if b, _ := json.Marshal(prevDec); string(b) != prevDecText {
					e["stable"] = 0
				}
			}
			prevData, prevGz = data, gz
			prevDataCopy, prevGzCopy = append([]byte{}, data...), append([]byte{}, gz...)
			prevDec = dec
			b, _ := json.Marshal(dec)
			prevDecText = string(b)
			if prevDecGz != nil { // the layers the gzipped path returned last time (names, keys, string values, coordinates)
				if b, _ := json.Marshal(prevDecGz); string(b) != prevDecGzText {
					e["stable"] = 0
				}
			}
			prevDecGz = decgz
			b, _ = json.Marshal(decgz)
			prevDecGzText = string(b)
			c.emit(e)
		}
	})
}
