package main

import (
	"sort"

	"github.com/paulmach/orb"
	"github.com/paulmach/orb/clip/smartclip"
)

// C16: smartclip on closed, correctly wound simple rings. See spec/SmartClip_Trace.tla.
// Integer grid 0..7, lattice 1/60 (differences <= 7 would need 420; boxes and vertices are kept within a
// span of 6 grid units of each other so that every crossing is a multiple of 1/60).

const c16S = 60

func shoelace2(r [][2]int) int {
	s := 0
	for i := range r {
		a, b := r[i], r[(i+1)%len(r)]
		s += a[0]*b[1] - b[0]*a[1]
	}
	return s
}

func reverse2(r [][2]int) [][2]int {
	out := make([][2]int, len(r))
	for i := range r {
		out[i] = r[len(r)-1-i]
	}
	return out
}

// orient returns the (unclosed) ring wound as o (1 = CCW, -1 = CW); nil for zero area
func orient(r [][2]int, o int) [][2]int {
	s := shoelace2(r)
	if s == 0 {
		return nil
	}
	if (s > 0) != (o > 0) {
		return reverse2(r)
	}
	return r
}

// starRing: simple ring, strictly increasing exact angle about centre c2/2 (c2 in half units), grid 0..6
// starBand: when set, starRing takes its vertices from the outer band of the grid only (a fat ring whose
// middle is free for holes)
var starBand bool

func starRing(c *ctx, k int, c2 [2]int, span int) [][2]int {
	type pa struct {
		p    [2]int
		h    int
		x, y int
	}
	var ps []pa
	for i := 0; i < k; i++ {
		p := [2]int{c.rng.Intn(span + 1), c.rng.Intn(span + 1)}
		if starBand && p[0] > 1 && p[0] < span-1 && p[1] > 1 && p[1] < span-1 {
			i--
			continue
		}
		x, y := 2*p[0]-c2[0], 2*p[1]-c2[1]
		if x == 0 && y == 0 {
			continue
		}
		h := 1
		if y > 0 || (y == 0 && x > 0) {
			h = 0
		}
		ps = append(ps, pa{p, h, x, y})
	}
	sort.Slice(ps, func(i, j int) bool {
		if ps[i].h != ps[j].h {
			return ps[i].h < ps[j].h
		}
		return ps[i].x*ps[j].y-ps[i].y*ps[j].x > 0
	})
	var out []pa
	for _, q := range ps {
		if len(out) > 0 {
			a := out[len(out)-1]
			if a.x*q.y-a.y*q.x == 0 && a.h == q.h {
				continue
			}
		}
		out = append(out, q)
	}
	if len(out) < 3 {
		return nil
	}
	for i := range out {
		a, b := out[i], out[(i+1)%len(out)]
		if a.x*b.y-a.y*b.x <= 0 {
			return nil
		}
	}
	r := make([][2]int, len(out))
	for i := range out {
		r[i] = out[i].p
	}
	return r
}

func scale60(r [][2]int) [][2]int {
	out := make([][2]int, len(r))
	for i := range r {
		out[i] = [2]int{r[i][0] * c16S, r[i][1] * c16S}
	}
	return out
}

// c16Unclosed: hand the first outer ring over without its closing vertex when its first vertex lies strictly inside
// the box (such a ring is closed implicitly, so the result must be that of the closed ring).
// c16AsCollection: the Geometry entry point receives the polygons as members of a Collection.
var c16Unclosed, c16AsCollection bool

// c16Axes, when set, replaces the uniform scaling of the lattice by one strictly increasing table per axis (lattice
// coordinate -> float64). For figures whose edges are all parallel to the axes that is an isomorphism: every crossing
// has one coordinate of the box and one of a vertex, so results are mapped back through the inverse tables exactly.
// It lets lattice figures be handed over at mixed scales (two lines 2e-17 apart next to zero, a box that ends at -2).
var c16Axes *[2]map[int]float64

func c16Smart(c *ctx, fn string, box [4]int, in [][][][2]int, o int) {
	s := float64(c16S) * figScale()
	b := toBound(box, s)
	g := mpOf(in, s)
	var inv [2]map[float64]int
	if c16Axes != nil {
		for ax := 0; ax < 2; ax++ {
			inv[ax] = map[float64]int{}
			for k, v := range c16Axes[ax] {
				inv[ax][v] = k
			}
		}
		at := func(p [2]int) orb.Point { return orb.Point{c16Axes[0][p[0]], c16Axes[1][p[1]]} }
		b = orb.Bound{Min: at([2]int{box[0], box[1]}), Max: at([2]int{box[2], box[3]})}
		for i := range in {
			for j := range in[i] {
				for k := range in[i][j] {
					g[i][j][k] = at(in[i][j][k])
				}
			}
		}
	}
	if r0 := in[0][0]; c16Unclosed && len(r0) >= 4 && r0[0] == r0[len(r0)-1] &&
		r0[0][0] > box[0] && r0[0][0] < box[2] && r0[0][1] > box[1] && r0[0][1] < box[3] {
		crosses := false // a ring wholly inside comes back unchanged, closed or not: only rings that leave the box count here
		for _, q := range r0 {
			if q[0] < box[0] || q[0] > box[2] || q[1] < box[1] || q[1] > box[3] {
				crosses = true
			}
		}
		if crosses {
			g[0][0] = g[0][0][:len(g[0][0])-1]
		}
	}
	oo := orb.CCW
	if o < 0 {
		oo = orb.CW
	}
	e := map[string]interface{}{"k": "smart", "fn": fn, "box": box, "in": in, "o": o, "st": 15}
	setCurrent("smartclip."+fn, e)
	var out orb.MultiPolygon
	gnil := 1
	site := guard(func() {
		switch fn {
		case "Ring":
			out = smartclip.Ring(b, g[0][0], oo)
		case "Polygon":
			out = smartclip.Polygon(b, g[0], oo)
		case "MultiPolygon":
			out = smartclip.MultiPolygon(b, g, oo)
		default:
			var arg orb.Geometry = g
			if len(g) == 1 {
				arg = g[0]
			}
			if c16AsCollection {
				col := orb.Collection{}
				for _, p := range g {
					col = append(col, p)
				}
				arg = col
			}
			var flat func(v orb.Geometry)
			flat = func(v orb.Geometry) {
				switch v := v.(type) {
				case orb.Polygon:
					out = append(out, v)
				case orb.MultiPolygon:
					out = append(out, v...)
				case orb.Collection:
					for _, m := range v {
						flat(m)
					}
				}
			}
			res := smartclip.Geometry(b, arg, oo)
			flat(res)
			// nothing left of a ring / polygon / multipolygon: the generic entry point answers nil like the typed ones (not
			// a non-nil interface around nothing)
			if _, isCol := arg.(orb.Collection); !isCol && len(out) == 0 && res != nil {
				gnil = 0
			}
		}
	})
	if site != "" {
		c.emit(panicEvent("smartclip."+fn, site, e))
		return
	}
	q, ok := quantMP(out, s)
	if c16Axes != nil {
		q, ok = make([][][][2]int, 0, len(out)), true
		for _, poly := range out {
			pc := make([][][2]int, 0, len(poly))
			for _, r := range poly {
				rc := make([][2]int, 0, len(r))
				for _, v := range r {
					x, okx := inv[0][v[0]]
					y, oky := inv[1][v[1]]
					ok = ok && okx && oky
					rc = append(rc, [2]int{x, y})
				}
				pc = append(pc, rc)
			}
			q = append(q, pc)
		}
	}
	if !ok {
		c.emit(map[string]interface{}{"k": "offlattice", "fn": "smartclip." + fn, "in": e})
		return
	}
	e["out"] = q
	e["pstable"] = c16Prev.check(out) * gnil
	if len(q) > 0 && !eqMP(q, in) {
		e["nt"] = 1
	}
	c.emit(e)
}

var c16Prev prevTracker

func init() {
	register("smartclip", func(c *ctx) {
		S := c16S
		closed := func(r [][2]int) [][2]int { return append(append([][2]int{}, r...), r[0]) }
		// (1) exhaustive: every non-degenerate triangle on the 4x4 grid (5x5 thorough) x boxes with integer corners
		// x both orientations (the ring is re-oriented to be correctly wound)
		G := c.pick(4, 5)
		var boxes [][4]int
		for x0 := 0; x0 < G; x0++ {
			for x1 := x0 + 1; x1 < G; x1++ {
				for y0 := 0; y0 < G; y0++ {
					for y1 := y0 + 1; y1 < G; y1++ {
						boxes = append(boxes, [4]int{x0 * S, y0 * S, x1 * S, y1 * S})
					}
				}
			}
		}
		n := G * G
		for a := 0; a < n; a++ {
			for b := a + 1; b < n; b++ {
				for d := b + 1; d < n; d++ {
					tri := [][2]int{{a % G, a / G}, {b % G, b / G}, {d % G, d / G}}
					for bi, box := range boxes {
						if (a+b+d+bi)%c.pick(4, 2) != 0 {
							continue
						}
						for _, o := range []int{1, -1} {
							r := orient(tri, o)
							if r == nil {
								continue
							}
							// every third combination hands the triangle over unclosed (three vertices), started at each vertex in
							// turn: where the start vertex is inside the box the ring is closed implicitly
							c16Unclosed, c16AsCollection = (a+b+d+bi)%3 == 0, false
							if c16Unclosed {
								k := (a + bi) % 3
								r = append(append([][2]int{}, r[k:]...), r[:k]...)
							}
							c16Smart(c, "Ring", box, [][][][2]int{{closed(scale60(r))}}, o)
						}
					}
				}
			}
		}
		// (1b) a hole that stays inside the box while the outer ring is cut by one side of the box, with the hole's first
		// vertex level with an odd number of outer-ring vertices on its right or left (the ray of the owner lookup runs
		// through them), through the MultiPolygon entry (the lookup is never bypassed there)
		for i, made := 0, 0; i < c.pick(4000, 60000) && made < c.pick(250, 4000); i++ {
			o := 1 - 2*c.rng.Intn(2)
			starBand = true
			ring := starRing(c, 7+c.rng.Intn(6), [2]int{7, 7}, 6)
			starBand = false
			if ring == nil {
				continue
			}
			ring = orient(ring, o)
			hx, hy := 1+c.rng.Intn(5), 1+c.rng.Intn(5)
			hole := [][2]int{{hx, hy}, {hx, hy + 1}, {hx + 1, hy + 1}, {hx + 1, hy}}
			rot := c.rng.Intn(4)
			hole = append(append([][2]int{}, hole[rot:]...), hole[:rot]...)
			if o < 0 {
				hole = reverse2(hole)
			}
			if !squareInside(ring, hole) {
				continue
			}
			right, left := 0, 0
			for _, v := range ring {
				if v[1] == hole[0][1] && v[0] > hole[0][0] {
					right++
				}
				if v[1] == hole[0][1] && v[0] < hole[0][0] {
					left++
				}
			}
			if right%2 == 0 && left%2 == 0 {
				continue
			}
			box := [4]int{(hx - 1) * S, -1 * S, 8 * S, 8 * S} // cuts on the left of the hole
			if c.rng.Intn(2) == 0 {
				box = [4]int{-1 * S, -1 * S, (hx + 2) * S, 8 * S} // or on its right
			}
			made++
			c16Unclosed, c16AsCollection = false, false
			c16Smart(c, []string{"MultiPolygon", "Polygon", "Geometry"}[c.rng.Intn(3)], box, [][][][2]int{{closed(scale60(ring)), closed(scale60(hole))}}, o)
		}
		// (2) seeded star-shaped rings (3..12 vertices, vertices on box edges and corners arise densely), polygons
		// with a hole, multipolygons, both orientations, all entry points; open sub-paths
		ns := c.pick(5000, 120000)
		for i := 0; i < ns; i++ {
			x0, y0 := c.rng.Intn(5), c.rng.Intn(5)
			box := [4]int{x0 * S, y0 * S, (x0 + 1 + c.rng.Intn(6-x0)) * S, (y0 + 1 + c.rng.Intn(6-y0)) * S}
			o := 1 - 2*c.rng.Intn(2)
			ring := starRing(c, 3+c.rng.Intn(10), [2]int{7, 7}, 6)
			if ring == nil {
				continue
			}
			ring = orient(ring, o)
			c16Unclosed, c16AsCollection = c.rng.Intn(3) == 0, c.rng.Intn(3) == 0
			switch c.rng.Intn(11) {
			case 0, 1:
				c16Smart(c, []string{"Ring", "Geometry"}[c.rng.Intn(2)], box, [][][][2]int{{closed(scale60(ring))}}, o)
			case 9, 10: // a comb: a spine left of the box with two or three teeth reaching into it, so that the outer ring is
				// cut into several pieces; small holes inside the teeth (each must end up in the piece that contains it)
				nt := 2 + c.rng.Intn(2)
				bxl := 2           // the box's left side, between the spine (x <= 1) and the tooth ends
				var outer [][2]int // counter-clockwise: up the right side tooth by tooth, back down the spine
				outer = append(outer, [2]int{0, 0}, [2]int{1, 0})
				var holes [][][2]int
				y := 0
				for t := 0; t < nt; t++ {
					y0 := y + c.rng.Intn(2)
					if t == 0 {
						y0 = 0
					}
					y1 := y0 + 1 + c.rng.Intn(2)
					xe := 4 + c.rng.Intn(3)
					if t == 0 {
						outer = outer[:1]
						outer = append(outer, [2]int{xe, 0})
					} else {
						outer = append(outer, [2]int{1, y0}, [2]int{xe, y0})
					}
					outer = append(outer, [2]int{xe, y1}, [2]int{1, y1})
					if c.rng.Intn(3) > 0 { // a hole in this tooth, inside the box, on the 1/60 lattice
						// half a grid unit wide, so that query points of the quarter-unit lattice fall strictly inside it
						hx, hy := (bxl*4+1+c.rng.Intn((xe-bxl)*4-4))*15, (y0*4+1+c.rng.Intn((y1-y0)*4-3))*15
						h := [][2]int{{hx, hy}, {hx + 30, hy}, {hx + 30, hy + 30}, {hx, hy + 30}}
						if o > 0 {
							h = reverse2(h)
						}
						holes = append(holes, closed(h))
					}
					y = y1 + 1
				}
				top := outer[len(outer)-1][1]
				outer = outer[:len(outer)-1]
				outer = append(outer, [2]int{0, top})
				if o < 0 {
					outer = reverse2(outer)
				}
				poly := append([][][2]int{closed(scale60(outer))}, holes...)
				c16Smart(c, []string{"Polygon", "Geometry", "MultiPolygon"}[c.rng.Intn(3)], [4]int{bxl * S, -1 * S, 8 * S, (top + 1) * S}, [][][][2]int{poly}, o)
			case 2, 8: // polygon with an interior hole: a small square about the centre, kept only if it lies strictly inside
				hole := [][2]int{{3, 3}, {3, 4}, {4, 4}, {4, 3}}
				if c.rng.Intn(2) == 0 { // any unit square of the grid (its corners level with ring vertices on either side)
					hx, hy := 1+c.rng.Intn(5), 1+c.rng.Intn(5)
					hole = [][2]int{{hx, hy}, {hx, hy + 1}, {hx + 1, hy + 1}, {hx + 1, hy}}
				}
				// any vertex of the square may come first (the owner of a hole is looked up through its first vertex)
				rot := c.rng.Intn(4)
				hole = append(append([][2]int{}, hole[rot:]...), hole[:rot]...)
				if o < 0 {
					hole = reverse2(hole)
				}
				starBand = true
				for try := 0; try < 30 && !squareInside(ring, hole); try++ { // look for a ring that contains the square
					if r2 := starRing(c, 7+c.rng.Intn(6), [2]int{7, 7}, 6); r2 != nil {
						ring = orient(r2, o)
					}
				}
				starBand = false
				if !squareInside(ring, hole) {
					continue
				}
				// (through MultiPolygon too: Polygon attaches the holes of a one-piece result without looking for the owner)
				c16Smart(c, []string{"Polygon", "Geometry", "MultiPolygon", "MultiPolygon"}[c.rng.Intn(4)], box, [][][][2]int{{closed(scale60(ring)), closed(scale60(hole))}}, o)
			case 3: // multipolygon: two stars side by side, in [0,3] x [0,3] and [3,6] x [0,3] (they can touch along x = 3
				// only), each possibly with a small interior hole; boxes that swallow one member whole arise often
				r1, r2 := starRing(c, 3+c.rng.Intn(6), [2]int{3, 3}, 3), starRing(c, 3+c.rng.Intn(6), [2]int{3, 3}, 3)
				if r1 == nil || r2 == nil {
					continue
				}
				r1, r2 = orient(r1, o), orient(r2, o)
				shifted := make([][2]int, len(r2))
				for j, p := range r2 {
					shifted[j] = [2]int{p[0] + 3, p[1]}
				}
				// (members of a multi-polygon may touch in points, not along an edge - that is not a valid multi-polygon and not
				// in the property's domain: pairs whose edges on the line x = 3 overlap are left out)
				onLine := func(r [][2]int) [][2]int {
					var iv [][2]int
					for j := range r {
						a, b := r[j], r[(j+1)%len(r)]
						if a[0] == 3 && b[0] == 3 && a[1] != b[1] {
							lo, hi := a[1], b[1]
							if lo > hi {
								lo, hi = hi, lo
							}
							iv = append(iv, [2]int{lo, hi})
						}
					}
					return iv
				}
				shared := false
				for _, a := range onLine(r1) {
					for _, b := range onLine(shifted) {
						if a[0] < b[1] && b[0] < a[1] {
							shared = true
						}
					}
				}
				if shared {
					continue
				}
				p1 := [][][2]int{closed(scale60(r1))}
				p2 := [][][2]int{closed(scale60(shifted))}
				// holes: a small triangle around the star centre (1.5,1.5) resp. (4.5,1.5), on the 1/60 lattice, if inside
				hole := func(cx int) [][2]int {
					h := [][2]int{{cx - 20, 80}, {cx + 20, 80}, {cx, 110}}
					if o > 0 {
						h = reverse2(h)
					}
					return h
				}
				if h := hole(90); triInside(scale60(r1), h) {
					p1 = append(p1, closed(h))
				}
				if h := hole(270); triInside(scale60(shifted), h) {
					p2 = append(p2, closed(h))
				}
				bx := box
				if c.rng.Intn(2) == 0 { // a box containing the first member entirely and cutting the second
					bx = [4]int{-1 * S, -1 * S, (4 + c.rng.Intn(2)) * S, 4 * S}
				}
				c16Smart(c, []string{"MultiPolygon", "Geometry"}[c.rng.Intn(2)], bx, [][][][2]int{p1, p2}, o)
			case 6, 7: // two triangles sharing one vertex that lies on a box edge or corner, interiors disjoint
				bx := [4]int{2 * S, 2 * S, 6 * S, 6 * S}
				var v [2]int
				switch c.rng.Intn(5) {
				case 0:
					v = [2]int{2 + c.rng.Intn(5), 6} // top side incl. corners
				case 1:
					v = [2]int{2, 2 + c.rng.Intn(5)} // left side
				case 2:
					v = [2]int{2 + c.rng.Intn(5), 2}
				case 3:
					v = [2]int{6, 2 + c.rng.Intn(5)}
				default:
					v = [][2]int{{2, 2}, {2, 6}, {6, 2}, {6, 6}}[c.rng.Intn(4)]
				}
				tri := func() [][2]int {
					t := orient([][2]int{v, {1 + c.rng.Intn(7), 1 + c.rng.Intn(7)}, {1 + c.rng.Intn(7), 1 + c.rng.Intn(7)}}, o) // grid 1..7: differences <= 6
					return t
				}
				a, b := tri(), tri()
				if a == nil || b == nil || !trisShareOnlyVertex(a, b, v) {
					continue
				}
				c16Smart(c, "MultiPolygon", bx, [][][][2]int{{closed(scale60(a))}, {closed(scale60(b))}}, o)
			default: // open input: a run of vertices strictly inside the box with its two neighbours strictly outside
				s := float64(S)
				k := len(ring)
				inOpen := func(q [2]int) bool {
					return q[0]*S > box[0] && q[0]*S < box[2] && q[1]*S > box[1] && q[1]*S < box[3]
				}
				outClosed := func(q [2]int) bool {
					return q[0]*S < box[0] || q[0]*S > box[2] || q[1]*S < box[1] || q[1]*S > box[3]
				}
				for st := 0; st < k; st++ {
					if !outClosed(ring[st]) || !inOpen(ring[(st+1)%k]) {
						continue
					}
					path := [][2]int{ring[st]}
					j := (st + 1) % k
					for inOpen(ring[j]) && len(path) <= k {
						path = append(path, ring[j])
						j = (j + 1) % k
					}
					if !outClosed(ring[j]) || len(path) > k {
						continue
					}
					path = scale60(append(path, ring[j]))
					if c.rng.Intn(3) == 0 && outClosed(ring[st]) && outClosed(ring[(st+2)%k]) {
						// ... or no vertex inside at all: a single edge from outside to outside (the open "ring" of two vertices
						// of the package's own example), which crosses the box or passes it by
						path = scale60([][2]int{ring[st], ring[(st+2)%k]})
					}
					oo := orb.CCW
					if o < 0 {
						oo = orb.CW
					}
					e := map[string]interface{}{"k": "open", "fn": "Ring(open)", "box": box, "path": path, "o": o, "st": 15}
					setCurrent("smartclip.Ring(open)", e)
					var out orb.MultiPolygon
					site := guard(func() { out = smartclip.Ring(toBound(box, s), ringOf(path, s), oo) })
					if site != "" {
						c.emit(panicEvent("smartclip.Ring(open)", site, e))
						continue
					}
					q, ok := quantMP(out, s)
					if !ok {
						c.emit(map[string]interface{}{"k": "offlattice", "fn": "smartclip.Ring(open)", "in": e})
						continue
					}
					e["out"], e["nt"] = q, 1
					c.emit(e)
				}
			}
		}
		// (3) nested arches: thick arches standing on one side of the box, one inside the other, with a tooth under the
		// innermost one - each arch is one result polygon made of two pieces (its outer and its inner outline) whose
		// endpoints enclose the endpoints of everything under it. General position (no vertex on the box outline). The
		// figure is turned to stand on each of the four sides, in both windings, members in any order.
		for i := 0; i < c.pick(600, 12000); i++ {
			k := 1 + c.rng.Intn(3) // arches
			// figure space: feet at y = -2 (outside), the side stood on at y = 0, everything else in 0 < y < H, |x| < W
			W, H := 4*k+4, 2*k+4
			var rings [][][2]int
			for a := 1; a <= k; a++ { // arch a: outer half-width 4a+2, inner 4a; outer height 2a+2, inner 2a+1
				xo, xi, yo, yi := 4*a+2, 4*a, 2*a+2, 2*a+1
				rings = append(rings, [][2]int{{-xo, -2}, {-xi, -2}, {-xi, yi}, {xi, yi}, {xi, -2}, {xo, -2}, {xo, yo}, {-xo, yo}})
			}
			if c.rng.Intn(3) > 0 {
				rings = append(rings, [][2]int{{-1, -2}, {1, -2}, {1 + c.rng.Intn(2), 2}, {-1, 2}}) // the tooth
			}
			c.rng.Shuffle(len(rings), func(a, b int) { rings[a], rings[b] = rings[b], rings[a] })
			rot := c.rng.Intn(4)
			turn := func(p [2]int) [2]int { // quarter turns about the origin
				switch rot {
				case 1:
					return [2]int{-p[1], p[0]}
				case 2:
					return [2]int{-p[0], -p[1]}
				case 3:
					return [2]int{p[1], -p[0]}
				}
				return p
			}
			o := 1 - 2*c.rng.Intn(2)
			const off, unit = 40, 30 // shift to positive coordinates; half a grid unit per figure unit
			lat := func(p [2]int) [2]int { q := turn(p); return [2]int{(q[0] + off) * unit, (q[1] + off) * unit} }
			c0, c1 := lat([2]int{-W, 0}), lat([2]int{W, H})
			box := [4]int{c0[0], c0[1], c1[0], c1[1]}
			if box[0] > box[2] {
				box[0], box[2] = box[2], box[0]
			}
			if box[1] > box[3] {
				box[1], box[3] = box[3], box[1]
			}
			var in [][][][2]int
			for _, r := range rings {
				var rr [][2]int
				for _, p := range r {
					rr = append(rr, lat(p))
				}
				in = append(in, [][][2]int{closed(orient(rr, o))})
			}
			c16Unclosed, c16AsCollection = false, c.rng.Intn(4) == 0
			if len(in) == 1 {
				c16Smart(c, []string{"Ring", "Polygon", "Geometry"}[c.rng.Intn(3)], box, in, o)
			} else {
				c16Smart(c, []string{"MultiPolygon", "Geometry"}[c.rng.Intn(2)], box, in, o)
			}
		}
		// (3b) a hole that cuts a corner off the box without having a vertex in it: a band across the box (its long sides
		// outside or inside, its short sides outside) with a triangular hole whose three vertices lie outside the box and
		// whose long edge crosses two adjacent sides. Turned to all four corners, both windings, every entry point.
		for i := 0; i < c.pick(300, 6000); i++ {
			a, b := 1+c.rng.Intn(2), 1+c.rng.Intn(2)
			// figure space in units of 1/60: box (2,2)-(6,6), band (0,1)-(8,5), hole (6-a,1.5),(7,1.5),(7,2+b)
			outer := [][2]int{{0, 60}, {480, 60}, {480, 300}, {0, 300}}
			hole := [][2]int{{(6 - a) * 60, 90}, {420, 90}, {420, (2 + b) * 60}}
			rot := c.rng.Intn(4)
			turn := func(p [2]int) [2]int {
				x, y := p[0]-240, p[1]-240
				switch rot {
				case 1:
					x, y = -y, x
				case 2:
					x, y = -x, -y
				case 3:
					x, y = y, -x
				}
				return [2]int{x + 240, y + 240}
			}
			var ro, rh [][2]int
			for _, p := range outer {
				ro = append(ro, turn(p))
			}
			for _, p := range hole {
				rh = append(rh, turn(p))
			}
			o := 1 - 2*c.rng.Intn(2)
			poly := [][][2]int{closed(orient(ro, o)), closed(orient(rh, -o))}
			c16Unclosed, c16AsCollection = false, c.rng.Intn(4) == 0
			c16Smart(c, []string{"MultiPolygon", "Geometry", "Polygon", "MultiPolygon"}[c.rng.Intn(4)], [4]int{120, 120, 360, 360}, [][][][2]int{poly}, o)
		}
		// (3c) members of several kinds in one multi-polygon: one that crosses a side of the box and has a hole crossing the
		// same side, and two or three small ones wholly inside the box, with and without holes, in any order - what is kept
		// of one member is not written over by what is attached to another
		for i := 0; i < c.pick(300, 6000); i++ {
			rect := func(x0, y0, x1, y1 int) [][2]int { return [][2]int{{x0, y0}, {x1, y0}, {x1, y1}, {x0, y1}} }
			// figure space in units of 1/60: box (2,2)-(6,6); the crossing member reaches in over the left side
			type member struct{ outer, hole [][2]int }
			ms := []member{
				{rect(0, 150, 180, 210), rect(60, 165, 150, 195)},    // crosses x = 2, so does its hole
				{rect(210, 150, 270, 210), rect(225, 165, 255, 195)}, // inside, with a hole
				{rect(210, 240, 270, 300), rect(225, 255, 255, 285)}, // inside, with a hole
				{rect(300, 150, 330, 180), nil},                      // inside, plain
			}
			if c.rng.Intn(3) == 0 {
				ms[0].hole = nil
			}
			if c.rng.Intn(3) == 0 {
				ms[2].hole = nil
			}
			if c.rng.Intn(2) == 0 {
				ms = ms[:3]
			}
			c.rng.Shuffle(len(ms), func(a, b int) { ms[a], ms[b] = ms[b], ms[a] })
			rot := c.rng.Intn(4)
			turn := func(p [2]int) [2]int {
				x, y := p[0]-240, p[1]-240
				switch rot {
				case 1:
					x, y = -y, x
				case 2:
					x, y = -x, -y
				case 3:
					x, y = y, -x
				}
				return [2]int{x + 240, y + 240}
			}
			o := 1 - 2*c.rng.Intn(2)
			var in [][][][2]int
			for _, m := range ms {
				tr := func(r [][2]int) [][2]int {
					var out [][2]int
					for _, p := range r {
						out = append(out, turn(p))
					}
					return out
				}
				poly := [][][2]int{closed(orient(tr(m.outer), o))}
				if m.hole != nil {
					poly = append(poly, closed(orient(tr(m.hole), -o)))
				}
				in = append(in, poly)
			}
			c16Unclosed, c16AsCollection = false, c.rng.Intn(4) == 0
			c16Smart(c, []string{"MultiPolygon", "Geometry"}[c.rng.Intn(2)], [4]int{120, 120, 360, 360}, in, o)
		}
		// (4) combs at mixed scales: a rectangle around the box with one or two slits cut into it from one side, the slits
		// ending inside the box or running right through it. All edges are parallel to the axes, so the figure is handed
		// over through per-axis tables (c16Axes): the box from -2 to 3 and -1 to 2, and the two walls of a slit a few
		// 1e-17 apart next to zero (or subnormal, or a hair beside one another at 1e9) - different float64 values whose
		// distance from the box's corner is the same number. Turned to all four sides, both windings.
		for i := 0; i < c.pick(400, 8000); i++ {
			// figure space (slits come in from the left): x in {0 outer, 2 box, tip, 6 box, 8 outer}, y likewise with the slit walls
			// at distinct heights strictly between the box lines; lattice = grid x 60
			// candidate wall heights (grid 2..6 -> 120..360), all below the middle of the box: smartclip puts the midpoint of a
			// side into the rings it closes along the outline, so the tables have to map middle to middle (240 -> 0.5)
			ys := []int{130, 140, 150, 170, 190, 200, 210, 225}
			c.rng.Shuffle(len(ys), func(a, b int) { ys[a], ys[b] = ys[b], ys[a] })
			nsl := 1 + c.rng.Intn(2)
			walls := append([]int{}, ys[:2*nsl]...)
			sort.Ints(walls)
			tip := []int{180, 240, 300, 420}[c.rng.Intn(4)] // inside the box, or beyond its far side
			ring := [][2]int{{0, 0}, {480, 0}, {480, 480}, {0, 480}}
			for j := nsl - 1; j >= 0; j-- { // down the left side, top slit first
				ring = append(ring, [2]int{0, walls[2*j+1]}, [2]int{tip, walls[2*j+1]}, [2]int{tip, walls[2*j]}, [2]int{0, walls[2*j]})
			}
			// the tables: outer lines and box lines fixed, the walls squeezed together
			tight := [][]float64{{1e-17, 3e-17, 5e-17, 7e-17}, {-7e-17, -5e-17, -3e-17, -1e-17}, {5e-324, 1e-323, 1.5e-323, 2e-323},
				{0.1, 0.2, 0.3, 0.4}, {1e-17, 3e-17, 0.25, 0.25000000000000006}, {-1e-300, 1e-300, 1e-17, 0.4}}[c.rng.Intn(6)]
			yt := map[int]float64{0: -5, 120: -1, 240: 0.5, 360: 2, 480: 5}
			for j, w := range walls {
				yt[w] = tight[j]
			}
			xt := map[int]float64{0: -5, 120: -2, 180: -1, 240: 0.5, 300: 2.5, 360: 3, 420: 4, 480: 6}
			rot := c.rng.Intn(4)
			turn := func(p [2]int) [2]int { // quarter turns about the centre of the figure (240, 240)
				x, y := p[0]-240, p[1]-240
				switch rot {
				case 1:
					x, y = -y, x
				case 2:
					x, y = -x, -y
				case 3:
					x, y = y, -x
				}
				return [2]int{x + 240, y + 240}
			}
			// the tables turn with the figure: a table read backwards is negated to stay increasing
			axes := [2]map[int]float64{{}, {}}
			for k, v := range xt {
				q := turn([2]int{k, 0})
				switch rot {
				case 0:
					axes[0][q[0]] = v
				case 1:
					axes[1][q[1]] = v
				case 2:
					axes[0][q[0]] = -v
				case 3:
					axes[1][q[1]] = -v
				}
			}
			for k, v := range yt {
				q := turn([2]int{0, k})
				switch rot {
				case 0:
					axes[1][q[1]] = v
				case 1:
					axes[0][q[0]] = -v
				case 2:
					axes[1][q[1]] = -v
				case 3:
					axes[0][q[0]] = v
				}
			}
			var rr [][2]int
			for _, p := range ring {
				rr = append(rr, turn(p))
			}
			o := 1 - 2*c.rng.Intn(2)
			in := [][][][2]int{{closed(orient(rr, o))}}
			c16Unclosed, c16AsCollection = false, false
			c16Axes = &axes
			c16Smart(c, []string{"Ring", "Polygon", "MultiPolygon", "Geometry"}[c.rng.Intn(4)], [4]int{120, 120, 360, 360}, in, o)
			c16Axes = nil
		}
	})
}

// trisShareOnlyVertex: two triangles with the common vertex v whose closed regions meet in v only (exact tests)
func trisShareOnlyVertex(a, b [][2]int, v [2]int) bool {
	cross := func(p, q, r [2]int) int { return (q[0]-p[0])*(r[1]-p[1]) - (q[1]-p[1])*(r[0]-p[0]) }
	inTri := func(t [][2]int, p [2]int) bool { // closed triangle
		d1, d2, d3 := cross(t[0], t[1], p), cross(t[1], t[2], p), cross(t[2], t[0], p)
		neg := d1 < 0 || d2 < 0 || d3 < 0
		pos := d1 > 0 || d2 > 0 || d3 > 0
		return !(neg && pos)
	}
	onSeg := func(p, q, r [2]int) bool {
		return cross(p, q, r) == 0 && min(p[0], q[0]) <= r[0] && r[0] <= max(p[0], q[0]) && min(p[1], q[1]) <= r[1] && r[1] <= max(p[1], q[1])
	}
	segsMeet := func(p1, q1, p2, q2 [2]int) bool {
		d1, d2, d3, d4 := cross(p2, q2, p1), cross(p2, q2, q1), cross(p1, q1, p2), cross(p1, q1, q2)
		if ((d1 > 0 && d2 < 0) || (d1 < 0 && d2 > 0)) && ((d3 > 0 && d4 < 0) || (d3 < 0 && d4 > 0)) {
			return true
		}
		return onSeg(p2, q2, p1) || onSeg(p2, q2, q1) || onSeg(p1, q1, p2) || onSeg(p1, q1, q2)
	}
	for _, p := range a {
		if p != v && inTri(b, p) {
			return false
		}
	}
	for _, p := range b {
		if p != v && inTri(a, p) {
			return false
		}
	}
	for i := 0; i < 3; i++ {
		for j := 0; j < 3; j++ {
			a1, a2, b1, b2 := a[i], a[(i+1)%3], b[j], b[(j+1)%3]
			if (a1 == v || a2 == v) && (b1 == v || b2 == v) {
				// two edges through v: they may only meet in v (not be collinear-overlapping)
				ao, bo := a1, b1
				if a1 == v {
					ao = a2
				}
				if b1 == v {
					bo = b2
				}
				if cross(v, ao, bo) == 0 && (ao[0]-v[0])*(bo[0]-v[0])+(ao[1]-v[1])*(bo[1]-v[1]) > 0 {
					return false
				}
				continue
			}
			if segsMeet(a1, a2, b1, b2) {
				return false
			}
		}
	}
	return true
}

// triInside: the three corners of the small triangle are strictly inside the ring and no ring edge meets it
func triInside(ring, tri [][2]int) bool { return squareInside(ring, tri) }

// squareInside: every corner of the square is strictly inside the ring (exact crossing-number test) and no ring
// edge meets the closed square, so the square is an interior hole
func squareInside(ring, sq [][2]int) bool {
	cross := func(a, b, p [2]int) int { return (b[0]-a[0])*(p[1]-a[1]) - (b[1]-a[1])*(p[0]-a[0]) }
	inside := func(p [2]int) bool {
		in := false
		for i := range ring {
			a, b := ring[i], ring[(i+1)%len(ring)]
			if cross(a, b, p) == 0 && min(a[0], b[0]) <= p[0] && p[0] <= max(a[0], b[0]) && min(a[1], b[1]) <= p[1] && p[1] <= max(a[1], b[1]) {
				return false // on the boundary
			}
			lo, hi := a, b
			if lo[0] > hi[0] {
				lo, hi = hi, lo
			}
			if lo[0] <= p[0] && p[0] < hi[0] && cross(lo, hi, p) < 0 {
				in = !in
			}
		}
		return in
	}
	for _, p := range sq {
		if !inside(p) {
			return false
		}
	}
	segMeets := func(a, b, c, d [2]int) bool {
		d1, d2, d3, d4 := cross(c, d, a), cross(c, d, b), cross(a, b, c), cross(a, b, d)
		if ((d1 > 0 && d2 < 0) || (d1 < 0 && d2 > 0)) && ((d3 > 0 && d4 < 0) || (d3 < 0 && d4 > 0)) {
			return true
		}
		// touching counts as meeting: an end point of one segment lying on the other (collinear AND within its extent -
		// a ring vertex merely level with a side of the square, somewhere else on that line, does not touch it)
		on := func(p, a, b [2]int) bool {
			return min(a[0], b[0]) <= p[0] && p[0] <= max(a[0], b[0]) && min(a[1], b[1]) <= p[1] && p[1] <= max(a[1], b[1])
		}
		return (d1 == 0 && on(a, c, d)) || (d2 == 0 && on(b, c, d)) || (d3 == 0 && on(c, a, b)) || (d4 == 0 && on(d, a, b))
	}
	for i := range ring {
		for j := range sq {
			if segMeets(ring[i], ring[(i+1)%len(ring)], sq[j], sq[(j+1)%len(sq)]) {
				return false
			}
		}
	}
	return true
}
