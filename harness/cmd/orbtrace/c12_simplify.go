package main

import (
	"fmt"
	"math"

	"github.com/paulmach/orb"
	"github.com/paulmach/orb/planar"
	"github.com/paulmach/orb/simplify"
)

// C12: simplifiers. See spec/Simplify_Trace.tla. Thresholds are dyadic: t = a/4 (t^2 = a^2/16); for
// Visvalingam the area threshold is a/4 too (the code compares 2*area with 2*threshold: 2*area*16 vs 8a...).
// Simplifier values are cached and reused across calls (an operation history on one simplifier).

var c12Cache = map[string]orb.Simplifier{}

// one long-lived simplifier value per algorithm whose exported fields are set before each use (half of the calls):
// the fields, not what they were when the value was made, say what the simplifier does
var (
	c12DP  = simplify.DouglasPeucker(123)
	c12Rad = simplify.Radial(planar.Distance, 123)
	c12Vis = simplify.Visvalingam(123, 9)
	c12N   int
)

func c12Simp(alg string, a int, keep int) orb.Simplifier {
	c12N++
	if c12N%2 == 0 {
		t := float64(a) / 4
		switch alg {
		case "dp":
			c12DP.Threshold = t
			return c12DP
		case "radial":
			// the distance function is the caller's: plain distances against t, or squared distances against the squared
			// threshold - then on the same figure eight times smaller (an exact scaling), where coordinate differences
			// and squared distances below one are of different magnitude
			if c12N%4 == 0 {
				c12Rad.DistanceFunc, c12Rad.Threshold = planar.DistanceSquared, (t/8)*(t/8)
				return scaledSimp{c12Rad, 8}
			}
			c12Rad.DistanceFunc, c12Rad.Threshold = planar.Distance, t
			return c12Rad
		case "vis":
			c12Vis.Threshold, c12Vis.ToKeep = t, keep
			return c12Vis
		}
	}
	key := fmt.Sprintf("%s/%d/%d", alg, a, keep)
	if s, ok := c12Cache[key]; ok {
		return s
	}
	var s orb.Simplifier
	t := float64(a) / 4
	switch alg {
	case "dp":
		s = simplify.DouglasPeucker(t)
	case "radial":
		s = simplify.Radial(planar.Distance, t)
		if a%2 == 1 {
			s = scaledSimp{simplify.Radial(planar.DistanceSquared, (t/8)*(t/8)), 8}
		}
	case "vis":
		s = simplify.Visvalingam(t, keep)
	case "viskeep":
		s = simplify.VisvalingamKeep(keep)
	}
	c12Cache[key] = s
	return s
}

var c12Prev prevTracker
var c12Wrap int

// scaledSimp hands the inner simplifier the geometry f times smaller and scales the result back (exact for powers of
// two): the abstract result does not change, the magnitudes the code sees do.
type scaledSimp struct {
	inner orb.Simplifier
	f     float64
}

func (s scaledSimp) down(g orb.Geometry) orb.Geometry {
	return mapGeom(g, func(p orb.Point) orb.Point { return orb.Point{p[0] / s.f, p[1] / s.f} })
}
func (s scaledSimp) up(g orb.Geometry) orb.Geometry {
	if g == nil {
		return nil
	}
	return mapGeom(g, func(p orb.Point) orb.Point { return orb.Point{p[0] * s.f, p[1] * s.f} })
}
func (s scaledSimp) Simplify(g orb.Geometry) orb.Geometry { return s.up(s.inner.Simplify(s.down(g))) }
func (s scaledSimp) LineString(g orb.LineString) orb.LineString {
	return s.up(s.inner.LineString(s.down(g).(orb.LineString))).(orb.LineString)
}
func (s scaledSimp) MultiLineString(g orb.MultiLineString) orb.MultiLineString {
	return s.up(s.inner.MultiLineString(s.down(g).(orb.MultiLineString))).(orb.MultiLineString)
}
func (s scaledSimp) Ring(g orb.Ring) orb.Ring {
	return s.up(s.inner.Ring(s.down(g).(orb.Ring))).(orb.Ring)
}
func (s scaledSimp) Polygon(g orb.Polygon) orb.Polygon {
	return s.up(s.inner.Polygon(s.down(g).(orb.Polygon))).(orb.Polygon)
}
func (s scaledSimp) MultiPolygon(g orb.MultiPolygon) orb.MultiPolygon {
	return s.up(s.inner.MultiPolygon(s.down(g).(orb.MultiPolygon))).(orb.MultiPolygon)
}
func (s scaledSimp) Collection(g orb.Collection) orb.Collection {
	return s.up(s.inner.Collection(s.down(g).(orb.Collection))).(orb.Collection)
}

func c12Apply(s orb.Simplifier, kind string, generic bool, ls orb.LineString) orb.LineString {
	in := ls.Clone()
	c12Wrap++
	if generic && c12Wrap%3 == 0 {
		// the same line or ring two collections deep (and, every other time, through the typed Collection method): a
		// collection is simplified member by member, however deep
		var m orb.Geometry = in
		if kind == "ring" {
			m = orb.Ring(in)
		}
		var out orb.Geometry
		if c12Wrap%2 == 0 {
			out = s.Simplify(orb.Collection{orb.Point{1, 1}, orb.Collection{m}})
		} else {
			out = s.Collection(orb.Collection{orb.Point{1, 1}, orb.Collection{m}})
		}
		if col, ok := out.(orb.Collection); ok && len(col) == 2 {
			if inner, ok := col[1].(orb.Collection); ok && len(inner) == 1 {
				switch v := inner[0].(type) {
				case orb.LineString:
					return v
				case orb.Ring:
					return orb.LineString(v)
				}
			}
		}
		// (a member that simplifies to nothing is dropped from its collection: then the plain route below answers)
		in = ls.Clone()
	}
	if kind != "ring" && c12Wrap%3 == 1 && len(in) > 0 {
		// the line as the middle member of a multi line string, between a closed loop smaller than any threshold and a
		// two-point line: every member is simplified by itself and stays a member (its ends are kept, so it cannot vanish)
		loop := orb.LineString{{100, 100}, {100.25, 100}, {100.25, 100.25}, {100, 100}}
		mls := orb.MultiLineString{loop, in, orb.LineString{{5, 5}, {6, 7}}}
		var out orb.MultiLineString
		if generic {
			out, _ = s.Simplify(mls).(orb.MultiLineString)
		} else {
			out = s.MultiLineString(mls)
		}
		if len(out) != 3 || len(out[0]) < 2 || out[0][0] != loop[0] || out[0][len(out[0])-1] != loop[3] || len(out[2]) != 2 {
			return orb.LineString{{-999, -999}} // a member went missing or lost its ends: no model accepts this line
		}
		return out[1]
	}
	if kind == "ring" {
		if generic {
			g := s.Simplify(orb.Ring(in))
			if g == nil {
				return orb.LineString{}
			}
			return orb.LineString(g.(orb.Ring))
		}
		return orb.LineString(s.Ring(orb.Ring(in)))
	}
	if generic {
		g := s.Simplify(in)
		if g == nil {
			return orb.LineString{}
		}
		return g.(orb.LineString)
	}
	return s.LineString(in)
}

func init() {
	register("simplify", func(c *ctx) {
		ths := []int{0, 1, 2, 3, 5, 7, 10, 40, 200}
		emit := func(ls orb.LineString, alg, kind string, generic bool, ai int, keep int, exact bool) {
			a := ths[ai]
			b := a + 1 + c.rng.Intn(12)
			ok := true
			e := map[string]interface{}{"k": "simp", "alg": alg, "kind": kind, "in": encPts(ls, intFn, &ok), "n": a * a, "d": 16,
				"keep": keep, "exact": 0, "again": [][2]int{}, "bigger": [][2]int{}}
			if alg == "vis" {
				// the code removes while 2*area <= 2*threshold, i.e. (2*area) * 4 <= 2a: numerator 2a over denominator 4
				e["n"], e["d"] = 2*a, 4
			}
			keepCopy := ls.Clone()
			setCurrent("simplify."+alg, e)
			site := guard(func() {
				var out orb.LineString
				switch {
				case alg == "vis" && exact:
					e["exact"] = 1
					out = c12Apply(c12Simp("viskeep", 0, keep), kind, generic, ls)
					e["bigger"] = encPts(out, intFn, &ok)
				case alg == "vis":
					out = c12Apply(c12Simp("vis", a, keep), kind, generic, ls)
					e["bigger"] = encPts(c12Apply(c12Simp("vis", b, keep), kind, generic, ls), intFn, &ok)
				case alg == "dp":
					out = c12Apply(c12Simp("dp", a, 0), kind, generic, ls)
					e["again"] = encPts(c12Apply(c12Simp("dp", a, 0), kind, generic, out), intFn, &ok)
					e["bigger"] = encPts(c12Apply(c12Simp("dp", b, 0), kind, generic, ls), intFn, &ok)
				default:
					out = c12Apply(c12Simp("radial", a, 0), kind, generic, ls)
				}
				e["out"] = encPts(out, intFn, &ok)
				e["pstable"] = c12Prev.check(out)
			})
			if site != "" {
				c.emit(panicEvent("simplify."+alg, site, e))
				return
			}
			e["inafter"] = encPts(keepCopy, intFn, &ok)
			if out, _ := e["out"].([][2]int); len(out) < len(ls) {
				e["nt"] = 1
			}
			c.emit(e)
		}
		// (1) exhaustive: every path of <= K vertices on a 4x4 grid (K = 4 quick, 5 thorough) x algorithms x a few thresholds
		K := c.pick(4, 5)
		var rec func(prefix orb.LineString)
		cnt := 0
		rec = func(prefix orb.LineString) {
			cnt++
			for _, alg := range []string{"dp", "radial", "vis"} {
				emit(prefix, alg, "line", cnt%2 == 0, 1+cnt%5, 0, false)
			}
			if cnt%3 == 0 {
				emit(prefix, "vis", "ring", cnt%2 == 1, 8, 0, false)
			}
			if len(prefix) >= K {
				return
			}
			for i := 0; i < 16; i++ {
				rec(append(prefix.Clone(), orb.Point{float64(i % 4), float64(i / 4)}))
			}
		}
		rec(orb.LineString{})
		// (1b) lines whose farthest vertex keeps falling near one end of the remaining range (damped zig-zags, spirals,
		// staircases): the recursion of Douglas-Peucker nests linearly, the Visvalingam heap is updated at one end
		for i := 0; i < c.pick(400, 6000); i++ {
			k := 20 + c.rng.Intn(30)
			ls := orb.LineString{}
			switch i % 3 {
			case 0: // damped zig-zag
				for j := 0; j < k; j++ {
					amp := float64((k - j) / 2)
					if j%2 == 1 {
						amp = -amp
					}
					ls = append(ls, orb.Point{float64(j), amp})
				}
			case 1: // square spiral inwards
				x, y, dx, dy, run := 0.0, 0.0, 1.0, 0.0, float64(k/3+2)
				for j := 0; j < k && run > 0; j++ {
					ls = append(ls, orb.Point{x, y})
					x, y = x+dx*run, y+dy*run
					dx, dy = -dy, dx
					if j%2 == 1 {
						run--
					}
				}
			default: // growing zig-zag (the mirror image)
				for j := 0; j < k; j++ {
					amp := float64(j / 2)
					if j%2 == 1 {
						amp = -amp
					}
					ls = append(ls, orb.Point{float64(j), amp})
				}
			}
			if c.rng.Intn(2) == 0 {
				for a, b := 0, len(ls)-1; a < b; a, b = a+1, b-1 {
					ls[a], ls[b] = ls[b], ls[a]
				}
			}
			for _, alg := range []string{"dp", "radial", "vis"} {
				emit(ls, alg, "line", i%2 == 0, c.rng.Intn(len(ths)), 0, false)
			}
		}
		// (2) seeded paths to 40 vertices with repeated, collinear and coincident-endpoint vertices
		n := c.pick(15000, 300000)
		for i := 0; i < n; i++ {
			k := c.rng.Intn(9)
			if i%10 == 0 {
				k = c.rng.Intn(41)
			}
			ls := orb.LineString{}
			for j := 0; j < k; j++ {
				switch {
				case j > 0 && c.rng.Intn(6) == 0:
					ls = append(ls, ls[j-1]) // repeated vertex
				case j > 1 && c.rng.Intn(6) == 0: // collinear continuation
					ls = append(ls, orb.Point{2*ls[j-1][0] - ls[j-2][0], 2*ls[j-1][1] - ls[j-2][1]})
				default:
					ls = append(ls, orb.Point{float64(c.rng.Intn(9)), float64(c.rng.Intn(9))})
				}
				if math.Abs(ls[j][0]) > 30 || math.Abs(ls[j][1]) > 30 { // keeps cross products squared inside 32 bits
					ls[j] = orb.Point{0, 0}
				}
			}
			kind := "line"
			if k > 2 && c.rng.Intn(4) == 0 {
				ls[k-1] = ls[0] // coincident endpoints / closed ring
			}
			if c.rng.Intn(3) == 0 {
				kind = "ring"
			}
			ai := c.rng.Intn(len(ths))
			generic := c.rng.Intn(2) == 0
			switch c.rng.Intn(4) {
			case 0:
				emit(ls, "dp", kind, generic, ai, 0, false)
			case 1:
				emit(ls, "radial", kind, generic, ai, 0, false)
			case 2:
				keep := 0
				if c.rng.Intn(2) == 0 {
					keep = 2 + c.rng.Intn(5)
				}
				emit(ls, "vis", kind, generic, ai, keep, false)
			default:
				keep := 2 + c.rng.Intn(5)
				if c.rng.Intn(4) == 0 {
					keep = 0 // VisvalingamKeep(0): the minimum for the kind (2 for lines, 3 / 4 for open / closed rings)
				}
				emit(ls, "vis", kind, generic, ai, keep, true)
			}
		}
	})
}
