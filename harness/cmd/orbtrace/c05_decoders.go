package main

import (
	"bytes"
	"compress/gzip"
	"encoding/binary"
	"encoding/hex"
	"encoding/json"
	"fmt"
	"math"
	"runtime"
	"sort"
	"strconv"
	"strings"

	"github.com/paulmach/orb"
	"github.com/paulmach/orb/encoding/ewkb"
	"github.com/paulmach/orb/encoding/mvt"
	"github.com/paulmach/orb/encoding/mvt/vectortile"
	"github.com/paulmach/orb/encoding/wkb"
	"github.com/paulmach/orb/encoding/wkt"
	"github.com/paulmach/orb/geojson"
	"go.mongodb.org/mongo-driver/bson"
	"go.mongodb.org/mongo-driver/bson/primitive"
)

// C05: every decoder on hostile input. See spec/Decoders_Trace.tla.

type decRes struct {
	Path string `json:"path"`
	Out  string `json:"out"`
	VH   int    `json:"vh"`
	Srid int    `json:"srid"`
}

var c05Hash = map[string]int{}

// exactBits serialises a geometry by kind and float bit patterns (NaN payloads and -0 distinguished)
func exactBits(g orb.Geometry) int {
	var sb strings.Builder
	var w func(g orb.Geometry)
	pts := func(ps []orb.Point) {
		fmt.Fprintf(&sb, "[%d:", len(ps))
		for _, p := range ps {
			fmt.Fprintf(&sb, "%x,%x;", math.Float64bits(p[0]), math.Float64bits(p[1]))
		}
		sb.WriteString("]")
	}
	w = func(g orb.Geometry) {
		switch v := g.(type) {
		case nil:
			sb.WriteString("nil")
		case orb.Point:
			sb.WriteString("P")
			pts([]orb.Point{v})
		case orb.MultiPoint:
			sb.WriteString("MP")
			pts(v)
		case orb.LineString:
			sb.WriteString("LS")
			pts(v)
		case orb.Ring:
			sb.WriteString("R")
			pts(v)
		case orb.MultiLineString:
			fmt.Fprintf(&sb, "MLS%d", len(v))
			for _, l := range v {
				pts(l)
			}
		case orb.Polygon:
			fmt.Fprintf(&sb, "PG%d", len(v))
			for _, l := range v {
				pts(l)
			}
		case orb.MultiPolygon:
			fmt.Fprintf(&sb, "MPG%d", len(v))
			for _, p := range v {
				fmt.Fprintf(&sb, "(%d", len(p))
				for _, l := range p {
					pts(l)
				}
				sb.WriteString(")")
			}
		case orb.Collection:
			fmt.Fprintf(&sb, "C%d(", len(v))
			for _, m := range v {
				w(m)
				sb.WriteString("|")
			}
			sb.WriteString(")")
		case orb.Bound:
			sb.WriteString("B")
			pts([]orb.Point{v.Min, v.Max})
		}
	}
	w(g)
	s := sb.String()
	id, ok := c05Hash[s]
	if !ok {
		id = len(c05Hash) + 1
		c05Hash[s] = id
	}
	return id
}

// measure runs f with the panic guard and returns the bytes allocated meanwhile (single-threaded harness).
func measure(f func()) (site string, alloc int) {
	var m0, m1 runtime.MemStats
	runtime.ReadMemStats(&m0)
	site = guard(f)
	runtime.ReadMemStats(&m1)
	return site, int(m1.TotalAlloc - m0.TotalAlloc)
}

func outOf(err error) string {
	if err != nil {
		return "err"
	}
	return "ok"
}

// c05Wkb runs every WKB / EWKB decode path on the bytes and emits one wkbdec event.
func c05Wkb(c *ctx, data []byte, enum int) {
	var res []decRes
	anyok, stable := 0, 1
	note := func(path string, g orb.Geometry, srid int, err error) {
		r := decRes{Path: path, Out: outOf(err), Srid: srid}
		if err == nil {
			anyok = 1
			r.VH = exactBits(g)
			// re-encode / decode stability (nil geometries encode to nothing)
			if g != nil {
				b2, e2 := ewkb.Marshal(g, srid)
				if e2 != nil {
					stable = 0
				} else if len(b2) == 0 {
					stable = 0 // a decoded value that encodes to nothing cannot be decoded again
				} else {
					g2, s2, e3 := ewkb.Unmarshal(b2)
					if e3 != nil || s2 != srid || exactBits(g2) != exactBits(canonForStable(g)) {
						stable = 0
					}
				}
			}
		}
		res = append(res, r)
	}
	setCurrent("wkb decoders", hex.EncodeToString(data))
	site, alloc := measure(func() {
		cp := func() []byte { return append([]byte{}, data...) }
		g, err := wkb.Unmarshal(cp())
		note("wkb.Unmarshal", g, 0, err)
		g, err = wkb.NewDecoder(bytes.NewReader(data)).Decode()
		note("wkb.Decoder", g, 0, err)
		g, s, err := ewkb.Unmarshal(cp())
		note("ewkb.Unmarshal", g, s, err)
		g, s, err = ewkb.NewDecoder(bytes.NewReader(data)).Decode()
		note("ewkb.Decoder", g, s, err)
		if len(data) > 0 {
			ws := wkb.Scanner(nil)
			err = ws.Scan(cp())
			note("wkb.Scanner", ws.Geometry, 0, err)
			es := ewkb.Scanner(nil)
			err = es.Scan(cp())
			note("ewkb.Scanner", es.Geometry, es.SRID, err)
			// typed destinations and the hex framing: outcome only (coercions are C01's subject)
			for _, d := range wkbDests[1:] {
				dest, _ := d.mk()
				_ = wkb.Scanner(dest).Scan(cp())
				dest, _ = d.mk()
				_ = ewkb.Scanner(dest).Scan(cp())
				dest, _ = d.mk()
				_ = ewkb.ScannerPrefixSRID(dest).Scan(cp())
			}
			_ = ewkb.Scanner(nil).Scan([]byte(hex.EncodeToString(data)))
		}
		// scanners that live across inputs (a rows.Scan loop): each input arrives after a well-formed row with a 4-byte
		// SRID prefix, and after the previous input - whatever a scanner remembers of earlier rows, this one is decoded
		// or refused, nothing else
		_ = c05KeptW.Scan(append([]byte{}, c05PrefixedRow...))
		_ = c05KeptW.Scan(cp())
		_ = c05KeptE.Scan(append([]byte{}, c05PrefixedRow...))
		_ = c05KeptE.Scan(cp())
		_ = c05KeptP.Scan(append([]byte{}, c05PrefixedRow...))
		_ = c05KeptP.Scan(cp())
	})
	if site != "" {
		c.emit(panicEvent("wkb decoders", site, hex.EncodeToString(data)))
		return
	}
	// the scanner paths disagree with the bare decoders by design on the deprecated SRID-prefix retry;
	// compare srid only among the ewkb paths, value among all
	e := map[string]interface{}{"k": "wkbdec", "bytes": bytesToInts(data), "res": normSrid(res), "alloc": alloc, "len": len(data), "anyok": anyok, "stable": stable, "nt": anyok, "enum": enum}
	c.emit(e)
}

// long-lived scanners and the prefixed row they see before every input (SRID 4326, little endian, POINT(1 2))
var (
	c05KeptW       = wkb.Scanner(nil)
	c05KeptE       = ewkb.Scanner(nil)
	c05KeptP       = ewkb.ScannerPrefixSRID(nil)
	c05PrefixedRow = append([]byte{0xe6, 0x10, 0, 0}, wkb.MustMarshal(orb.Point{1, 2})...)
)

// normSrid: the wkb (non-E) paths do not report a SRID; give them the SRID of the ewkb byte decoder so that
// the event's "same SRID" clause compares like with like.
func normSrid(res []decRes) []decRes {
	s := 0
	for _, r := range res {
		if r.Path == "ewkb.Unmarshal" {
			s = r.Srid
		}
	}
	for i := range res {
		if strings.HasPrefix(res[i].Path, "wkb.") {
			res[i].Srid = s
		}
	}
	return res
}

func canonForStable(g orb.Geometry) orb.Geometry {
	switch v := g.(type) {
	case orb.Ring:
		return orb.Polygon{v}
	case orb.Bound:
		return v.ToPolygon()
	}
	return g
}

var c05WktParsers = []struct {
	name string
	f    func(s string) error
}{
	{"UnmarshalPoint", func(s string) error { _, err := wkt.UnmarshalPoint(s); return err }},
	{"UnmarshalMultiPoint", func(s string) error { _, err := wkt.UnmarshalMultiPoint(s); return err }},
	{"UnmarshalLineString", func(s string) error { _, err := wkt.UnmarshalLineString(s); return err }},
	{"UnmarshalMultiLineString", func(s string) error { _, err := wkt.UnmarshalMultiLineString(s); return err }},
	{"UnmarshalPolygon", func(s string) error { _, err := wkt.UnmarshalPolygon(s); return err }},
	{"UnmarshalMultiPolygon", func(s string) error { _, err := wkt.UnmarshalMultiPolygon(s); return err }},
	{"UnmarshalCollection", func(s string) error { _, err := wkt.UnmarshalCollection(s); return err }},
}

// numbersToTokens rewrites coordinate ids of an encGeom tree into the "#id" tokens of Wkt.tla
func numbersToTokens(v interface{}) interface{} {
	switch t := v.(type) {
	case map[string]interface{}:
		out := map[string]interface{}{}
		for k, x := range t {
			out[k] = numbersToTokens(x)
		}
		return out
	case []interface{}:
		out := make([]interface{}, len(t))
		for i := range t {
			out[i] = numbersToTokens(t[i])
		}
		return out
	case float64:
		return "#" + strconv.Itoa(int(t))
	}
	return v
}

func c05Wkt(c *ctx, toks []string) {
	text := strings.Join(toks, "")
	in := newWkbIntern()
	spec := make([]string, len(toks))
	for i, tk := range toks {
		if f, err := strconv.ParseFloat(tk, 64); err == nil && !strings.ContainsAny(tk, "xXnNiI") {
			spec[i] = "#" + strconv.Itoa(in.id(f))
		} else {
			spec[i] = tk
		}
	}
	e := map[string]interface{}{"k": "wktdec", "tokens": spec, "text": text, "len": len(text)}
	var res []decRes
	var g orb.Geometry
	var err error
	setCurrent("wkt parsers", text)
	site, alloc := measure(func() {
		g, err = wkt.Unmarshal(text)
		for _, p := range c05WktParsers {
			res = append(res, decRes{Path: p.name, Out: outOf(p.f(text))})
		}
	})
	if site != "" {
		c.emit(panicEvent("wkt parsers", site, text))
		return
	}
	e["out"], e["res"], e["alloc"] = outOf(err), res, alloc
	gm, _ := encGeom(g, in.fn())
	raw, _ := json.Marshal(gm)
	var tree interface{}
	json.Unmarshal(raw, &tree)
	e["v"] = numbersToTokens(tree)
	if err == nil {
		e["nt"] = 1
	}
	c.emit(e)
}

func c05Mvt(c *ctx, typ int, words []uint32) {
	name, ver, ext := "l", uint32(2), uint32(4096)
	gt := vectortile.Tile_GeomType(typ)
	tile := &vectortile.Tile{Layers: []*vectortile.Tile_Layer{{Name: &name, Version: &ver, Extent: &ext,
		Features: []*vectortile.Tile_Feature{{Type: &gt, Geometry: words}}}}}
	data, merr := tile.Marshal()
	if merr != nil {
		fatal(merr)
	}
	ws := make([]int, len(words))
	for i, w := range words {
		ws[i] = int(w)
	}
	e := map[string]interface{}{"k": "mvtdec", "type": typ, "words": ws, "len": len(data)}
	var layers mvt.Layers
	var err error
	setCurrent("mvt.Unmarshal", e)
	site, alloc := measure(func() { layers, err = mvt.Unmarshal(data) })
	if site != "" {
		c.emit(panicEvent("mvt.Unmarshal", site, e))
		return
	}
	e["out"], e["alloc"] = outOf(err), alloc
	var g orb.Geometry
	if err == nil && len(layers) == 1 && len(layers[0].Features) == 1 {
		g = layers[0].Features[0].Geometry
		e["nt"] = 1
	}
	e["v"], _ = encGeom(g, intFn)
	c.emit(e)
}

// c05Raw runs a set of decoders on arbitrary bytes; only value-or-error and the allocation bound are judged.
func c05Raw(c *ctx, fn string, data []byte, decs map[string]func([]byte) error) {
	var res []decRes
	names := make([]string, 0, len(decs))
	for k := range decs {
		names = append(names, k)
	}
	sort.Strings(names)
	setCurrent(fn, hex.EncodeToString(data))
	site, alloc := measure(func() {
		for _, k := range names {
			res = append(res, decRes{Path: k, Out: outOf(decs[k](append([]byte{}, data...)))})
		}
	})
	if site != "" {
		c.emit(panicEvent(fn, site, hex.EncodeToString(data)))
		return
	}
	c.emit(map[string]interface{}{"k": "raw", "fn": fn, "res": res, "alloc": alloc, "len": len(data), "nt": 1})
}

var c05MvtDecs = map[string]func([]byte) error{
	"mvt.Unmarshal":        func(b []byte) error { _, err := mvt.Unmarshal(b); return err },
	"mvt.UnmarshalGzipped": func(b []byte) error { _, err := mvt.UnmarshalGzipped(b); return err },
	// the message types of the vectortile package are exported with their Unmarshal methods: decoders the library exposes
	"vectortile.Tile":         func(b []byte) error { return (&vectortile.Tile{}).Unmarshal(b) },
	"vectortile.Tile_Layer":   func(b []byte) error { return (&vectortile.Tile_Layer{}).Unmarshal(b) },
	"vectortile.Tile_Feature": func(b []byte) error { return (&vectortile.Tile_Feature{}).Unmarshal(b) },
	"vectortile.Tile_Value":   func(b []byte) error { return (&vectortile.Tile_Value{}).Unmarshal(b) },
}

var c05JSONDecs = map[string]func([]byte) error{
	"geojson.UnmarshalGeometry":          func(b []byte) error { _, err := geojson.UnmarshalGeometry(b); return err },
	"geojson.UnmarshalFeature":           func(b []byte) error { _, err := geojson.UnmarshalFeature(b); return err },
	"geojson.UnmarshalFeatureCollection": func(b []byte) error { _, err := geojson.UnmarshalFeatureCollection(b); return err },
	"geojson.Point":                      func(b []byte) error { var v geojson.Point; return v.UnmarshalJSON(b) },
	"geojson.MultiPoint":                 func(b []byte) error { var v geojson.MultiPoint; return v.UnmarshalJSON(b) },
	"geojson.LineString":                 func(b []byte) error { var v geojson.LineString; return v.UnmarshalJSON(b) },
	"geojson.MultiLineString":            func(b []byte) error { var v geojson.MultiLineString; return v.UnmarshalJSON(b) },
	"geojson.Polygon":                    func(b []byte) error { var v geojson.Polygon; return v.UnmarshalJSON(b) },
	"geojson.MultiPolygon":               func(b []byte) error { var v geojson.MultiPolygon; return v.UnmarshalJSON(b) },
}

var c05BSONDecs = map[string]func([]byte) error{
	"bson.Geometry":          func(b []byte) error { return bson.Unmarshal(b, &geojson.Geometry{}) },
	"bson.Feature":           func(b []byte) error { return bson.Unmarshal(b, &geojson.Feature{}) },
	"bson.FeatureCollection": func(b []byte) error { return bson.Unmarshal(b, &geojson.FeatureCollection{}) },
	"bson.Point":             func(b []byte) error { var v geojson.Point; return v.UnmarshalBSON(b) },
	"bson.Polygon":           func(b []byte) error { var v geojson.Polygon; return v.UnmarshalBSON(b) },
}

func init() {
	// (R) the enumerated spaces: TLC-generated WKB headers (+ every truncation), WKT sentences, MVT command words
	register("decenum", func(c *ctx) {
		var raws []string
		readCases(c.cases, func(raw json.RawMessage) { raws = append(raws, string(raw)) })
		sort.Strings(raws)
		for _, r := range raws {
			var cs struct {
				C json.RawMessage `json:"c"`
			}
			if err := json.Unmarshal([]byte(r), &cs); err != nil {
				fatal(err)
			}
			var hdr []struct {
				O   int    `json:"o"`
				Ty  [4]int `json:"ty"`
				Cnt [4]int `json:"cnt"`
				Pay string `json:"pay"`
			}
			if json.Unmarshal(cs.C, &hdr) == nil && len(hdr) == 1 && hdr[0].Pay != "" {
				h := hdr[0]
				le := h.O == 1
				word := func(w [4]int) []byte {
					b := []byte{byte(w[0]), byte(w[1]), byte(w[2]), byte(w[3])}
					if le {
						b[0], b[1], b[2], b[3] = b[3], b[2], b[1], b[0]
					}
					return b
				}
				data := append([]byte{byte(h.O)}, word(h.Ty)...)
				if h.Ty[0]&32 != 0 {
					data = append(data, word([4]int{0, 0, 16, 230})...) // srid 4326
				}
				data = append(data, word(h.Cnt)...)
				pt := make([]byte, 16)
				binary.LittleEndian.PutUint64(pt, math.Float64bits(1.5))
				binary.LittleEndian.PutUint64(pt[8:], math.Float64bits(-2))
				switch h.Pay {
				case "point":
					data = append(data, pt...)
				case "short":
					data = append(data, pt[:7]...)
				case "points2":
					data = append(append(data, pt...), pt...)
				case "member": // a well-formed point member in the same byte order
					data = append(append(data, byte(h.O)), word([4]int{0, 0, 0, 1})...)
					data = append(data, pt...)
				}
				for n := 0; n <= len(data); n++ { // every truncation point
					c05Wkb(c, data[:n], 1)
				}
				continue
			}
			var toks []string
			if json.Unmarshal(cs.C, &toks) == nil && len(toks) > 0 {
				c05Wkt(c, toks)
				continue
			}
			var words []uint32
			if json.Unmarshal(cs.C, &words) == nil && len(words) > 0 {
				for typ := 1; typ <= 3; typ++ {
					c05Mvt(c, typ, words)
				}
				continue
			}
			fatal("unrecognised case " + r)
		}
	})
	// every 0-2 byte tile, and seeded structure-aware mutations of valid encodings of generated geometries
	register("decmut", func(c *ctx) {
		c05Raw(c, "mvt(bytes)", []byte{}, c05MvtDecs)
		stride := c.pick(7, 1)
		for a := 0; a < 256; a++ {
			c05Raw(c, "mvt(bytes)", []byte{byte(a)}, c05MvtDecs)
			for b := 0; b < 256; b++ {
				if (a*256+b)%stride == 0 {
					c05Raw(c, "mvt(bytes)", []byte{byte(a), byte(b)}, c05MvtDecs)
				}
			}
		}
		// features whose tag indices run up to and past the ends of the key / value tables (incl. an odd tag count)
		for nk := 0; nk <= 2; nk++ {
			for nv := 0; nv <= 2; nv++ {
				for _, tags := range [][]uint32{{0, 0}, {1, 0}, {0, 1}, {2, 2}, {3, 0}, {0, 3}, {2147483647, 0}, {0}, {1, 1, 2}, {}} {
					name, ver, ext := "l", uint32(2), uint32(4096)
					gt := vectortile.Tile_POINT
					layer := &vectortile.Tile_Layer{Name: &name, Version: &ver, Extent: &ext,
						Features: []*vectortile.Tile_Feature{{Type: &gt, Geometry: []uint32{9, 2, 2}, Tags: tags}}}
					for i := 0; i < nk; i++ {
						layer.Keys = append(layer.Keys, fmt.Sprintf("k%d", i))
					}
					for i := 0; i < nv; i++ {
						sv := fmt.Sprintf("v%d", i)
						layer.Values = append(layer.Values, &vectortile.Tile_Value{StringValue: &sv})
					}
					data, err := (&vectortile.Tile{Layers: []*vectortile.Tile_Layer{layer}}).Marshal()
					if err != nil {
						fatal(err)
					}
					c05Raw(c, "mvt(tags)", data, c05MvtDecs)
				}
			}
		}
		mutate := func(data []byte) []byte {
			d := append([]byte{}, data...)
			if len(d) == 0 {
				return d
			}
			switch c.rng.Intn(6) {
			case 0:
				return d[:c.rng.Intn(len(d))] // truncate
			case 1: // bit flip
				d[c.rng.Intn(len(d))] ^= 1 << uint(c.rng.Intn(8))
			case 2: // count inflation: overwrite 4 bytes with a huge count
				if len(d) >= 9 {
					off := 5 + c.rng.Intn(len(d)-8)
					copy(d[off:], []byte{0xff, 0xff, 0xff, 0x7f})
				}
			case 3: // splice
				i, j := c.rng.Intn(len(d)), c.rng.Intn(len(d))
				if i > j {
					i, j = j, i
				}
				d = append(append(append([]byte{}, d[:i]...), d[j:]...), d[i:j]...)
			case 4: // nesting: wrap into a collection header
				d = append([]byte{1, 7, 0, 0, 0, 1, 0, 0, 0}, d...)
			default: // duplicate a chunk
				i := c.rng.Intn(len(d))
				d = append(d, d[i:]...)
			}
			return d
		}
		n := c.pick(6000, 150000)
		for i := 0; i < n; i++ {
			g := randGeom(c, 3, 5, func() float64 { return float64(c.rng.Intn(2000))/10 - 100 })
			switch i % 5 {
			case 0:
				b, _ := ewkb.Marshal(g, c.rng.Intn(2)*4326)
				c05Wkb(c, mutate(b), 0)
			case 1:
				if !wktPrintable(g) {
					continue
				}
				text := string(mutate([]byte(wkt.MarshalString(g))))
				decs := map[string]func([]byte) error{"wkt.Unmarshal": func(b []byte) error { _, err := wkt.Unmarshal(string(b)); return err }}
				for _, p := range c05WktParsers {
					p := p
					decs["wkt."+p.name] = func(b []byte) error { return p.f(string(b)) }
				}
				c05Raw(c, "wkt(mutant)", []byte(text), decs)
			case 2:
				fc := geojson.NewFeatureCollection()
				fc.Append(geojson.NewFeature(g))
				var b []byte
				var err error
				// the encoder is not the subject here (empty parts are outside its domain): skip what it refuses
				if site := guard(func() { b, err = mvt.Marshal(mvt.Layers{mvt.NewLayer("l", fc)}) }); site != "" || err != nil {
					continue
				}
				c05Raw(c, "mvt(mutant)", mutate(b), c05MvtDecs)
			case 3: // GeoJSON documents: member deletion / duplication / depth change / null members via text edits
				b, err := geojson.NewFeature(g).MarshalJSON()
				if err != nil {
					continue
				}
				s := string(b)
				switch c.rng.Intn(7) {
				case 0:
					s = strings.Replace(s, `"coordinates":`, `"coords":`, 1)
				case 1:
					s = strings.Replace(s, `"coordinates":[`, `"coordinates":[[`, 1)
				case 2:
					s = strings.Replace(s, `[`, `null,[`, 1)
				case 3:
					s = strings.Replace(s, `"type":"`, `"type":"x`, 1)
				case 4:
					s = strings.Replace(s, `"geometries":[`, `"geometries":[null,`, 1)
				case 5:
					s = string(mutate([]byte(s)))
				default:
					s = strings.Replace(s, `"geometry":{`, `"geometry":{"type":"Point",`, 1)
				}
				c05Raw(c, "geojson(mutant)", []byte(s), c05JSONDecs)
				if gi := strings.Index(s, `"geometry":`); gi >= 0 { // the geometry member alone, for the geometry / helper entry points
					c05Raw(c, "geojson(mutant)", []byte(strings.TrimSuffix(s[gi+11:], "}")), c05JSONDecs)
				}
			default:
				b, err := bson.Marshal(geojson.NewFeature(g))
				if err != nil {
					continue
				}
				c05Raw(c, "bson(mutant)", mutate(b), c05BSONDecs)
				gb, err := bson.Marshal(geojson.NewGeometry(g))
				if err == nil {
					c05Raw(c, "bson(mutant)", mutate(gb), c05BSONDecs)
				}
			}
		}
		// well-formed BSON documents whose members have the wrong kind (a number, null, a document, binary data, an array, a
		// boolean or a string where something else belongs), at the top level and one level down, for every BSON entry point
		{
			wrong := func() interface{} {
				switch c.rng.Intn(10) {
				case 0:
					return int32(5)
				case 1:
					return 3.5
				case 2:
					return nil
				case 3:
					return bson.M{"a": int32(1)}
				case 4:
					return primitive.Binary{Subtype: 0, Data: []byte{1, 2, 3}}
				case 5:
					return bson.A{int32(1), "a"}
				case 6:
					return true
				case 7:
					return "Point"
				case 8:
					return int64(1) << 40
				}
				return bson.A{}
			}
			pick := func(good interface{}) interface{} {
				if c.rng.Intn(3) == 0 {
					return wrong()
				}
				return good
			}
			for i := 0; i < c.pick(1500, 30000); i++ {
				geom := bson.M{"type": pick("Point"), "coordinates": pick(bson.A{1.0, 2.0})}
				if c.rng.Intn(4) == 0 {
					geom = bson.M{"type": pick("GeometryCollection"), "geometries": pick(bson.A{bson.M{"type": pick("Point"), "coordinates": pick(bson.A{1.0, 2.0})}})}
				}
				feat := bson.M{"type": pick("Feature"), "geometry": pick(geom), "properties": pick(bson.M{"k": "v"})}
				if c.rng.Intn(2) == 0 {
					feat["id"] = wrong()
				}
				if c.rng.Intn(3) == 0 {
					feat["bbox"] = pick(bson.A{0.0, 0.0, 1.0, 1.0})
				}
				var doc bson.M
				switch c.rng.Intn(3) {
				case 0:
					doc = geom
				case 1:
					doc = feat
				default:
					doc = bson.M{"type": pick("FeatureCollection"), "features": pick(bson.A{pick(feat)})}
					if c.rng.Intn(3) == 0 {
						doc["bbox"] = wrong()
					}
					if c.rng.Intn(3) == 0 {
						doc["extra"] = wrong()
					}
				}
				b, err := bson.Marshal(doc)
				if err != nil {
					continue
				}
				c05Raw(c, "bson(members)", b, c05BSONDecs)
			}
		}
		// stress shapes: deep nesting with inflated counts, very many tiny parts, and short hex strings for every scanner
		wkbAll := map[string]func([]byte) error{
			"wkb.Unmarshal":          func(b []byte) error { _, err := wkb.Unmarshal(b); return err },
			"ewkb.Unmarshal":         func(b []byte) error { _, _, err := ewkb.Unmarshal(b); return err },
			"wkb.Decoder":            func(b []byte) error { _, err := wkb.NewDecoder(bytes.NewReader(b)).Decode(); return err },
			"ewkb.Decoder":           func(b []byte) error { _, _, err := ewkb.NewDecoder(bytes.NewReader(b)).Decode(); return err },
			"wkb.Scanner":            func(b []byte) error { return wkb.Scanner(nil).Scan(b) },
			"ewkb.Scanner":           func(b []byte) error { return ewkb.Scanner(nil).Scan(b) },
			"ewkb.ScannerPrefixSRID": func(b []byte) error { return ewkb.ScannerPrefixSRID(nil).Scan(b) },
			"ewkb.ScannerPrefixSRID(*Point)": func(b []byte) error {
				var p orb.Point
				return ewkb.ScannerPrefixSRID(&p).Scan(b)
			},
			"wkb.Scanner(*MultiPolygon)": func(b []byte) error {
				var p orb.MultiPolygon
				return wkb.Scanner(&p).Scan(b)
			},
			"ewkb.Scanner(*Collection)": func(b []byte) error {
				var p orb.Collection
				return ewkb.Scanner(&p).Scan(b)
			},
		}
		wktAll := map[string]func([]byte) error{
			"wkt.Unmarshal":             func(b []byte) error { _, err := wkt.Unmarshal(string(b)); return err },
			"wkt.UnmarshalPolygon":      func(b []byte) error { _, err := wkt.UnmarshalPolygon(string(b)); return err },
			"wkt.UnmarshalMultiPolygon": func(b []byte) error { _, err := wkt.UnmarshalMultiPolygon(string(b)); return err },
			"wkt.UnmarshalCollection":   func(b []byte) error { _, err := wkt.UnmarshalCollection(string(b)); return err },
		}
		for _, depth := range []int{3, 30, 200, 400} { // collection (also multi) headers nested, each claiming 2^32-1 (2^31, 5) members
			for _, le := range []bool{true, false} {
				for _, typ := range []uint32{7, 6, 5, 4, 7 | 0x20000000} {
					for _, cnt := range []uint32{0xffffffff, 0x80000000, 5} {
						var b []byte
						for d := 0; d < depth; d++ {
							hdr := make([]byte, 9)
							if le {
								hdr[0] = 1
								binary.LittleEndian.PutUint32(hdr[1:], typ)
								binary.LittleEndian.PutUint32(hdr[5:], cnt)
							} else {
								binary.BigEndian.PutUint32(hdr[1:], typ)
								binary.BigEndian.PutUint32(hdr[5:], cnt)
							}
							if typ&0x20000000 != 0 {
								hdr = append(hdr[:5], append([]byte{0xe6, 0x10, 0, 0}, hdr[5:]...)...)
							}
							b = append(b, hdr...)
						}
						c05Raw(c, "wkb(nested)", b, wkbAll)
					}
				}
			}
		}
		for _, parts := range []int{300, 3000} { // very many tiny parts
			ring, rings := "(0 0,1 1)", make([]string, 0, parts)
			for i := 0; i < parts; i++ {
				rings = append(rings, ring)
			}
			all := strings.Join(rings, ",")
			c05Raw(c, "wkt(parts)", []byte("POLYGON("+all+")"), wktAll)
			c05Raw(c, "wkt(parts)", []byte("MULTILINESTRING("+all+")"), wktAll)
			c05Raw(c, "wkt(parts)", []byte("MULTIPOLYGON(("+strings.Join(rings, "),(")+"))"), wktAll)
			pts := make([]string, 0, parts)
			for i := 0; i < parts; i++ {
				pts = append(pts, "POINT(1 2)")
			}
			c05Raw(c, "wkt(parts)", []byte("GEOMETRYCOLLECTION("+strings.Join(pts, ",")+")"), wktAll)
			// the same polygon in WKB and GeoJSON
			poly := orb.Polygon{}
			for i := 0; i < parts; i++ {
				poly = append(poly, orb.Ring{{0, 0}, {1, 1}})
			}
			if b, err := wkb.Marshal(poly); err == nil {
				c05Raw(c, "wkb(parts)", b, wkbAll)
			}
			if b, err := geojson.NewGeometry(poly).MarshalJSON(); err == nil {
				c05Raw(c, "geojson(parts)", b, c05JSONDecs)
			}
		}
		// MVT sizes that multiply: a layer with many keys and many features (allocation must follow the input, not keys x
		// features), and gzipped tiles whose trailer claims another uncompressed size / whose compressed bytes are altered
		for _, kf := range [][2]int{{200, 100}, {2000, 3000}, {1, 4000}, {3000, 2}} {
			fc := geojson.NewFeatureCollection()
			first := geojson.NewFeature(orb.Point{1, 1})
			for k := 0; k < kf[0]; k++ {
				first.Properties[fmt.Sprintf("k%d", k)] = true
			}
			fc.Append(first)
			for f := 1; f < kf[1]; f++ {
				ft := geojson.NewFeature(orb.Point{float64(f % 50), float64(f % 31)})
				ft.Properties["k0"] = true // every feature carries a tag
				fc.Append(ft)
			}
			if b, err := mvt.Marshal(mvt.Layers{mvt.NewLayer("big", fc)}); err == nil {
				c05Raw(c, "mvt(keys x features)", b, c05MvtDecs)
			}
		}
		{
			fc := geojson.NewFeatureCollection()
			fc.Append(geojson.NewFeature(orb.LineString{{1, 2}, {3, 4}}))
			if gz, err := mvt.MarshalGzipped(mvt.Layers{mvt.NewLayer("l", fc)}); err == nil && len(gz) > 12 {
				for _, claim := range []uint32{0, 1, 1 << 16, 1 << 28, 1<<32 - 1} { // the ISIZE field of the trailer
					b := append([]byte{}, gz...)
					binary.LittleEndian.PutUint32(b[len(b)-4:], claim)
					c05Raw(c, "mvt(gzip trailer)", b, c05MvtDecs)
				}
				for i := 0; i < c.pick(200, 2000); i++ { // and general damage to the compressed stream
					c05Raw(c, "mvt(gzip mutant)", mutate(gz), c05MvtDecs)
				}
			}
		}
		for n := 0; n <= 14; n++ { // hex text of every short length, with and without the \x marker
			for _, pre := range []string{"", "\\x", "\\X"} {
				for _, digits := range []string{"e6100000010100000000", "00000000000000000000", "0101000020e6100000ff", "zz"} {
					if n <= len(digits) {
						c05Raw(c, "wkb(hex)", []byte(pre+digits[:n]), wkbAll)
					}
				}
			}
		}
		for _, s := range []string{"null", "{}", "[]", `{"type":"Point"}`, `{"type":"GeometryCollection","geometries":[null]}`, `{"type":"Feature","geometry":null}`, "",
			`{"type":"Feature","geometry":{"type":"Point","coordinates":null}}`, `{"type":"FeatureCollection","features":[null]}`, `{"type":"FeatureCollection","features":null}`,
			`{"type":"Polygon","coordinates":[null]}`, `{"type":"MultiPolygon","coordinates":[[null]]}`, `{"type":null,"coordinates":null}`, "true", "0", `""`} {
			// every literal also with JSON whitespace around it (the exported Unmarshal functions get the caller's bytes as they are)
			for _, ws := range [][2]string{{"", ""}, {" ", ""}, {"", " "}, {"\n", "\n"}, {"\t\r ", ""}} {
				c05Raw(c, "geojson(literal)", []byte(ws[0]+s+ws[1]), c05JSONDecs)
			}
		}
		// blank and almost blank values of every short length (a padded CHAR column, an empty text field): white space
		// only, or with one other byte at the front, in the middle or at the end - for the scanners, the WKT parsers
		// and the JSON entry points
		wktEvery := map[string]func([]byte) error{"wkt.Unmarshal": func(b []byte) error { _, err := wkt.Unmarshal(string(b)); return err }}
		for _, p := range c05WktParsers {
			p := p
			wktEvery["wkt."+p.name] = func(b []byte) error { return p.f(string(b)) }
		}
		for n := 0; n <= 12; n++ {
			for _, sp := range []byte{' ', '\t', '\n', '\r'} {
				blank := bytes.Repeat([]byte{sp}, n)
				c05Raw(c, "wkb(blank)", blank, wkbAll)
				c05Raw(c, "wkt(blank)", blank, wktEvery)
				c05Raw(c, "geojson(blank)", blank, c05JSONDecs)
				if n == 0 || sp == '\r' {
					continue
				}
				for _, other := range []byte{'\\', '0', '1', 'x', 0, 1, 'P', '{', '('} {
					for _, at := range []int{0, n / 2, n - 1} {
						b := append([]byte{}, blank...)
						b[at] = other
						c05Raw(c, "wkb(blank)", b, wkbAll)
						c05Raw(c, "wkt(blank)", b, wktEvery)
					}
				}
			}
		}
		// many genuine members followed by nothing, under a count that claims (far) more: allocation follows the bytes
		// that are there, also once the library's preallocation cap has been used up
		for _, le := range []bool{true, false} {
			var bo binary.ByteOrder = binary.BigEndian
			if le {
				bo = binary.LittleEndian
			}
			hdr := func(typ, cnt uint32) []byte {
				h := make([]byte, 9)
				if le {
					h[0] = 1
				}
				bo.PutUint32(h[1:], typ)
				bo.PutUint32(h[5:], cnt)
				return h
			}
			u32 := func(v uint32) []byte { b := make([]byte, 4); bo.PutUint32(b, v); return b }
			members := []struct {
				typ    uint32
				member []byte
			}{
				{2, make([]byte, 16)},                           // line string: points
				{3, u32(0)},                                     // polygon: empty rings
				{3, append(u32(1), make([]byte, 16)...)},        // polygon: one-point rings
				{4, append(hdr(1, 0)[:5], make([]byte, 16)...)}, // multi point: points with their own header
				{5, hdr(2, 0)},                                  // multi line string: empty line strings
				{6, hdr(3, 0)},                                  // multi polygon: empty polygons
				{7, hdr(2, 0)},                                  // collection: empty line strings
				{7, hdr(7, 0)},                                  // collection: empty collections
			}
			for _, m := range members {
				for _, n := range []int{99, 100, 101, 102, 128, 257, 1000} {
					for _, claim := range []uint32{uint32(n) + 1, 1 << 16, 1 << 22, 1<<31 - 1, 1<<32 - 1} {
						b := hdr(m.typ, claim)
						for i := 0; i < n; i++ {
							b = append(b, m.member...)
						}
						c05Raw(c, "wkb(claimed)", b, wkbAll)
						// ... and the same thing as the only member of a multi polygon / a collection
						if m.typ == 3 {
							c05Raw(c, "wkb(claimed)", append(hdr(6, 1), b...), wkbAll)
						}
						c05Raw(c, "wkb(claimed)", append(hdr(7, 1), b...), wkbAll)
					}
				}
			}
		}
		// members of the wrong kind inside multi-geometries: every container kind x every member kind x member count 0 / 1
		// x 0..24 bytes behind the member's header (a decoder that accepts the member must not assume its size)
		for _, le := range []bool{true, false} {
			var bo binary.ByteOrder = binary.BigEndian
			if le {
				bo = binary.LittleEndian
			}
			hdr := func(typ, cnt uint32) []byte {
				h := make([]byte, 9)
				if le {
					h[0] = 1
				}
				bo.PutUint32(h[1:], typ)
				bo.PutUint32(h[5:], cnt)
				return h
			}
			// (the member in the parent's byte order or in the other one; its type word plain, with stray bits in the low byte
			// - readers mask the kind with 0x0f - or with the EWKB SRID flag)
			ohdr := func(typ, cnt uint32) []byte { // the other byte order
				h := make([]byte, 9)
				var ob binary.ByteOrder = binary.LittleEndian
				if le {
					ob = binary.BigEndian
				} else {
					h[0] = 1
				}
				ob.PutUint32(h[1:], typ)
				ob.PutUint32(h[5:], cnt)
				return h
			}
			for _, ct := range []uint32{4, 5, 6, 7} {
				for mt := uint32(1); mt <= 7; mt++ {
					for _, mc := range []uint32{0, 1} {
						for _, cc := range []uint32{1, 2} {
							for k := 0; k <= 24; k += 1 + k/12 {
								b := append(hdr(ct, cc), hdr(mt, mc)...)
								b = append(b, make([]byte, k)...)
								c05Raw(c, "wkb(member kinds)", b, wkbAll)
								for _, stray := range []uint32{0x20, 0x10, 0x20000000, 0x20000020} {
									for _, mh := range [][]byte{hdr(mt|stray, mc), ohdr(mt|stray, mc), ohdr(mt, mc)} {
										if (k+int(mt)+int(stray>>4))%3 != 0 { // a third of the combinations
											continue
										}
										b := append(hdr(ct, cc), mh...)
										c05Raw(c, "wkb(member kinds)", append(b, make([]byte, k)...), wkbAll)
									}
								}
							}
						}
					}
				}
			}
		}
		// gzip inside gzip: the unzipped size of what a decoder is asked to inflate is its caller's business only once
		{
			zip := func(b []byte) []byte {
				var buf bytes.Buffer
				w := gzip.NewWriter(&buf)
				w.Write(b)
				w.Close()
				return buf.Bytes()
			}
			for _, n := range []int{1 << 16, 1 << 20, c.pick(1<<24, 1<<25)} {
				inner := zip(make([]byte, n))
				c05Raw(c, "mvt(gzip in gzip)", zip(inner), c05MvtDecs)
				c05Raw(c, "mvt(gzip in gzip)", zip(zip(inner)), c05MvtDecs)
			}
		}
		// protobuf wire-level shapes: short sequences of fields of every wire type (groups, unknown field numbers, lengths
		// and varints at the ends of their ranges), for the tile decoders and the generated message types
		{
			varint := func(v uint64) []byte {
				var b []byte
				for v >= 0x80 {
					b = append(b, byte(v)|0x80)
					v >>= 7
				}
				return append(b, byte(v))
			}
			ends := []uint64{0, 1, 2, 127, 128, 1 << 31, 1<<31 - 1, 1 << 32, 1<<63 - 1, 1 << 63, 1<<64 - 1}
			field := func() []byte {
				fn := []uint64{1, 2, 3, 4, 5, 15, 16, 1000, 1<<29 - 1, 0}[c.rng.Intn(10)]
				wt := uint64(c.rng.Intn(8))
				b := varint(fn<<3 | wt)
				switch wt {
				case 0:
					b = append(b, varint(ends[c.rng.Intn(len(ends))])...)
					if c.rng.Intn(8) == 0 {
						b = append(b, 0xff, 0xff, 0xff, 0xff, 0xff, 0xff, 0xff, 0xff, 0xff, 0xff, 0x01) // an over-long varint
					}
				case 1:
					b = append(b, make([]byte, c.rng.Intn(9))...)
				case 2:
					b = append(b, varint(ends[c.rng.Intn(len(ends))])...)
					b = append(b, make([]byte, c.rng.Intn(4))...)
				case 5:
					b = append(b, make([]byte, c.rng.Intn(5))...)
				}
				return b
			}
			// every numeric field of the tile format with a varint that never ends within ten bytes (or just does), framed
			// correctly as tile > layer > feature / value
			wrap := func(fieldNo uint64, body []byte) []byte {
				return append(append(varint(fieldNo<<3|2), varint(uint64(len(body)))...), body...)
			}
			for _, long := range [][]byte{
				{0xff, 0xff, 0xff, 0xff, 0xff, 0xff, 0xff, 0xff, 0xff, 0xff, 0x01},
				{0x80, 0x80, 0x80, 0x80, 0x80, 0x80, 0x80, 0x80, 0x80, 0x80, 0x80, 0x00},
				{0xff, 0xff, 0xff, 0xff, 0xff, 0xff, 0xff, 0xff, 0xff, 0x01},
				{0xff, 0xff, 0xff, 0xff, 0xff, 0xff, 0xff, 0xff, 0xff, 0x7f},
				{0xff, 0xff, 0xff, 0xff, 0xff, 0xff, 0xff, 0xff, 0xff, 0xff},
			} {
				for _, ff := range []uint64{1, 3} { // feature: id, type (varints); tags and geometry (packed varints)
					c05Raw(c, "mvt(wire)", wrap(3, wrap(2, append(varint(ff<<3|0), long...))), c05MvtDecs)
					c05Raw(c, "mvt(wire)", wrap(3, append(wrap(1, []byte("l")), wrap(2, append(append(varint(ff<<3|0), long...), varint(3<<3 | 0)[0], 1))...)), c05MvtDecs)
				}
				for _, ff := range []uint64{2, 4} {
					c05Raw(c, "mvt(wire)", wrap(3, wrap(2, wrap(ff, long))), c05MvtDecs)
				}
				for _, lf := range []uint64{15, 5} { // layer: version, extent
					c05Raw(c, "mvt(wire)", wrap(3, append(varint(lf<<3|0), long...)), c05MvtDecs)
				}
				for _, vf := range []uint64{4, 5, 6, 7} { // value: int, uint, sint, bool
					c05Raw(c, "mvt(wire)", wrap(3, wrap(4, append(varint(vf<<3|0), long...))), c05MvtDecs)
				}
			}
			for i := 0; i < c.pick(4000, 60000); i++ {
				var b []byte
				for f := 0; f < 1+c.rng.Intn(4); f++ {
					b = append(b, field()...)
				}
				switch c.rng.Intn(4) {
				case 0: // ... inside a layer of a tile
					b = append(append(varint(3<<3|2), varint(uint64(len(b)))...), b...)
				case 1: // ... inside a feature of a layer of a tile (a feature's id is field 1, its tags 2, its geometry 4)
					b = append(append(varint(2<<3|2), varint(uint64(len(b)))...), b...)
					b = append(append(varint(3<<3|2), varint(uint64(len(b)))...), b...)
				}
				c05Raw(c, "mvt(wire)", b, c05MvtDecs)
			}
		}
		// values that were encoded as text more than once (a hex dump of a hex dump, with the markers \x, 0x or none): every
		// layer that a scanner takes off leaves a shorter value behind
		{
			enc := func(kind int, v []byte) []byte {
				h := []byte(hex.EncodeToString(v))
				switch kind {
				case 0:
					return append([]byte("\\x"), h...)
				case 1:
					return append([]byte("0x"), h...)
				}
				return h
			}
			for _, payload := range []string{"", "0", "0x", "00", "\\x", "01", "0X1", "\x01\x01\x00\x00\x00"} {
				for k1 := 0; k1 < 3; k1++ {
					v1 := enc(k1, []byte(payload))
					c05Raw(c, "wkb(encoded twice)", v1, wkbAll)
					for k2 := 0; k2 < 3; k2++ {
						v2 := enc(k2, v1)
						c05Raw(c, "wkb(encoded twice)", v2, wkbAll)
						for k3 := 0; k3 < 3; k3++ {
							c05Raw(c, "wkb(encoded twice)", enc(k3, v2), wkbAll)
						}
					}
				}
			}
		}
		// text that is almost WKT: the extended spellings other tools write (an SRID in front, a dimension suffix), complete
		// and cut short
		for _, pre := range []string{"SRID=4326;", "SRID=4326", "SRID=4326 ", "SRID=", "srid=4326;", " SRID=4326;", "SRID=;", "SRID=4326;;", "SRID=4326;SRID=1;", ";", "SRID"} {
			for _, body := range []string{"POINT(1 2)", "POINT EMPTY", "", "GEOMETRYCOLLECTION(POINT(1 2))", "POLYGON((0 0,1 0,1 1,0 0))", "POINT Z(1 2 3)", "POINT(1 2 3)", "POINTZ(1 2 3)", "LINESTRING M(1 2 3,4 5 6)"} {
				c05Raw(c, "wkt(extended)", []byte(pre+body), wktEvery)
				c05Raw(c, "wkt(extended)", []byte("GEOMETRYCOLLECTION("+pre+body+")"), wktEvery)
				c05Raw(c, "wkt(extended)", []byte("GEOMETRYCOLLECTION(POINT(1 2),"+pre+body+")"), wktEvery)
			}
		}
	})
}
