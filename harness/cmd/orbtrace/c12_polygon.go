package main

import (
	"fmt"

	"github.com/paulmach/orb"
	"github.com/paulmach/orb/planar"
	"github.com/paulmach/orb/simplify"
)

// C12 (polygons): a simplifier applied to a Polygon / MultiPolygon simplifies every ring and removes the holes
// (polygons) that collapse, compacting the slice in place - the same filter-map shape as the mvt.Layer pipeline,
// judged by spec/MvtLayer_Trace.tla. One event = one polygon (parts = rings) or multipolygon (parts = polygons);
// want[i] is what the simplifier returns for part i on its own (0: the part disappears).

func init() {
	register("simppoly", func(c *ctx) {
		lg := &layerGeoms{ids: map[string]int{}}
		mkSimp := func(k int) (orb.Simplifier, string) {
			switch k % 3 {
			case 0:
				return simplify.DouglasPeucker(0.6), "dp"
			case 1:
				return simplify.Radial(planar.Distance, 0.6), "radial"
			}
			return simplify.VisvalingamThreshold(0.3), "vis"
		}
		// rings by class: 0 collapses to <= 2 points (tiny), 1 unchanged, 2 changed
		ringOf := func(class int, ox, oy float64) orb.Ring {
			switch class {
			case 0:
				d := 0.1 * float64(1+c.rng.Intn(3))
				return orb.Ring{{ox, oy}, {ox + d, oy}, {ox + d, oy + d}, {ox, oy}}
			case 1:
				w := float64(2 + c.rng.Intn(3))
				return orb.Ring{{ox, oy}, {ox + w, oy}, {ox + w, oy + w}, {ox, oy + w}, {ox, oy}}
			}
			if class == 3 { // comes out with exactly three vertices: a sliver (closed) / an open ring at its minimum count
				w := float64(3 + c.rng.Intn(3))
				if c.rng.Intn(2) == 0 {
					return orb.Ring{{ox, oy}, {ox + w/2, oy + 0.1}, {ox + w, oy}, {ox, oy}}
				}
				return orb.Ring{{ox, oy}, {ox + w, oy}, {ox + w, oy + 0.2}, {ox, oy + 0.2}} // not closed
			}
			w := float64(2 + c.rng.Intn(3))
			return orb.Ring{{ox, oy}, {ox + w/2, oy}, {ox + w, oy}, {ox + w, oy + w}, {ox + w/2, oy + w + 0.05}, {ox, oy + w}, {ox, oy}}
		}
		n := c.pick(1500, 30000)
		for i := 0; i < n; i++ {
			s, alg := mkSimp(i)
			multi := i%4 == 3
			nparts := 1 + c.rng.Intn(5)
			var feats []x01Feat
			var want, cls []int
			var poly orb.Polygon
			var mp orb.MultiPolygon
			setCurrent("simplify parts "+alg, i)
			if site := guard(func() {
				for j := 0; j < nparts; j++ {
					class := c.rng.Intn(4)
					if !multi {
						// (the outer ring of a polygon is kept whatever happens to it - also when it collapses while holes survive)
						r := ringOf(class, float64(10*j), 0)
						poly = append(poly, r)
						res := s.Ring(r.Clone())
						w := lg.id(res)
						if j != 0 && len(res) <= 2 {
							w = 0
						}
						feats = append(feats, x01Feat{Tag: j + 1, G: lg.id(r)})
						want = append(want, w)
					} else {
						p := orb.Polygon{ringOf(class, float64(10*j), 0)}
						if c.rng.Intn(2) == 0 {
							p = append(p, ringOf(c.rng.Intn(4), float64(10*j)+0.5, 0.5)) // a hole (placement does not matter here)
						}
						mp = append(mp, p)
						res := s.Polygon(p.Clone())
						w := lg.id(res)
						if len(res) == 0 || len(res[0]) <= 2 {
							w = 0
						}
						feats = append(feats, x01Feat{Tag: j + 1, G: lg.id(p)})
						want = append(want, w)
					}
				}
			}); site != "" {
				c.emit(panicEvent("simplify-parts-"+alg, site, fmt.Sprint(poly, mp)))
				continue
			}
			for j := range want {
				switch {
				case want[j] == 0:
					cls = append(cls, 0)
				case want[j] == feats[j].G:
					cls = append(cls, 1)
				default:
					cls = append(cls, 2)
				}
			}
			op := "simplify-polygon-" + alg
			if multi {
				op = "simplify-multipolygon-" + alg
			}
			setCurrent(op, fmt.Sprint(poly, mp))
			out := []x01Feat{}
			tagOf := map[int]int{} // geometry id of a part's expected result -> tag (results of distinct parts are distinct: offsets differ)
			for j, w := range want {
				if w != 0 {
					tagOf[w] = j + 1
				}
			}
			site := guard(func() {
				if !multi {
					var res orb.Polygon
					if i%2 == 0 {
						res = s.Polygon(poly)
					} else if g := s.Simplify(poly); g != nil {
						res = g.(orb.Polygon)
					}
					for _, r := range res {
						id := lg.id(r)
						out = append(out, x01Feat{Tag: tagOf[id], G: id})
					}
				} else {
					var res orb.MultiPolygon
					if i%2 == 0 {
						res = s.MultiPolygon(mp)
					} else if g := s.Simplify(mp); g != nil {
						res = g.(orb.MultiPolygon)
					}
					for _, p := range res {
						id := lg.id(p)
						out = append(out, x01Feat{Tag: tagOf[id], G: id})
					}
				}
			})
			if site != "" {
				c.emit(panicEvent(op, site, fmt.Sprint(poly, mp)))
				continue
			}
			c.emit(map[string]interface{}{"k": "layer", "fn": op, "op": op, "cls": cls, "feats": feats, "want": want, "out": out, "nt": 1})
		}
	})
}
