package main

import (
	"math"

	"github.com/paulmach/orb"
	"github.com/paulmach/orb/encoding/mvt"
	"github.com/paulmach/orb/geojson"
	"github.com/paulmach/orb/maptile"
	"github.com/paulmach/orb/project"
)

// C15: projections. See spec/Project_Trace.tla.

func clipInt(v float64) int {
	if math.IsNaN(v) || v > 1e9 {
		return 1000000000
	}
	return int(math.Round(v))
}

// flatPoints lists the vertices of a geometry in storage order.
func flatPoints(g orb.Geometry) []orb.Point {
	var out []orb.Point
	switch v := g.(type) {
	case orb.Point:
		out = append(out, v)
	case orb.MultiPoint:
		out = append(out, v...)
	case orb.LineString:
		out = append(out, v...)
	case orb.Ring:
		out = append(out, v...)
	case orb.MultiLineString:
		for _, l := range v {
			out = append(out, l...)
		}
	case orb.Polygon:
		for _, r := range v {
			out = append(out, r...)
		}
	case orb.MultiPolygon:
		for _, p := range v {
			for _, r := range p {
				out = append(out, r...)
			}
		}
	case orb.Collection:
		for _, m := range v {
			out = append(out, flatPoints(m)...)
		}
	case orb.Bound:
		out = append(out, v.Min, v.Max)
	}
	return out
}

func init() {
	register("project", func(c *ctx) {
		// (1) structural: every shape through project.Geometry and the typed helpers with the tagging function
		n := c.pick(4000, 80000)
		for i := 0; i < n; i++ {
			g := randGeom(c, 3, 4, func() float64 { return float64(c.rng.Intn(50)) })
			if hasNilSlice(g) && c.rng.Intn(2) == 0 {
				g = orb.Point{1, 2}
			}
			if c.rng.Intn(9) == 0 {
				// a box whose corners are given the other way round in one coordinate or both (a box written across the
				// antimeridian, top and bottom swapped): still the box of its two projected corners
				b := orb.Bound{Min: orb.Point{float64(c.rng.Intn(50)), float64(c.rng.Intn(50))}, Max: orb.Point{float64(c.rng.Intn(50)), float64(c.rng.Intn(50))}}
				g = b
				if c.rng.Intn(2) == 0 {
					g = orb.Collection{orb.Point{3, 4}, b}
				}
			}
			in, _ := encGeom(g, intFn)
			e := map[string]interface{}{"k": "map", "in": in, "nt": 1}
			calls := 0
			f := func(p orb.Point) orb.Point {
				calls++
				return orb.Point{1000 - p[0] + 7*p[1], float64(100*calls) + 2*p[0] + p[1]}
			}
			setCurrent("project.Geometry", in)
			var out orb.Geometry
			typed := c.rng.Intn(2) == 0
			site := guard(func() {
				arg := orb.Clone(g)
				if g != nil && arg == nil {
					arg = typedClone(g)
				}
				if !typed {
					out = project.Geometry(arg, f)
					return
				}
				switch v := arg.(type) {
				case orb.Point:
					out = project.Point(v, f)
				case orb.MultiPoint:
					out = project.MultiPoint(v, f)
				case orb.LineString:
					out = project.LineString(v, f)
				case orb.MultiLineString:
					out = project.MultiLineString(v, f)
				case orb.Ring:
					out = project.Ring(v, f)
				case orb.Polygon:
					out = project.Polygon(v, f)
				case orb.MultiPolygon:
					out = project.MultiPolygon(v, f)
				case orb.Collection:
					out = project.Collection(v, f)
				case orb.Bound:
					out = project.Bound(v, f)
				default:
					out = project.Geometry(arg, f)
				}
			})
			if site != "" {
				c.emit(panicEvent("project.Geometry", site, in))
				continue
			}
			e["out"], _ = encGeom(out, intFn)
			e["calls"] = calls
			c.emit(e)
		}
		// (1b) sizes: parts of 4 095 .. 10 007 vertices through every kind that holds a long part - every vertex projected,
		// once, in order (compared here vertex by vertex; TLC checks the verdict and the number of calls)
		for _, n := range []int{4095, 4096, 4097, 4098, 4099, 5001, 8193, 10007} {
			for kind := 0; kind < 5; kind++ {
				pts := make([]orb.Point, n)
				for j := range pts {
					pts[j] = orb.Point{float64(j % 97), float64(j / 97)}
				}
				var g orb.Geometry
				switch kind {
				case 0:
					g = orb.MultiPoint(pts)
				case 1:
					g = orb.LineString(pts)
				case 2:
					g = orb.Ring(pts)
				case 3:
					g = orb.Polygon{orb.Ring(pts[:n/2]), orb.Ring(pts[n/2:])}
				default:
					g = orb.Collection{orb.MultiLineString{orb.LineString(pts)}, orb.Point{1, 1}}
				}
				want := n
				if kind == 4 {
					want = n + 1
				}
				e := map[string]interface{}{"k": "mapbig", "n": want, "kind": kind, "nt": 1}
				calls := 0
				f := func(p orb.Point) orb.Point {
					calls++
					return orb.Point{p[0] + 1000, float64(calls)}
				}
				setCurrent("project.Geometry(big)", e)
				ok := 1
				site := guard(func() {
					in := flatPoints(orb.Clone(g))
					out := flatPoints(project.Geometry(orb.Clone(g), f))
					if len(out) != len(in) {
						ok = 0
						return
					}
					seen := make([]bool, len(in)+2)
					for j := range in { // every vertex mapped, in its place; every call's result used exactly once
						k := int(out[j][1])
						if out[j][0] != in[j][0]+1000 || k < 1 || k > len(in) || seen[k] {
							ok = 0
							break
						}
						seen[k] = true
					}
				})
				if site != "" {
					c.emit(panicEvent("project.Geometry(big)", site, e))
					continue
				}
				e["ok"], e["calls"] = ok, calls
				c.emit(e)
			}
		}
		// (2) tile round trip: integer tile coordinates in [-extent, 2*extent) -> WGS84 -> tile, several layers with
		// different extents in one Layers value
		nt := c.pick(1500, 30000)
		extsP2 := []uint32{256, 512, 1024, 2048, 4096, 8192}
		extsOdd := []uint32{300, 1000, 4000, 257}
		for i := 0; i < nt; i++ {
			z := maptile.Zoom(c.rng.Intn(23))
			max := uint32(1) << uint32(z)
			tile := maptile.New(c.rng.Uint32()%max, c.rng.Uint32()%max, z)
			if i%50 == 0 && z <= 5 {
				tile = maptile.New(uint32(i/50)%max, uint32(i/7)%max, z)
			}
			if i%8 == 3 { // tiles of the top and bottom row of the world at low zooms: their buffers reach beyond the world's edge
				z = maptile.Zoom(2 + c.rng.Intn(4))
				max = uint32(1) << uint32(z)
				tile = maptile.New(c.rng.Uint32()%max, []uint32{0, max - 1}[c.rng.Intn(2)], z)
			}
			var layers mvt.Layers
			var ins [][][2]int
			for li := 0; li < 1+c.rng.Intn(3); li++ {
				ext := extsP2[c.rng.Intn(len(extsP2))]
				if c.rng.Intn(4) == 0 {
					ext = extsOdd[c.rng.Intn(len(extsOdd))]
				}
				var pts [][2]int
				mp := orb.MultiPoint{}
				for j := 0; j < 12; j++ {
					var p [2]int
					switch c.rng.Intn(4) {
					case 0: // the four borders
						p = [2]int{[]int{-int(ext), 0, int(ext) - 1, 2*int(ext) - 1}[c.rng.Intn(4)], c.rng.Intn(3*int(ext)) - int(ext)}
					case 1:
						p = [2]int{c.rng.Intn(3*int(ext)) - int(ext), []int{-int(ext), -1, 0, 2*int(ext) - 1}[c.rng.Intn(4)]}
					default:
						p = [2]int{c.rng.Intn(3*int(ext)) - int(ext), c.rng.Intn(3*int(ext)) - int(ext)}
					}
					if j == 0 && c.rng.Intn(3) == 0 { // the tile's own corner / edges first: the zero value of a point
						p = [][2]int{{0, 0}, {0, p[1]}, {p[0], 0}}[c.rng.Intn(3)]
					}
					if j > 0 && c.rng.Intn(5) == 0 { // a vertex repeated in a row is a vertex: it comes back twice
						p = pts[j-1]
					}
					pts = append(pts, p)
					mp = append(mp, orb.Point{float64(p[0]), float64(p[1])})
				}
				// the same twelve vertices as a multipoint, a line, two lines, a polygon with a hole or two polygons
				var fg orb.Geometry = mp
				switch c.rng.Intn(6) {
				case 0:
					fg = orb.LineString(mp)
				case 1:
					fg = orb.MultiLineString{orb.LineString(mp[:5]), orb.LineString(mp[5:])}
				case 2:
					fg = orb.Polygon{orb.Ring(mp[:7]), orb.Ring(mp[7:])}
				case 3:
					fg = orb.MultiPolygon{{orb.Ring(mp[:4])}, {orb.Ring(mp[4:8]), orb.Ring(mp[8:])}}
				case 4:
					// the kinds that are not slices, and a collection of everything: a single point, the box of the first two
					// vertices, or point + box + ring + line in one collection
					// (the rows of the box are taken inside the tile: a corner beyond the clamp latitude comes back changed by
					// design, and in a box that would move the other corner's row to the other slot)
					ya, yb := ((pts[0][1]%int(ext))+int(ext))%int(ext), ((pts[1][1]%int(ext))+int(ext))%int(ext)
					lo := [2]int{minInt(pts[0][0], pts[1][0]), minInt(ya, yb)}
					hi := [2]int{pts[0][0] + pts[1][0] - lo[0], ya + yb - lo[1]}
					box := orb.Bound{Min: orb.Point{float64(lo[0]), float64(lo[1])}, Max: orb.Point{float64(hi[0]), float64(hi[1])}}
					switch c.rng.Intn(3) {
					case 0:
						fg, pts = mp[0], pts[:1]
					case 1:
						fg, pts = box, [][2]int{lo, hi}
					default:
						fg = orb.Collection{mp[2], box, orb.Ring(mp[3:8]), orb.Collection{orb.LineString(mp[8:])}}
						pts = append([][2]int{pts[2], lo, hi}, pts[3:]...)
					}
				}
				fc := geojson.NewFeatureCollection()
				// features without a geometry among the others (nothing to project, and no reason to stop projecting)
				if c.rng.Intn(3) == 0 {
					fc.Append(geojson.NewFeature(nil))
				}
				fc.Append(geojson.NewFeature(fg))
				if c.rng.Intn(4) == 0 {
					fc.Append(geojson.NewFeature(nil))
				}
				l := mvt.NewLayer("l", fc)
				l.Extent = ext
				layers = append(layers, l)
				ins = append(ins, pts)
			}
			setCurrent("mvt.ProjectToWGS84/ToTile", ins)
			site := guard(func() {
				// history: the same Layer values were projected before - for the same tile with another extent, or for
				// another tile - holding other features at the time; what they did then must not matter now
				if c.rng.Intn(2) == 0 {
					for _, l := range layers {
						feats, ext := l.Features, l.Extent
						sc := geojson.NewFeatureCollection()
						sc.Append(geojson.NewFeature(orb.Point{100, 200}))
						l.Features = sc.Features
						t2 := tile
						if c.rng.Intn(2) == 0 {
							l.Extent = extsP2[c.rng.Intn(len(extsP2))]
						} else {
							t2 = maptile.New(c.rng.Uint32()%max, c.rng.Uint32()%max, z)
						}
						l.ProjectToWGS84(t2)
						l.ProjectToTile(t2)
						l.Features, l.Extent = feats, ext
					}
				}
				if c.rng.Intn(4) == 0 {
					// the way back through other Layer objects: each has just projected something else to this very tile and
					// is then handed the lon/lat features (a layer that is refilled and projected again, with no projection
					// to WGS84 in between)
					layers.ProjectToWGS84(tile)
					for _, l := range layers {
						back := mvt.NewLayer(l.Name, geojson.NewFeatureCollection().Append(geojson.NewFeature(orb.Point{1, 2})))
						back.Extent = l.Extent
						back.ProjectToTile(tile)
						back.Features = l.Features
						back.ProjectToTile(tile)
						l.Features = back.Features
					}
				} else if len(layers) == 1 && c.rng.Intn(2) == 0 {
					layers[0].ProjectToWGS84(tile)
					layers[0].ProjectToTile(tile)
				} else {
					layers.ProjectToWGS84(tile)
					layers.ProjectToTile(tile)
				}
			})
			if site != "" {
				c.emit(panicEvent("mvt.Project", site, ins))
				continue
			}
			for li, l := range layers {
				// near the poles the mercator square ends: rows outside the world cannot come back
				var out [][2]int
				judged := l.Features[0]
				if judged.Geometry == nil && len(l.Features) > 1 {
					judged = l.Features[1]
				}
				for _, p := range flatPoints(judged.Geometry) {
					out = append(out, [2]int{clipInt(p[0]), clipInt(p[1])})
				}
				if len(out) != len(ins[li]) { // a vertex went missing or the kind changed: leave the mismatch for the spec to see
					for len(out) < len(ins[li]) {
						out = append(out, [2]int{1000000000, 1000000000})
					}
					out = out[:len(ins[li])]
				}
				// (the projection clamps beyond +-89.19 degrees, |sin lat| > 0.9999, by design: that is 0.2881 of the world's
				// height beyond its edge. Rows of the tile buffer up to 0.285 beyond the edge (vertices are projected as pixel centres, half a row further out) are ordinary rows and must come
				// back - for the edge rows of zooms 2 and deeper that is the whole buffer)
				worldRows := float64(uint64(1)<<uint32(z)) * float64(l.Extent)
				lo, hi := -0.285*worldRows-float64(tile.Y)*float64(l.Extent), 1.285*worldRows-float64(tile.Y)*float64(l.Extent)
				var in2, out2 [][2]int
				for j, p := range ins[li] {
					if float64(p[1]) < lo || float64(p[1]) >= hi {
						continue // beyond the clamp latitude: clamped by design
					}
					in2, out2 = append(in2, p), append(out2, out[j])
				}
				if in2 == nil {
					continue
				}
				pow2 := l.Extent&(l.Extent-1) == 0
				c.emit(map[string]interface{}{"k": "tile", "tile": t3(tile), "ext": int(l.Extent), "pow2": pow2, "in": in2, "out": out2, "nt": 1})
			}
		}
		// (2c) neighbouring tiles in turn: layers of two (three) tiles that differ in one bit of the column or of the row - also
		// the deepest zooms and both halves of the world - are projected to WGS84 one after the other and only then back, in
		// another order: each comes back with its own integers (what was set up for one tile is not used for another)
		for i := 0; i < c.pick(400, 6000); i++ {
			z := uint32([]int{22, 22, 21, 20, 16, 9, 30, 24}[c.rng.Intn(8)])
			max := uint32(1) << z
			a := maptile.New(c.rng.Uint32()%max, c.rng.Uint32()%max, maptile.Zoom(z))
			if c.rng.Intn(2) == 0 { // the southern half, the last rows
				a.Y = max/2 + c.rng.Uint32()%(max/2)
			}
			bit := uint32(1) << uint(c.rng.Intn(int(z)))
			if c.rng.Intn(2) == 0 {
				bit = 1
			}
			b, d := a, a
			b.X ^= bit
			d.Y ^= bit
			tiles := []maptile.Tile{a, b, d}
			ext := extsP2[c.rng.Intn(len(extsP2))]
			var layers []*mvt.Layer
			var ins [][][2]int
			for range tiles {
				var pts [][2]int
				mp := orb.MultiPoint{}
				for j := 0; j < 6; j++ {
					p := [2]int{c.rng.Intn(int(ext)), c.rng.Intn(int(ext))}
					pts = append(pts, p)
					mp = append(mp, orb.Point{float64(p[0]), float64(p[1])})
				}
				fc := geojson.NewFeatureCollection()
				fc.Append(geojson.NewFeature(orb.LineString(mp)))
				l := mvt.NewLayer("l", fc)
				l.Extent = ext
				layers = append(layers, l)
				ins = append(ins, pts)
			}
			setCurrent("mvt.ProjectToWGS84/ToTile(neighbours)", ins)
			site := guard(func() {
				for k, l := range layers {
					l.ProjectToWGS84(tiles[k])
				}
				for _, k := range [][]int{{1, 2, 0}, {2, 0, 1}, {1, 0, 2}}[c.rng.Intn(3)] {
					layers[k].ProjectToTile(tiles[k])
				}
			})
			if site != "" {
				c.emit(panicEvent("mvt.Project", site, ins))
				continue
			}
			for k, l := range layers {
				var out [][2]int
				for _, p := range flatPoints(l.Features[0].Geometry) {
					out = append(out, [2]int{clipInt(p[0]), clipInt(p[1])})
				}
				for len(out) < len(ins[k]) {
					out = append(out, [2]int{1000000000, 1000000000})
				}
				c.emit(map[string]interface{}{"k": "tile", "tile": t3(tiles[k]), "ext": int(ext), "pow2": true, "in": ins[k], "out": out[:len(ins[k])], "nt": 1})
			}
		}
		// (3) lon/lat <-> mercator residuals on a 1 degree grid plus seeded points; anchors
		rt := func(lon, lat float64) {
			p := orb.Point{lon, lat}
			m := project.WGS84.ToMercator(p)
			back := project.Mercator.ToWGS84(m)
			m2 := project.WGS84.ToMercator(back)
			c.emit(map[string]interface{}{"k": "rt", "p": []int{clipInt(lon * 1e6), clipInt(lat * 1e6)},
				"dlon": clipInt(math.Abs(back[0]-p[0]) * 1e12), "dlat": clipInt(math.Abs(back[1]-p[1]) * 1e12),
				"dx": clipInt(math.Abs(m2[0]-m[0]) * 1e6), "dy": clipInt(math.Abs(m2[1]-m[1]) * 1e6), "nt": 1})
		}
		step := c.pick(5, 1)
		for lon := -180; lon <= 180; lon += step {
			for lat := -85; lat <= 85; lat += step {
				rt(float64(lon), float64(lat))
			}
		}
		for i := 0; i < c.pick(3000, 60000); i++ {
			rt(c.rng.Float64()*360-180, c.rng.Float64()*170.1-85.05)
		}
		// every magnitude: latitudes and longitudes from 1e-7 degree upwards (log-uniform), and latitudes approaching the
		// limit of the mercator square from below - a formula may be replaced by a cheaper one on part of the domain
		for i := 0; i < c.pick(3000, 60000); i++ {
			sgn := func() float64 { return float64(1 - 2*c.rng.Intn(2)) }
			lat := sgn() * math.Min(85.05, math.Pow(10, c.rng.Float64()*9-7))
			lon := sgn() * math.Min(180, math.Pow(10, c.rng.Float64()*9.3-7))
			if i%5 == 0 {
				lat = sgn() * (85.05 - math.Pow(10, c.rng.Float64()*8-7))
			}
			rt(lon, lat)
		}
		anchor := func(name string, got, want int) {
			c.emit(map[string]interface{}{"k": "anchor", "name": name, "got": got, "want": want, "nt": 1})
		}
		anchor("ToMercator(180,0).x in m", clipInt(project.WGS84.ToMercator(orb.Point{180, 0})[0]), 20037508)
		anchor("ToMercator(180,0).y in m", clipInt(project.WGS84.ToMercator(orb.Point{180, 0})[1]), 0)
		anchor("ToMercator(0,90).y clamped", clipInt(project.WGS84.ToMercator(orb.Point{0, 90})[1]), 20037508)
		anchor("ToMercator(0,-90).y clamped", clipInt(project.WGS84.ToMercator(orb.Point{0, -90})[1]), -20037508)
		anchor("ToWGS84(R*pi,0).lon in udeg", clipInt(project.Mercator.ToWGS84(orb.Point{orb.EarthRadius * math.Pi, 0})[0]*1e6), 180000000)
		anchor("ToMercator(-180,0).x in m", clipInt(project.WGS84.ToMercator(orb.Point{-180, 0})[0]), -20037508)
	})
}
