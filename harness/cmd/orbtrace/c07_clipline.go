package main

import (
	"github.com/paulmach/orb"
	"github.com/paulmach/orb/clip"
)

// C07: clip.LineString / clip.MultiLineString / clip.Geometry (1-d kinds).
// Event: {k:"clipline", fn, box:[x0,y0,x1,y1], paths:[[[x,y]..]..], open, out:[[[x,y]..]..],
//         shape:"nil"|"ls"|"mls", mod, re, nt}; all coordinates in lattice units 1/S, S chosen per
// domain so that every crossing with a box line is a lattice point (60 for grid differences <= 6,
// 840 for differences <= 8).

type clipLineEv struct {
	K     string     `json:"k"`
	Fn    string     `json:"fn"`
	Box   [4]int     `json:"box"`
	Paths [][][2]int `json:"paths"`
	Open  int        `json:"open"`
	Out   [][][2]int `json:"out"`
	Shape string     `json:"shape"`
	Mod   int        `json:"mod"`
	Re    int        `json:"re"`
	NT    int        `json:"nt"`
	S     int        `json:"s"`
	PSt   int        `json:"pstable"`
	Dense int        `json:"dense"` // 1: the same line with every segment cut into hundreds of parts gave the same pieces
}

var c07Prev prevTracker

func toLS(path [][2]int, s float64) orb.LineString {
	ls := make(orb.LineString, len(path))
	for i, p := range path {
		ls[i] = orb.Point{float64(p[0]) / s, float64(p[1]) / s}
	}
	return ls
}

func toBound(b [4]int, s float64) orb.Bound {
	return orb.Bound{Min: orb.Point{float64(b[0]) / s, float64(b[1]) / s}, Max: orb.Point{float64(b[2]) / s, float64(b[3]) / s}}
}

// quantMLS projects output pieces to the lattice; ok=false if any vertex is off the lattice.
func quantMLS(mls orb.MultiLineString, s float64) ([][][2]int, bool) {
	out := make([][][2]int, 0, len(mls))
	for _, piece := range mls {
		pp := make([][2]int, 0, len(piece))
		for _, p := range piece {
			x, ok1 := quant(p[0], s)
			y, ok2 := quant(p[1], s)
			if !ok1 || !ok2 {
				return nil, false
			}
			pp = append(pp, [2]int{x, y})
		}
		out = append(out, pp)
	}
	return out, true
}

// c07Call runs one clip call on lattice input; returns the event(s).
func c07Call(c *ctx, fn string, S int, box [4]int, paths [][][2]int, open int, re int) (out [][][2]int) {
	s := float64(S) * figScale()
	e := clipLineEv{K: "clipline", Fn: fn, Box: box, Paths: paths, Open: open, Re: re, S: S}
	b := toBound(box, s)
	var in orb.MultiLineString
	for _, p := range paths {
		in = append(in, toLS(p, s))
	}
	keep := in.Clone()
	var res orb.MultiLineString
	isNil := false
	shape := ""
	setCurrent("clip."+fn, e)
	site := guard(func() {
		switch fn {
		case "LineString":
			// options are applied in order, the last one decides
			switch {
			case open == 1 && c.rr%3 == 0:
				res = clip.LineString(b, in[0], clip.OpenBound(false), clip.OpenBound(true))
			case open == 1:
				res = clip.LineString(b, in[0], clip.OpenBound(true))
			case c.rr%4 == 0:
				res = clip.LineString(b, in[0])
			case c.rr%4 == 1:
				res = clip.LineString(b, in[0], clip.OpenBound(true), clip.OpenBound(false))
			default:
				res = clip.LineString(b, in[0], clip.OpenBound(false))
			}
			isNil = res == nil
		case "MultiLineString":
			switch {
			case open == 1 && c.rr%3 == 0:
				res = clip.MultiLineString(b, in, clip.OpenBound(false), clip.OpenBound(true))
			case open == 1:
				res = clip.MultiLineString(b, in, clip.OpenBound(true))
			case c.rr%3 == 1:
				res = clip.MultiLineString(b, in, clip.OpenBound(true), clip.OpenBound(false))
			default:
				res = clip.MultiLineString(b, in)
			}
			isNil = len(res) == 0
		case "Geometry":
			var g, arg orb.Geometry = nil, in
			if len(in) == 1 {
				arg = in[0]
			}
			if c.rng.Intn(2) == 0 {
				g = clip.Geometry(b, arg)
			} else {
				// as a member of a collection, behind a bound and in front of a point (each member is clipped to the box,
				// whatever came before it): the member that comes back for the line is judged
				real := func() float64 { return float64(c.rng.Intn(9)*S) / s }
				pre := orb.MultiPoint{{real(), real()}, {real(), real()}}.Bound()
				g = clip.Geometry(b, orb.Collection{pre, arg, orb.Point{real(), real()}})
				switch coll := g.(type) {
				case orb.Collection:
					g = nil
					for _, m := range coll {
						switch m.(type) {
						case orb.LineString, orb.MultiLineString:
							if g == nil {
								g = m
							}
						}
					}
				case orb.LineString, orb.MultiLineString: // the only member left comes back by itself
				default:
					g = nil
				}
			}
			switch v := g.(type) {
			case nil:
				isNil = true
			case orb.LineString:
				res = orb.MultiLineString{v}
				shape = "ls"
			case orb.MultiLineString:
				res = v
				shape = "mls"
			default:
				shape = "other"
			}
		}
	})
	if site != "" {
		c.emit(panicEvent("clip."+fn, site, e))
		return nil
	}
	q, ok := quantMLS(res, s)
	if !ok {
		c.emit(map[string]interface{}{"k": "offlattice", "fn": "clip." + fn, "in": e})
		return nil
	}
	e.Out = q
	e.PSt = c07Prev.check(res)
	e.Dense = 1
	if fn == "LineString" && len(paths[0]) >= 2 && len(paths[0]) <= 13 && c.rng.Intn(c.pick(8, 32)) == 0 {
		// (only for figures whose own coordinates are exact in binary - whole and half units: on the grid of tenths a
		// vertex "on" a slanted line is not on it in floating point, and whether the line touches a corner is not decided)
		exact := true
		for _, v := range box {
			exact = exact && 2*v%S == 0
		}
		for _, v := range paths[0] {
			exact = exact && 2*v[0]%S == 0 && 2*v[1]%S == 0
		}
		if exact {
			e.Dense = c07Dense(c, s, box, paths[0], open, q)
		}
	}
	if isNil {
		e.Shape = "nil"
	} else if shape != "" {
		e.Shape = shape
	} else if len(q) == 1 {
		e.Shape = "ls"
	} else {
		e.Shape = "mls"
	}
	if !in.Equal(keep) {
		e.Mod = 1
	}
	// non-trivial: something was cut (output differs from input and is not empty)
	if len(q) > 0 && !(len(q) == len(paths) && eqPaths(q, paths)) {
		e.NT = 1
	}
	c.emit(e)
	return q
}

// c07Dense clips the same line once more with every segment cut into m equal parts (m = 128..1024, so that the
// line has thousands of vertices and those of the original sit at indices that are multiples of m, optionally shifted
// by a repeated first vertex). The lattice is refined by m, which makes the cut points lattice points; the vertices of
// the original and the box keep their exact float values. The pieces must be those of the short line once repeated
// vertices and vertices inside a straight run are taken out of both. Returns 0 on a difference.
func c07Dense(c *ctx, s float64, box [4]int, path [][2]int, open int, q [][][2]int) int {
	m := []int{128, 256, 512, 1024}[c.rng.Intn(4)]
	sm := s * float64(m)
	var dense [][2]int
	for r := c.rng.Intn(3); r > 0; r-- {
		dense = append(dense, [2]int{path[0][0] * m, path[0][1] * m})
	}
	for i := 0; i+1 < len(path); i++ {
		a, b := path[i], path[i+1]
		for t := 0; t < m; t++ {
			dense = append(dense, [2]int{a[0]*m + (b[0]-a[0])*t, a[1]*m + (b[1]-a[1])*t})
		}
	}
	last := path[len(path)-1]
	dense = append(dense, [2]int{last[0] * m, last[1] * m})
	b := toBound(box, s)
	var res orb.MultiLineString
	if site := guard(func() {
		if open == 1 {
			res = clip.LineString(b, toLS(dense, sm), clip.OpenBound(true))
		} else {
			res = clip.LineString(b, toLS(dense, sm))
		}
	}); site != "" {
		return 0
	}
	qd, ok := quantMLS(res, sm)
	if !ok {
		return 1 // a crossing that is not a lattice point: not judged here
	}
	norm := func(ps [][][2]int, k int) [][][2]int {
		out := [][][2]int{}
		for _, piece := range ps {
			np := [][2]int{}
			for _, v := range piece {
				w := [2]int{v[0] * k, v[1] * k}
				if len(np) > 0 && np[len(np)-1] == w {
					continue
				}
				for len(np) >= 2 {
					u, v := np[len(np)-2], np[len(np)-1]
					cross := (v[0]-u[0])*(w[1]-u[1]) - (v[1]-u[1])*(w[0]-u[0])
					dot := (v[0]-u[0])*(w[0]-v[0]) + (v[1]-u[1])*(w[1]-v[1])
					if cross != 0 || dot <= 0 {
						break
					}
					np = np[:len(np)-1]
				}
				np = append(np, w)
			}
			// a piece that is a single point - a line that only touches a corner or a side from outside - is reported
			// or not depending on where the vertices fall (with the open option it holds nothing strictly inside; with
			// the closed box the trace spec treats such zero-length touch pieces as optional as well): left out of both
			if len(np) <= 1 {
				continue
			}
			out = append(out, np)
		}
		return out
	}
	if !eqPaths(norm(qd, 1), norm(q, m)) {
		return 0
	}
	return 1
}

func eqPaths(a, b [][][2]int) bool {
	if len(a) != len(b) {
		return false
	}
	for i := range a {
		if len(a[i]) != len(b[i]) {
			return false
		}
		for j := range a[i] {
			if a[i][j] != b[i][j] {
				return false
			}
		}
	}
	return true
}

func init() {
	register("clipline", func(c *ctx) {
		// (1) exhaustive: every path of 1..3 vertices on a GxG integer grid x every box with corners
		// on BLO..BHI x both options (quick 5x5 / 1..3; thorough 7x7 / 1..5 with a seeded subset of the
		// boxes for the 3-vertex paths). Lattice 1/60.
		const S = 60
		G, lo, hi := 5, 1, 3
		if c.thorough() {
			G, lo, hi = 7, 1, 5
		}
		var boxes [][4]int
		for x0 := lo; x0 <= hi; x0++ {
			for x1 := x0 + 1; x1 <= hi; x1++ {
				for y0 := lo; y0 <= hi; y0++ {
					for y1 := y0 + 1; y1 <= hi; y1++ {
						boxes = append(boxes, [4]int{x0 * S, y0 * S, x1 * S, y1 * S})
					}
				}
			}
		}
		n := G * G
		pt := func(i int) [2]int { return [2]int{(i % G) * S, (i / G) * S} }
		for bi, box := range boxes {
			full := !c.thorough() || c.rng.Intn(6) == 0 || bi == 0
			for open := 0; open < 2; open++ {
				for a := 0; a < n; a++ {
					c07Call(c, "LineString", S, box, [][][2]int{{pt(a)}}, open, 0)
					for b := 0; b < n; b++ {
						out := c07Call(c, "LineString", S, box, [][][2]int{{pt(a), pt(b)}}, open, 0)
						for _, piece := range out { // idempotence: clip every piece again
							c07Call(c, "LineString", S, box, [][][2]int{piece}, open, 1)
						}
						if !full {
							continue
						}
						for d := 0; d < n; d++ {
							out := c07Call(c, "LineString", S, box, [][][2]int{{pt(a), pt(b), pt(d)}}, open, 0)
							if (a+b+d)%7 == 0 {
								for _, piece := range out {
									c07Call(c, "LineString", S, box, [][][2]int{piece}, open, 1)
								}
							}
						}
					}
				}
			}
		}
		// (1b) the same enumeration on coordinates that are not exact in binary: multiples of one tenth (k/10 as the
		// nearest float64), every box with corners on 0.1..0.4 and every segment between grid points 0..0.5 (0..0.6
		// thorough). In exact arithmetic nothing changes (the lattice is the same, ten times finer); in float64 a segment
		// through a box corner meets the two sides a rounding error apart - the call must still return, and return the same
		// pieces (projected to the lattice with a residual of 1e-7 lattice units).
		{
			const ST = 600
			GT := c.pick(6, 7)
			ptT := func(i int) [2]int { return [2]int{(i % GT) * 60, (i / GT) * 60} }
			for x0 := 1; x0 <= 4; x0++ {
				for x1 := x0 + 1; x1 <= 4; x1++ {
					for y0 := 1; y0 <= 4; y0++ {
						for y1 := y0 + 1; y1 <= 4; y1++ {
							box := [4]int{x0 * 60, y0 * 60, x1 * 60, y1 * 60}
							for open := 0; open < 2; open++ {
								for a := 0; a < GT*GT; a++ {
									for b := 0; b < GT*GT; b++ {
										out := c07Call(c, "LineString", ST, box, [][][2]int{{ptT(a), ptT(b)}}, open, 0)
										if open == 0 && (a+2*b)%3 == 0 { // the generic entry point (it looks at the line's bound first)
											c07Call(c, "Geometry", ST, box, [][][2]int{{ptT(a), ptT(b)}}, 0, 0)
										}
										if (a+b)%5 == 0 {
											for _, piece := range out {
												c07Call(c, "LineString", ST, box, [][][2]int{piece}, open, 1)
											}
										}
									}
								}
							}
						}
					}
				}
			}
		}
		// (2) seeded: paths of up to 12 vertices on a 9x9 grid (lattice 1/840), repeated vertices,
		// runs along box edges, corner crossings; LineString, MultiLineString and Geometry entry points.
		const S2 = 840
		nr := c.pick(6000, 120000)
		for i := 0; i < nr; i++ {
			x0, y0 := 1+c.rng.Intn(5), 1+c.rng.Intn(5)
			box := [4]int{x0 * S2, y0 * S2, (x0 + 1 + c.rng.Intn(7-x0)) * S2, (y0 + 1 + c.rng.Intn(7-y0)) * S2}
			runLen := 32
			mk := func() [][2]int {
				k := c.rng.Intn(13)
				if i%40 == 7 {
					// long lines (up to 120 vertices) with long runs far from the box on one side of it, then back through it
					k = 34 + c.rng.Intn(87)
				}
				p := make([][2]int, k)
				for j := range p {
					p[j] = [2]int{c.rng.Intn(9) * S2, c.rng.Intn(9) * S2}
					if k >= 34 { // runs of 30 .. 36 vertices in the column left of the box or the row above it, entered from
						// inside the box and left into it
						if j%48 == 0 {
							runLen = 30 + c.rng.Intn(7)
						}
						switch {
						case j%48 >= 6 && j%48 < 6+runLen:
							if (j/48)%2 == 0 {
								p[j][0] = 0
							} else {
								p[j][1] = 8 * S2
							}
							continue
						case j%48 == 5 || j%48 == 6+runLen:
							p[j] = [2]int{box[0], box[1]} // a grid vertex of the box: strictly inside it when the box is wide enough
							if box[2]-box[0] >= 2*S2 && box[3]-box[1] >= 2*S2 {
								p[j] = [2]int{box[0] + S2, box[1] + S2}
							}
							continue
						}
					}
					if j > 0 {
						switch c.rng.Intn(8) {
						case 0:
							p[j] = p[j-1]
						case 1: // run along a box edge
							p[j][0] = box[2*c.rng.Intn(2)]
							p[j-1][0] = p[j][0]
						case 2:
							p[j][1] = box[1+2*c.rng.Intn(2)]
							p[j-1][1] = p[j][1]
						case 3: // aim at a corner
							p[j] = [2]int{box[2*c.rng.Intn(2)], box[1+2*c.rng.Intn(2)]}
						}
					}
				}
				return p
			}
			open := c.rng.Intn(2)
			switch c.rng.Intn(4) {
			case 0, 1:
				out := c07Call(c, "LineString", S2, box, [][][2]int{mk()}, open, 0)
				for _, piece := range out {
					c07Call(c, "LineString", S2, box, [][][2]int{piece}, open, 1)
				}
			case 2:
				var paths [][][2]int
				for j := 0; j < 1+c.rng.Intn(3); j++ {
					paths = append(paths, mk())
				}
				c07Call(c, "MultiLineString", S2, box, paths, open, 0)
			default:
				var paths [][][2]int
				for j := 0; j < 1+c.rng.Intn(2); j++ {
					paths = append(paths, mk())
				}
				c07Call(c, "Geometry", S2, box, paths, 0, 0)
			}
		}
	})
}
