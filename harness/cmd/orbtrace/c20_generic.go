package main

import (
	"crypto/sha1"
	"encoding/json"
	"fmt"
	"math"
	"sort"
	"strings"

	"github.com/paulmach/orb"
	"github.com/paulmach/orb/clip"
	"github.com/paulmach/orb/clip/smartclip"
	"github.com/paulmach/orb/encoding/ewkb"
	"github.com/paulmach/orb/encoding/wkb"
	"github.com/paulmach/orb/encoding/wkt"
	"github.com/paulmach/orb/geo"
	"github.com/paulmach/orb/geojson"
	"github.com/paulmach/orb/maptile"
	"github.com/paulmach/orb/maptile/tilecover"
	"github.com/paulmach/orb/planar"
	"github.com/paulmach/orb/project"
	"github.com/paulmach/orb/simplify"
)

// C20: generic entry points. See spec/Generic_Trace.tla.

type genVal = map[string]interface{}

var genNil = genVal{"t": "nil"}

// gvGeom encodes a geometry result on the 1/120 lattice (clipping integer shapes against the half-integer
// box gives denominators 1..6 and 2); anything off that lattice is compared by a hash of the exact values
// instead of a tree and marked approx (it then takes no part in the collection law).
func gvGeom(g orb.Geometry) genVal {
	m, ok := encGeom(g, latticeFn(120))
	if !ok {
		v := gvStr(fmt.Sprintf("%#v", g))
		v["approx"] = 1
		return v
	}
	return m
}

func isApprox(v genVal) bool { _, ok := v["approx"]; return ok }

var genStrIDs = map[string]int{}

func gvStr(s string) genVal {
	h := fmt.Sprintf("%x", sha1.Sum([]byte(s)))
	id, ok := genStrIDs[h]
	if !ok {
		id = len(genStrIDs) + 1
		genStrIDs[h] = id
	}
	return genVal{"t": "str", "h": id}
}

func gvErr(err error) genVal { v := gvStr(err.Error()); v["t"] = "err"; return v }

// gvNum encodes v*scale as an integer when it is one (else a string of the exact bits, which still
// supports the generic = typed comparison but not the arithmetic laws).
func gvNum(v float64, scale float64) genVal {
	if math.IsInf(v, 1) {
		return genVal{"t": "num", "n": -1}
	}
	s := v * scale
	r := math.Round(s)
	if math.IsNaN(s) || math.Abs(s-r) > 1e-6 || math.Abs(r) > 1e8 {
		return gvStr(fmt.Sprintf("%016x", math.Float64bits(v)))
	}
	return genVal{"t": "num", "n": int(r)}
}

// gvFloor: a number rounded down to 1/scale (a monotone projection, unlike "exact or opaque").
func gvFloor(v float64, scale float64) genVal {
	if math.IsInf(v, 1) {
		return genVal{"t": "num", "n": -1}
	}
	return genVal{"t": "num", "n": int(math.Floor(v * scale))}
}

func gvSet(s maptile.Set, err error) genVal {
	if err != nil {
		return gvErr(err)
	}
	if s == nil {
		return genNil
	}
	rows := [][3]int{}
	for t := range s {
		rows = append(rows, [3]int{int(t.X), int(t.Y), int(t.Z)})
	}
	sort.Slice(rows, func(i, j int) bool {
		if rows[i][0] != rows[j][0] {
			return rows[i][0] < rows[j][0]
		}
		return rows[i][1] < rows[j][1]
	})
	return genVal{"t": "set", "s": rows}
}

type genFn struct {
	name  string
	gen   func(g orb.Geometry) genVal // generic entry point (may mutate g: callers pass a clone when needed)
	typed func(g orb.Geometry) (genVal, bool)
	mut   bool
}

var genBox = orb.Bound{Min: orb.Point{0.5, 0.5}, Max: orb.Point{2.5, 1.5}}
var genWide = orb.Bound{Min: orb.Point{-0.5, -0.5}, Max: orb.Point{8.5, 8.5}}

func unwrapMP(mp orb.MultiPolygon) orb.Geometry {
	if mp == nil {
		return nil
	}
	if len(mp) == 1 {
		return mp[0]
	}
	return mp
}

func nilIfEmpty(n int, g orb.Geometry) orb.Geometry {
	if n == 0 {
		return nil
	}
	return g
}

// spread maps the small integer coordinates to lon/lat so that shapes span several tiles.
func spread(g orb.Geometry) orb.Geometry {
	return project.Geometry(orb.Clone(g), func(p orb.Point) orb.Point { return orb.Point{p[0] * 20, p[1] * 15} })
}

func simplifierFns(name string, mk func() orb.Simplifier) genFn {
	return genFn{name: name, mut: true,
		gen: func(g orb.Geometry) genVal { return gvGeom(mk().Simplify(g)) },
		typed: func(g orb.Geometry) (genVal, bool) {
			s := mk()
			switch v := g.(type) {
			case orb.LineString:
				r := s.LineString(v)
				return gvGeom(nilIfEmpty(len(r), r)), true
			case orb.MultiLineString:
				r := s.MultiLineString(v)
				return gvGeom(nilIfEmpty(len(r), r)), true
			case orb.Ring:
				r := s.Ring(v)
				return gvGeom(nilIfEmpty(len(r), r)), true
			case orb.Polygon:
				r := s.Polygon(v)
				return gvGeom(nilIfEmpty(len(r), r)), true
			case orb.MultiPolygon:
				r := s.MultiPolygon(v)
				return gvGeom(nilIfEmpty(len(r), r)), true
			case orb.Collection:
				r := s.Collection(v)
				return gvGeom(nilIfEmpty(len(r), r)), true
			}
			return nil, false
		}}
}

// shorterView: the value without its last vertex, sharing its array (slice kinds of two or more vertices).
func shorterView(g orb.Geometry) (orb.Geometry, bool) {
	switch a := g.(type) {
	case orb.MultiPoint:
		if len(a) >= 2 {
			return a[:len(a)-1], true
		}
	case orb.LineString:
		if len(a) >= 2 {
			return a[:len(a)-1], true
		}
	case orb.Ring:
		if len(a) >= 2 {
			return a[:len(a)-1], true
		}
	}
	return nil, false
}

// clipFn is the generic clip against a box with its kind-specific counterparts.
func clipFn(name string, box orb.Bound) genFn {
	return genFn{name: name, mut: true, gen: func(g orb.Geometry) genVal { return gvGeom(clip.Geometry(box, g)) },
		typed: func(g orb.Geometry) (genVal, bool) {
			if g == nil || !box.Intersects(g.Bound()) {
				return nil, false
			}
			switch v := g.(type) {
			case orb.MultiPoint:
				r := clip.MultiPoint(box, v)
				if len(r) == 1 {
					return gvGeom(r[0]), true
				}
				return gvGeom(nilIfEmpty(len(r), r)), true
			case orb.LineString:
				r := clip.LineString(box, v)
				if len(r) == 1 {
					return gvGeom(r[0]), true
				}
				return gvGeom(nilIfEmpty(len(r), r)), true
			case orb.MultiLineString:
				r := clip.MultiLineString(box, v)
				if len(r) == 1 {
					return gvGeom(r[0]), true
				}
				return gvGeom(nilIfEmpty(len(r), r)), true
			case orb.Ring:
				r := clip.Ring(box, v)
				return gvGeom(nilIfEmpty(len(r), r)), true
			case orb.Polygon:
				r := clip.Polygon(box, v)
				return gvGeom(nilIfEmpty(len(r), r)), true
			case orb.MultiPolygon:
				r := clip.MultiPolygon(box, v)
				if len(r) == 1 {
					return gvGeom(r[0]), true
				}
				return gvGeom(nilIfEmpty(len(r), r)), true
			}
			return nil, false
		}}
}

var genFns = []genFn{
	{name: "Clone", gen: func(g orb.Geometry) genVal { return gvGeom(orb.Clone(g)) },
		typed: func(g orb.Geometry) (genVal, bool) {
			if isNilSlice(g) { // recorded finding of C06: the generic Clone normalises a typed nil to nil
				return nil, false
			}
			return gvGeom(typedClone(g)), g != nil
		}},
	// Round: the input is shifted by 0.3 first so that rounding to integers (factor 1) has something to do
	{name: "Round", mut: true, gen: func(g orb.Geometry) genVal {
		return gvGeom(orb.Round(project.Geometry(g, func(p orb.Point) orb.Point { return orb.Point{p[0] + 0.3, p[1] - 0.3} }), 1))
	}},
	// Round without a factor: the package-level orb.DefaultRoundingFactor (six decimals) applies
	{name: "Round.default", mut: true, gen: func(g orb.Geometry) genVal {
		return gvGeom(orb.Round(project.Geometry(g, func(p orb.Point) orb.Point { return orb.Point{p[0] + 3e-7, p[1] - 3e-7} })))
	}},
	{name: "planar.Area", gen: func(g orb.Geometry) genVal { return gvNum(planar.Area(g), 2) },
		typed: func(g orb.Geometry) (genVal, bool) { // a bound is measured as the polygon it denotes
			if b, ok := g.(orb.Bound); ok && !b.IsEmpty() {
				return gvNum(planar.Area(b.ToPolygon()), 2), true
			}
			return nil, false
		}},
	{name: "planar.CentroidArea.area", gen: func(g orb.Geometry) genVal { _, a := planar.CentroidArea(g); return gvNum(a, 2) }},
	{name: "planar.Length", gen: func(g orb.Geometry) genVal { return gvNum(planar.Length(g), 1) },
		typed: func(g orb.Geometry) (genVal, bool) { // a bound is measured as the ring it denotes
			if b, ok := g.(orb.Bound); ok && !b.IsEmpty() {
				return gvNum(planar.Length(b.ToRing()), 1), true
			}
			return nil, false
		}},
	// orb.Equal against the kind's own Equal, on a value and a shorter view of the same array (and on itself)
	{name: "Equal.view", gen: func(g orb.Geometry) genVal {
		v, ok := shorterView(g)
		if !ok {
			return gvNum(float64(b2i(orb.Equal(g, g))), 1)
		}
		return gvNum(float64(2*b2i(orb.Equal(g, v))+b2i(orb.Equal(v, g))), 1)
	},
		typed: func(g orb.Geometry) (genVal, bool) {
			switch a := g.(type) {
			case orb.MultiPoint:
				if len(a) >= 2 {
					return gvNum(float64(2*b2i(a.Equal(a[:len(a)-1]))+b2i(a[:len(a)-1].Equal(a))), 1), true
				}
			case orb.LineString:
				if len(a) >= 2 {
					return gvNum(float64(2*b2i(a.Equal(a[:len(a)-1]))+b2i(a[:len(a)-1].Equal(a))), 1), true
				}
			case orb.Ring:
				if len(a) >= 2 {
					return gvNum(float64(2*b2i(a.Equal(a[:len(a)-1]))+b2i(a[:len(a)-1].Equal(a))), 1), true
				}
			}
			return nil, false
		}},
	{name: "planar.DistanceFrom", gen: func(g orb.Geometry) genVal {
		d := planar.DistanceFrom(g, orb.Point{5, -1})
		return gvNum(d*d, 1)
	}},
	// query points inside the shapes' bounds, off the grid (squared distance rounded down to 1e-6: rounding down is
	// monotone, so the minimum over members still is the collection's value)
	{name: "planar.DistanceFrom.in", gen: func(g orb.Geometry) genVal {
		d := planar.DistanceFrom(g, orb.Point{1.5, 0.5})
		return gvFloor(d*d, 1e6)
	}},
	{name: "planar.DistanceFromWithIndex.in", gen: func(g orb.Geometry) genVal {
		d, _ := planar.DistanceFromWithIndex(g, orb.Point{0.75, 1.25})
		return gvFloor(d*d, 1e6)
	}},
	{name: "planar.DistanceFromWithIndex", gen: func(g orb.Geometry) genVal {
		d, _ := planar.DistanceFromWithIndex(g, orb.Point{1, 1})
		return gvNum(d*d, 1)
	}},
	{name: "geo.Area", gen: func(g orb.Geometry) genVal { return gvNum(geo.Area(g), 1e-3) }},
	{name: "geo.Length", gen: func(g orb.Geometry) genVal { return gvNum(geo.Length(g), math.Pi) },
		typed: func(g orb.Geometry) (genVal, bool) { // a bound is measured as the ring it denotes
			if b, ok := g.(orb.Bound); ok && !b.IsEmpty() {
				return gvNum(geo.Length(b.ToRing()), math.Pi), true
			}
			return nil, false
		}},
	{name: "geo.LengthHaversine", gen: func(g orb.Geometry) genVal { return gvNum(geo.LengthHaversine(g), math.Pi) },
		typed: func(g orb.Geometry) (genVal, bool) { // a bound is measured as the ring it denotes
			if b, ok := g.(orb.Bound); ok && !b.IsEmpty() {
				return gvNum(geo.LengthHaversine(b.ToRing()), math.Pi), true
			}
			return nil, false
		}},
	clipFn("clip.Geometry", genBox),
	// the same against a box that holds every generated shape: nothing to cut, and still the kind-specific answer
	// (empty members dropped, rings closed the way the typed function leaves them)
	clipFn("clip.Geometry.wide", genWide),
	{name: "smartclip.Geometry", mut: true, gen: func(g orb.Geometry) genVal { return gvGeom(smartclip.Geometry(genBox, g, orb.CCW)) },
		typed: func(g orb.Geometry) (genVal, bool) {
			switch v := g.(type) {
			case orb.Ring:
				return gvGeom(unwrapMP(smartclip.Ring(genBox, v, orb.CCW))), true
			case orb.Polygon:
				return gvGeom(unwrapMP(smartclip.Polygon(genBox, v, orb.CCW))), true
			case orb.MultiPolygon:
				return gvGeom(unwrapMP(smartclip.MultiPolygon(genBox, v, orb.CCW))), true
			}
			return nil, false
		}},
	{name: "project.Geometry", mut: true,
		gen: func(g orb.Geometry) genVal {
			return gvGeom(project.Geometry(g, func(p orb.Point) orb.Point { return orb.Point{p[0]*3 + 100, p[1]*5 - 7} }))
		},
		typed: func(g orb.Geometry) (genVal, bool) {
			f := func(p orb.Point) orb.Point { return orb.Point{p[0]*3 + 100, p[1]*5 - 7} }
			switch v := g.(type) {
			case orb.Point:
				return gvGeom(project.Point(v, f)), true
			case orb.MultiPoint:
				return gvGeom(project.MultiPoint(v, f)), true
			case orb.LineString:
				return gvGeom(project.LineString(v, f)), true
			case orb.MultiLineString:
				return gvGeom(project.MultiLineString(v, f)), true
			case orb.Ring:
				return gvGeom(project.Ring(v, f)), true
			case orb.Polygon:
				return gvGeom(project.Polygon(v, f)), true
			case orb.MultiPolygon:
				return gvGeom(project.MultiPolygon(v, f)), true
			case orb.Collection:
				return gvGeom(project.Collection(v, f)), true
			case orb.Bound:
				return gvGeom(project.Bound(v, f)), true
			}
			return nil, false
		}},
	simplifierFns("simplify.DouglasPeucker", func() orb.Simplifier { return simplify.DouglasPeucker(0.5) }),
	simplifierFns("simplify.Visvalingam", func() orb.Simplifier { return simplify.VisvalingamThreshold(0.6) }),
	simplifierFns("simplify.Radial", func() orb.Simplifier { return simplify.Radial(planar.Distance, 0.5) }),
	{name: "tilecover.Geometry", gen: func(g orb.Geometry) genVal { return gvSet(tilecover.Geometry(spread(g), 4)) },
		typed: func(g orb.Geometry) (genVal, bool) {
			s := spread(g)
			switch v := s.(type) {
			case orb.Point:
				return gvSet(tilecover.Point(v, 4), nil), true
			case orb.MultiPoint:
				return gvSet(tilecover.MultiPoint(v, 4), nil), true
			case orb.LineString:
				return gvSet(tilecover.LineString(v, 4), nil), true
			case orb.MultiLineString:
				return gvSet(tilecover.MultiLineString(v, 4), nil), true
			case orb.Ring:
				return gvSet(tilecover.Ring(v, 4)), true
			case orb.Polygon:
				return gvSet(tilecover.Polygon(v, 4)), true
			case orb.MultiPolygon:
				return gvSet(tilecover.MultiPolygon(v, 4)), true
			case orb.Collection:
				return gvSet(tilecover.Collection(v, 4)), true
			case orb.Bound:
				return gvSet(tilecover.Bound(v, 4), nil), true
			}
			return nil, false
		}},
	{name: "wkb.Marshal", gen: func(g orb.Geometry) genVal {
		b, err := wkb.Marshal(g)
		if err != nil {
			return gvErr(err)
		}
		return gvStr(string(b))
	}},
	{name: "ewkb.Marshal", gen: func(g orb.Geometry) genVal {
		b, err := ewkb.Marshal(g, 4326)
		if err != nil {
			return gvErr(err)
		}
		return gvStr(string(b))
	}},
	{name: "wkt.Marshal", gen: func(g orb.Geometry) genVal { return gvStr(string(wkt.Marshal(g))) }},
	{name: "geojson.Geometry", gen: func(g orb.Geometry) genVal {
		b, err := geojson.NewGeometry(g).MarshalJSON()
		if err != nil {
			return gvErr(err)
		}
		return gvStr(string(b))
	}},
	{name: "geojson.Feature", gen: func(g orb.Geometry) genVal {
		b, err := geojson.NewFeature(g).MarshalJSON()
		if err != nil {
			return gvErr(err)
		}
		return gvStr(string(b))
	}},
}

func c20Run(c *ctx, g orb.Geometry) {
	gm, _ := encGeom(g, intFn)
	for _, f := range genFns {
		e := genVal{"k": "gen", "fn": f.name, "g": gm, "hastyped": 0, "haseach": 0, "typed": genNil, "each": []interface{}{}}
		setCurrent(f.name, gm)
		arg := g
		spareOk := func() bool { return true }
		mut := f.mut
		e["ro"] = 0
		if _, isMP := g.(orb.MultiPoint); isMP && strings.HasPrefix(f.name, "clip.Geometry") {
			// clip documents that only 1-d and 2-d input is used as scratch space; MultiPoint "returns a new set"
			mut = false
			e["ro"] = 1
		}
		if mut {
			arg = orb.Clone(g)
			if g != nil && arg == nil {
				arg = typedClone(g)
			}
		} else {
			// read-only entry points get a copy whose slices have spare capacity holding sentinels
			arg, spareOk = spareCopy(g)
		}
		var res genVal
		site := guard(func() { res = f.gen(arg) })
		if site != "" {
			c.emit(panicEvent(f.name, site, gm))
			continue
		}
		e["res"] = res
		e["spare"] = 1
		if !mut {
			e["post"], _ = encGeom(arg, intFn)
			if !spareOk() {
				e["spare"] = 0
			}
		} else {
			e["post"] = gm
		}
		if f.typed != nil {
			var tv genVal
			var ok bool
			targ := orb.Clone(g)
			if g != nil && targ == nil {
				targ = typedClone(g)
			}
			site = guard(func() { tv, ok = f.typed(targ) })
			if site != "" {
				c.emit(panicEvent(f.name+"(typed)", site, gm))
				continue
			}
			if ok {
				e["hastyped"], e["typed"] = 1, tv
			}
		}
		if col, isCol := g.(orb.Collection); isCol {
			each := []interface{}{}
			failed := false
			for _, m := range col {
				marg := orb.Clone(m)
				if m != nil && marg == nil {
					marg = typedClone(m)
				}
				var r genVal
				if site = guard(func() { r = f.gen(marg) }); site != "" {
					failed = true
					break
				}
				each = append(each, r)
			}
			for _, r := range each {
				if isApprox(r.(genVal)) {
					failed = true
				}
			}
			if !failed && !isApprox(res) {
				e["haseach"], e["each"] = 1, each
			}
		}
		if g != nil {
			e["nt"] = 1
		}
		c.emit(e)
	}
}

func init() {
	// (R) the TLC-generated bounded shape set (ids 1..3 -> coordinates 0, 1, 2)
	register("genshapes", func(c *ctx) {
		var cases []string
		readCases(c.cases, func(raw json.RawMessage) { cases = append(cases, string(raw)) })
		sort.Strings(cases)
		for _, raw := range cases {
			var cs struct {
				G json.RawMessage `json:"g"`
			}
			if err := json.Unmarshal([]byte(raw), &cs); err != nil {
				fatal(err)
			}
			c20Run(c, decodeGeomJSON(cs.G, func(id int) float64 { return float64(id - 1) }))
		}
	})
	// (T) seeded rectilinear shapes with degenerate members at every level
	register("genrandom", func(c *ctx) {
		n := c.pick(600, 12000)
		for i := 0; i < n; i++ {
			var last orb.Point
			fresh := true
			rect := func() float64 { return 0 } // placeholder, replaced below
			_ = rect
			// rectilinear coordinates: each new point changes one coordinate of the previous one
			next := func() orb.Point {
				if fresh {
					last = orb.Point{float64(c.rng.Intn(4)), float64(c.rng.Intn(3))}
					fresh = false
					return last
				}
				d := c.rng.Intn(2)
				last[d] = float64(c.rng.Intn(4))
				return last
			}
			axis := 0
			var pt orb.Point
			coord := func() float64 { // randGeom asks for x then y of each point
				if axis == 0 {
					pt = next()
				}
				v := pt[axis]
				axis = 1 - axis
				return v
			}
			g := randGeom(c, 2, 4, coord)
			if i%29 == 0 {
				g = nil
			}
			if i%5 == 4 {
				// multi-part geometries whose parts differ in how much a simplifier keeps: a zig-zag (everything kept) next
				// to a straight run with redundant vertices of the same length (only the ends kept) - parts must not
				// influence each other
				k := 4 + c.rng.Intn(4)
				zig := func() orb.LineString {
					ls := orb.LineString{}
					for j := 0; j < k; j++ {
						ls = append(ls, orb.Point{float64(j), float64(2 * (j % 2))})
					}
					return ls
				}
				straight := func() orb.LineString {
					ls := orb.LineString{}
					for j := 0; j < k-c.rng.Intn(2); j++ {
						ls = append(ls, orb.Point{float64(j), 3})
					}
					return ls
				}
				ringZig := func() orb.Ring { return orb.Ring{{0, 0}, {4, 0}, {2, 1}, {4, 2}, {2, 3}, {4, 4}, {0, 4}, {0, 0}} }
				ringPlain := func() orb.Ring { return orb.Ring{{0, 0}, {1, 0}, {2, 0}, {4, 0}, {4, 2}, {4, 4}, {0, 4}, {0, 0}} }
				parts := []orb.LineString{zig(), straight()}
				if c.rng.Intn(2) == 0 {
					parts = append(parts, zig())
				}
				c.rng.Shuffle(len(parts), func(a, b int) { parts[a], parts[b] = parts[b], parts[a] })
				switch c.rng.Intn(4) {
				case 0:
					g = orb.MultiLineString(parts)
				case 1:
					col := orb.Collection{}
					for _, p := range parts {
						col = append(col, p)
					}
					g = col
				case 2:
					g = orb.MultiPolygon{{ringZig()}, {ringPlain()}}
					if c.rng.Intn(2) == 0 {
						g = orb.MultiPolygon{{ringPlain()}, {ringZig()}, {ringPlain()}}
					}
				default:
					g = orb.Collection{orb.Polygon{ringZig()}, orb.Polygon{ringPlain()}, straight()}
				}
			}
			if col, ok := g.(orb.Collection); ok && i%7 == 3 {
				// a nil geometry as a member (at the top or one level down): skipped by every entry point
				j := c.rng.Intn(len(col) + 1)
				col = append(col[:j:j], append(orb.Collection{nil}, col[j:]...)...)
				if c.rng.Intn(3) == 0 {
					col = append(col, orb.Collection{nil, orb.Point{1, 2}})
				}
				g = col
			}
			c20Run(c, g)
		}
	})
}
