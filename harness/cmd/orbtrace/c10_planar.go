package main

import (
	"math"
	"math/big"

	"github.com/paulmach/orb"
	"github.com/paulmach/orb/planar"
)

// C10: planar area / centroid / length / distance on integer geometries. See spec/PlanarMeasure_Trace.tla.

func rnd(v, scale float64) int { return int(math.Round(v * scale)) }

func init() {
	register("planar", func(c *ctx) {
		iv := func(r int) int { return c.rng.Intn(2*r+1) - r }
		ring := func(r, kmax int) [][2]int {
			k := 3 + c.rng.Intn(kmax-2)
			v := make([][2]int, k)
			for i := range v {
				v[i] = [2]int{iv(r), iv(r)}
			}
			if c.rng.Intn(2) == 0 {
				v = append(v, v[0])
			}
			return v
		}
		variants := func(r [][2]int) [][][2]int { // rotation, reversal, translation
			closed := len(r) > 1 && r[0] == r[len(r)-1]
			core := r
			if closed {
				core = r[:len(r)-1]
			}
			out := [][][2]int{r}
			k := len(core)
			rot := c.rng.Intn(k)
			rr := append(append([][2]int{}, core[rot:]...), core[:rot]...)
			rev := make([][2]int, k)
			for i := range core {
				rev[i] = core[k-1-i]
			}
			tr := make([][2]int, len(r))
			dx, dy := iv(3), iv(3)
			for i := range r {
				tr[i] = [2]int{r[i][0] + dx, r[i][1] + dy}
			}
			if closed {
				rr = append(rr, rr[0])
				rev = append(rev, rev[0])
			}
			return append(out, rr, rev, tr)
		}
		area := func(kind string, mp [][][][2]int, g orb.Geometry) {
			e := map[string]interface{}{"k": "area", "kind": kind, "mp": mp}
			setCurrent("planar.CentroidArea", e)
			var cen orb.Point
			var a, a2 float64
			// the geometry is carved out of one coordinate buffer, and the other (read-only) measures are taken first:
			// none of them may disturb what the next one sees
			g = sharedBuffer(g)
			site := guard(func() {
				planar.DistanceFrom(g, orb.Point{float64(iv(8)), float64(iv(8))})
				planar.Length(g)
				cen, a = planar.CentroidArea(g)
				a2 = planar.Area(g)
			})
			if site != "" {
				c.emit(panicEvent("planar.CentroidArea", site, e))
				return
			}
			if a2 != a || 2*a != math.Round(2*a) {
				c.emit(map[string]interface{}{"k": "offlattice", "fn": "planar.Area", "in": e})
				return
			}
			e["area2"], e["cx"], e["cy"] = int(2*a), rnd(cen[0], 1000), rnd(cen[1], 1000)
			if a != 0 {
				e["nt"] = 1
			}
			c.emit(e)
		}
		n := c.pick(13500, 281250)
		steps := [][3]int{{1, 0, 1}, {0, 2, 2}, {-3, 0, 3}, {3, 4, 5}, {-4, 3, 5}, {0, -1, 1}, {0, 0, 0}, {5, 12, 13}}
		for i := 0; i < n; i++ {
			switch i % 9 { // (8: the default branch, Length)
			case 0: // rings and their rotations / reversals / translations: |v| <= 12 keeps the moments in 32 bits
				for _, r := range variants(ring(12, 8)) {
					area("ring", [][][][2]int{{r}}, ringOf(r, 1))
				}
			case 1: // polygons with holes (any windings), multipolygons, collections of 2-d members
				mk := func() [][][2]int {
					p := [][][2]int{ring(12, 6)}
					for h := 0; h < c.rng.Intn(3); h++ {
						p = append(p, ring(5, 5))
					}
					return p
				}
				var mp [][][][2]int
				for j := 0; j < 1+c.rng.Intn(3); j++ {
					mp = append(mp, mk())
				}
				g := mpOf(mp, 1)
				area("polygon", mp[:1], g[0])
				area("multipolygon", mp, g)
				col := orb.Collection{}
				for _, p := range g {
					col = append(col, p)
				}
				col = append(col, orb.Point{1, 1}, orb.LineString{{0, 0}, {5, 5}}) // lower-dimensional members do not count
				area("collection", mp, col)
				// every two-dimensional kind as a member: a ring, a bound (the polygon it denotes), a multipolygon, a nested
				// collection - the collection measures as the multipolygon of all of them
				x0, y0, bw, bh := iv(6), iv(6), 1+c.rng.Intn(5), 1+c.rng.Intn(5)
				bnd := orb.Bound{Min: orb.Point{float64(x0), float64(y0)}, Max: orb.Point{float64(x0 + bw), float64(y0 + bh)}}
				bring := [][2]int{{x0, y0}, {x0 + bw, y0}, {x0 + bw, y0 + bh}, {x0, y0 + bh}, {x0, y0}}
				extra := ring(8, 5)
				sh := 0 // a ring member counts with its signed area: keep it counter-clockwise, so that it measures like a polygon
				for j := range extra {
					a, b := extra[j], extra[(j+1)%len(extra)]
					sh += a[0]*b[1] - a[1]*b[0]
				}
				if sh < 0 {
					for a, b := 0, len(extra)-1; a < b; a, b = a+1, b-1 {
						extra[a], extra[b] = extra[b], extra[a]
					}
				}
				// (the polygons here are hole-free: with arbitrary, non-nested "holes" a member's area can be negative, and how
				// such a member weighs inside a nested collection is not something the property speaks about)
				var mpo [][][][2]int
				for _, p := range mp {
					mpo = append(mpo, p[:1])
				}
				g = mpOf(mpo, 1)
				mixed := orb.Collection{bnd, ringOf(extra, 1), orb.Collection{g}, orb.Point{3, 3}}
				if c.rng.Intn(2) == 0 {
					mixed = orb.Collection{orb.Collection{bnd}, g, ringOf(extra, 1)}
				}
				all := append([][][][2]int{{bring}, {extra}}, mpo...)
				area("collection", all, mixed)
			case 2: // centroids of points and of lines with integer segment lengths; lower-dimensional collections
				k := 1 + c.rng.Intn(6)
				pts := make([][2]int, k)
				for j := range pts {
					pts[j] = [2]int{iv(20), iv(20)}
				}
				// the multi point is the head of a longer buffer (spare capacity holding foreign points): measuring is a
				// read-only question, also for what lies behind a member
				buf := append(orb.MultiPoint(ringOf(pts, 1)), orb.Point{777, -777}, orb.Point{-778, 778}, orb.Point{779, 779})
				mpts := buf[:k]
				spareOK := func() int {
					return b2i(buf[k] == orb.Point{777, -777} && buf[k+1] == orb.Point{-778, 778} && buf[k+2] == orb.Point{779, 779})
				}
				cen, a := planar.CentroidArea(mpts)
				c.emit(map[string]interface{}{"k": "cpts", "pts": pts, "area2": int(2 * a), "cx": rnd(cen[0], 1000), "cy": rnd(cen[1], 1000), "nt": 1})
				line := [][2]int{{iv(5), iv(5)}}
				lens := []int{}
				for j := 0; j < 1+c.rng.Intn(5); j++ {
					st := steps[c.rng.Intn(len(steps))]
					last := line[len(line)-1]
					line = append(line, [2]int{last[0] + st[0], last[1] + st[1]})
					lens = append(lens, st[2])
				}
				ls := orb.LineString(ringOf(line, 1))
				cen, a = planar.CentroidArea(ls)
				c.emit(map[string]interface{}{"k": "cline", "pts": line, "lens": lens, "area2": int(2 * a), "cx": rnd(cen[0], 1000), "cy": rnd(cen[1], 1000), "nt": 1})
				// a collection whose top dimension is 0 / 1
				colp := orb.Collection{mpts, orb.Point{float64(pts[0][0]), float64(pts[0][1])}}
				allp := append(append([][2]int{}, pts...), pts[0])
				cen, a = planar.CentroidArea(colp)
				c.emit(map[string]interface{}{"k": "ccoll", "dim": 0, "pts": allp, "line": [][2]int{}, "lens": []int{}, "area2": int(2 * a), "cx": rnd(cen[0], 1000), "cy": rnd(cen[1], 1000), "nt": 1, "ro": spareOK()})
				// the line as the only member of a multi line string that is itself the head of a longer one
				mbuf := orb.MultiLineString{ls, orb.LineString{{555, 555}, {556, 556}}}
				coll := orb.Collection{ls, mpts}
				if c.rng.Intn(2) == 0 {
					coll = orb.Collection{mbuf[:1], mpts, orb.LineString{}}
				}
				cen, a = planar.CentroidArea(coll)
				ro := spareOK() * b2i(len(mbuf[1]) == 2 && mbuf[1][0] == orb.Point{555, 555} && mbuf[1][1] == orb.Point{556, 556})
				planar.Area(coll)
				planar.Length(coll)
				planar.DistanceFrom(coll, orb.Point{1, 1})
				ro *= spareOK() * b2i(len(mbuf[1]) == 2 && mbuf[1][0] == orb.Point{555, 555})
				c.emit(map[string]interface{}{"k": "ccoll", "dim": 1, "pts": pts, "line": line, "lens": lens, "area2": int(2 * a), "cx": rnd(cen[0], 1000), "cy": rnd(cen[1], 1000), "nt": 1, "ro": ro})
			case 3, 4: // point-segment distance, |v| <= 8
				a, b, p := [2]int{iv(8), iv(8)}, [2]int{iv(8), iv(8)}, [2]int{iv(8), iv(8)}
				if c.rng.Intn(8) == 0 {
					b = a
				}
				if c.rng.Intn(4) == 0 { // a point on the supporting line
					t := iv(3)
					p = [2]int{a[0] + t*(b[0]-a[0]), a[1] + t*(b[1]-a[1])}
				}
				d2 := planar.DistanceFromSegmentSquared(orb.Point{float64(a[0]), float64(a[1])}, orb.Point{float64(b[0]), float64(b[1])}, orb.Point{float64(p[0]), float64(p[1])})
				e := map[string]interface{}{"k": "seg", "a": a, "b": b, "p": p, "q": rnd(d2, 10000), "zero": 0, "nt": 1}
				if d2 == 0 {
					e["zero"] = 1
				}
				c.emit(e)
			case 6: // DistanceFromWithIndex on multi-part geometries: the index names a part that attains the minimum
				p := [2]int{iv(8), iv(8)}
				closedRing := func() [][2]int { r := ring(8, 5); return append(r[:len(r):len(r)], r[0]) }
				var groups [][][][2]int // parts -> paths
				var g orb.Geometry
				np := 2 + c.rng.Intn(3)
				switch c.rng.Intn(4) {
				case 0: // multipolygon: parts are polygons (outer ring and possibly a hole)
					mp := orb.MultiPolygon{}
					for j := 0; j < np; j++ {
						rs := [][][2]int{closedRing()}
						poly := orb.Polygon{ringOf(rs[0], 1)}
						if c.rng.Intn(3) == 0 {
							h := closedRing()
							rs = append(rs, h)
							poly = append(poly, ringOf(h, 1))
						}
						groups = append(groups, rs)
						mp = append(mp, poly)
					}
					g = mp
				case 1: // multi line string
					mls := orb.MultiLineString{}
					for j := 0; j < np; j++ {
						l := ring(8, 3+c.rng.Intn(2))
						groups = append(groups, [][][2]int{l})
						mls = append(mls, orb.LineString(ringOf(l, 1)))
					}
					g = mls
				case 2: // polygon: parts are rings
					poly := orb.Polygon{}
					for j := 0; j < np; j++ {
						r := closedRing()
						groups = append(groups, [][][2]int{r})
						poly = append(poly, ringOf(r, 1))
					}
					g = poly
				default: // collection of polygons, lines and a multipolygon
					col := orb.Collection{}
					for j := 0; j < np; j++ {
						switch c.rng.Intn(3) {
						case 0:
							r := closedRing()
							groups = append(groups, [][][2]int{r})
							col = append(col, orb.Polygon{ringOf(r, 1)})
						case 1:
							l := ring(8, 3)
							groups = append(groups, [][][2]int{l})
							col = append(col, orb.LineString(ringOf(l, 1)))
						default:
							r1, r2 := closedRing(), closedRing()
							groups = append(groups, [][][2]int{r1, r2})
							col = append(col, orb.MultiPolygon{{ringOf(r1, 1)}, {ringOf(r2, 1)}})
						}
					}
					g = col
				}
				if c.rng.Intn(3) == 0 { // a query point inside the box of a later part, or on its boundary
					s := groups[len(groups)-1][0]
					j := c.rng.Intn(len(s) - 1)
					p = [2]int{(s[j][0] + s[j+1][0]) / 2, (s[j][1] + s[j+1][1]) / 2}
				}
				pt := orb.Point{float64(p[0]), float64(p[1])}
				e := map[string]interface{}{"k": "distidx", "groups": groups, "p": p, "nt": 1}
				setCurrent("planar.DistanceFromWithIndex", e)
				var d float64
				var idx int
				site := guard(func() { d, idx = planar.DistanceFromWithIndex(g, pt) })
				if site != "" {
					c.emit(panicEvent("planar.DistanceFromWithIndex", site, e))
					continue
				}
				e["q"], e["idx"] = rnd(d*d, 10000), idx
				c.emit(e)
			case 5: // DistanceFrom over all boundary segments of every kind
				p := [2]int{iv(8), iv(8)}
				pt := orb.Point{float64(p[0]), float64(p[1])}
				var paths [][][2]int
				var pts [][2]int
				var g orb.Geometry
				closedRing := func() [][2]int { r := ring(8, 6); return append(r[:len(r):len(r)], r[0]) }
				switch c.rng.Intn(6) {
				case 0:
					r := closedRing()
					paths, g = [][][2]int{r}, ringOf(r, 1)
				case 1:
					r, h := closedRing(), closedRing()
					paths, g = [][][2]int{r, h}, orb.Polygon{ringOf(r, 1), ringOf(h, 1)}
				case 2:
					l1, l2 := ring(8, 5), ring(8, 4)
					paths = [][][2]int{l1, l2}
					// members without a segment (no vertex, one vertex) anywhere among the others: nothing to measure to, and
					// no reason to stop measuring
					for k := c.rng.Intn(3); k > 0; k-- {
						j := c.rng.Intn(len(paths) + 1)
						short := [][2]int{}
						if c.rng.Intn(2) == 0 {
							short = [][2]int{{iv(8), iv(8)}}
						}
						paths = append(paths[:j:j], append([][][2]int{short}, paths[j:]...)...)
					}
					mls := orb.MultiLineString{}
					for _, l := range paths {
						mls = append(mls, orb.LineString(ringOf(l, 1)))
					}
					g = mls
					if c.rng.Intn(4) == 0 {
						g = orb.Collection{orb.Point{float64(iv(8) + 40), 40}, mls}
						pts = [][2]int{{int(g.(orb.Collection)[0].(orb.Point)[0]), 40}}
					}
				case 3:
					pts = ring(8, 5)
					g = orb.MultiPoint(ringOf(pts, 1))
				case 4:
					r, l := closedRing(), ring(8, 4)
					pts = [][2]int{{iv(8), iv(8)}}
					paths = [][][2]int{r, l}
					g = orb.Collection{orb.MultiPolygon{{ringOf(r, 1)}}, orb.LineString(ringOf(l, 1)), orb.Point{float64(pts[0][0]), float64(pts[0][1])}}
				default:
					x0, y0 := iv(6), iv(6)
					bw, bh := c.rng.Intn(8), c.rng.Intn(8)
					b := orb.Bound{Min: orb.Point{float64(x0), float64(y0)}, Max: orb.Point{float64(x0 + bw), float64(y0 + bh)}}
					switch c.rng.Intn(6) { // corners given the other way round in one coordinate or both: the same four sides
					case 0:
						b.Min[0], b.Max[0] = b.Max[0], b.Min[0]
					case 1:
						b.Min[1], b.Max[1] = b.Max[1], b.Min[1]
					case 2:
						b.Min, b.Max = b.Max, b.Min
					}
					if bw >= 2 && bh >= 2 && c.rng.Intn(2) == 0 { // a query point strictly inside the box: the distance is to the nearest side
						p = [2]int{x0 + 1 + c.rng.Intn(bw-1), y0 + 1 + c.rng.Intn(bh-1)}
						pt = orb.Point{float64(p[0]), float64(p[1])}
					}
					br := b.ToRing()
					r := [][2]int{}
					for _, q := range br {
						r = append(r, [2]int{int(q[0]), int(q[1])})
					}
					paths, g = [][][2]int{r}, b
				}
				if c.rng.Intn(3) == 0 && len(paths) > 0 && len(paths[0]) >= 2 { // a query point on the boundary
					s := paths[0]
					j := c.rng.Intn(len(s) - 1)
					if (s[j][0]+s[j+1][0])%2 == 0 && (s[j][1]+s[j+1][1])%2 == 0 {
						p = [2]int{(s[j][0] + s[j+1][0]) / 2, (s[j][1] + s[j+1][1]) / 2}
					} else {
						p = s[j]
					}
					pt = orb.Point{float64(p[0]), float64(p[1])}
				}
				if pts == nil {
					pts = [][2]int{}
				}
				if paths == nil {
					paths = [][][2]int{}
				}
				e := map[string]interface{}{"k": "dist", "paths": paths, "pts": pts, "p": p, "inf": 0, "zero": 0, "nt": 1}
				setCurrent("planar.DistanceFrom", e)
				var d, di float64
				site := guard(func() { d = planar.DistanceFrom(g, pt); di, _ = planar.DistanceFromWithIndex(g, pt) })
				if site != "" {
					c.emit(panicEvent("planar.DistanceFrom", site, e))
					continue
				}
				if math.IsInf(d, 1) {
					e["inf"], e["q"], e["qi"] = 1, 0, 0
				} else {
					e["q"], e["qi"] = rnd(d*d, 10000), rnd(di*di, 10000)
				}
				if d == 0 {
					e["zero"] = 1
				}
				c.emit(e)
			case 7:
				if c.rng.Intn(3) == 0 {
					// a long line: n vertices one unit apart (a staircase): its length is n - 1, through every kind that can hold it
					n := []int{500, 512, 513, 514, 1024, 1025, 2049, 5000}[c.rng.Intn(8)]
					ls := make(orb.LineString, n)
					for j := range ls {
						ls[j] = orb.Point{float64((j + 1) / 2), float64(j / 2)}
					}
					var g orb.Geometry = ls
					switch c.rng.Intn(5) {
					case 0:
						g = orb.Ring(ls)
					case 1:
						g = orb.MultiLineString{ls, {{0, 0}, {0, 1}}}
						n++
					case 2:
						g = orb.Collection{ls, orb.Point{1, 1}}
					case 3:
						g = orb.Polygon{orb.Ring(ls)}
					}
					e := map[string]interface{}{"k": "lenbig", "n": n, "nt": 1}
					setCurrent("planar.Length(long)", e)
					var L float64
					if site := guard(func() { L = planar.Length(g) }); site != "" {
						c.emit(panicEvent("planar.Length", site, e))
						continue
					}
					e["q"] = rnd(L, 100)
					c.emit(e)
					continue
				}
				// a small ring of arbitrary floats far from the origin, and the same ring moved to the origin by an exact translation: the
				// same area to a relative 1e-9 (in units of 1e-12), and Area = the area CentroidArea reports
				k := 3 + c.rng.Intn(6)
				T := []float64{1 << 20, -(1 << 20), 1 << 19, 3 << 18}[c.rng.Intn(4)]
				r0, r1 := make(orb.Ring, k), make(orb.Ring, k)
				for j := range r1 { // arbitrary floats far out; the near ring is the far one moved back (an exact subtraction)
					r1[j] = orb.Point{T + c.rng.Float64()*6, -T/2 + c.rng.Float64()*6}
					r0[j] = orb.Point{r1[j][0] - T, r1[j][1] + T/2}
				}
				e := map[string]interface{}{"k": "areafar", "nt": 1}
				setCurrent("planar.Area(far)", e)
				site := guard(func() {
					a0, a1 := planar.Area(r0), planar.Area(r1)
					_, ca1 := planar.CentroidArea(r1)
					p0, p1 := planar.Area(orb.Polygon{r0}), planar.Area(orb.MultiPolygon{{r1}})
					rel := func(x, y float64) int {
						// (relative to the area, or to one square unit for rings - they may cross themselves - that enclose less)
						return clipInt(math.Abs(x-y) / math.Max(math.Abs(y), 1) * 1e12)
					}
					e["rel"] = []int{rel(a1, a0), rel(ca1, a0), rel(math.Abs(p1), math.Abs(p0)), rel(math.Abs(p0), math.Abs(a0))}
				})
				if site != "" {
					c.emit(panicEvent("planar.Area", site, e))
					continue
				}
				c.emit(e)
			default: // Length: sum of segment lengths, bracketed by integer square roots per segment
				var paths [][][2]int
				for j := 0; j < 1+c.rng.Intn(3); j++ {
					paths = append(paths, ring(8, 6))
				}
				var g orb.Geometry
				if len(paths) == 1 {
					g = orb.LineString(ringOf(paths[0], 1))
				} else {
					mls := orb.MultiLineString{}
					for _, p := range paths {
						mls = append(mls, orb.LineString(ringOf(p, 1)))
					}
					g = mls
				}
				// the same segments held by the other kinds - rings (stored segments only), a polygon, polygons, a box, and a
				// collection mixing dimensions, one level down too: length is the sum of all segment lengths whatever holds them
				switch c.rng.Intn(8) {
				case 0:
					g = ringOf(paths[0], 1)
					paths = paths[:1]
				case 1:
					poly := orb.Polygon{}
					for _, p := range paths {
						poly = append(poly, ringOf(p, 1))
					}
					g = poly
				case 2:
					mp := orb.MultiPolygon{}
					for _, p := range paths {
						mp = append(mp, orb.Polygon{ringOf(p, 1)})
					}
					g = mp
				case 3:
					col := orb.Collection{orb.Polygon{ringOf(paths[0], 1)}, orb.Point{1, 2}}
					for _, p := range paths[1:] {
						if c.rng.Intn(2) == 0 {
							col = append(col, orb.LineString(ringOf(p, 1)))
						} else {
							col = append(col, orb.Collection{orb.MultiPoint{{3, 4}}, orb.MultiLineString{orb.LineString(ringOf(p, 1))}})
						}
					}
					g = col
				case 4:
					x0, y0, bw, bh := iv(6), iv(6), c.rng.Intn(8), c.rng.Intn(8)
					b := orb.Bound{Min: orb.Point{float64(x0), float64(y0)}, Max: orb.Point{float64(x0 + bw), float64(y0 + bh)}}
					switch c.rng.Intn(6) { // corners given the other way round in one coordinate or both: the same four sides
					case 0:
						b.Min[0], b.Max[0] = b.Max[0], b.Min[0]
					case 1:
						b.Min[1], b.Max[1] = b.Max[1], b.Min[1]
					case 2:
						b.Min, b.Max = b.Max, b.Min
					}
					paths = [][][2]int{{{x0, y0}, {x0 + bw, y0}, {x0 + bw, y0 + bh}, {x0, y0 + bh}, {x0, y0}}}
					g = b
					if c.rng.Intn(2) == 0 {
						g = orb.Collection{b, orb.Point{0, 0}}
					}
				}
				e := map[string]interface{}{"k": "len", "paths": paths, "nt": 1}
				setCurrent("planar.Length", e)
				var L float64
				if site := guard(func() { L = planar.Length(g) }); site != "" {
					c.emit(panicEvent("planar.Length", site, e))
					continue
				}
				e["q"] = rnd(L, 100)
				c.emit(e)
			}
		}
		// distance to long segments from points close to them and far from their start (integer coordinates up to 2^20:
		// the exact value is computed with big integers here, TLC's 32-bit integers do not reach that far; the
		// relative error, in units of 1e-12, is what the spec bounds by 1e-9)
		for i := 0; i < c.pick(3000, 60000); i++ {
			big20 := func() int { return c.rng.Intn(1<<21+1) - 1<<20 }
			a, b := [2]int{big20(), big20()}, [2]int{big20(), big20()}
			if c.rng.Intn(3) == 0 { // nearly axis-parallel and very long
				b = [2]int{-a[0], a[1] + c.rng.Intn(9) - 4}
			}
			if a == b {
				continue
			}
			// a point near the segment: somewhere along it (or a little beyond an end), a few units to the side
			t := c.rng.Float64()*1.2 - 0.1
			p := [2]int{a[0] + int(t*float64(b[0]-a[0])) + c.rng.Intn(41) - 20, a[1] + int(t*float64(b[1]-a[1])) + c.rng.Intn(41) - 20}
			want := exactSegDist(a, b, p)
			if want < 2 {
				// (closer than that the foot of the perpendicular, which is rounded at coordinate size, decides the relative
				// error of any floating-point computation: 2^21 * 2^-52 against a distance of a fraction of a unit)
				continue
			}
			fa, fb, fp := orb.Point{float64(a[0]), float64(a[1])}, orb.Point{float64(b[0]), float64(b[1])}, orb.Point{float64(p[0]), float64(p[1])}
			e := map[string]interface{}{"k": "distbig", "nt": 1}
			setCurrent("planar.DistanceFromSegment(long)", []interface{}{a, b, p})
			site := guard(func() {
				rel := func(got float64) int { return clipInt(math.Abs(got-want) / want * 1e12) }
				d, _ := planar.DistanceFromWithIndex(orb.LineString{fa, fb}, fp)
				e["rel"] = []int{rel(planar.DistanceFromSegment(fa, fb, fp)), rel(math.Sqrt(planar.DistanceFromSegmentSquared(fa, fb, fp))),
					rel(planar.DistanceFrom(orb.LineString{fa, fb}, fp)), rel(planar.DistanceFrom(orb.Ring{fb, fa, fb}, fp)), rel(d)}
			})
			if site != "" {
				c.emit(panicEvent("planar.DistanceFromSegment", site, e))
				continue
			}
			c.emit(e)
		}
	})
}

// exactSegDist is the distance from p to the segment ab, computed with big integers and one correctly rounded
// square root of a 200-bit quotient.
func exactSegDist(a, b, p [2]int) float64 {
	bi := func(v int) *big.Int { return big.NewInt(int64(v)) }
	dx, dy, px, py := bi(b[0]-a[0]), bi(b[1]-a[1]), bi(p[0]-a[0]), bi(p[1]-a[1])
	dot := new(big.Int).Add(new(big.Int).Mul(px, dx), new(big.Int).Mul(py, dy))
	lenSq := new(big.Int).Add(new(big.Int).Mul(dx, dx), new(big.Int).Mul(dy, dy))
	num, den := new(big.Int), big.NewInt(1)
	switch {
	case dot.Sign() <= 0:
		num.Add(new(big.Int).Mul(px, px), new(big.Int).Mul(py, py))
	case dot.Cmp(lenSq) >= 0:
		qx, qy := bi(p[0]-b[0]), bi(p[1]-b[1])
		num.Add(new(big.Int).Mul(qx, qx), new(big.Int).Mul(qy, qy))
	default:
		cross := new(big.Int).Sub(new(big.Int).Mul(px, dy), new(big.Int).Mul(py, dx))
		num.Mul(cross, cross)
		den = lenSq
	}
	q := new(big.Float).SetPrec(200).Quo(new(big.Float).SetPrec(200).SetInt(num), new(big.Float).SetPrec(200).SetInt(den))
	f, _ := q.Sqrt(q).Float64()
	return f
}
