package main

import (
	"fmt"
	"math"

	"github.com/paulmach/orb"
	"github.com/paulmach/orb/clip/smartclip"
	"github.com/paulmach/orb/planar"
)

// C16, sizes: combs with hundreds to tens of thousands of teeth (more than 2^15 and 2^16 pieces inside the box). A
// rectangle around the box has T slits cut into it through the top side of the box; the slits end inside the box (what
// remains is one comb-shaped polygon) or run through its bottom as well (T+1 rectangles). All coordinates are quarters,
// so areas are exact. The result is judged here - number of polygons, no holes, every vertex in the box, winding as
// asked, exact total area, sample points inside every tooth gap and every tooth - and TLC checks the verdicts.

func c16InRing(r orb.Ring, p orb.Point) bool {
	in := false
	for i, j := 0, len(r)-1; i < len(r); j, i = i, i+1 {
		if (r[i][1] > p[1]) != (r[j][1] > p[1]) && p[0] < (r[j][0]-r[i][0])*(p[1]-r[i][1])/(r[j][1]-r[i][1])+r[i][0] {
			in = !in
		}
	}
	return in
}

func init() {
	register("smartbig", func(c *ctx) {
		type comb struct {
			T       int
			through bool
		}
		sizes := []comb{{300, false}, {5000, true}, {33000, false}, {17000, true}}
		if c.thorough() {
			sizes = append(sizes, comb{66000, false}, comb{30000, true}, comb{32768, false}, comb{32769, false}, comb{16384, true}, comb{16385, true})
		}
		for it, cb := range sizes {
			T, through := cb.T, cb.through
			for _, o := range []orb.Orientation{orb.CCW, orb.CW} {
				W := float64(T + 1)
				box := orb.Bound{Min: orb.Point{0, 0}, Max: orb.Point{W, 4}}
				tip := 2.0
				if through {
					tip = -2
				}
				ring := make(orb.Ring, 0, 4*T+6)
				ring = append(ring, orb.Point{-4, -4}, orb.Point{W + 4, -4}, orb.Point{W + 4, 8})
				for j := T; j >= 1; j-- {
					x := float64(j)
					ring = append(ring, orb.Point{x + 0.25, 8}, orb.Point{x + 0.25, tip}, orb.Point{x - 0.25, tip}, orb.Point{x - 0.25, 8})
				}
				ring = append(ring, orb.Point{-4, 8}, orb.Point{-4, -4})
				if o == orb.CW {
					ring.Reverse()
				}
				e := map[string]interface{}{"k": "smartbig", "teeth": T, "through": through, "o": int(o), "nt": 1, "ok": 1, "what": ""}
				setCurrent("smartclip(big)", e)
				fail := func(w string) {
					if e["ok"] == 1 {
						e["ok"], e["what"] = 0, w
					}
				}
				site := guard(func() {
					var mp orb.MultiPolygon
					switch (it + int(o) + 1) % 3 {
					case 0:
						mp = smartclip.Ring(box, ring, o)
					case 1:
						mp = smartclip.Polygon(box, orb.Polygon{ring}, o)
					default:
						switch v := smartclip.Geometry(box, orb.Polygon{ring}, o).(type) {
						case orb.Polygon:
							mp = orb.MultiPolygon{v}
						case orb.MultiPolygon:
							mp = v
						}
					}
					wantN, wantArea := 1, 4*W-float64(T) // each slit takes half a unit times two units out of the box
					if through {
						wantN, wantArea = T+1, 4*W-2*float64(T)
					}
					if len(mp) != wantN {
						fail(fmt.Sprintf("%d polygons, want %d", len(mp), wantN))
						return
					}
					area := 0.0
					for _, p := range mp {
						if len(p) != 1 {
							fail("a polygon with holes (or without an outer ring)")
							return
						}
						r := p[0]
						if len(r) < 4 || r[0] != r[len(r)-1] {
							fail("a ring that is not closed")
							return
						}
						for _, v := range r {
							if !box.Contains(v) {
								fail("a vertex outside the box")
								return
							}
						}
						if r.Orientation() != o {
							fail("an outer ring wound the other way")
							return
						}
						area += math.Abs(planar.Area(r))
					}
					if area != wantArea {
						fail(fmt.Sprintf("area %v, want %v", area, wantArea))
						return
					}
					// sample points: the middle of every slit is outside everything, the middle of every tooth in exactly one polygon
					step := 1 + T/200 // (every sample scans the rings: a couple of hundred of them, spread over the comb)
					for j := 1; j <= T; j += step {
						progress() // (the harness's own work)
						cover := func(p orb.Point) int {
							n := 0
							for _, poly := range mp {
								if b := poly[0].Bound(); b.Contains(p) && c16InRing(poly[0], p) {
									n++
								}
							}
							return n
						}
						if cover(orb.Point{float64(j), 3}) != 0 {
							fail(fmt.Sprintf("the middle of slit %d is covered", j))
							return
						}
						if cover(orb.Point{float64(j) + 0.5, 3}) != 1 {
							fail(fmt.Sprintf("the tooth after slit %d is not covered exactly once", j))
							return
						}
					}
				})
				if site != "" {
					c.emit(panicEvent("smartclip(big)", site, e))
					continue
				}
				c.emit(e)
			}
		}
	})
}
