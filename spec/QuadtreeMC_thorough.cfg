SPECIFICATION Spec
CONSTANTS
  B = 256
  Pts <- PtsDef
  MaxOps = 6
  QX = {0, 100, 128, 250}
  QY = {0, 64, 130, 256}
  KS = {1, 2, 3}
  MDS = {0, 100, 1000}
  BOXES <- BoxesDef
  FILTERS <- FiltersDef
INVARIANTS InCell Unique ParentClosed FindRefines KnnRefines InBoundRefines
PROPERTY StepRefines
CHECK_DEADLOCK FALSE
