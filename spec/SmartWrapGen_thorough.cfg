SPECIFICATION Spec
CONSTANTS P = 12  N = 3  BROKEN = FALSE
INVARIANT Emit
CHECK_DEADLOCK FALSE
