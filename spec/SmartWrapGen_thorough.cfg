SPECIFICATION Spec
CONSTANTS P = 12  N = 4  BROKEN = FALSE
INVARIANT Emit
CHECK_DEADLOCK FALSE
