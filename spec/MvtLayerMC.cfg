SPECIFICATION Spec
CONSTANT N = 5
INVARIANTS WriteBehindRead UnreadIntact PrefixDone Final
CHECK_DEADLOCK FALSE
