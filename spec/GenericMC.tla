---------------------------- MODULE GenericMC ----------------------------
(* Model check of the C20 tables: the dispatch table is total over the entry points, and the collection    *)
(* laws are consistent: applied to the results of a flattened collection they give the same value as       *)
(* applied level by level (sum, min, union are associative; map and filter commute with nesting one level). *)
EXTENDS Generic, TLC
Fns == {"Clone", "Equal.view", "Round", "Round.default", "project.Geometry", "simplify.DouglasPeucker", "simplify.Visvalingam", "simplify.Radial",
        "planar.Area", "planar.Length", "planar.CentroidArea.area", "planar.DistanceFrom", "planar.DistanceFromWithIndex", "planar.DistanceFrom.in", "planar.DistanceFromWithIndex.in",
        "geo.Area", "geo.Length", "geo.LengthHaversine", "clip.Geometry", "clip.Geometry.wide", "smartclip.Geometry", "tilecover.Geometry",
        "wkb.Marshal", "ewkb.Marshal", "wkt.Marshal", "geojson.Geometry", "geojson.Feature"}
Nums == {[t |-> "num", n |-> k] : k \in {-1, 0, 1, 3}}
VARIABLES xs, ys
Init == xs = <<>> /\ ys = <<>>
Next == \/ (Len(xs) < 2 /\ \E v \in Nums : xs' = Append(xs, v) /\ UNCHANGED ys)
        \/ (Len(ys) < 2 /\ \E v \in Nums : ys' = Append(ys, v) /\ UNCHANGED xs)
Spec == Init /\ [][Next]_<<xs, ys>>
TableTotal == \A f \in Fns : Law(f) \in {"map", "mapnil", "sum", "min", "filter", "filtersmart", "union", "none"} /\ ReadOnly(f) \in BOOLEAN
Pos(rs) == \A i \in 1..Len(rs) : rs[i].n >= 0
\* nesting: [xs..., [ys...]] combined level by level equals the flat combination
SumAssoc == (Pos(xs) /\ Pos(ys)) => SumN(xs \o <<[t |-> "num", n |-> SumN(ys, 1)]>>, 1) = SumN(xs \o ys, 1)
MinAssoc == MinN(xs \o <<[t |-> "num", n |-> MinN(ys)]>>) = MinN(xs \o ys)
=============================================================================
