SPECIFICATION Spec
CONSTANT MaxOps = 4
INVARIANTS FramingInv DrainedInv Fifo NoErr
CHECK_DEADLOCK FALSE
