---------------------------- MODULE DecGen ----------------------------
(* Case generators for C05 replay (spec -> code): exactly the finite input spaces the property names.          *)
(*  MODE = "wkb"  every header = order byte x type word x boundary element count x payload shape                *)
(*                (the harness adds every truncation point of each)                                              *)
(*  MODE = "wkt"  every sentence of <= MAXLEN tokens over the 16-token alphabet                                  *)
(*  MODE = "mvt"  every command-word sequence of <= MAXLEN words over a 14-word alphabet x geometry type          *)
EXTENDS Integers, Sequences, TLC, Json
CONSTANTS MODE, MAXLEN
VARIABLE s
Orders == {0, 1, 2, 255}
\* type words as four bytes, most significant first (the harness lays them out in the order byte's byte order)
TypeWords == {<<0,0,0,k>> : k \in {0, 1, 2, 3, 4, 5, 6, 7, 8, 15, 17}} \cup {<<32,0,0,k>> : k \in 1..7} \cup {<<128,0,0,1>>}
\* boundary counts, and the counts c just above 2^32 / s for element sizes s in {3, 5, 8, 9, 16, 21, 24, 32}: c * s wraps
\* to a small number in 32-bit arithmetic (a length guard written as a product is then passed by a huge count)
Counts == {<<0,0,0,0>>, <<0,0,0,1>>, <<0,0,0,2>>, <<16,0,0,0>>, <<16,0,0,1>>, <<128,0,0,0>>, <<255,255,255,255>>,
           <<8,0,0,0>>, <<8,0,0,1>>, <<10,170,170,171>>, <<10,170,170,172>>, <<12,48,195,13>>, <<12,48,195,14>>, <<16,0,0,0>>, <<16,0,0,1>>, <<28,113,199,29>>, <<28,113,199,30>>, <<32,0,0,0>>, <<32,0,0,1>>, <<51,51,51,52>>, <<51,51,51,53>>, <<85,85,85,86>>, <<85,85,85,87>>}
Payloads == {"none", "point", "short", "points2", "member"}
WktAlphabet == {"POINT", "LINESTRING", "POLYGON", "MULTIPOINT", "MULTIPOLYGON", "GEOMETRYCOLLECTION", "EMPTY",
                "(", ")", ",", " ", "1", "-2.5", "3e2", "x", "1e"}
\* 2^31-1: ClosePath with a huge count; 33554433 / 33554434: MoveTo / LineTo claiming 2^22 points
MvtWords == {0, 9, 17, 10, 18, 15, 7, 1, 2, 4, 2147483647, 26, 33554433, 33554434}
Init == s = <<>>
Next == \/ MODE = "wkb" /\ s = <<>> /\ \E o \in Orders, t \in TypeWords, c \in Counts, p \in Payloads :
              s' = <<[o |-> o, ty |-> t, cnt |-> c, pay |-> p]>>
        \/ MODE = "wkt" /\ Len(s) < MAXLEN /\ \E tk \in WktAlphabet : s' = Append(s, tk)
        \/ MODE = "mvt" /\ Len(s) < MAXLEN /\ \E w \in MvtWords : s' = Append(s, w)
Spec == Init /\ [][Next]_s
Emit == s = <<>> \/ PrintT(ToJson([c |-> s]))
=============================================================================
