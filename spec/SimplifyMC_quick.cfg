SPECIFICATION Spec
CONSTANTS N = 3  K = 5  TS = {0, 4, 16, 40, 200}
INVARIANTS DP DPAll Radial Vis VisKeepN
CHECK_DEADLOCK FALSE
