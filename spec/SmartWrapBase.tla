---------------------------- MODULE SmartWrapBase ----------------------------
(* What smartWrap must produce, as operators over a configuration of pieces [s, e] on an outline of PP positions    *)
(* (used by SmartWrap.tla with its constant P and by SmartWrap_Trace.tla with the P of each event).                 *)
EXTENDS Integers, Sequences, FiniteSets
DistP(PP, a, b) == (b - a + PP) % PP
EndpointsOf(cfg) == {cfg[i].s : i \in 1..Len(cfg)} \cup {cfg[i].e : i \in 1..Len(cfg)}
DistinctPos(cfg) == Cardinality(EndpointsOf(cfg)) = 2 * Len(cfg)
\* strictly inside the arc that runs on from a to b
InArcP(PP, a, b, x) == DistP(PP, a, x) > 0 /\ DistP(PP, a, x) < DistP(PP, a, b)
NonCrossingP(PP, cfg) == \A i, j \in 1..Len(cfg) : i # j =>
                       InArcP(PP, cfg[i].s, cfg[i].e, cfg[j].s) = InArcP(PP, cfg[i].s, cfg[i].e, cfg[j].e)
\* going on from position t: the first endpoint met
NextAfterP(PP, cfg, t) == CHOOSE x \in EndpointsOf(cfg) \ {t} : \A y \in EndpointsOf(cfg) \ {t} : DistP(PP, t, x) <= DistP(PP, t, y)
Starts(cfg) == {cfg[i].s : i \in 1..Len(cfg)}
AlternatesP(PP, cfg) == \A i \in 1..Len(cfg) : NextAfterP(PP, cfg, cfg[i].e) \in Starts(cfg)
ValidP(PP, cfg) == Len(cfg) >= 1 /\ DistinctPos(cfg) /\ NonCrossingP(PP, cfg) /\ AlternatesP(PP, cfg)
PieceStartingAt(cfg, t) == CHOOSE i \in 1..Len(cfg) : cfg[i].s = t
SuccP(PP, cfg, i) == PieceStartingAt(cfg, NextAfterP(PP, cfg, cfg[i].e))
RECURSIVE CycleFromP(_, _, _, _, _)
CycleFromP(PP, cfg, first, i, acc) == LET j == SuccP(PP, cfg, i) IN IF j = first THEN acc ELSE CycleFromP(PP, cfg, first, j, Append(acc, j))
\* a cycle is written starting from its smallest piece number
MinOf(S) == CHOOSE x \in S : \A y \in S : x <= y
Rotate(c, k) == SubSeq(c, k, Len(c)) \o SubSeq(c, 1, k - 1)
Norm(c) == LET m == MinOf({c[k] : k \in 1..Len(c)}) IN Rotate(c, CHOOSE k \in 1..Len(c) : c[k] = m)
CyclesP(PP, cfg) == {Norm(CycleFromP(PP, cfg, i, i, <<i>>)) : i \in 1..Len(cfg)}
\* what aroundBound puts between an end at position t1 and a start at position t2 (PP = 4K positions, K per side): the
\* corner after every side it leaves (tokens -1 .. -4, the corner after side c lies between positions K(c+1)-1 and
\* K(c+1)) and, for a side it runs along from corner to corner, that side's midpoint first (tokens -5 .. -8)
CornersPassed(PP, t1, t2) ==
   LET K2 == PP \div 2                                       \* twice the number of slots per side
       cpos(c) == (K2 * (c + 1) - 1) % (2 * PP)               \* on the doubled scale, where slot t sits at 2t
       d(c) == DistP(2 * PP, 2 * t1, cpos(c))
       hit == {c \in 0..3 : d(c) < DistP(2 * PP, 2 * t1, 2 * t2)}
       RECURSIVE Ord(_, _)
       Ord(S, first) == IF S = {} THEN <<>>
                        ELSE LET m == CHOOSE x \in S : \A y \in S : d(x) <= d(y) IN
                             (IF first THEN <<-(m + 1)>> ELSE <<-(5 + m), -(m + 1)>>) \o Ord(S \ {m}, FALSE)
   IN Ord(hit, TRUE)
\* a result ring as tokens: each piece (its number), then the corners passed on the way to the next piece
RECURSIVE RingTokens(_, _, _, _)
RingTokens(PP, cfg, cyc, k) == IF k > Len(cyc) THEN <<>>
   ELSE <<cyc[k]>> \o CornersPassed(PP, cfg[cyc[k]].e, cfg[cyc[(k % Len(cyc)) + 1]].s) \o RingTokens(PP, cfg, cyc, k + 1)
\* written from the smallest piece number
NormTok(c) == LET m == MinOf({c[k] : k \in {j \in 1..Len(c) : c[j] > 0}}) IN Rotate(c, CHOOSE k \in 1..Len(c) : c[k] = m)
RingsP(PP, cfg) == {RingTokens(PP, cfg, cyc, 1) : cyc \in CyclesP(PP, cfg)}
=============================================================================
