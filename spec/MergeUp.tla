---------------------------- MODULE MergeUp ----------------------------
(* C14 (merging): tilecover.MergeUp as a state machine.  The code ranges over the map it mutates, and Go        *)
(* presents map keys in any order, so each loop iteration is one action choosing ANY not-yet-visited key.        *)
(* Abstract result: MaxMerge = the maximal tiles all of whose zoom-MAXZ descendants are in the input, never      *)
(* shallower than min.                                                                                            *)
EXTENDS Integers, FiniteSets, Sequences, TLC
CONSTANT MAXZ                      \* zoom of the input cover
Tile(x,y,z) == <<x,y,z>>
AllAt(z) == {Tile(x,y,z) : x \in 0..(2^z - 1), y \in 0..(2^z - 1)}
Parent(t) == Tile(t[1] \div 2, t[2] \div 2, t[3] - 1)
Kids(t) == {Tile(2*t[1]+dx, 2*t[2]+dy, t[3]+1) : dx \in {0,1}, dy \in {0,1}}
Sibs(t) == Kids(Parent(t))
Inputs == SUBSET AllAt(MAXZ)       \* overridden by the quick config

VARIABLES input, min, set, merged, parentSet, z, pending, pc
vars == <<input, min, set, merged, parentSet, z, pending, pc>>

Init == /\ input \in Inputs /\ min \in 0..MAXZ
        /\ set = input /\ merged = {} /\ parentSet = {} /\ z = MAXZ
        /\ pending = input
        /\ pc = IF min = MAXZ \/ input = {} THEN "returnInput" ELSE "loop"

\* one iteration of `for t, v := range set`
Visit(t) ==
  /\ pc = "loop" /\ t \in pending
  /\ pending' = pending \ {t}
  /\ IF t \notin set THEN UNCHANGED <<set, merged, parentSet>>           \* value already false: skipped
     ELSE LET sb == Sibs(t) IN
          IF sb \subseteq set
          THEN /\ set' = set \ sb
               /\ IF z - 1 = min THEN merged' = merged \cup {Parent(t)} /\ UNCHANGED parentSet
                                 ELSE parentSet' = parentSet \cup {Parent(t)} /\ UNCHANGED merged
          ELSE /\ merged' = merged \cup (sb \cap set) /\ set' = set \ sb /\ UNCHANGED parentSet
  /\ UNCHANGED <<input, min, z, pc>>
EndLevel ==
  /\ pc = "loop" /\ pending = {}
  /\ IF Cardinality(parentSet) < 4
     THEN /\ merged' = merged \cup parentSet /\ pc' = "done" /\ UNCHANGED <<set, z, pending, parentSet>>
     ELSE IF z - 1 > min
          THEN /\ set' = parentSet /\ pending' = parentSet /\ parentSet' = {} /\ z' = z - 1 /\ UNCHANGED <<merged, pc>>
          ELSE /\ pc' = "done" /\ UNCHANGED <<set, merged, parentSet, z, pending>>
  /\ UNCHANGED <<input, min>>
Next == (\E t \in pending : Visit(t)) \/ EndLevel
Spec == Init /\ [][Next]_vars

\* ---- abstract result -----------------------------------------------------------------------------
RECURSIVE CoveredIn(_, _, _)
CoveredIn(S, mz, t) == IF t[3] = mz THEN t \in S ELSE \A k \in Kids(t) : CoveredIn(S, mz, k)
MaxMergeOf(S, mz, mn) == {t \in UNION {AllAt(zz) : zz \in mn..mz} :
                            CoveredIn(S, mz, t) /\ (t[3] = mn \/ ~CoveredIn(S, mz, Parent(t)))}
MaxMerge == MaxMergeOf(input, MAXZ, min)
Result == IF pc = "returnInput" THEN input ELSE merged
Final == pc \in {"done", "returnInput"}
Correct == Final => Result = MaxMerge
RECURSIVE Leaves(_)
Leaves(t) == IF t[3] = MAXZ THEN {t} ELSE UNION {Leaves(k) : k \in Kids(t)}
SameArea == Final => UNION {Leaves(t) : t \in Result} = input
Disjoint == Final => \A a, b \in Result : a # b => Leaves(a) \cap Leaves(b) = {}
NoQuadLeft == Final => \A t \in Result : t[3] > min => ~(Sibs(t) \subseteq Result)
NotShallower == Final => \A t \in Result : t[3] >= min
\* quick configuration: every subset of the zoom-2 tiles of the top-left quad, with each of the three other
\* quads either complete or empty
QuadTiles(q) == {t \in AllAt(2) : t[1] \div 2 = q[1] /\ t[2] \div 2 = q[2]}
QuickInputs == {S \cup UNION {QuadTiles(q) : q \in F} : S \in SUBSET QuadTiles(<<0,0>>), F \in SUBSET {<<1,0>>, <<0,1>>, <<1,1>>}}
=============================================================================
