SPECIFICATION Spec
CONSTANTS R = 4  N = 4  K = 4
INVARIANTS Laws RingLaws
CHECK_DEADLOCK FALSE
