---------------------------- MODULE Simplify_Conf_Trace ----------------------------
(* Extended coverage (X03): the real simplifiers against the implementation-shaped transcriptions that SimplifyMC  *)
(* model-checks - not only the properties of C12 but the very output: Douglas-Peucker = one of DPImplResults (a maximum *)
(* splits; exact ties free), radial = RadialImpl, Visvalingam = one of VisImplResults (least effective area first, ties        *)
(* free).  This is what lets the model-checked facts about the transcriptions be read as facts about the code.        *)
(* Same events as Simplify_Trace; judged for inputs of at most 9 vertices.                                            *)
EXTENDS Simplify, TLC, Json, IOUtils
Trace == ndJsonDeserialize(IOEnv.TRACE)
VARIABLES l, bad
IsRing(e) == e.kind = "ring"
Keep(e) == IF e.keep = 0 THEN DefaultKeep(e.in, IsRing(e)) ELSE e.keep
Big == 1000000
VisSet(e) == {[i \in 1..Len(r) |-> e.in[r[i]]] : r \in VisImplResults(e.in, IF e.exact = 1 THEN Big ELSE e.n, IF e.exact = 1 THEN 1 ELSE e.d, Keep(e))}
Ok(e) == \/ e.k # "simp" \/ Len(e.in) > 9
         \/ CASE e.alg = "dp" -> e.out \in DPImplResults(e.in, e.n, e.d)
              [] e.alg = "radial" -> e.out = RadialImpl(e.in, e.n, e.d)
              [] e.alg = "vis" -> e.out \in VisSet(e)
              [] OTHER -> FALSE
Init == l = 1 /\ bad = {}
Next == /\ l <= Len(Trace) /\ l' = l + 1
        /\ bad' = IF Ok(Trace[l]) THEN bad ELSE bad \cup {l}
        /\ (l = Len(Trace) => PrintT(ToJson([done |-> l, bad |-> bad'])))
Spec == Init /\ [][Next]_<<l, bad>>
=============================================================================
