SPECIFICATION Spec
CONSTANTS MODE = "mvt"  MAXLEN = 4
INVARIANT Emit
CHECK_DEADLOCK FALSE
