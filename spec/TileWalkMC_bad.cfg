SPECIFICATION Spec
CONSTANTS
  U = 4
  W = 2
INVARIANT BadWalkOK
CHECK_DEADLOCK FALSE
