SPECIFICATION CSpec
CONSTANTS
  B = 256
  Pts <- PtsDef
  Removals <- RemDef
  Qs <- QsDef
  Kinds <- KindsDef
  NQ = 3
  SHARED = TRUE
  COMPACT = FALSE
INVARIANTS Deterministic
CHECK_DEADLOCK FALSE
