---------------------------- MODULE GeoJsonDoc ----------------------------
(* C02: GeoJSON as abstract documents.  A JSON value is one of                                                    *)
(*   [t |-> "null"]  [t |-> "bool", v]  [t |-> "num", v |-> id]  [t |-> "str", v |-> text]                         *)
(*   [t |-> "arr", v |-> sequence of values]  [t |-> "obj", n |-> number of members, v |-> record of members]       *)
(* (an object without members has v = <<>>).  Numbers are ids of float64 bit patterns (the harness parses the text   *)
(* with strconv and interns the bits), so "bit-identical coordinates" is id equality.                                 *)
(* GeomDoc / FeatureDoc / FCDoc say what the bytes must contain (RFC 7946 shape: "type" names the kind,               *)
(* "coordinates" nested exactly as deep as the kind requires, collections use "geometries", ring and bound as the      *)
(* polygon they denote, an empty collection and a nil geometry as null); Norm says what must come back.                *)
EXTENDS Integers, Sequences, FiniteSets, TLC

Null == [t |-> "null"]
Str(s) == [t |-> "str", v |-> s]
NumV(id) == [t |-> "num", v |-> id]
Arr(s) == [t |-> "arr", v |-> s]
Obj(rec) == [t |-> "obj", n |-> Cardinality(DOMAIN rec), v |-> rec]
EmptyObj == [t |-> "obj", n |-> 0, v |-> <<>>]

PtDoc(p) == Arr(<<NumV(p[1]), NumV(p[2])>>)
PtsDoc(ps) == Arr([i \in 1..Len(ps) |-> PtDoc(ps[i])])
RingsDoc(rs) == Arr([i \in 1..Len(rs) |-> PtsDoc(rs[i])])
PolysDoc(ps) == Arr([i \in 1..Len(ps) |-> RingsDoc(ps[i])])
BoundRing(b) == << <<b[1],b[2]>>, <<b[3],b[2]>>, <<b[3],b[4]>>, <<b[1],b[4]>>, <<b[1],b[2]>> >>
IsEmptyGeom(g) == g.t = "nil" \/ (g.t = "Collection" /\ g.g = <<>>)
RECURSIVE GeomDoc(_)
GeomDoc(g) ==
  IF IsEmptyGeom(g) THEN Null
  ELSE CASE g.t = "Point" -> Obj([type |-> Str("Point"), coordinates |-> PtDoc(g.c)])
         [] g.t = "MultiPoint" -> Obj([type |-> Str("MultiPoint"), coordinates |-> PtsDoc(g.c)])
         [] g.t = "LineString" -> Obj([type |-> Str("LineString"), coordinates |-> PtsDoc(g.c)])
         [] g.t = "MultiLineString" -> Obj([type |-> Str("MultiLineString"), coordinates |-> RingsDoc(g.c)])
         [] g.t = "Ring" -> Obj([type |-> Str("Polygon"), coordinates |-> RingsDoc(<<g.c>>)])
         [] g.t = "Bound" -> Obj([type |-> Str("Polygon"), coordinates |-> RingsDoc(<<BoundRing(g.c)>>)])
         [] g.t = "Polygon" -> Obj([type |-> Str("Polygon"), coordinates |-> RingsDoc(g.c)])
         [] g.t = "MultiPolygon" -> Obj([type |-> Str("MultiPolygon"), coordinates |-> PolysDoc(g.c)])
         [] g.t = "Collection" -> Obj([type |-> Str("GeometryCollection"), geometries |-> Arr([i \in 1..Len(g.g) |-> GeomDoc(g.g[i])])])
\* RFC 7946 shape: depth of "coordinates" per type name
Depth(ty) == CASE ty = "Point" -> 1 [] ty \in {"MultiPoint", "LineString"} -> 2 [] ty \in {"MultiLineString", "Polygon"} -> 3 [] ty = "MultiPolygon" -> 4 [] OTHER -> 0
RECURSIVE ArrDepthOK(_, _)
ArrDepthOK(d, k) == IF k = 1 THEN d.t = "arr" /\ Len(d.v) = 2 /\ d.v[1].t = "num" /\ d.v[2].t = "num"
                    ELSE d.t = "arr" /\ \A i \in 1..Len(d.v) : ArrDepthOK(d.v[i], k - 1)
RECURSIVE WellFormedGeom(_)
WellFormedGeom(d) == \/ d.t = "null"
                     \/ /\ d.t = "obj" /\ "type" \in DOMAIN d.v /\ d.v.type.t = "str"
                        /\ IF d.v.type.v = "GeometryCollection"
                           THEN DOMAIN d.v = {"type", "geometries"} /\ d.v.geometries.t = "arr" /\ \A i \in 1..Len(d.v.geometries.v) : WellFormedGeom(d.v.geometries.v[i])
                           ELSE DOMAIN d.v = {"type", "coordinates"} /\ Depth(d.v.type.v) > 0 /\ ArrDepthOK(d.v.coordinates, Depth(d.v.type.v))
\* features: f = [id, bbox, props, g]; id = [t |-> "none"] or a str / num value; bbox = <<>> or four ids; props = a value (obj or null)
Opt(cond, rec) == IF cond THEN rec ELSE <<>>
FeatureDoc(f) == Obj([type |-> Str("Feature"), geometry |-> GeomDoc(f.g), properties |-> f.props]
                     @@ Opt(f.id.t # "none", [id |-> f.id])
                     @@ Opt(f.bbox # <<>>, [bbox |-> Arr([i \in 1..Len(f.bbox) |-> NumV(f.bbox[i])])]))
\* collections: fc = [feats, bbox, extra]; extra = record of foreign members (never overriding type / bbox / features)
FCDoc(fc) == Obj(([type |-> Str("FeatureCollection"), features |-> Arr([i \in 1..Len(fc.feats) |-> FeatureDoc(fc.feats[i])])]
                  @@ Opt(fc.bbox # <<>>, [bbox |-> Arr([i \in 1..Len(fc.bbox) |-> NumV(fc.bbox[i])])]))
                 @@ fc.extra)

\* what must come back
RECURSIVE NormG(_)
NormG(g) == IF IsEmptyGeom(g) THEN [t |-> "nil"]
            ELSE IF g.t = "Ring" THEN [t |-> "Polygon", c |-> <<g.c>>]
            ELSE IF g.t = "Bound" THEN [t |-> "Polygon", c |-> <<BoundRing(g.c)>>]
            ELSE IF g.t = "Collection" THEN [t |-> "Collection", g |-> [i \in 1..Len(g.g) |-> NormG(g.g[i])]]
            ELSE g
NormF(f) == [id |-> f.id, bbox |-> f.bbox, props |-> f.props, g |-> NormG(f.g)]
RECURSIVE GEq(_, _)
GEq(a, b) == /\ a.t = b.t
             /\ IF a.t = "nil" THEN TRUE
                ELSE IF a.t = "Collection" THEN Len(a.g) = Len(b.g) /\ \A i \in 1..Len(a.g) : GEq(a.g[i], b.g[i])
                ELSE a.c = b.c
FEq(a, b) == a.id = b.id /\ a.bbox = b.bbox /\ a.props = b.props /\ GEq(a.g, b.g)
=============================================================================
