---------------------------- MODULE QuadtreeConc ----------------------------
(* C19: concurrent read-only queries on a pre-built quadtree.                                          *)
(* The tree is built with the implementation-shaped operators of QuadtreeImpl (adds, then removals     *)
(* that leave emptied nodes behind).  Each process is one query written as the code's steps: it owns   *)
(* a PROCESS-LOCAL search box and candidate set (the code copies q.bound into a local and allocates    *)
(* its heap per call), and performs one node visit per step from an explicit stack (nearest child      *)
(* first).  Two switches describe designs the property forbids; their configs must FAIL and are the    *)
(* non-vacuity witnesses:                                                                               *)
(*   SHARED   the search box lives in the tree object instead of the call frame                          *)
(*   COMPACT  a reader unlinks emptied leaf nodes it passes                                              *)
(* Properties: NoSharedWrite (a step of process i changes nothing another process reads),               *)
(* Deterministic (a finished query has the result of the same query run alone), TreeUnchanged.          *)
EXTENDS QuadtreeImpl
CONSTANTS SHARED, COMPACT, NQ, Removals, Qs, Kinds
\* Pts (from QuadtreeImpl): points added in order, ids 1..Len(Pts); Removals: ids removed afterwards
\* Qs[i]: query point of process i; Kinds[i]: k (1 = nearest, >1 = k-nearest)

RECURSIVE BuildAdds(_,_)
BuildAdds(ns, k) == IF k > Len(Pts) THEN ns ELSE BuildAdds(AddNodes(ns, k, Pts[k]), k + 1)
Pt0 == [id \in 1..Len(Pts) |-> Pts[id]]

Procs == 1..NQ
VARIABLES stack, cand, bd, sbound, done
\* cand[i]: set of <<id, d2>> (the k best so far); bd[i]: local search box <<centre, radius^2>> (-1 = whole bound)
cvars == <<nodes, pt, next, nops, lastOp, stack, cand, bd, sbound, done>>
Root == [path |-> <<>>, l |-> 0, r |-> B, b |-> 0, t |-> B]

CInit == /\ pt = Pt0 /\ next = Len(Pts) + 1 /\ nops = 0 /\ lastOp = [op |-> "init"]
         /\ nodes = BuildAdds(<<>>, 1)
         /\ stack = [i \in Procs |-> <<>>] /\ cand = [i \in Procs |-> {}]
         /\ bd = [i \in Procs |-> <<Qs[i], -1>>] /\ sbound = <<Qs[1], -1>> /\ done = [i \in Procs |-> FALSE]
\* the removals are ordinary RemoveById actions taken before the queries start (nops counts them)
Prepare == /\ nops < Len(Removals) /\ RemoveById(Removals[nops + 1])
           /\ UNCHANGED <<stack, cand, bd, sbound, done>>
Started == nops = Len(Removals)
Launch == /\ Started /\ \A i \in Procs : stack[i] = <<>> /\ ~done[i] /\ cand[i] = {}
          /\ lastOp.op # "go"
          /\ stack' = [i \in Procs |-> <<Root>>] /\ lastOp' = [op |-> "go"]
          /\ UNCHANGED <<nodes, pt, next, nops, cand, bd, sbound, done>>

Box(i) == IF SHARED THEN sbound ELSE bd[i]
KidsFrames(ns, f, q) ==   \* frames of the existing children, nearest child first
   LET i0 == FirstChild(q, f.l, f.r, f.b, f.t)
       Fr(k) == LET c == SubCell(k, f.l, f.r, f.b, f.t) IN [path |-> Append(f.path, k), l |-> c[1], r |-> c[2], b |-> c[3], t |-> c[4]]
   IN SelectSeq([j \in 1..4 |-> Fr((i0 + j - 1) % 4)], LAMBDA fr : fr.path \in DOMAIN ns)
MaxD(C) == CHOOSE d \in {c[2] : c \in C} : \A c \in C : c[2] <= d
Worst(C) == CHOOSE c \in C : c[2] = MaxD(C)
EmptyLeafKids(ns, f) == {k \in 0..3 : LET cp == Append(f.path, k) IN cp \in DOMAIN ns /\ ns[cp] = 0 /\ Kids(ns, cp) = {}}

Step(i) ==
  /\ lastOp.op = "go" /\ ~done[i]
  /\ IF stack[i] = <<>> THEN done' = [done EXCEPT ![i] = TRUE] /\ UNCHANGED <<nodes, pt, next, nops, lastOp, stack, cand, bd, sbound>>
     ELSE LET f == Head(stack[i])  rest == Tail(stack[i])  q == Qs[i]  k == Kinds[i] IN
          /\ UNCHANGED <<pt, next, nops, lastOp, done>>
          /\ IF f.path \notin DOMAIN nodes \/ Pruned(Box(i)[2], Box(i)[1], f.l, f.r, f.b, f.t)
             THEN stack' = [stack EXCEPT ![i] = rest] /\ UNCHANGED <<nodes, cand, bd, sbound>>
             ELSE LET id == nodes[f.path]
                      d  == IF id = 0 THEN 0 ELSE D2(pt[id], q)
                      lim == IF Cardinality(cand[i]) < k THEN -1 ELSE MaxD(cand[i])
                      take == id # 0 /\ (lim < 0 \/ d < lim)
                      c1 == IF take THEN cand[i] \cup {<<id, d>>} ELSE cand[i]
                      c2 == IF Cardinality(c1) > k THEN c1 \ {Worst(c1)} ELSE c1
                      full == Cardinality(c2) = k /\ take
                  IN /\ cand' = [cand EXCEPT ![i] = c2]
                     /\ IF full /\ SHARED THEN sbound' = <<q, MaxD(c2)>> /\ UNCHANGED bd
                        ELSE IF full THEN bd' = [bd EXCEPT ![i] = <<q, MaxD(c2)>>] /\ UNCHANGED sbound
                        ELSE UNCHANGED <<bd, sbound>>
                     /\ nodes' = IF COMPACT /\ EmptyLeafKids(nodes, f) # {}
                                 THEN [pa \in (DOMAIN nodes) \ {Append(f.path, kk) : kk \in EmptyLeafKids(nodes, f)} |-> nodes[pa]]
                                 ELSE nodes
                     /\ stack' = [stack EXCEPT ![i] = KidsFrames(nodes', f, q) \o rest]
CNext == Prepare \/ Launch \/ \E i \in Procs : Step(i)
CSpec == CInit /\ [][CNext]_cvars

\* ---- properties -------------------------------------------------------------------------------------
\* the same query run alone: the sequential transcription of QuadtreeImpl on the prepared tree
Alone(i) == IF Kinds[i] = 1 THEN LET id == FindImpl(nodes, Items, Qs[i]) IN IF id = 0 THEN {} ELSE {id}
            ELSE ToSet(KNearestImpl(nodes, Items, Qs[i], Kinds[i], 0))
Result(i) == {c[1] : c \in cand[i]}
\* distances are pairwise distinct in the configured trees, so "exactly what it returns alone" is set equality
Deterministic == \A i \in Procs : done[i] => Result(i) = Alone(i)
AgreesWithBag == \A i \in Procs : done[i] =>
                    \A it \in Bag : it[1] \in Result(i) \/ Cardinality(Result(i)) = Kinds[i]
NoSharedWrite == [][\A i \in Procs : (lastOp.op = "go" /\ lastOp'.op = "go" /\ (stack[i] # stack'[i] \/ cand[i] # cand'[i] \/ bd[i] # bd'[i])) =>
                       /\ sbound' = sbound /\ nodes' = nodes
                       /\ \A j \in Procs \ {i} : stack'[j] = stack[j] /\ cand'[j] = cand[j] /\ bd'[j] = bd[j]]_cvars
TreeUnchanged == [][lastOp.op = "go" => nodes' = nodes]_cvars
=============================================================================
