---------------------------- MODULE TileWalk ----------------------------
(* C14 (implementation-shaped layer for lines): the grid walk of tilecover.line() on one segment, in exact          *)
(* arithmetic.  Points are in lattice units, u units per tile.  The walk starts in the tile of the start point       *)
(* (floor) and repeatedly crosses the nearer of the next vertical / horizontal tile line while the crossing          *)
(* parameter is below 1; parameters are kept as numerators over the fixed denominators |dx|, |dy|:                    *)
(*   tMaxX = nx / |dx|,  tMaxY = ny / |dy|   (a zero delta means "never": that axis is not stepped)                   *)
(* With an exact tie (the segment passes through a tile corner) the code steps in y first (tMaxX < tMaxY is false).   *)
EXTENDS TileCover
FloorDiv(a, b) == a \div b                                   \* b > 0: TLA+ \div is the floor
AbsI(x) == IF x < 0 THEN -x ELSE x
\* state of the loop: tile <<x, y>>, numerators nx, ny, accumulated cover
RECURSIVE WalkLoop(_, _, _, _, _, _, _, _, _, _)
WalkLoop(x, y, nx, ny, adx, ady, sx, sy, u, acc) ==
   LET xLt1 == adx # 0 /\ nx < adx                            \* tMaxX < 1
       yLt1 == ady # 0 /\ ny < ady                            \* tMaxY < 1
   IN IF ~xLt1 /\ ~yLt1 THEN acc
      ELSE LET stepX == \* tMaxX < tMaxY, with "never" (zero delta) as infinity
                        IF adx = 0 THEN FALSE ELSE IF ady = 0 THEN TRUE ELSE nx * ady < ny * adx
           IN IF stepX THEN WalkLoop(x + sx, y, nx + u, ny, adx, ady, sx, sy, u, acc \cup {<<x + sx, y>>})
              ELSE WalkLoop(x, y + sy, nx, ny + u, adx, ady, sx, sy, u, acc \cup {<<x, y + sy>>})
SegWalk(u, a, b) ==
   IF a = b THEN {}                                          \* zero-length segments are skipped
   ELSE LET dx == b[1] - a[1]  dy == b[2] - a[2]
            sx == IF dx > 0 THEN 1 ELSE -1   sy == IF dy > 0 THEN 1 ELSE -1
            x0 == FloorDiv(a[1], u)   y0 == FloorDiv(a[2], u)
            \* |u*(d + x0) - a| with d = 1 when moving in the positive direction
            nx == AbsI(u * ((IF dx > 0 THEN 1 ELSE 0) + x0) - a[1])
            ny == AbsI(u * ((IF dy > 0 THEN 1 ELSE 0) + y0) - a[2])
        IN WalkLoop(x0, y0, nx, ny, AbsI(dx), AbsI(dy), sx, sy, u, {<<x0, y0>>})
PathWalk(u, ls) == UNION {SegWalk(u, ls[i], ls[i+1]) : i \in 1..(Len(ls) - 1)}
=============================================================================
