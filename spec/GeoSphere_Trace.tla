---------------------------- MODULE GeoSphere_Trace ----------------------------
(* Trace validation for C18.  Distances in centimetres, residuals of near-equalities in micrometres, relative        *)
(* residuals of areas in parts per billion, box areas in km^2.                                                         *)
EXTENDS GeoSphere, TLC, Json, IOUtils
Trace == ndJsonDeserialize(IOEnv.TRACE)
VARIABLES l, bad
DistOk(e) == /\ e.fab = e.fba /\ e.hab = e.hba                 \* symmetric (bit-identical: ids)
             /\ e.hcm <= HalfCircumferenceCm /\ e.fcm <= HalfCircumferenceCm + 1
             /\ e.hcm >= 0 /\ e.fcm >= 0
             \* under 10 km and below 80 degrees the fast distance agrees to one part in 10^5 (values in mm)
             /\ (e.near = 1 => Abs(e.fmm - e.hmm) <= e.hmm \div 100000 + 1)
BearingOk(e) == e.res <= 1000                                 \* lands at the requested haversine distance (1 mm)
MidOk(e) == e.res <= 1000                                     \* midpoint equidistant from both ends
LenOk(e) == e.res <= 1000 /\ e.resh <= 1000                   \* length = sum of segment distances
BoxOk(e) == LET w == e.w  d2 == Sin2(e.top) - Sin2(e.bottom)  want2 == K * w * d2 IN      \* 2 * area in km^2
            Abs(2 * e.km2 - want2) <= w * d2 + 2
AreaOk(e) == /\ \A i \in 1..Len(e.rel) : e.rel[i] <= 1000       \* rotations / reversal / closing: |dA| / |A| <= 1e-6
             /\ (e.simple = 1 => e.sign = Winding(e.ring))      \* simple ring: SignedArea > 0 iff counter-clockwise
             /\ e.polyres <= 1000 /\ e.multires <= 1000        \* polygon = outer - holes, multi = sum
Ok(e) == CASE e.k = "gdist" -> DistOk(e) [] e.k = "gbear" -> BearingOk(e) [] e.k = "gmid" -> MidOk(e)
           [] e.k = "glen" -> LenOk(e) [] e.k = "gbox" -> BoxOk(e) [] e.k = "garea" -> AreaOk(e) [] OTHER -> FALSE
Init == l = 1 /\ bad = {}
Next == /\ l <= Len(Trace) /\ l' = l + 1
        /\ bad' = IF Ok(Trace[l]) THEN bad ELSE bad \cup {l}
        /\ (l = Len(Trace) => PrintT(ToJson([done |-> l, bad |-> bad'])))
Spec == Init /\ [][Next]_<<l, bad>>
=============================================================================
