SPECIFICATION Spec
CONSTANT N = 5
INVARIANT Emit
CHECK_DEADLOCK FALSE
