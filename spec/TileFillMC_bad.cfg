SPECIFICATION Spec
CONSTANTS
  U = 4
  W = 3
  K = 3
  BAD = TRUE
  STRIDE = 1
INVARIANTS NoError CoverOK
CHECK_DEADLOCK FALSE
