---------------------------- MODULE QuadtreeList ----------------------------
(* C11 / C19 abstract layer: a quadtree is a bag of pointers.  An item is <<id, x, y>>; ids are the  *)
(* pointer identities (distinct pointers may carry the same point).  Queries are RELATIONS between  *)
(* the bag, the arguments and a result, so ties (equal distances) may be broken either way.         *)
EXTENDS Integers, Sequences, FiniteSets

P(it) == <<it[2], it[3]>>
D2(a, b) == (a[1]-b[1])*(a[1]-b[1]) + (a[2]-b[2])*(a[2]-b[2])
ToSet(s) == {s[i] : i \in 1..Len(s)}
Ids(S) == {it[1] : it \in S}
ById(S, id) == CHOOSE it \in S : it[1] = id
InB(bnd, p) == bnd[1] <= p[1] /\ p[1] <= bnd[3] /\ bnd[2] <= p[2] /\ p[2] <= bnd[4]
\* a filter is <<m, r>>: it accepts the pointers whose id is r modulo m (<<1, 0>> accepts all)
Acc(f, id) == id % f[1] = f[2]
Sub(S, f) == {it \in S : Acc(f, it[1])}

\* add: rejected (state unchanged) iff the point is outside the tree bound
AddOK(bnd, S, id, p, res, S2) ==
   IF InB(bnd, p) THEN res = "ok" /\ id \notin Ids(S) /\ S2 = S \cup {<<id, p[1], p[2]>>}
   ELSE res = "err" /\ S2 = S
\* remove by point: removes exactly one pointer at that point if there is one
RemovePointOK(S, p, res, S2) == LET M == {it \in S : P(it) = p} IN
   IF M = {} THEN res = "false" /\ S2 = S ELSE res = "true" /\ \E it \in M : S2 = S \ {it}
\* remove by identity (the filter accepts exactly one pointer id)
RemoveIdOK(S, id, res, S2) ==
   IF id \in Ids(S) THEN res = "true" /\ S2 = S \ {ById(S, id)} ELSE res = "false" /\ S2 = S

\* nearest: a stored (accepted) pointer at minimum distance, 0 (nil) iff there is none
FindOK(S0, f, q, id) == LET S == Sub(S0, f) IN
   IF S = {} THEN id = 0
   ELSE id \in Ids(S) /\ \A it \in S : D2(P(ById(S, id)), q) <= D2(P(it), q)
\* k nearest strictly within md (md = 0: no limit given; md < 0: a limit of zero or below, within which nothing lies),
\* sorted nearest first; ties are free
KnnOK(S0, f, q, k, md, ids) ==
   LET S == Sub(S0, f)
       W == {it \in S : md = 0 \/ (md > 0 /\ D2(P(it), q) < md*md)}
       want == IF Cardinality(W) < k THEN Cardinality(W) ELSE k
   IN /\ Len(ids) = want
      /\ \A i \in 1..Len(ids) : ids[i] \in Ids(W)
      /\ \A i, j \in 1..Len(ids) : i # j => ids[i] # ids[j]
      /\ \A i \in 1..(Len(ids)-1) : D2(P(ById(S, ids[i])), q) <= D2(P(ById(S, ids[i+1])), q)
      /\ (Len(ids) > 0 => \A it \in W : it[1] \in ToSet(ids) \/ D2(P(it), q) >= D2(P(ById(S, ids[Len(ids)])), q))
\* bound search: exactly the (accepted) pointers in the closed box, each once
InBoundOK(S0, f, box, ids) == LET S == Sub(S0, f) IN
   /\ \A i, j \in 1..Len(ids) : i # j => ids[i] # ids[j]
   /\ ToSet(ids) = Ids({it \in S : InB(box, P(it))})
=============================================================================
