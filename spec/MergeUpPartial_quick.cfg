SPECIFICATION Spec
CONSTANTS
  MAXZ = 2
  Inputs <- QuickInputs
INVARIANTS Correct NoAreaLost Disjoint NotShallower Justified ExactWhenFull
CHECK_DEADLOCK FALSE
