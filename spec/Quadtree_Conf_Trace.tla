---------------------------- MODULE Quadtree_Conf_Trace ----------------------------
(* Extended coverage (X05): replay of TLC-generated histories of the implementation-shaped quadtree spec           *)
(* (QuadtreeImpl) into the real quadtree, comparing after every operation the real node tree - which node holds      *)
(* which pointer, which nodes were left empty by removals (hook VerifWalk) - with the node tree the spec predicts,    *)
(* and the operation's result with the predicted result.  tree / xtree: rows <<path code, pointer id>>, the path      *)
(* coded as 1 followed by the child indices in base 4.                                                                *)
EXTENDS Integers, Sequences, TLC, Json, IOUtils
Trace == ndJsonDeserialize(IOEnv.TRACE)
VARIABLES l, bad
ToSet(s) == {s[i] : i \in 1..Len(s)}
Ok(e) == \/ e.k = "qt" /\ e.op = "reset"
         \/ /\ e.k = "qt" /\ e.hasx = 1
            /\ e.res = e.exp
            /\ ToSet(e.tree) = ToSet(e.xtree) /\ Len(e.tree) = Len(e.xtree)
Init == l = 1 /\ bad = {}
Next == /\ l <= Len(Trace) /\ l' = l + 1
        /\ bad' = IF Ok(Trace[l]) THEN bad ELSE bad \cup {l}
        /\ (l = Len(Trace) => PrintT(ToJson([done |-> l, bad |-> bad'])))
Spec == Init /\ [][Next]_<<l, bad>>
=============================================================================
