SPECIFICATION PSpec
INVARIANT OnceInOrder
CHECK_DEADLOCK FALSE
