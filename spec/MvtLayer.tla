---------------------------- MODULE MvtLayer ----------------------------
(* The mvt.Layer pipeline (Clip, Simplify, RemoveEmpty): each operation maps every feature's geometry through a    *)
(* per-geometry function and removes the features whose result is nil / below the limits, compacting the            *)
(* Features slice in place.  A feature is [tag, g]: tag is the identity of the *geojson.Feature, g the identity of  *)
(* its geometry value (0 = nil).  R[i] is what the per-geometry function returns for feature i (0 = nothing left).  *)
(* FilterMap is the abstract meaning; Compact* is the implementation's loop, one step per feature, with read index  *)
(* i and write index at over the same array.                                                                        *)
EXTENDS Integers, Sequences
Kept(R) == SelectSeq([i \in 1..Len(R) |-> i], LAMBDA i : R[i] # 0)
FilterMap(fs, R) == LET idx == Kept(R) IN [k \in 1..Len(idx) |-> [tag |-> fs[idx[k]].tag, g |-> R[idx[k]]]]
\* implementation state: [a: the array, i: next feature to read, at: next slot to write]
CInit(fs) == [a |-> fs, i |-> 1, at |-> 1]
CDone(c) == c.i > Len(c.a)
CStep(c, R) == IF R[c.i] # 0
               THEN [a |-> [c.a EXCEPT ![c.at] = [tag |-> c.a[c.i].tag, g |-> R[c.i]]], i |-> c.i + 1, at |-> c.at + 1]
               ELSE [c EXCEPT !.i = @ + 1]
CResult(c) == SubSeq(c.a, 1, c.at - 1)
\* RemoveEmpty's keep rule: dim = dimension (-1: nil geometry), big = 1 iff length / area reaches its limit
KeepNonEmpty(f) == f.dim = 0 \/ (f.dim \in {1, 2} /\ f.big = 1)
=============================================================================
