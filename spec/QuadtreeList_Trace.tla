---------------------------- MODULE QuadtreeList_Trace ----------------------------
(* Trace validation for C11 (and the result part of C19): the real quadtree against the bag model.    *)
(* Events (one per operation on one tree; a "reset" event starts a new tree):                          *)
(*   op, pt, id, res      the operation and what the real call returned                                *)
(*   items                the contents after the operation (ids with points, via a whole-plane search)  *)
(*   nodes                the node tree after the operation, from the verif walk hook: id,x,y and the    *)
(*                        cell edges l,r,b,t in units of 1/1024                                          *)
(*   finds/knn/inb        rows of query arguments (incl. filter m,r) and the pointer ids returned        *)
(* Coordinates are model integers: the real coordinates are those integers, the integers divided by     *)
(* 1024 (unit-square trees, limits below 1), or - ranked = 1 - positions in an increasing table of      *)
(* arbitrary floats (non-dyadic bounds, midlines, one-ulp neighbours), for which only the order-based   *)
(* operations (add, remove, bound search) are recorded.                                                 *)
(* The spec state st is the abstract bag; it follows the logged contents so that checking continues     *)
(* after a rejected event.                                                                              *)
EXTENDS QuadtreeList, TLC, Json, IOUtils
Trace == ndJsonDeserialize(IOEnv.TRACE)
VARIABLES l, st, bad

FindRow(S, r)  == FindOK(S, <<r[3], r[4]>>, <<r[1], r[2]>>, r[5])
KnnRow(S, r)   == KnnOK(S, <<r[5], r[6]>>, <<r[1], r[2]>>, r[3], r[4], SubSeq(r, 7, Len(r)))
InbRow(S, r)   == InBoundOK(S, <<r[5], r[6]>>, <<r[1], r[2], r[3], r[4]>>, SubSeq(r, 7, Len(r)))
Queries(S, e)  == /\ \A i \in 1..Len(e.finds) : FindRow(S, e.finds[i])
                  /\ \A i \in 1..Len(e.knn) : KnnRow(S, e.knn[i])
                  /\ \A i \in 1..Len(e.inb) : InbRow(S, e.inb[i])
\* the real node tree: same bag as the contents, each value inside its node's cell
NodesOk(S, e) == LET N == {e.nodes[i] : i \in 1..Len(e.nodes)} IN
                 /\ {<<n[1], n[2], n[3]>> : n \in {m \in N : m[1] # 0}} = S
                 /\ Cardinality({i \in 1..Len(e.nodes) : e.nodes[i][1] # 0}) = Cardinality(S)
                 \* (ranked events carry table positions of arbitrary floats, not lattice coordinates: no cell arithmetic)
                 /\ (e.ranked = 0 => \A n \in N : n[1] # 0 => (n[4] <= 1024*n[2] /\ 1024*n[2] <= n[5] /\ n[6] <= 1024*n[3] /\ 1024*n[3] <= n[7]))
\* a query paused in the middle while another runs from start to finish (C19): the other completes, and both return what
\* they return alone
GateOk(e) == e.completed = 1 /\ e.same = 1
Ok(S, e, S2) ==
   /\ e.k = "qt"
   /\ Len(e.items) = Cardinality(S2)                          \* no pointer listed twice
   /\ CASE e.op = "add"  -> AddOK(e.bnd, S, e.id, e.pt, e.res, S2)
        [] e.op = "rmpt" -> RemovePointOK(S, e.pt, e.res, S2)
        [] e.op = "rmid" -> RemoveIdOK(S, e.id, e.res, S2)
        [] e.op = "query" -> /\ S2 = S                        \* read-only step (C19): contents unchanged,
                             /\ e.nodes = e.nodes0             \* the node tree is identical before and after,
                             /\ e.finds = e.afinds /\ e.knn = e.aknn /\ e.inb = e.ainb   \* same answers as alone
        [] OTHER -> FALSE
   /\ NodesOk(S2, e)
   /\ Queries(S2, e)
Init == l = 1 /\ st = {} /\ bad = {}
Next == /\ l <= Len(Trace) /\ l' = l + 1
        /\ LET e == Trace[l] IN
           IF e.k = "qt" /\ e.op = "reset" THEN st' = {} /\ bad' = bad
           ELSE IF e.k = "gate" THEN st' = st /\ bad' = (IF GateOk(e) THEN bad ELSE bad \cup {l})
           \* sizes: a tree of thousands of pointers through fill / thin / refill, every query compared with a plain scan
           ELSE IF e.k = "big" THEN st' = st /\ bad' = (IF e.ok = 1 THEN bad ELSE bad \cup {l})
           ELSE IF e.k # "qt" THEN st' = st /\ bad' = bad \cup {l}
           ELSE LET S2 == ToSet(e.items) IN
                /\ st' = S2
                /\ bad' = IF Ok(st, e, S2) THEN bad ELSE bad \cup {l}
        /\ (l = Len(Trace) => PrintT(ToJson([done |-> l, bad |-> bad'])))
Spec == Init /\ [][Next]_<<l, st, bad>>
=============================================================================
