SPECIFICATION Spec
CONSTANTS
  U = 2
  W = 3
  K = 4
  BAD = FALSE
  STRIDE = 1
INVARIANTS NoError CoverOK
CHECK_DEADLOCK FALSE
