---------------------------- MODULE ClipRing_Trace ----------------------------
(* Trace validation for C08.  Event kinds:                                                           *)
(*  clipring  one call of clip.Ring / Polygon / MultiPolygon / Geometry(2-d kind) (in, out as         *)
(*            multipolygons in lattice units; st = query lattice step)                                *)
(*  clipsplit clip.Ring of one ring against a box and against its two halves                          *)
(*  clippts   clip.MultiPoint / Geometry(point kinds)                                                 *)
(*  clipbound clip.Bound / Geometry(bound)                                                            *)
(*  clipcoll  clip.Collection / Geometry(collection) / mvt Layer.Clip against the per-member results  *)
EXTENDS ClipRing, TLC, Json, IOUtils
Trace == ndJsonDeserialize(IOEnv.TRACE)
VARIABLES l, bad

ShapeOf(fn, out) == IF out = <<>> THEN "nil"
                    ELSE IF fn \in {"Ring", "GeometryRing"} THEN "ring"
                    ELSE IF fn \in {"Polygon", "GeometryPolygon"} THEN "polygon"
                    ELSE IF fn = "GeometryMultiPolygon" /\ Len(out) = 1 THEN "polygon"
                    ELSE "multipolygon"
RingOk(e) ==
   /\ MPInBox(e.box, e.out)
   /\ e.pstable = 1                                            \* the previous call's result was left alone
   /\ MPClosed(e.out)
   /\ \A i \in 1..Len(e.out) : Len(e.out[i]) >= 1            \* no polygon without rings comes out
   /\ RegionOK(e.box, e.in, e.out, e.st)
   /\ e.shape = ShapeOf(e.fn, e.out)
   /\ (e.fn \in {"Ring", "GeometryRing"} =>
          LET r == e.in[1][1] IN
          /\ (RingInside(e.box, r) => e.out = e.in)
          /\ (BoundDisjoint(e.box, r) => e.out = <<>>))
   \* polygons come back in input order, each with at most as many rings as it had
   /\ Len(e.out) <= Len(e.in)

SplitOk(e) == Shoelace2(e.whole) = Shoelace2(e.lo) + Shoelace2(e.hi)

PtsOk(e) == LET want == SelectSeq(e.in, LAMBDA p : InBoxClosed(e.box, p)) IN
   /\ e.out = want
   /\ e.shape = (IF want = <<>> THEN "nil" ELSE IF e.fn = "MultiPoint" THEN "multipoint"
                 ELSE IF Len(want) = 1 THEN "point" ELSE "multipoint")

BoundOk(e) == LET w == <<Max2(e.a[1], e.b[1]), Max2(e.a[2], e.b[2]), Min2(e.a[3], e.b[3]), Min2(e.a[4], e.b[4])>>
                  empty == w[1] > w[3] \/ w[2] > w[4] IN
   IF e.fn = "Bound" THEN e.out = w
   ELSE IF empty THEN e.shape = "nil" ELSE e.shape = "bound" /\ e.out = w

\* collection law: the result is the sequence of non-nil member results (generic clip unwraps a single
\* member and returns nil when none is left; clip.Collection and Layer.Clip return the list itself)
CollOk(e) == LET kept == SelectSeq(e.each, LAMBDA g : g.t # "nil") IN
   IF e.fn = "GeometryCollection"
   THEN e.out = (IF kept = <<>> THEN [t |-> "nil"] ELSE IF Len(kept) = 1 THEN kept[1] ELSE [t |-> "Collection", g |-> kept])
   ELSE e.out = [t |-> "Collection", g |-> kept]

Ok(e) == CASE e.k = "clipring"  -> RingOk(e)
           [] e.k = "clipsplit" -> SplitOk(e)
           [] e.k = "clippts"   -> PtsOk(e)
           [] e.k = "clipbound" -> BoundOk(e)
           [] e.k = "clipcoll"  -> CollOk(e)
           [] OTHER -> FALSE
Init == l = 1 /\ bad = {}
Next == /\ l <= Len(Trace) /\ l' = l + 1
        /\ bad' = IF Ok(Trace[l]) THEN bad ELSE bad \cup {l}
        /\ (l = Len(Trace) => PrintT(ToJson([done |-> l, bad |-> bad'])))
Spec == Init /\ [][Next]_<<l, bad>>
=============================================================================
