---------------------------- MODULE GeoSphereMC ----------------------------
(* Model check of the geo.ringArea index schedule for rings of 3..MAXN stored vertices, closed and unclosed:       *)
(* every index is in range, and the net coefficient of each longitude in the factor of each sin(latitude) equals     *)
(* that of the sum over the cyclic triples (k-1, k, k+1) of the distinct vertices.                                    *)
EXTENDS GeoSphere, TLC
CONSTANT MAXN
VARIABLES n, closed
Init == n \in 3..MAXN /\ closed \in BOOLEAN
Next == UNCHANGED <<n, closed>>
Spec == Init /\ [][Next]_<<n, closed>>
L == LoopLen(n, closed)
M == IF closed THEN n - 1 ELSE n                      \* distinct vertices
V(i) == IF closed /\ i = n - 1 THEN 0 ELSE i         \* stored index n-1 of a closed ring is vertex 0
Coef(k, v) == Cardinality({i \in 0..(L-1) : V(Triple(i, L)[2]) = k /\ V(Triple(i, L)[3]) = v})
            - Cardinality({i \in 0..(L-1) : V(Triple(i, L)[2]) = k /\ V(Triple(i, L)[1]) = v})
Want(k, v) == (IF v = (k + 1) % M THEN 1 ELSE 0) - (IF v = (k + M - 1) % M THEN 1 ELSE 0)
InRange == \A i \in 0..(L-1) : \A j \in 1..3 : Triple(i, L)[j] \in 0..(n-1)
Cyclic == \A k \in 0..(M-1) : \A v \in 0..(M-1) : Coef(k, v) = Want(k, v)
=============================================================================
