---------------------------- MODULE Generic ----------------------------
(* C20: every function taking the generic geometry interface is total, agrees with the kind-specific      *)
(* function, treats a collection as the combination of its members, and (if documented read-only) leaves   *)
(* its argument unchanged.  Results are values: a geometry tree (GeomValue), [t |-> "num", n |-> int],      *)
(* [t |-> "set", s |-> sorted tile triples], [t |-> "str", h |-> id of the produced bytes/text],             *)
(* [t |-> "err", h |-> id] or [t |-> "nil"].                                                                 *)
EXTENDS CoreValue
IsGeom(v) == v.t \notin {"num", "set", "str", "err"}
ResEq(a, b) == IF a.t # b.t THEN FALSE
               ELSE IF a.t = "num" THEN a.n = b.n
               ELSE IF a.t = "set" THEN a.s = b.s
               ELSE IF a.t \in {"str", "err"} THEN a.h = b.h
               ELSE StructEq(a, b)

\* ---- dispatch table: how each entry point combines the results of a collection's members -------------
Law(fn) == CASE fn \in {"Clone", "Round", "Round.default", "project.Geometry"} -> "map"
             [] fn \in {"simplify.DouglasPeucker", "simplify.Visvalingam", "simplify.Radial"} -> "mapnil"
             [] fn \in {"planar.Area", "planar.Length", "planar.CentroidArea.area"} -> "sum"
             [] fn \in {"planar.DistanceFrom", "planar.DistanceFromWithIndex", "planar.DistanceFrom.in", "planar.DistanceFromWithIndex.in"} -> "min"
             [] fn \in {"clip.Geometry", "clip.Geometry.wide"} -> "filter"
             [] fn = "smartclip.Geometry" -> "filtersmart"
             [] fn = "tilecover.Geometry" -> "union"
             [] OTHER -> "none"
ReadOnly(fn) == fn \in {"Clone", "Equal.view", "planar.Area", "planar.Length", "planar.CentroidArea.area", "planar.DistanceFrom",
                        "planar.DistanceFromWithIndex", "planar.DistanceFrom.in", "planar.DistanceFromWithIndex.in", "geo.Area", "geo.Length", "geo.LengthHaversine",
                        "tilecover.Geometry",
                        "wkb.Marshal", "ewkb.Marshal", "wkt.Marshal", "geojson.Geometry", "geojson.Feature"}

RECURSIVE SumN(_, _)
SumN(rs, i) == IF i > Len(rs) THEN 0 ELSE rs[i].n + SumN(rs, i + 1)
\* distances: n = squared distance, -1 = +infinity (nothing to measure to)
MinN(rs) == LET F == {rs[i].n : i \in 1..Len(rs)} \ {-1} IN IF F = {} THEN -1 ELSE MinS(F)
Kept(rs) == SelectSeq(rs, LAMBDA r : r.t # "nil")
SetUnion(rs) == UNION {{rs[i].s[j] : j \in 1..Len(rs[i].s)} : i \in {k \in 1..Len(rs) : rs[k].t = "set"}}
CollLaw(fn, res, each) ==
   LET law == Law(fn) IN
   CASE law = "map"    -> res.t = "Collection" /\ Len(res.g) = Len(each) /\ \A i \in 1..Len(each) : ResEq(res.g[i], each[i])
     [] law = "mapnil" -> IF Len(each) = 0 THEN res.t = "nil"
                          ELSE res.t = "Collection" /\ Len(res.g) = Len(each) /\ \A i \in 1..Len(each) : ResEq(res.g[i], each[i])
     [] law = "sum"    -> (\A i \in 1..Len(each) : each[i].t = "num") => (res.t = "num" /\ res.n = SumN(each, 1))
     [] law = "min"    -> (\A i \in 1..Len(each) : each[i].t = "num") => (res.t = "num" /\ res.n = MinN(each))
     [] law = "filter" -> LET k == Kept(each) IN
                          IF k = <<>> THEN res.t = "nil" ELSE IF Len(k) = 1 THEN ResEq(res, k[1])
                          ELSE res.t = "Collection" /\ Len(res.g) = Len(k) /\ \A i \in 1..Len(k) : ResEq(res.g[i], k[i])
     [] law = "filtersmart" -> LET k == Kept(each) IN
                          IF k = <<>> THEN res.t = "nil" \/ (res.t = "Collection" /\ Len(res.g) = 0)
                          ELSE IF Len(k) = 1 THEN ResEq(res, k[1])
                          ELSE res.t = "Collection" /\ Len(res.g) = Len(k) /\ \A i \in 1..Len(k) : ResEq(res.g[i], k[i])
     [] law = "union"  -> /\ (\A i \in 1..Len(each) : each[i].t \in {"set", "nil"}) =>
                                (res.t = "set" /\ {res.s[j] : j \in 1..Len(res.s)} = SetUnion(each))
                          \* a member that cannot be covered (its own result is an error) makes the whole collection one
                          /\ ((\E i \in 1..Len(each) : each[i].t = "err") => res.t = "err")
     [] OTHER -> TRUE
=============================================================================
