---------------------------- MODULE TileCover_Trace ----------------------------
(* Trace validation for C14.  Event kinds (tile coordinates relative to a window of w x w tiles, geometry in    *)
(* lattice units of 1/u tile (u = 64, or 8192 for very fine geometry); the harness inverts lattice points to lon/lat and keeps only cases where        *)
(* maptile.Fraction maps them back within 1e-6 tile):                                                           *)
(*  line   tilecover.LineString / MultiLineString / Geometry on a lattice path                                  *)
(*  poly   tilecover.Polygon / Ring / MultiPolygon / Geometry on a lattice polygon with holes                   *)
(*  point  tilecover.Point / MultiPoint                       coll  tilecover.Collection = union of the members  *)
(*  merge  tilecover.MergeUp of a tile set (several runs: Go map order varies; the last run on a reused map that    *)
(*         still holds false-valued keys of earlier covers)        bound  tilecover.Bound                          *)
EXTENDS TileCover, TLC, Json, IOUtils
Trace == ndJsonDeserialize(IOEnv.TRACE)
VARIABLES l, bad
ToSet(s) == {s[i] : i \in 1..Len(s)}
\* merge events use absolute tiles <<x, y, z>>
Kids3(t) == {<<2*t[1]+dx, 2*t[2]+dy, t[3]+1>> : dx \in {0,1}, dy \in {0,1}}
Parent3(t) == <<t[1] \div 2, t[2] \div 2, t[3] - 1>>
RECURSIVE Cov(_, _, _)
Cov(S, mz, t) == IF t[3] = mz THEN t \in S ELSE \A k \in Kids3(t) : Cov(S, mz, k)
RECURSIVE Ancestors(_, _)
Ancestors(t, mn) == IF t[3] <= mn THEN {t} ELSE {t} \cup Ancestors(Parent3(t), mn)
\* the maximal covered tiles, searched among the ancestors of the input tiles only
MaxMergeEv(S, mz, mn) == LET C == UNION {Ancestors(t, mn) : t \in S} IN
                         {t \in C : Cov(S, mz, t) /\ (t[3] = mn \/ ~Cov(S, mz, Parent3(t)))}
LineOk(e) == LET c == ToSet(e.cover) IN
   /\ e.err = 0 /\ Len(e.cover) = Cardinality(c)
   \* zero-length lines are outside the quantifier: member by member, a zero-length path demands nothing (and may
   \* contribute its tile or not)
   /\ UNION {Must(e.u, e.paths[i], e.w) : i \in {j \in 1..Len(e.paths) : PositiveLength(e.paths[j])}} \subseteq c
   /\ c \subseteq UNION {May(e.u, e.paths[i], e.w) : i \in 1..Len(e.paths)}
PolyOk(e) == LET c == ToSet(e.cover) IN
   /\ e.err = 0
   /\ \A i \in 1..Len(e.polys) : MustInterior(e.u, e.polys[i], e.w) \subseteq c /\ MustBoundary(e.u, e.polys[i], e.w) \subseteq c
   /\ c \subseteq UNION {BBoxTiles(e.u, e.polys[i], e.w) : i \in 1..Len(e.polys)}
PointOk(e) == ToSet(e.cover) = {<<e.pts[i][1] \div e.u, e.pts[i][2] \div e.u>> : i \in 1..Len(e.pts)}
\* a bound <<west, north, east, south>> in lattice units (y grows southwards), corners off the tile edges: exactly the
\* tiles between the tiles of its corners
BoundCoverOk(e) == ToSet(e.cover) = {<<x, y>> : x \in (e.b[1] \div e.u)..(e.b[3] \div e.u), y \in (e.b[2] \div e.u)..(e.b[4] \div e.u)}
                   /\ Len(e.cover) = Cardinality(ToSet(e.cover))
CollOk(e) == ToSet(e.cover) = UNION {ToSet(e.each[i]) : i \in 1..Len(e.each)}
MergeOk(e) == /\ e.runs = 1                                  \* every repetition gave the same set
              /\ ToSet(e.out) = MaxMergeEv(ToSet(e.in), e.z, e.min) /\ Len(e.out) = Cardinality(ToSet(e.out))
Ok(e) == CASE e.k = "line" -> LineOk(e) [] e.k = "poly" -> PolyOk(e) [] e.k = "point" -> PointOk(e)
           [] e.k = "coll" -> CollOk(e) [] e.k = "merge" -> MergeOk(e) [] e.k = "bound" -> BoundCoverOk(e) [] OTHER -> FALSE
Init == l = 1 /\ bad = {}
Next == /\ l <= Len(Trace) /\ l' = l + 1
        /\ bad' = IF Ok(Trace[l]) THEN bad ELSE bad \cup {l}
        /\ (l = Len(Trace) => PrintT(ToJson([done |-> l, bad |-> bad'])))
Spec == Init /\ [][Next]_<<l, bad>>
=============================================================================
