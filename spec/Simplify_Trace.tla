---------------------------- MODULE Simplify_Trace ----------------------------
(* Trace validation for C12: one event = one real simplifier call on an integer path (line or ring) with the     *)
(* output, the output of a second application (again) and of the same call with a larger threshold (bigger).     *)
EXTENDS Simplify, TLC, Json, IOUtils
Trace == ndJsonDeserialize(IOEnv.TRACE)
VARIABLES l, bad
IsRing(e) == e.kind = "ring"
Keep(e) == IF e.keep = 0 THEN DefaultKeep(e.in, IsRing(e)) ELSE e.keep
DPOk(e) == /\ Base(e.in, e.out) /\ ClosedStays(e.in, e.out)
           /\ (Len(e.in) >= 2 => DPBound(e.in, e.out, e.n, e.d))
           /\ e.again = e.out
           /\ IsSubseq(e.bigger, e.out)
RadialOk(e) == Base(e.in, e.out) /\ ClosedStays(e.in, e.out) /\ RadialSpacing(e.out, e.n, e.d)
VisOk(e) == /\ Base(e.in, e.out) /\ ClosedStays(e.in, e.out)
            /\ MinCount(e.in, e.out, Keep(e))
            /\ (e.exact = 1 /\ Len(e.in) > Keep(e) => Len(e.out) = Keep(e))
            /\ IsSubseq(e.bigger, e.out)
Ok(e) == /\ e.k = "simp"
         /\ e.pstable = 1                           \* the previous call's result was left alone
         /\ e.inafter = e.in                         \* the harness hands in a copy; the copy it kept is intact
         /\ CASE e.alg = "dp" -> DPOk(e) [] e.alg = "radial" -> RadialOk(e) [] e.alg = "vis" -> VisOk(e) [] OTHER -> FALSE
Init == l = 1 /\ bad = {}
\* sizes: lines and rings of 600 .. 6000 vertices; the relations are evaluated by the harness, the verdict is checked here
OkAny(e) == IF e.k = "simpbig" THEN e.ok = 1 ELSE Ok(e)
Next == /\ l <= Len(Trace) /\ l' = l + 1
        /\ bad' = IF OkAny(Trace[l]) THEN bad ELSE bad \cup {l}
        /\ (l = Len(Trace) => PrintT(ToJson([done |-> l, bad |-> bad'])))
Spec == Init /\ [][Next]_<<l, bad>>
=============================================================================
