---------------------------- MODULE Tile_Trace ----------------------------
(* Trace validation for C13.  Event kinds:                                                                   *)
(*  tile   one tile: validity, quadkey digits and its inverse, parent, children, siblings, ranges at several  *)
(*         zooms, ChildrenInZoomRange (count and, when small, the set)                                         *)
(*  pair   two tiles: Contains both ways, SharedParent both ways                                               *)
(*  at     a point: the tile maptile.At returns, and the IEEE ranks of the point's and that tile's bound's      *)
(*         coordinates (so "the bound contains the point" is judged on ranks)                                  *)
(*  center At(Center(t))                                                                                       *)
(*  edges  bit ids of the bound edges of a tile, its east and south neighbours and its four children            *)
EXTENDS TileAlgebra, TLC, Json, IOUtils
Trace == ndJsonDeserialize(IOEnv.TRACE)
VARIABLES l, bad
ToSet(s) == {s[i] : i \in 1..Len(s)}
T3(t) == <<t[1], t[2], t[3]>>
TileOk(e) == LET t == T3(e.t) IN
   /\ e.valid = Valid(t)
   /\ e.qk = QuadDigits(t) /\ T3(e.fromqk) = t
   /\ T3(e.parent) = Parent(t)
   /\ Len(e.children) = 4 /\ {T3(c) : c \in ToSet(e.children)} = Children(t)
   /\ (Valid(t) => e.cvalid = 1)               \* ... valid tiles whose parent is the tile; the tile's own parent is valid
   /\ {T3(c) : c \in ToSet(e.siblings)} = Children(Parent(t)) /\ Len(e.siblings) = 4
   /\ \A i \in 1..Len(e.ranges) : LET r == e.ranges[i] IN <<T3(r.min), T3(r.max)>> = RangeOf(t, r.z)
   /\ \A i \in 1..Len(e.czr) : LET c == e.czr[i] IN
         /\ c.n = (LET RECURSIVE S(_) S(z) == IF z > c.z2 THEN 0 ELSE Pow2(z - t[3]) * Pow2(z - t[3]) + S(z + 1) IN S(c.z1))
         /\ (c.full = 1 => /\ Len(c.tiles) = c.n
                           /\ {T3(x) : x \in ToSet(c.tiles)} = UNION {Descendants(t, z) : z \in c.z1..c.z2})
PairOk(e) == LET a == T3(e.a)  b == T3(e.b) IN
   /\ e.cab = Contains(a, b) /\ e.cba = Contains(b, a)
   /\ T3(e.sab) = SharedParent(a, b) /\ T3(e.sba) = SharedParent(a, b)
\* rk = ranks of <<lon, lat, minx, miny, maxx, maxy>>; the latitude is compared only inside the mercator range
AtOk(e) == LET t == T3(e.t) IN
   /\ Valid(t) /\ t[3] = e.z
   /\ e.rk[3] <= e.rk[1] /\ e.rk[1] <= e.rk[5]
   /\ (e.inrange = 1 => e.rk[4] <= e.rk[2] /\ e.rk[2] <= e.rk[6])
   \* beyond +-85.0511 the row is the clamped one, unless the point still lies inside the mercator square
   /\ (e.inrange = 0 => \/ (IF e.north = 1 THEN t[2] = 0 ELSE t[2] = Pow2(t[3]) - 1)
                        \/ (e.rk[4] <= e.rk[2] /\ e.rk[2] <= e.rk[6]))
CenterOk(e) == T3(e.at) = T3(e.t)
\* ids: edges of t = <<w, s, e, n>>, east neighbour, south neighbour, and the four children (same order)
EdgesOk(e) ==
   /\ e.buf1 = 1        \* a buffer of one tile reaches exactly to the far edges of the four neighbours (interior tiles)
   /\ (e.haseast = 1 => e.east[1] = e.t[3] /\ e.east[2] = e.t[2] /\ e.east[4] = e.t[4])      \* shared meridian, same parallels
   /\ (e.hassouth = 1 => e.south[4] = e.t[2] /\ e.south[1] = e.t[1] /\ e.south[3] = e.t[3])  \* shared parallel, same meridians
   \* children: <<2x,2y>> NW, <<2x+1,2y>> NE, <<2x+1,2y+1>> SE, <<2x,2y+1>> SW tile the parent bound
   /\ LET nw == e.kids[1] ne == e.kids[2] se == e.kids[3] sw == e.kids[4] IN
      /\ nw[1] = e.t[1] /\ sw[1] = e.t[1] /\ ne[3] = e.t[3] /\ se[3] = e.t[3]
      /\ nw[4] = e.t[4] /\ ne[4] = e.t[4] /\ sw[2] = e.t[2] /\ se[2] = e.t[2]
      /\ nw[3] = ne[1] /\ sw[3] = se[1] /\ nw[3] = sw[3]
      /\ nw[2] = sw[4] /\ ne[2] = se[4] /\ nw[2] = ne[2]
Ok(e) == CASE e.k = "tile" -> TileOk(e) [] e.k = "pair" -> PairOk(e) [] e.k = "at" -> AtOk(e)
           [] e.k = "center" -> CenterOk(e) [] e.k = "edges" -> EdgesOk(e) [] OTHER -> FALSE
Init == l = 1 /\ bad = {}
Next == /\ l <= Len(Trace) /\ l' = l + 1
        /\ bad' = IF Ok(Trace[l]) THEN bad ELSE bad \cup {l}
        /\ (l = Len(Trace) => PrintT(ToJson([done |-> l, bad |-> bad'])))
Spec == Init /\ [][Next]_<<l, bad>>
=============================================================================
