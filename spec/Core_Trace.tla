---------------------------- MODULE Core_Trace ----------------------------
(* Trace validation for C06.  Coordinates are small integers (exact in float64), so a coordinate is its     *)
(* own value id and rank.  Event kinds:                                                                     *)
(*  clone   g, its clone cl, the interned backing-array addresses of both (ga, ca), and for every vertex    *)
(*          of the clone and then of the original one in-place edit with both values re-read afterwards      *)
(*  equal   two values and the answers of orb.Equal both ways and on themselves; equal3: three values        *)
(*  bound   a value and its Bound()      bop    results of the Bound methods on two/three bounds and a point  *)
(*  rev     a line string reversed once and twice     orient   a ring's orientation and its reversal's        *)
(* "alt" re-judges clone events under the recorded finding (generic Clone turns a typed nil slice into a     *)
(* nil interface).                                                                                            *)
EXTENDS CoreValue, TLC, Json, IOUtils
Trace == ndJsonDeserialize(IOEnv.TRACE)
VARIABLES l, bad, alt
ToSet(s) == {s[i] : i \in 1..Len(s)}
B(x) == x                      \* bounds arrive as <<>> (empty) or <<minx, miny, maxx, maxy>>

MutOk(e, m) == IF m.side = "c" THEN StructEq(m.o, e.g) /\ StructEq(m.c, Set1(e.cl, m.path, m.v))      \* editing the clone
               ELSE StructEq(m.c, e.cl) /\ StructEq(m.o, Set1(e.g, m.path, m.v))                       \* editing the original
CloneOk(e, NILOK) ==
   /\ IF NILOK /\ e.topnil = 1 /\ e.fn = "orb.Clone" THEN e.cl.t = "nil" ELSE StructEq(e.cl, e.g)
   /\ ToSet(e.ga) \cap ToSet(e.ca) = {}                       \* no backing array is shared
   /\ \A i \in 1..Len(e.muts) : MutOk(e, e.muts[i])
EqualOk(e) == /\ e.ab = StructEq(e.a, e.b) /\ e.ba = e.ab /\ e.aa /\ e.bb
Equal3Ok(e) == /\ e.ab = StructEq(e.a, e.b) /\ e.bc = StructEq(e.b, e.c) /\ e.ac = StructEq(e.a, e.c)
               /\ ((e.ab /\ e.bc) => e.ac)
BoundOk(e) == e.b = TightBound(e.g)
BopOk(e) == /\ e.uab = SUnion(e.a, e.b) /\ e.uba = SUnion(e.b, e.a)
            /\ e.uabc = SUnion(SUnion(e.a, e.b), e.c) /\ e.ubca = SUnion(e.a, SUnion(e.b, e.c))
            /\ e.uaa = e.a
            /\ e.ext = SExtend(e.a, e.p)
            /\ e.con = SContains(e.a, e.p) /\ e.conu = SContains(SUnion(e.a, e.b), e.p)
            /\ e.iab = SIntersects(e.a, e.b) /\ e.iba = e.iab
RevOk(e) == e.r1 = RevSeq(e.ls) /\ e.r2 = e.ls
OrientOk(e) == e.o = Orient(e.r) /\ e.orev = -e.o /\ e.ofar = e.o /\ e.ofarrev = -e.o   \* also far from the origin
               /\ e.opal = 0          \* a ring that is its own reverse winds neither way
               /\ e.olong = e.o       \* cutting the edges into many parts changes nothing
Ok(e, NILOK) == CASE e.k = "clone" -> CloneOk(e, NILOK)
                  [] e.k = "equal" -> EqualOk(e)
                  [] e.k = "equal3" -> Equal3Ok(e)
                  [] e.k = "bound" -> BoundOk(e)
                  [] e.k = "bop" -> BopOk(e)
                  [] e.k = "rev" -> RevOk(e)
                  [] e.k = "orient" -> OrientOk(e)
                  \* sizes: a million vertices, ten thousand nested collections - judged in the harness against plain scans
                  [] e.k = "corebig" -> e.ok = 1
                  \* two values that differ in one coordinate by one unit in the last place (or a relative 1e-14, 1e-12): not equal
                  [] e.k = "eqzero" -> e.ab /\ e.ba                                  \* +0 and -0 are the same coordinate
                  [] e.k = "equb" -> e.ab = (e.same = 1) /\ e.any = (e.same = 1)      \* bounds: equal corners, whatever they enclose
                  [] e.k = "equlp" -> (e.differs = 1 => (~e.ab /\ ~e.ba)) /\ e.aa
                  [] OTHER -> FALSE
Init == l = 1 /\ bad = {} /\ alt = {}
Next == /\ l <= Len(Trace) /\ l' = l + 1
        /\ LET ok == Ok(Trace[l], FALSE) IN
           /\ bad' = IF ok THEN bad ELSE bad \cup {l}
           /\ alt' = IF ok \/ Ok(Trace[l], TRUE) THEN alt ELSE alt \cup {l}
        /\ (l = Len(Trace) => PrintT(ToJson([done |-> l, bad |-> bad', alt |-> alt'])))
Spec == Init /\ [][Next]_<<l, bad, alt>>
=============================================================================
