SPECIFICATION Spec
CONSTANTS KS = 3  LMAX = 3  NMAX = 8
INVARIANTS WalkIsClosedForm EdgeCases
CHECK_DEADLOCK FALSE
