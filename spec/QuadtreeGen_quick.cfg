SPECIFICATION GSpec
CONSTANTS
  B = 256
  Pts <- PtsDef
  MaxOps = 4
INVARIANT Emit
CHECK_DEADLOCK FALSE
