SPECIFICATION Spec
CONSTANTS
  C <- CWide
  MaxPts = 0
  MaxRings = 2
  Words = {0}
  MaxWords = 0
INVARIANTS PolyKinds
CHECK_DEADLOCK FALSE
