---------------------------- MODULE CoreAccessors_Trace ----------------------------
(* Trace validation for X06.  kinds: a shape with the real Dimensions() and GeoJSONType(); bacc: a bound, a pad       *)
(* distance and everything the real accessors returned.                                                              *)
EXTENDS CoreAccessors, TLC, Json, IOUtils
Trace == ndJsonDeserialize(IOEnv.TRACE)
VARIABLES l, bad
KindsOk(e) == e.dim = Dim(e.g) /\ e.type = TypeWord(e.g)
BaccOk(e) == LET b == e.b IN
   /\ e.pad = Pad(b, e.d) /\ e.center2 = Center2(b)
   /\ e.top = b[4] /\ e.bottom = b[2] /\ e.left = b[1] /\ e.right = b[3]
   /\ e.lefttop = <<b[1], b[4]>> /\ e.rightbottom = <<b[3], b[2]>>
   /\ (e.empty = 1) = IsEmptyB(b) /\ (e.zero = 1) = IsZeroB(b)
   /\ e.ring = ToRing(b) /\ e.polygon = <<ToRing(b)>> /\ e.self = b
   /\ (e.eq = 1) = (b = e.other)
Ok(e) == CASE e.k = "kinds" -> KindsOk(e) [] e.k = "bacc" -> BaccOk(e) [] OTHER -> FALSE
Init == l = 1 /\ bad = {}
Next == /\ l <= Len(Trace) /\ l' = l + 1
        /\ bad' = IF Ok(Trace[l]) THEN bad ELSE bad \cup {l}
        /\ (l = Len(Trace) => PrintT(ToJson([done |-> l, bad |-> bad'])))
Spec == Init /\ [][Next]_<<l, bad>>
=============================================================================
