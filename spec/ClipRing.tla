---------------------------- MODULE ClipRing ----------------------------
(* C08: clipping rings / polygons / multipolygons to a box.                                        *)
(* Abstract layer (region predicates, Exact2D): for every query point q of a lattice strictly inside *)
(* the box and on no boundary, q is in the output iff it was in the input (even-odd rule); every     *)
(* output vertex is in the closed box; closed input gives closed output; a ring wholly inside comes  *)
(* back unchanged; a ring whose bound misses the box yields nothing; twice the signed area is        *)
(* additive when the box is split.  Implementation-shaped layer: the four Sutherland-Hodgman passes  *)
(* of clip/clip.go ring() with their swap buffers (SHRing).                                          *)
EXTENDS Exact2D

\* query lattice: every STEP-th lattice point strictly inside the box
Queries(bx, step) == {<<x, y>> : x \in {bx[1] + step*k : k \in 1..((bx[3]-bx[1]-1) \div step)},
                                 y \in {bx[2] + step*k : k \in 1..((bx[4]-bx[2]-1) \div step)}}

AllVerts(mp) == UNION {UNION {SeqToSet(mp[i][j]) : j \in 1..Len(mp[i])} : i \in 1..Len(mp)}
MPInBox(bx, mp) == \A v \in AllVerts(mp) : InBoxClosed(bx, v)
RingClosed(r) == Len(r) > 0 /\ r[1] = r[Len(r)]
MPClosed(mp) == \A i \in 1..Len(mp) : \A j \in 1..Len(mp[i]) : RingClosed(mp[i][j])

\* region equality away from boundaries
RegionOK(bx, in, out, step) ==
   \A q \in Queries(bx, step) :
      \/ OnMultiPolygon(in, q) \/ OnMultiPolygon(out, q)
      \/ InMultiPolygon(in, q) = InMultiPolygon(out, q)

BoundDisjoint(bx, r) == \/ \A i \in 1..Len(r) : r[i][1] < bx[1]
                        \/ \A i \in 1..Len(r) : r[i][1] > bx[3]
                        \/ \A i \in 1..Len(r) : r[i][2] < bx[2]
                        \/ \A i \in 1..Len(r) : r[i][2] > bx[4]
RingInside(bx, r) == \A i \in 1..Len(r) : InBoxClosed(bx, r[i])

RECURSIVE MPArea2From(_, _)
PolyArea2(pg) == LET RECURSIVE S(_)
                     S(j) == IF j > Len(pg) THEN 0 ELSE Shoelace2(pg[j]) + S(j+1)
                 IN S(1)
MPArea2From(mp, i) == IF i > Len(mp) THEN 0 ELSE PolyArea2(mp[i]) + MPArea2From(mp, i+1)
MPArea2(mp) == MPArea2From(mp, 1)            \* sum of twice the signed ring areas

\* ---------- implementation-shaped layer: clip.ring() ------------------------------------------------
Bit(c, b) == (c \div b) % 2 = 1
Code(bx, p) == (IF p[1] < bx[1] THEN 1 ELSE IF p[1] > bx[3] THEN 2 ELSE 0)
             + (IF p[2] < bx[2] THEN 4 ELSE IF p[2] > bx[4] THEN 8 ELSE 0)
Isect(bx, edge, a, b) ==
  IF edge = 8 THEN <<a[1] + ((b[1]-a[1])*(bx[4]-a[2])) \div (b[2]-a[2]), bx[4]>>
  ELSE IF edge = 4 THEN <<a[1] + ((b[1]-a[1])*(bx[2]-a[2])) \div (b[2]-a[2]), bx[2]>>
  ELSE IF edge = 2 THEN <<bx[3], a[2] + ((b[2]-a[2])*(bx[3]-a[1])) \div (b[1]-a[1])>>
  ELSE <<bx[1], a[2] + ((b[2]-a[2])*(bx[1]-a[1])) \div (b[1]-a[1])>>
Inside(bx, p, edge) == ~Bit(Code(bx, p), edge)
RECURSIVE Pass(_,_,_,_,_,_)
Pass(bx, edge, in, i, prev, out) ==
  IF i > Len(in) THEN out
  ELSE LET p  == in[i]
           o1 == IF Inside(bx, p, edge) # Inside(bx, prev, edge) THEN Append(out, Isect(bx, edge, prev, p)) ELSE out
           o2 == IF Inside(bx, p, edge) THEN Append(o1, p) ELSE o1
       IN Pass(bx, edge, in, i + 1, p, o2)
RECURSIVE Passes(_,_,_,_)
Passes(bx, in, closedIn, edges) ==
  IF edges = <<>> THEN in
  ELSE LET prev0 == IF closedIn THEN in[Len(in)] ELSE in[1]
           out   == Pass(bx, Head(edges), in, 1, prev0, <<>>)
       IN IF out = <<>> THEN <<>> ELSE Passes(bx, out, closedIn, Tail(edges))
SHRing(bx, in) ==
  IF in = <<>> THEN <<>>
  ELSE LET closedIn == in[1] = in[Len(in)]
           out == Passes(bx, in, closedIn, <<1, 2, 4, 8>>)
       IN IF out # <<>> /\ closedIn /\ out[1] # out[Len(out)] THEN Append(out, out[1]) ELSE out
=============================================================================
