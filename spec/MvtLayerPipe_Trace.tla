---------------------------- MODULE MvtLayerPipe_Trace ----------------------------
(* The mvt.Layers pipeline as a state machine: a sequence of Clip / Simplify / RemoveEmpty steps applied to the      *)
(* same layers.  The spec state st maps a layer number to its current feature list (tag, geometry id); every step   *)
(* event must start from exactly that list (nothing but the operations changes a layer; feature identity and order   *)
(* survive) and must end in the filter-map of the per-geometry results, which becomes the next state.               *)
EXTENDS MvtLayer, TLC, Json, IOUtils
Trace == ndJsonDeserialize(IOEnv.TRACE)
VARIABLES l, st, bad
Out(e) == [i \in 1..Len(e.out) |-> [tag |-> e.out[i].tag, g |-> e.out[i].g]]
In(e) == [i \in 1..Len(e.feats) |-> [tag |-> e.feats[i].tag, g |-> e.feats[i].g]]
RVec(e) == IF e.op = "removeempty" THEN [i \in 1..Len(e.feats) |-> IF KeepNonEmpty(e.feats[i]) THEN e.feats[i].g ELSE 0]
           ELSE e.want
StepOk(e) == /\ (e.layer \in DOMAIN st => In(e) = st[e.layer])      \* the layer is as the previous step left it
             /\ Out(e) = FilterMap(In(e), RVec(e))
Init == l = 1 /\ st = <<>> /\ bad = {}
Next == /\ l <= Len(Trace) /\ l' = l + 1
        /\ LET e == Trace[l] IN
           IF e.k # "pipe" THEN st' = st /\ bad' = bad \cup {l}
           ELSE IF e.op = "reset" THEN st' = <<>> /\ bad' = bad
           ELSE /\ st' = (e.layer :> FilterMap(In(e), RVec(e))) @@ st      \* the model's result, not the logged one
                /\ bad' = IF StepOk(e) THEN bad ELSE bad \cup {l}
        /\ (l = Len(Trace) => PrintT(ToJson([done |-> l, bad |-> bad'])))
Spec == Init /\ [][Next]_<<l, st, bad>>
=============================================================================
