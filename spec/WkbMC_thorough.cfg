SPECIFICATION Spec
INVARIANTS RoundTrip ScanTable TruncationFails
CHECK_DEADLOCK FALSE
