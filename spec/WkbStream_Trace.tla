---------------------------- MODULE WkbStream_Trace ----------------------------
(* Trace validation for C01 (streams): the real wkb / ewkb Encoder and Decoder over one byte pipe against the      *)
(* stream model.  Events: reset (new encoder, decoder and pipe; tab = coordinate table of the whole history; dsrid =  *)
(* the package's DefaultSRID when the encoder was created),                                                          *)
(* order / srid (encoder settings), enc (geometry, explicit SRID or -1, the bytes that reached the pipe, whether    *)
(* Encode reported an error, pipe length afterwards), dec (result class, value, SRID, pipe length afterwards).      *)
(* The spec state s follows the model, so one wrong step shows up where it happens; after the model's pipe holds a  *)
(* torn message and a decode has failed on it the stream is dead and nothing more is demanded.                      *)
EXTENDS WkbStream, TLC, Json, IOUtils
Trace == ndJsonDeserialize(IOEnv.TRACE)
VARIABLES l, s, tab, dead, bad
EncOk(e, s2) ==
   LET b == Bytes(tab, s, e.g, e.topnil, e.sr)  w == Len(e.wrote) IN
   /\ w <= Len(b) /\ e.wrote = SubSeq(b, 1, w)          \* byte for byte what Marshal of the same value gives (or a prefix: writer full)
   /\ (e.err = 1) = (w < Len(b))                         \* a short write is reported, a complete one is not
   /\ e.rem = Len(s2.pipe)
DecOk(e, r) ==
   CASE r.res = "ok"  -> e.res = "ok" /\ e.v = r.v /\ e.srid = r.srid /\ e.rem = Len(r.next.pipe)   \* exactly one message consumed
     [] r.res = "eof" -> e.res = "eof"
     [] r.res = "err" -> e.res \in {"err", "eof"}
Init == l = 1 /\ s = S0(0) /\ tab = <<>> /\ dead = FALSE /\ bad = {}
Next == /\ l <= Len(Trace) /\ l' = l + 1
        /\ LET e == Trace[l] IN
           IF e.k # "ws" THEN UNCHANGED <<s, tab, dead>> /\ bad' = bad \cup {l}
           ELSE IF e.op = "reset" THEN s' = S0(e.dsrid) /\ tab' = e.tab /\ dead' = FALSE /\ bad' = bad
           ELSE IF dead THEN UNCHANGED <<s, tab, dead>> /\ bad' = bad
           ELSE IF e.op = "order" THEN s' = SetOrder(s, e.le = 1) /\ UNCHANGED <<tab, dead>> /\ bad' = bad
           ELSE IF e.op = "srid" THEN s' = SetSrid(s, e.srid) /\ UNCHANGED <<tab, dead>> /\ bad' = bad
           ELSE IF e.op = "enc" THEN
                LET b == Bytes(tab, s, e.g, e.topnil, e.sr)
                    w == IF Len(e.wrote) <= Len(b) THEN Len(e.wrote) ELSE Len(b)
                    s2 == Encode(tab, s, e.g, e.topnil, e.sr, w) IN
                /\ s' = s2 /\ UNCHANGED <<tab, dead>>
                /\ bad' = IF EncOk(e, s2) THEN bad ELSE bad \cup {l}
           ELSE IF e.op = "dec" THEN
                LET r == DecodeRes(tab, s) IN
                /\ s' = r.next /\ tab' = tab /\ dead' = (r.res = "err")
                /\ bad' = IF DecOk(e, r) THEN bad ELSE bad \cup {l}
           ELSE UNCHANGED <<s, tab, dead>> /\ bad' = bad \cup {l}
        /\ (l = Len(Trace) => PrintT(ToJson([done |-> l, bad |-> bad'])))
Spec == Init /\ [][Next]_<<l, s, tab, dead, bad>>
=============================================================================
