SPECIFICATION Spec
CONSTANTS
  U = 4
  W = 3
  K = 3
  BAD = FALSE
  STRIDE = 8
INVARIANTS NoError CoverOK
CHECK_DEADLOCK FALSE
