---------------------------- MODULE ClipLine_Trace ----------------------------
(* Trace validation for C07: each event is one real call of clip.LineString / MultiLineString /      *)
(* Geometry (1-d kinds), with box, input paths and output pieces in lattice units.                  *)
EXTENDS ClipLine, TLC, Json, IOUtils
Trace == ndJsonDeserialize(IOEnv.TRACE)
VARIABLES l, bad
Pre(e) == \A i \in 1..Len(e.paths) : LatticeOK(e.box, e.paths[i])
Ok(e) == /\ e.k = "clipline"
         \* a re-clipped piece lies inside the box when the first clip was right, and then Pre holds
         \* trivially; for generated inputs a failing Pre is a generator fault and stops the run
         /\ IF e.re = 1 THEN Pre(e) ELSE Assert(Pre(e), <<"generator fault: crossing off the lattice", e>>)
         /\ e.mod = 0                                                 \* input not modified
         /\ e.pstable = 1                                             \* the previous call's result was left alone
         /\ e.dense = 1                                               \* cut into thousands of short segments: the same pieces
         /\ AllInBox(e.box, e.out)
         /\ \A i \in 1..Len(e.out) : Len(e.out[i]) >= 1
         /\ Norm(e.out) = ExpectedAll(e.box, e.paths, 1, e.open = 1)
         /\ (Len(e.paths) = 1 /\ Len(e.paths[1]) >= 2 /\ WhollyInside(e.box, e.paths[1], e.open = 1)) => e.out = e.paths
         /\ (e.re = 1 /\ Len(Dedup(e.paths[1])) >= 2 => e.out = e.paths)  \* re-clipping a (non-degenerate) piece returns it
         /\ (e.shape = "nil") = (Len(e.out) = 0)
         /\ (e.fn = "Geometry" => e.shape = (IF Len(e.out) = 0 THEN "nil" ELSE IF Len(e.out) = 1 THEN "ls" ELSE "mls"))
Init == l = 1 /\ bad = {}
Next == /\ l <= Len(Trace) /\ l' = l + 1
        /\ bad' = IF Ok(Trace[l]) THEN bad ELSE bad \cup {l}
        /\ (l = Len(Trace) => PrintT(ToJson([done |-> l, bad |-> bad'])))
Spec == Init /\ [][Next]_<<l, bad>>
=============================================================================
