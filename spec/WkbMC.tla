---------------------------- MODULE WkbMC ----------------------------
(* Model check of the C01 byte grammar: for every geometry of a bounded shape set (all nine kinds + nil,    *)
(* empty members, collections nested to depth 2), both byte orders and SRIDs {absent, 1, 4326, 2^31-1},     *)
(* with coordinate byte patterns chosen to look like headers: the reference decoder inverts the encoder,    *)
(* consumes exactly the bytes written, returns the SRID written; a nil geometry encodes to no bytes; the    *)
(* scanner coercion table is total and yields a value of the destination kind or the wrong-geometry error.  *)
EXTENDS Wkb, TLC
Tab == << <<1, 0, 0, 0, 32, 0, 0, 1>>, <<0, 0, 0, 0, 0, 0, 0, 0>>, <<255, 255, 255, 255, 255, 255, 255, 255>> >>
Cid == 1..2
P == Cid \X Cid
PS == {<<>>} \cup {<<p>> : p \in P} \cup {<<p, q>> : p \in P, q \in P}
PS3 == {<<>>, <<<<1, 2>>>>, <<<<2, 1>>, <<3, 3>>>>}
Seq2(S) == {<<>>} \cup {<<a>> : a \in S} \cup {<<a, b>> : a \in S, b \in S}
Polys == Seq2(PS3)
G(t, c) == [t |-> t, c |-> c]
Basic == {[t |-> "nil"]} \cup {G("Point", p) : p \in P} \cup {G("MultiPoint", s) : s \in PS} \cup {G("LineString", s) : s \in PS}
         \cup {G("Ring", s) : s \in PS} \cup {G("Polygon", p) : p \in Polys} \cup {G("MultiLineString", p) : p \in Polys}
         \cup {G("MultiPolygon", m) : m \in Seq2(Polys)} \cup {G("Bound", <<a, b, c, d>>) : a \in Cid, b \in Cid, c \in Cid, d \in Cid}
Rep == {G("Point", <<1, 2>>), G("MultiPoint", <<>>), G("MultiPoint", <<<<3, 1>>>>), G("LineString", <<>>), G("LineString", <<<<1, 1>>, <<2, 3>>>>),
        G("Ring", <<<<1, 2>>>>), G("Polygon", <<>>), G("Polygon", <<<<>>, <<<<2, 2>>>>>>), G("MultiLineString", <<<<>>>>),
        G("MultiPolygon", <<<<>>>>), G("MultiPolygon", <<<<<<<<3, 3>>>>>>>>), G("Bound", <<1, 2, 3, 1>>)}
Coll(S) == {[t |-> "Collection", g |-> m] : m \in Seq2(S)}
Coll1 == Coll(Rep)
Rep2 == Rep \cup {[t |-> "Collection", g |-> <<>>], [t |-> "Collection", g |-> <<G("Point", <<2, 2>>)>>],
                  [t |-> "Collection", g |-> <<G("LineString", <<>>), G("Ring", <<<<1, 2>>>>)>>]}
Shapes == Basic \cup Coll1 \cup Coll(Rep2)
Srids == {0, 1, 4326, 2147483647}
VARIABLES g, le, srid
Init == g \in Shapes /\ le \in BOOLEAN /\ srid \in Srids
Next == UNCHANGED <<g, le, srid>>
Spec == Init /\ [][Next]_<<g, le, srid>>

RECURSIVE ToIds(_)
PtIds(p) == <<IdOf(Tab, p[1]), IdOf(Tab, p[2])>>
ToIds(v) == CASE v.t = "Point" -> [t |-> v.t, c |-> PtIds(v.c)]
              [] v.t \in {"MultiPoint", "LineString"} -> [t |-> v.t, c |-> [i \in 1..Len(v.c) |-> PtIds(v.c[i])]]
              [] v.t \in {"Polygon", "MultiLineString"} -> [t |-> v.t, c |-> [i \in 1..Len(v.c) |-> [j \in 1..Len(v.c[i]) |-> PtIds(v.c[i][j])]]]
              [] v.t = "MultiPolygon" -> [t |-> v.t, c |-> [i \in 1..Len(v.c) |-> [j \in 1..Len(v.c[i]) |-> [k \in 1..Len(v.c[i][j]) |-> PtIds(v.c[i][j][k])]]]]
              [] v.t = "Collection" -> [t |-> v.t, g |-> [i \in 1..Len(v.g) |-> ToIds(v.g[i])]]
RoundTrip == LET b == Enc(Tab, g, le, srid) IN
   IF g.t = "nil" THEN b = <<>>
   ELSE LET d == Dec(b) IN d.ok /\ ToIds(d.v) = CanonDeep(g) /\ d.srid = srid /\ d.pos = Len(b) + 1
KindOfDest(dest, v) == IF dest = "nil" THEN TRUE ELSE v.t = dest
ScanTable == g.t # "nil" => \A dest \in Dests \ {"Bound"} :
                LET r == ScanInto(dest, CanonDeep(g)) IN r.ok => KindOfDest(dest, r.v)
\* truncating a valid encoding anywhere makes the reference decoder fail (never succeed on a prefix)
TruncationFails == g.t # "nil" => LET b == Enc(Tab, g, le, srid) IN
                      \A n \in 0..(Len(b) - 1) : ~Dec(SubSeq(b, 1, n)).ok
=============================================================================
