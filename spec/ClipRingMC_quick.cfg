SPECIFICATION Spec
CONSTANTS G = 5  BLO = 1  BHI = 3  NV = 3
INVARIANTS Region InBoxAll Closed InsideUnchanged DisjointNothing SplitAdditive
CHECK_DEADLOCK FALSE
