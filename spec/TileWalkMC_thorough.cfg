SPECIFICATION Spec
CONSTANTS
  U = 8
  W = 3
INVARIANT WalkOK
CHECK_DEADLOCK FALSE
