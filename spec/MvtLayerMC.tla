---------------------------- MODULE MvtLayerMC ----------------------------
(* Model check: for every layer of up to N features and every result vector over {dropped, unchanged, changed},    *)
(* the in-place compaction loop ends with exactly FilterMap, the write index never overtakes the read index (no      *)
(* unread feature is overwritten), and every feature not yet read is still in its slot.  Emit prints the result      *)
(* vectors for replay into the real Layer.Clip / Simplify / RemoveEmpty.                                            *)
EXTENDS MvtLayer, TLC, Json
CONSTANT N
VARIABLES fs, R, c
vars == <<fs, R, c>>
\* geometry ids: feature k starts with geometry k; result 0 = dropped, k = unchanged, 100+k = changed
Res(k) == {0, k, 100 + k}
Init == \E n \in 0..N : /\ fs = [k \in 1..n |-> [tag |-> k, g |-> k]]
                        /\ R \in [1..n -> UNION {Res(k) : k \in 1..n}] /\ \A k \in 1..n : R[k] \in Res(k)
                        /\ c = CInit(fs)
Next == ~CDone(c) /\ c' = CStep(c, R) /\ UNCHANGED <<fs, R>>
Spec == Init /\ [][Next]_vars
\* a wrong loop, to show the invariants bite: the dropped feature is cut out of the array and the read index still advances
\* (the feature that slides into the freed slot is never visited); R is indexed by tag
SpliceStep(x) == IF R[x.a[x.i].tag] # 0
                 THEN [x EXCEPT !.a[x.i] = [tag |-> x.a[x.i].tag, g |-> R[x.a[x.i].tag]], !.i = @ + 1, !.at = @ + 1]
                 ELSE [x EXCEPT !.a = SubSeq(x.a, 1, x.i - 1) \o SubSeq(x.a, x.i + 1, Len(x.a)), !.i = @ + 1]
SpliceSpec == Init /\ [][~CDone(c) /\ c' = SpliceStep(c) /\ UNCHANGED <<fs, R>>]_vars
SpliceFinal == CDone(c) => c.a = FilterMap(fs, R)
WriteBehindRead == c.at <= c.i
UnreadIntact == \A k \in c.i..Len(fs) : c.a[k] = fs[k]
PrefixDone == SubSeq(c.a, 1, c.at - 1) = FilterMap(SubSeq(fs, 1, c.i - 1), SubSeq(R, 1, c.i - 1))
Final == CDone(c) => CResult(c) = FilterMap(fs, R)
Emit == CDone(c) => PrintT(ToJson([r |-> [k \in 1..Len(R) |-> IF R[k] = 0 THEN 0 ELSE IF R[k] < 100 THEN 1 ELSE 2]]))
=============================================================================
