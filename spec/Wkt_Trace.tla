---------------------------- MODULE Wkt_Trace ----------------------------
(* Trace validation for C04.  Event kinds:                                                                     *)
(*  wkt    one geometry: the tokens of the text wkt.MarshalString produced (numbers as "#id" of the bit pattern   *)
(*         strconv.ParseFloat gives them), the value wkt.Unmarshal returned for that text (coordinates as ids),      *)
(*         and for each typed parse function whether it accepted (1), reported incorrect geometry (2) or failed (0)  *)
(*  resp   a re-spelling of such a text (keyword case changed, white space inserted next to parentheses, commas      *)
(*         and at the ends) with the value parsed from it                                                            *)
EXTENDS Wkt, TLC, Json, IOUtils
Trace == ndJsonDeserialize(IOEnv.TRACE)
VARIABLES l, bad
RECURSIVE SEq(_,_)
SEq(a, b) == /\ a.t = b.t
             /\ IF a.t = "nil" THEN TRUE
                ELSE IF a.t = "Collection" THEN Len(a.g) = Len(b.g) /\ \A i \in 1..Len(a.g) : SEq(a.g[i], b.g[i])
                ELSE a.c = b.c
Kinds == <<"Point", "MultiPoint", "LineString", "MultiLineString", "Polygon", "MultiPolygon", "Collection">>
WktOk(e) == /\ e.tokens = WPrint(e.g)                                   \* the text is the specified one, number for number
            /\ (e.g.t # "nil" =>
                  /\ e.err = 0 /\ SEq(e.out, Canon(e.g))                \* and parses back to the same value
                  /\ \A i \in 1..7 : e.typed[i] = (IF Canon(e.g).t = Kinds[i] THEN 1 ELSE 2))
RespOk(e) == /\ e.err = 0 /\ SEq(e.out, Canon(e.g))
             /\ \A i \in 1..7 : e.typed[i] = (IF Canon(e.g).t = Kinds[i] THEN 1 ELSE 2)   \* typed functions: own kind only
Ok(e) == CASE e.k = "wkt" -> WktOk(e) [] e.k = "resp" -> RespOk(e) [] OTHER -> FALSE
Init == l = 1 /\ bad = {}
Next == /\ l <= Len(Trace) /\ l' = l + 1
        /\ bad' = IF Ok(Trace[l]) THEN bad ELSE bad \cup {l}
        /\ (l = Len(Trace) => PrintT(ToJson([done |-> l, bad |-> bad'])))
Spec == Init /\ [][Next]_<<l, bad>>
=============================================================================
