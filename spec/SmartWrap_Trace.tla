---------------------------- MODULE SmartWrap_Trace ----------------------------
(* Trace validation for X08: one event = one real smartclip call on rings built from a configuration of pieces;    *)
(* groups = the pieces and box corners found along each result polygon, in order.  They must be the spec's rings (each *)
(* written from its smallest piece, the polygons in any order), every ring closed, inside the box and wound as asked. *)
EXTENDS SmartWrapBase, TLC, Json, IOUtils
Trace == ndJsonDeserialize(IOEnv.TRACE)
VARIABLES l, bad
Cfg(e) == [j \in 1..Len(e.pieces) |-> [s |-> e.pieces[j][1], e |-> e.pieces[j][2]]]
Ok(e) == /\ e.k = "sw"
         /\ Assert(ValidP(e.p, Cfg(e)), <<"generator fault: not a valid configuration", e>>)
         /\ e.shape = 1
         /\ \A i \in 1..Len(e.groups) : \E k \in 1..Len(e.groups[i]) : e.groups[i][k] > 0
         /\ Len(e.groups) = Cardinality(CyclesP(e.p, Cfg(e)))                     \* no polygon twice
         \* piece by piece and corner by corner (tokens: piece numbers, -1 .. -4 for the corners, 0 for any other vertex)
         /\ {NormTok(e.groups[i]) : i \in 1..Len(e.groups)} = RingsP(e.p, Cfg(e))
Init == l = 1 /\ bad = {}
Next == /\ l <= Len(Trace) /\ l' = l + 1
        /\ bad' = IF Ok(Trace[l]) THEN bad ELSE bad \cup {l}
        /\ (l = Len(Trace) => PrintT(ToJson([done |-> l, bad |-> bad'])))
Spec == Init /\ [][Next]_<<l, bad>>
=============================================================================
