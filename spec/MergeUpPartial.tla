---------------------------- MODULE MergeUpPartial ----------------------------
(* Extended coverage: tilecover.MergeUpPartial as a state machine.  Like MergeUp the code ranges over the map it    *)
(* mutates (any key order), but a quad is replaced by its parent as soon as `count` of its four tiles are present.   *)
(* Abstract result PM: level by level, quads with >= count members move up, the other tiles stay; a level with       *)
(* fewer than count parents ends the ascent.  With count = 4 this is MergeUp's MaxMerge.  The result never loses     *)
(* area, never goes above min, and does not depend on the iteration order.                                           *)
EXTENDS TileQuad, TLC
CONSTANT MAXZ
AllAt(z) == {Tile(x,y,z) : x \in 0..(2^z - 1), y \in 0..(2^z - 1)}
Inputs == SUBSET AllAt(MAXZ)
VARIABLES input, min, count, set, merged, parentSet, z, pending, pc
vars == <<input, min, count, set, merged, parentSet, z, pending, pc>>
Init == /\ input \in Inputs /\ min \in 0..MAXZ /\ count \in 1..4
        /\ set = input /\ merged = {} /\ parentSet = {} /\ z = MAXZ /\ pending = input
        /\ pc = IF min = MAXZ \/ input = {} THEN "returnInput" ELSE "loop"
Visit(t) ==
  /\ pc = "loop" /\ t \in pending /\ pending' = pending \ {t}
  /\ IF t \notin set THEN UNCHANGED <<set, merged, parentSet>>
     ELSE LET sb == Sibs(t) IN
          IF Cardinality(sb \cap set) >= count
          THEN /\ set' = set \ sb
               /\ IF z - 1 = min THEN merged' = merged \cup {Parent(t)} /\ UNCHANGED parentSet
                                 ELSE parentSet' = parentSet \cup {Parent(t)} /\ UNCHANGED merged
          ELSE /\ merged' = merged \cup (sb \cap set) /\ set' = set \ sb /\ UNCHANGED parentSet
  /\ UNCHANGED <<input, min, count, z, pc>>
EndLevel ==
  /\ pc = "loop" /\ pending = {}
  /\ IF Cardinality(parentSet) < count
     THEN /\ merged' = merged \cup parentSet /\ pc' = "done" /\ UNCHANGED <<set, z, pending, parentSet>>
     ELSE IF z - 1 > min
          THEN /\ set' = parentSet /\ pending' = parentSet /\ parentSet' = {} /\ z' = z - 1 /\ UNCHANGED <<merged, pc>>
          ELSE /\ pc' = "done" /\ UNCHANGED <<set, merged, parentSet, z, pending>>
  /\ UNCHANGED <<input, min, count>>
Next == (\E t \in pending : Visit(t)) \/ EndLevel
Spec == Init /\ [][Next]_vars
\* ---- abstract result ----
Result == IF pc = "returnInput" THEN input ELSE merged
Final == pc \in {"done", "returnInput"}
Correct == Final => Result = PM(input, MAXZ, min, count)
RECURSIVE Leaves(_)
Leaves(t) == IF t[3] = MAXZ THEN {t} ELSE UNION {Leaves(k) : k \in Kids(t)}
NoAreaLost == Final => input \subseteq UNION {Leaves(t) : t \in Result}
\* (for count < 4 the result may hold a tile next to one of its ancestors: a lone tile stays at its level while the
\* partially filled quads around it climb past it - TLC's counterexample: one zoom-2 tile plus two complete quads, count 2)
Disjoint == (Final /\ count = 4) => \A a, b \in Result : a # b => Leaves(a) \cap Leaves(b) = {}
NotShallower == Final => \A t \in Result : t[3] >= min
\* every result tile deeper than the input zoom's parent level is justified: it has at least one input leaf under it
Justified == Final => \A t \in Result : Leaves(t) \cap input # {}
\* with count = 4 nothing is added
ExactWhenFull == (Final /\ count = 4) => UNION {Leaves(t) : t \in Result} = input
QuadTiles(q) == {t \in AllAt(2) : t[1] \div 2 = q[1] /\ t[2] \div 2 = q[2]}
QuickInputs == {S \cup UNION {QuadTiles(q) : q \in F} : S \in SUBSET QuadTiles(<<0,0>>), F \in SUBSET {<<1,0>>, <<0,1>>, <<1,1>>}}
\* thorough: two free quads, the two others complete or empty
MidInputs == {S \cup T \cup UNION {QuadTiles(q) : q \in F} : S \in SUBSET QuadTiles(<<0,0>>), T \in SUBSET QuadTiles(<<1,1>>), F \in SUBSET {<<1,0>>, <<0,1>>}}
=============================================================================
