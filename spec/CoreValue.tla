---------------------------- MODULE CoreValue ----------------------------
(* C06 abstract layer: geometries as GeomValue records over integer coordinate ranks / value ids;        *)
(*  - structural equality is record equality of the trees (kind, nesting, lengths, every coordinate);      *)
(*  - Verts(g) = the vertices that count for the bound (outer rings only for polygons);                     *)
(*  - a bound is <<>> (empty) or <<minx, miny, maxx, maxy>>; Union / Extend / Contains / Intersects are      *)
(*    the set-theoretic operations on closed boxes, for which CoreValueMC checks the lattice laws;          *)
(*  - orientation is the sign of the shoelace sum.                                                          *)
EXTENDS Integers, Sequences, FiniteSets

MinS(S) == CHOOSE x \in S : \A y \in S : x <= y
MaxS(S) == CHOOSE x \in S : \A y \in S : x >= y
Min2(a, b) == IF a < b THEN a ELSE b
Max2(a, b) == IF a > b THEN a ELSE b

RECURSIVE Verts(_)
Verts(g) == CASE g.t = "Point" -> {g.c}
              [] g.t \in {"MultiPoint", "LineString", "Ring"} -> {g.c[i] : i \in 1..Len(g.c)}
              [] g.t = "MultiLineString" -> UNION {{g.c[i][j] : j \in 1..Len(g.c[i])} : i \in 1..Len(g.c)}
              [] g.t = "Polygon" -> IF Len(g.c) = 0 THEN {} ELSE {g.c[1][j] : j \in 1..Len(g.c[1])}
              [] g.t = "MultiPolygon" -> UNION {IF Len(g.c[i]) = 0 THEN {} ELSE {g.c[i][1][k] : k \in 1..Len(g.c[i][1])} : i \in 1..Len(g.c)}
              [] g.t = "Collection" -> UNION {Verts(g.g[i]) : i \in 1..Len(g.g)}
              [] g.t = "Bound" -> {<<g.c[1], g.c[2]>>, <<g.c[3], g.c[4]>>}
              [] OTHER -> {}
E == <<>>                       \* the empty bound
BoxOf(V) == IF V = {} THEN E ELSE <<MinS({p[1] : p \in V}), MinS({p[2] : p \in V}), MaxS({p[1] : p \in V}), MaxS({p[2] : p \in V})>>
TightBound(g) == BoxOf(Verts(g))

PtBox(p) == <<p[1], p[2], p[1], p[2]>>
SUnion(a, b) == IF b = E THEN a ELSE IF a = E THEN b
                ELSE <<Min2(a[1], b[1]), Min2(a[2], b[2]), Max2(a[3], b[3]), Max2(a[4], b[4])>>
SExtend(a, p) == SUnion(a, PtBox(p))
SContains(a, p) == a # E /\ a[1] <= p[1] /\ p[1] <= a[3] /\ a[2] <= p[2] /\ p[2] <= a[4]
SIntersects(a, b) == a # E /\ b # E /\ ~(a[3] < b[1] \/ a[1] > b[3] \/ a[4] < b[2] \/ a[2] > b[4])

\* sign of twice the signed area, ring implicitly closed
RECURSIVE ShoeFrom(_, _)
ShoeFrom(r, i) == IF i > Len(r) THEN 0
                  ELSE LET a == r[i]  b == r[(i % Len(r)) + 1] IN a[1]*b[2] - b[1]*a[2] + ShoeFrom(r, i + 1)
Orient(r) == IF Len(r) = 0 THEN 0 ELSE LET s == ShoeFrom(r, 1) IN IF s > 0 THEN 1 ELSE IF s < 0 THEN -1 ELSE 0
RevSeq(s) == [i \in 1..Len(s) |-> s[Len(s) + 1 - i]]

\* structural equality: same kind, same nesting, same lengths, same coordinates (TLC refuses to compare
\* coordinate trees of different depth, so the kinds are compared first)
RECURSIVE StructEq(_,_)
StructEq(a, b) == /\ a.t = b.t
                  /\ IF a.t = "nil" THEN TRUE
                     ELSE IF a.t = "Collection" THEN Len(a.g) = Len(b.g) /\ \A i \in 1..Len(a.g) : StructEq(a.g[i], b.g[i])
                     ELSE a.c = b.c

\* all vertex paths of a value: sequences of indices down to a coordinate pair
RECURSIVE Set1(_,_,_)
\* replace the vertex at `path` by v (path indexes c / g levels; a Point has the empty path)
Set1(g, path, v) ==
   IF g.t = "Point" THEN [g EXCEPT !.c = v]
   ELSE IF g.t \in {"MultiPoint", "LineString", "Ring"} THEN [g EXCEPT !.c[path[1]] = v]
   ELSE IF g.t \in {"MultiLineString", "Polygon"} THEN [g EXCEPT !.c[path[1]][path[2]] = v]
   ELSE IF g.t = "MultiPolygon" THEN [g EXCEPT !.c[path[1]][path[2]][path[3]] = v]
   ELSE IF g.t = "Collection" THEN [g EXCEPT !.g[path[1]] = Set1(g.g[path[1]], Tail(path), v)]
   ELSE g
=============================================================================
