SPECIFICATION Spec
CONSTANTS MODE = "wkt"  MAXLEN = 4
INVARIANT Emit
CHECK_DEADLOCK FALSE
