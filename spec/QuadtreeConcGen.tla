---------------------------- MODULE QuadtreeConcGen ----------------------------
(* Schedule generator for C19 replay: every interleaving of the query processes of QuadtreeConc (as the  *)
(* sequence of process ids that took a step), printed with the tree recipe and the result each query      *)
(* has when run alone.  The harness runs one goroutine per query and lets goroutine i proceed by one     *)
(* gated node visit for every occurrence of i in the schedule.                                            *)
EXTENDS QuadtreeConc, Json
VARIABLE sched
GNext == \/ (Prepare /\ UNCHANGED sched) \/ (Launch /\ UNCHANGED sched)
         \/ \E i \in Procs : Step(i) /\ sched' = Append(sched, i)
GSpec == CInit /\ sched = <<>> /\ [][GNext]_<<cvars, sched>>
RECURSIVE SetToSeq(_)
SetToSeq(S) == IF S = {} THEN <<>> ELSE LET x == CHOOSE x \in S : \A y \in S : x <= y IN <<x>> \o SetToSeq(S \ {x})
AllDone == \A i \in Procs : done[i]
Emit == ~AllDone \/ PrintT(ToJson([sched |-> sched, pts |-> Pts, rem |-> Removals, qs |-> Qs, kinds |-> Kinds,
                                   expect |-> [i \in Procs |-> SetToSeq(Alone(i))]]))
PtsDef == << <<128,128>>, <<64,192>>, <<200,40>>, <<30,30>>, <<220,220>>, <<130,126>>, <<100,100>>, <<10,250>> >>
RemDef == <<7, 2>>
QsA == << <<10,10>>, <<128,120>> >>
KindsA == <<1, 2>>
QsB == << <<250,250>>, <<60,200>> >>
KindsB == <<2, 1>>
QsC == << <<128,128>>, <<0,256>> >>
KindsC == <<3, 2>>
=============================================================================
