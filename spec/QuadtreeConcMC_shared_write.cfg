SPECIFICATION CSpec
CONSTANTS
  B = 256
  Pts <- PtsDef
  Removals <- RemDef
  Qs <- QsDef
  Kinds <- KindsDef
  NQ = 2
  SHARED = TRUE
  COMPACT = FALSE
PROPERTIES NoSharedWrite
CHECK_DEADLOCK FALSE
