---------------------------- MODULE ProjectMC ----------------------------
(* Model check of the structural law on the bounded shape set of WkbMC: MapVertices preserves kind and nesting,     *)
(* visits every vertex exactly once (the visit numbers of the image are 1..n without repetition) and keeps order.    *)
EXTENDS Project, WkbMC
PInit == g \in Shapes /\ le = TRUE /\ srid = 0
PSpec == PInit /\ [][Next]_<<g, le, srid>>
RECURSIVE Ys(_)
Ys(v) == CASE v.t = "Point" -> <<v.c[2]>>
           [] v.t \in {"MultiPoint", "LineString", "Ring"} -> [i \in 1..Len(v.c) |-> v.c[i][2]]
           [] v.t \in {"MultiLineString", "Polygon"} -> Cat([i \in 1..Len(v.c) |-> [j \in 1..Len(v.c[i]) |-> v.c[i][j][2]]])
           [] v.t = "MultiPolygon" -> Cat([i \in 1..Len(v.c) |-> Cat([j \in 1..Len(v.c[i]) |-> [k \in 1..Len(v.c[i][j]) |-> v.c[i][j][k][2]]])])
           [] v.t = "Collection" -> Cat([i \in 1..Len(v.g) |-> Ys(v.g[i])])
           [] OTHER -> <<>>
NoBound(v) == v.t # "Bound" /\ (v.t = "Collection" => \A i \in 1..Len(v.g) : v.g[i].t # "Bound" /\ (v.g[i].t = "Collection" => \A j \in 1..Len(v.g[i].g) : v.g[i].g[j].t # "Bound"))
OnceInOrder == (g.t # "nil" /\ NoBound(g)) => LET m == MapV(g, 1) IN
                  /\ m[1].t = g.t
                  \* the call number is the hundreds of the image's second coordinate (2x + y < 100 on the shape set)
                  /\ [i \in 1..Len(Ys(m[1])) |-> Ys(m[1])[i] \div 100] = [i \in 1..(m[2] - 1) |-> i]
=============================================================================
