SPECIFICATION Spec
CONSTANTS P = 8  N = 4  BROKEN = TRUE
INVARIANTS WalkOK
CHECK_DEADLOCK FALSE
