---------------------------- MODULE ResampleMC ----------------------------
(* Model check of the C17 design: the cumulative-distance walk gives exactly N points equal to the closed form   *)
(* for every axis-aligned path of <= KS segments with lengths 0..LMAX and every N in 2..NMAX.                    *)
EXTENDS Resample, TLC
CONSTANTS KS, LMAX, NMAX
VARIABLES vs, lens
Dirs == {<<1,0>>, <<0,1>>, <<-1,0>>, <<0,-1>>}
Init == vs = <<<<0, 0>>>> /\ lens = <<>>
Next == /\ Len(lens) < KS
        /\ \E d \in Dirs, len \in 0..LMAX :
             /\ vs' = Append(vs, <<vs[Len(vs)][1] + d[1]*len, vs[Len(vs)][2] + d[2]*len>>)
             /\ lens' = Append(lens, len)
Spec == Init /\ [][Next]_<<vs, lens>>
M == 60      \* divisible by every length 1..LMAX <= 5
WalkIsClosedForm == (Len(lens) >= 1 /\ ~AllEqual(vs)) =>
     \A N \in 2..NMAX : Walk(vs, lens, N, M) = Expected(vs, lens, N, M) /\ Len(Walk(vs, lens, N, M)) = N
EdgeCases == /\ Expected(vs, lens, 0, M) = <<>>
             /\ (AllEqual(vs) /\ Len(vs) >= 2 => \A N \in 1..NMAX : Len(Expected(vs, lens, N, M)) = N)
=============================================================================
