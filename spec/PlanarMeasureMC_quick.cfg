SPECIFICATION Spec
CONSTANTS N = 4  K = 3
INVARIANTS AreaLaws CentroidLaws DistLaws
CHECK_DEADLOCK FALSE
