SPECIFICATION Spec
CONSTANTS ZT = 4  ZP = 3
INVARIANTS Single Pair
CHECK_DEADLOCK FALSE
