SPECIFICATION Spec
CONSTANTS P = 8  N = 4  BROKEN = FALSE
INVARIANT Emit
CHECK_DEADLOCK FALSE
