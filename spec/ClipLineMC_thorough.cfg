SPECIFICATION Spec
CONSTANTS G = 7  BLO = 1  BHI = 5  K = 3
INVARIANTS Refines InBoxAll OnInput Idem InsideAsIs Lattice
CHECK_DEADLOCK FALSE
