---------------------------- MODULE Wkb_Trace ----------------------------
(* Trace validation for C01.  One event = one geometry marshalled by the real wkb/ewkb package in one byte   *)
(* order (and SRID), decoded by the byte decoder, the stream decoder and the scanner into every destination *)
(* type under every framing.  g and every decoded value carry coordinate ids; tab maps an id to the 8 bytes   *)
(* (big-endian) of its float64 bit pattern, so "bit-identical" is id equality and the byte layout is checked  *)
(* by the spec against the real output, byte for byte.  rk gives the IEEE rank of each id (bounds).          *)
(* Verts = the vertices that count for a bound (outer rings only for polygons; a Ring decodes as a polygon).  *)
EXTENDS Wkb, TLC, Json, IOUtils
Trace == ndJsonDeserialize(IOEnv.TRACE)
VARIABLES l, bad
MinS(S) == CHOOSE x \in S : \A y \in S : x <= y
MaxS(S) == CHOOSE x \in S : \A y \in S : x >= y
RECURSIVE Verts(_)
Verts(g) == CASE g.t = "Point" -> {g.c}
              [] g.t \in {"MultiPoint", "LineString", "Ring"} -> {g.c[i] : i \in 1..Len(g.c)}
              [] g.t = "MultiLineString" -> UNION {{g.c[i][j] : j \in 1..Len(g.c[i])} : i \in 1..Len(g.c)}
              \* the bound of a polygon is the bound of its outer ring
              [] g.t = "Polygon" -> IF Len(g.c) = 0 THEN {} ELSE {g.c[1][j] : j \in 1..Len(g.c[1])}
              [] g.t = "MultiPolygon" -> UNION {IF Len(g.c[i]) = 0 THEN {} ELSE {g.c[i][1][k] : k \in 1..Len(g.c[i][1])} : i \in 1..Len(g.c)}
              [] g.t = "Collection" -> UNION {Verts(g.g[i]) : i \in 1..Len(g.g)}
              [] g.t = "Bound" -> {<<g.c[1], g.c[2]>>, <<g.c[3], g.c[4]>>}
              [] OTHER -> {}
\* "anything to its bound": the corners have the ranks of the extreme vertex coordinates
BoundOk(e, s) == LET V == Verts(e.g) IN
   s.ok = 1 /\ (V # {} /\ e.hasnan = 0 =>
        /\ s.v.t = "Bound"
        /\ e.rk[s.v.c[1]] = MinS({e.rk[p[1]] : p \in V}) /\ e.rk[s.v.c[3]] = MaxS({e.rk[p[1]] : p \in V})
        /\ e.rk[s.v.c[2]] = MinS({e.rk[p[2]] : p \in V}) /\ e.rk[s.v.c[4]] = MaxS({e.rk[p[2]] : p \in V}))
ScanOk(e, s) ==
   LET want == ScanInto(s.dest, CanonDeep(e.g))
       wsrid == IF e.pkg = "wkb" THEN 0 ELSE IF s.fr = "prefix" /\ e.srid = 0 THEN e.psrid ELSE e.srid IN
   /\ s.reuse = 1             \* a scanner and destination that served earlier rows answer like fresh ones
   /\ (IF s.dest = "Bound" THEN BoundOk(e, s) /\ s.srid = wsrid
       ELSE IF want.ok THEN s.ok = 1 /\ s.v = want.v /\ s.srid = wsrid /\ s.valid = 1
       ELSE s.ok = 0 /\ s.wrong = 1)
\* sizes: byte length of a geometry whose parts hold the given numbers of vertices (header = order byte + type word
\* [+ SRID]; members of a multi-geometry carry their own header without SRID), and every decode path returned the value
RECURSIVE SumParts(_, _, _)
SumParts(ps, i, per) == IF i > Len(ps) THEN 0 ELSE per + 16 * ps[i] + SumParts(ps, i + 1, per)
BigLen(e) == LET hdr == 5 + (IF e.srid # 0 THEN 4 ELSE 0) IN
   CASE e.kind = "LineString" -> hdr + 4 + 16 * e.parts[1]
     [] e.kind = "MultiPoint" -> hdr + 4 + 21 * e.parts[1]
     [] e.kind = "Polygon" -> hdr + 4 + SumParts(e.parts, 1, 4)
     [] e.kind = "MultiLineString" -> hdr + 4 + SumParts(e.parts, 1, 9)
     [] e.kind = "Nested" -> hdr + 4 + (e.parts[1] - 1) * 9 + 21       \* a point inside parts[1] collections
BigOk(e) == e.len = BigLen(e) /\ Len(e.same) >= 4 /\ \A i \in 1..Len(e.same) : e.same[i] = 1
\* the hex entry points give the hex of Marshal's bytes for the same SRID (zero included), the Must variants agree,
\* and a scanner reads the value and that SRID back from the text
HexOk(e) == e.hex = 1 /\ e.must = 1 /\ e.whex = 1 /\ e.back = 1
Ok(e) == IF e.k = "wkbbig" THEN BigOk(e) ELSE IF e.k = "wkbhex" THEN HexOk(e) ELSE
   /\ e.k = "wkb"
   \* a nil geometry - also a typed nil slice at the top level - encodes to no bytes
   /\ IF e.g.t = "nil" \/ e.topnil = 1 THEN e.bytes = <<>> /\ e.val = <<>> ELSE
      /\ e.bytes = Enc(e.tab, e.g, e.le = 1, e.srid)                    \* byte for byte
      /\ e.vstable = 1                                                   \* the previous event's bytes were left alone
      /\ e.decb.ok = 1 /\ e.decb.v = CanonDeep(e.g) /\ e.decb.srid = e.srid     \* one-shot byte decoder
      /\ e.decs.ok = 1 /\ e.decs.v = CanonDeep(e.g) /\ e.decs.srid = e.srid     \* streaming decoder
      /\ e.reenc = 1                                                     \* both results encode to these bytes again
      /\ e.cross = 1                                                     \* EWKB bytes through the wkb package: the same geometry
      /\ \A i \in 1..Len(e.scans) : ScanOk(e, e.scans[i])                        \* scanner x destinations x framings
      /\ e.val = Enc(e.tab, e.g, e.defle = 1, e.srid)                           \* driver.Valuer: the package's default order
      /\ (e.pkg = "ewkb" => /\ e.valp = U32(e.psrid, TRUE) \o Enc(e.tab, e.g, e.defle = 1, 0)   \* prefix always little endian
                            /\ e.vpok = 1 /\ e.vpsrid = e.psrid)                 \* and ScannerPrefixSRID reads it back
Init == l = 1 /\ bad = {}
Next == /\ l <= Len(Trace) /\ l' = l + 1
        /\ bad' = IF Ok(Trace[l]) THEN bad ELSE bad \cup {l}
        /\ (l = Len(Trace) => PrintT(ToJson([done |-> l, bad |-> bad'])))
Spec == Init /\ [][Next]_<<l, bad>>
=============================================================================
