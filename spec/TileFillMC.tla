---------------------------- MODULE TileFillMC ----------------------------
(* Model check (X09): for every closed triangle (and, K = 4, every simple closed quadrilateral) with vertices on     *)
(* the lattice points of a W x W tile window - vertices on tile lines and corners, edges along tile lines and         *)
(* through tile corners included - the transcription of tilecover.polygon() reports no error and covers exactly       *)
(* what it must: FillMust <= cover <= FillMay.                                                                        *)
EXTENDS TileFill, TLC
CONSTANTS U, W, K, BAD, STRIDE
VARIABLE poly
Pts == (0..(U*W)) \X (0..(U*W))
Proper(a, b, c, d) ==      \* segments a-b and c-d cross or touch (closed)
   LET o1 == Sign(Cross(a, b, c))  o2 == Sign(Cross(a, b, d))  o3 == Sign(Cross(c, d, a))  o4 == Sign(Cross(c, d, b))
   IN (o1 * o2 < 0 /\ o3 * o4 < 0) \/ (o1 = 0 /\ OnSeg(a, b, c)) \/ (o2 = 0 /\ OnSeg(a, b, d)) \/ (o3 = 0 /\ OnSeg(c, d, a)) \/ (o4 = 0 /\ OnSeg(c, d, b))
SimpleQuad(q) == /\ Cross(q[1], q[2], q[3]) # 0 /\ Cross(q[2], q[3], q[4]) # 0 /\ Cross(q[3], q[4], q[1]) # 0 /\ Cross(q[4], q[1], q[2]) # 0
                 /\ ~Proper(q[1], q[2], q[3], q[4]) /\ ~Proper(q[2], q[3], q[4], q[1])
\* (two levels, so that TLC's workers share the enumeration: the first vertex is the initial state, the rest one step)
Init == poly \in {<<<<a>>>> : a \in {p \in Pts : (p[1] + (U*W + 1) * p[2]) % STRIDE = 0}}   \* STRIDE > 1: a sample of the first vertices
Complete == Len(poly[1]) > 1
Next == /\ ~Complete
        /\ LET a == poly[1][1] IN
           poly' \in (IF K = 3 THEN {<<r>> : r \in {t \in {<<a, b, c, a>> : b \in Pts, c \in Pts} : Cross(t[1], t[2], t[3]) # 0}}
                      ELSE {<<r>> : r \in {q \in {<<a, b, c, d, a>> : b \in Pts, c \in Pts, d \in Pts} : SimpleQuad(q)}})
Spec == Init /\ [][Next]_poly
\* BAD: a variant of line() that keeps the last recorded tile also when the walk ends in the row it started in (the
\* closing correction left out) - must fail (non-vacuity)
BadCover(u, p) == LET st == RPath(u, p[1], 1, St0({}))
                      ks == Inters(st.ring)
                      s == SortTiles([k \in 1..Len(ks) |-> ks[k][1]], 1)
                  IN [err |-> Len(s) % 2 = 1, set |-> IF Len(s) % 2 = 1 THEN {} ELSE st.set \cup FillPairs(s)]
CoverOf == IF BAD THEN BadCover(U, poly) ELSE PolygonCover(U, poly)
NoError == Complete => ~CoverOf.err
CoverOK == Complete => (CoverOf.err \/ FillOK(U, poly, W, CoverOf.set))
=============================================================================
