SPECIFICATION Spec
INVARIANTS TableTotal SumAssoc MinAssoc
CHECK_DEADLOCK FALSE
