---------------------------- MODULE Mvt_Trace ----------------------------
(* Trace validation for C03.  One event = one list of layers marshalled by the real mvt.Marshal (several    *)
(* times: map-order schedules) and MarshalGzipped, the tile message re-read through the generated protobuf   *)
(* type (lens), and the layers returned by mvt.Unmarshal / UnmarshalGzipped.                                 *)
(*   layers  input model          tile  what is in the bytes          dec / decgz  what Unmarshal returned     *)
(*   nbytes  number of distinct byte strings among the repeated plain marshals                                *)
(* "bad" uses the property's semantics (every collection member becomes a feature); "alt" re-judges the       *)
(* event under the recorded defect (only the first member is written) so that the driver can tell that       *)
(* finding from any other disagreement.                                                                       *)
EXTENDS Mvt, TLC, Json, IOUtils
Trace == ndJsonDeserialize(IOEnv.TRACE)
VARIABLES l, bad, alt

PairsFn(ps) == [k \in {ps[i][1] : i \in 1..Len(ps)} |-> ps[CHOOSE i \in 1..Len(ps) : ps[i][1] = k][2]]
FeatEq(d, x) == d.id = x.id /\ d.g = x.g /\ PairsFn(d.props) = x.props
LayerEq(d, x) == /\ d.name = x.name /\ d.ver = x.ver /\ d.ext = x.ext /\ Len(d.feats) = Len(x.feats)
                 /\ \A i \in 1..Len(x.feats) : FeatEq(d.feats[i], x.feats[i])
LayersEq(ds, xs) == Len(ds) = Len(xs) /\ \A i \in 1..Len(xs) : LayerEq(ds[i], xs[i])
AllGeoms(e) == UNION {UNION {IF f.g.t = "Collection" THEN {f.g.g[j] : j \in 1..Len(f.g.g)} ELSE {f.g}
                             : f \in {e.layers[i].feats[j] : j \in 1..Len(e.layers[i].feats)}} : i \in 1..Len(e.layers)}
Pre(e) == \A g \in AllGeoms(e) : g.t = "nil" \/ WellWound(g)
\* sizes: a layer of n features that compresses well comes back whole on the plain and on the gzipped path
BigOk(e) == e.plain = 1 /\ e.gz = 1 /\ e.np = e.n /\ e.ng = e.n
Ok(e, ALL) == IF e.k = "mvtbig" THEN BigOk(e) ELSE
   /\ e.k = "mvt"
   /\ Assert(Pre(e), <<"generator fault: polygon winding precondition", e>>)
   /\ e.err = ""
   /\ e.nbytes = 1                                            \* deterministic output
   /\ e.tile = TileE(e.layers, ALL)                           \* the bytes are exactly the specified encoding
   /\ LayersEq(e.dec, [i \in 1..Len(e.tile) |-> LayerD(e.tile[i])])      \* decoder = decoder state machine
   /\ LayersEq(e.dec, [i \in 1..Len(e.layers) |-> LayerCanon(e.layers[i], ALL)])   \* round trip = Canon
   /\ e.decgz = e.dec                                         \* gzipped path agrees
   /\ e.stable = 1                                            \* results handed out earlier are not written to by later calls
Init == l = 1 /\ bad = {} /\ alt = {}
Next == /\ l <= Len(Trace) /\ l' = l + 1
        /\ LET ok == Ok(Trace[l], TRUE) IN
           /\ bad' = IF ok THEN bad ELSE bad \cup {l}
           /\ alt' = IF ok \/ Ok(Trace[l], FALSE) THEN alt ELSE alt \cup {l}
        /\ (l = Len(Trace) => PrintT(ToJson([done |-> l, bad |-> bad', alt |-> alt'])))
Spec == Init /\ [][Next]_<<l, bad, alt>>
=============================================================================
