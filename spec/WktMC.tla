---------------------------- MODULE WktMC ----------------------------
(* Model check of the C04 token grammar on the bounded shape set of WkbMC (nine kinds, empty members, nested     *)
(* collections): the grammar parses the printed tokens back to the canonical value (coordinates as "#id"          *)
(* tokens), and still does after inserting white space at any one or two positions next to a parenthesis, a       *)
(* comma or at either end.                                                                                        *)
EXTENDS Wkt, WkbMC
WInit == g \in Shapes /\ le = TRUE /\ srid = 0          \* byte order and SRID play no part in WKT
WSpec == WInit /\ [][Next]_<<g, le, srid>>
RECURSIVE Tok(_)
PtTok(p) == <<Num(p[1]), Num(p[2])>>
Tok(v) == CASE v.t = "Point" -> [t |-> v.t, c |-> PtTok(v.c)]
            [] v.t \in {"MultiPoint", "LineString"} -> [t |-> v.t, c |-> [i \in 1..Len(v.c) |-> PtTok(v.c[i])]]
            [] v.t \in {"Polygon", "MultiLineString"} -> [t |-> v.t, c |-> [i \in 1..Len(v.c) |-> [j \in 1..Len(v.c[i]) |-> PtTok(v.c[i][j])]]]
            [] v.t = "MultiPolygon" -> [t |-> v.t, c |-> [i \in 1..Len(v.c) |-> [j \in 1..Len(v.c[i]) |-> [k \in 1..Len(v.c[i][j]) |-> PtTok(v.c[i][j][k])]]]]
            [] v.t = "Collection" -> [t |-> v.t, g |-> [i \in 1..Len(v.g) |-> Tok(v.g[i])]]
\* polygons and multi-line strings with an empty part print "()" which is not WKT: outside the property
RECURSIVE Printable(_)
Printable(v) == CASE v.t \in {"Polygon", "MultiLineString"} -> \A i \in 1..Len(v.c) : v.c[i] # <<>>
                  [] v.t = "MultiPolygon" -> \A i \in 1..Len(v.c) : v.c[i] # <<>> /\ \A j \in 1..Len(v.c[i]) : v.c[i][j] # <<>>
                  [] v.t = "Ring" -> v.c # <<>>
                  [] v.t = "Collection" -> \A i \in 1..Len(v.g) : Printable(v.g[i])
                  [] OTHER -> TRUE
Gap(ts, i) == i = 0 \/ i = Len(ts) \/ ts[i] \in {"(", ")", ","} \/ ts[i+1] \in {"(", ")", ","}
InsertSp(ts, i) == SubSeq(ts, 1, i) \o <<" ">> \o SubSeq(ts, i + 1, Len(ts))
WRoundTrip == (g.t # "nil" /\ Printable(g)) =>
   LET ts == WPrint(g)  want == Tok(CanonDeep(g)) IN
   /\ LET r == Parse(ts) IN r.ok /\ r.v = want
   /\ \A i \in 0..Len(ts) : Gap(ts, i) => LET r == Parse(InsertSp(ts, i)) IN r.ok /\ r.v = want
   /\ \A i \in 0..Len(ts) : Gap(ts, i) => LET t2 == InsertSp(ts, i) IN
         \A j \in {0, Len(t2)} \cup {k \in 1..Len(t2)-1 : k % 3 = 0} : Gap(t2, j) => LET r == Parse(InsertSp(t2, j)) IN r.ok /\ r.v = want
Typed == g.t # "nil" => \A kind \in {"Point", "MultiPoint", "LineString", "MultiLineString", "Polygon", "MultiPolygon", "Collection"} :
            TypedAccepts(kind, WPrint(g)) = (CanonDeep(g).t = kind)
=============================================================================
