SPECIFICATION Spec
CONSTANTS N = 4  K = 3
INVARIANTS ImplRefinesAbstract RotationInvariant ReversalInvariant ClosingInvariant ImplClosingInvariant
CHECK_DEADLOCK FALSE
