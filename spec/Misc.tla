---------------------------- MODULE Misc ----------------------------
(* Extended coverage (X07): small total functions not reached by any listed property.                               *)
(*  props    geojson.Properties.MustBool / MustInt / MustFloat64 / MustString as a decision table over the kind of   *)
(*           the stored value and whether a default is supplied                                                      *)
(*  bbox     geojson.NewBBox / BBox.Valid / BBox.Bound                                                               *)
(*  layers   mvt.NewLayers / Layers.ToFeatureCollections (a map in, layers in some order out, and back)              *)
(*  tilefc   maptile.Set / Tiles ToFeatureCollection                                                                 *)
(*  hex      wkb / ewkb MarshalToHex, MustMarshal, MustMarshalToHex against Marshal                                  *)
(*  ringclosed, planar (DistanceSquared, DistanceFromSegment), scale (MercatorScaleFactor), geo extras               *)
EXTENDS Integers, Sequences, FiniteSets
\* kind of the value stored under the key: "absent", "nil", "bool", "int", "float", "string", "other"
\* outcome: <<"value">> (the stored value, converted for int/float), <<"default">>, <<"panic">>
Accepts(fn, kind) == CASE fn = "MustBool" -> kind = "bool"
                       [] fn = "MustInt" -> kind \in {"int", "float"}
                       [] fn = "MustFloat64" -> kind \in {"int", "float"}
                       [] fn = "MustString" -> kind = "string"
MustOutcome(fn, kind, hasdef) ==
   IF Accepts(fn, kind) THEN "value"
   ELSE IF kind \notin {"absent", "nil"} THEN "panic"
   ELSE IF hasdef THEN "default" ELSE "panic"
\* a bbox (sequence of numbers) is valid with at least 4 and an even number of entries; its bound takes the first two
\* numbers and the two in the middle
BBoxValid(bb, isnil) == ~isnil /\ Len(bb) >= 4 /\ Len(bb) % 2 = 0
BBoxBound(bb, isnil) == IF ~BBoxValid(bb, isnil) THEN <<0, 0, 0, 0>>
                        ELSE LET m == Len(bb) \div 2 IN <<bb[1], bb[2], bb[m + 1], bb[m + 2]>>
RingClosed(r) == Len(r) >= 4 /\ r[1] = r[Len(r)]
\* edge cases of small functions: what the function must do, in the vocabulary of the harness
EdgeOutcome(what) ==
   CASE what \in {"along.empty", "along.nil"} -> "panic"                   \* documented: panics on an empty line
     [] what \in {"along.negative", "along.single", "along.zero"} -> "first"  \* the first vertex, bearing 0
     [] what = "along.beyond" -> "last"
     [] what \in {"czr.inverted", "czr.shallow"} -> "panic"                 \* documented argument checks
     [] what = "czr.same" -> "self"
     [] what = "qt.bound" -> "want"
     [] what \in {"clipbound.bothempty", "clipbound.firstempty", "clipbound.secondempty", "clipbound.overlap",
                  "clipbound.commutes", "clipgeom.bound"} -> "want"         \* an empty bound is the neutral element
     [] what = "clipbound.disjoint" -> "empty"
     [] what = "clipgeom.bound.disjoint" -> "nil"
     [] what \in {"around.pole.north", "around.pole.south"} -> "capped"     \* every longitude, stops at the pole
     [] what \in {"around.antimeridian.east", "around.antimeridian.west"} -> "wrapped"
     [] OTHER -> "unlisted"
=============================================================================
