---------------------------- MODULE TileCover ----------------------------
(* C14 (covers): geometry in tile space, u lattice units per tile (64, or 8192 for very fine geometry),        *)
(* relative to a W x W tile window.                                                                            *)
(* Line: Must(ls) = tiles whose interior shrunk by one unit meets the line, May(ls) = tiles whose closure       *)
(* grown by one unit meets it; a cover is right iff Must <= cover <= May, so either choice at an exact          *)
(* corner / edge crossing is accepted and nothing else is.  Polygon: every tile with a sample point (4x4        *)
(* sub-lattice, >= 8 units from the tile edges) inside the polygon, and every tile its boundary passes          *)
(* through, is in the cover; the cover stays inside the tile-space bounding box.                                *)
EXTENDS Exact2D
SegMeetsRect(a, b, rc) ==      \* closed segment a-b meets the closed rectangle <<x0, y0, x1, y1>> (exact)
  /\ Max2(a[1],b[1]) >= rc[1] /\ Min2(a[1],b[1]) <= rc[3]
  /\ Max2(a[2],b[2]) >= rc[2] /\ Min2(a[2],b[2]) <= rc[4]
  /\ LET cs == {Cross(a,b,<<rc[1],rc[2]>>), Cross(a,b,<<rc[1],rc[4]>>), Cross(a,b,<<rc[3],rc[2]>>), Cross(a,b,<<rc[3],rc[4]>>)}
     IN ~(\A c \in cs : c > 0) /\ ~(\A c \in cs : c < 0)
Tiles(w) == {<<x, y>> : x \in 0..(w-1), y \in 0..(w-1)}
Shrunk(u, t) == <<u*t[1]+1, u*t[2]+1, u*t[1]+u-1, u*t[2]+u-1>>
Grown(u, t)  == <<u*t[1]-1, u*t[2]-1, u*t[1]+u+1, u*t[2]+u+1>>
PositiveLength(ls) == \E i \in 1..(Len(ls)-1) : ls[i] # ls[i+1]
Must(u, ls, w) == {t \in Tiles(w) : \E i \in 1..(Len(ls)-1) : SegMeetsRect(ls[i], ls[i+1], Shrunk(u, t))}
May(u, ls, w)  == {t \in Tiles(w) : \E i \in 1..(Len(ls)-1) : SegMeetsRect(ls[i], ls[i+1], Grown(u, t))}
LineCoverOK(u, ls, w, cover) == Must(u, ls, w) \subseteq cover /\ cover \subseteq May(u, ls, w)

\* polygons: sequence of rings (outer first), implicitly closed
Samples(u, t) == {<<u*t[1]+dx, u*t[2]+dy>> : dx \in {u \div 8, (3*u) \div 8, (5*u) \div 8, (7*u) \div 8}, dy \in {u \div 8, (3*u) \div 8, (5*u) \div 8, (7*u) \div 8}}
InPoly(poly, p) == InRingEO(poly[1], p) /\ \A j \in 2..Len(poly) : (~InRingEO(poly[j], p) \/ OnRing(poly[j], p))
MustInterior(u, poly, w) == {t \in Tiles(w) : \E s \in Samples(u, t) : InPoly(poly, s)}
MustBoundary(u, poly, w) == {t \in Tiles(w) : \E j \in 1..Len(poly) : \E i \in 1..Len(poly[j]) :
                             poly[j][i] # EdgeB(poly[j], i) /\ SegMeetsRect(poly[j][i], EdgeB(poly[j], i), Shrunk(u, t))}
BBoxTiles(u, poly, w) == LET r == poly[1]
      xs == {r[i][1] : i \in 1..Len(r)}  ys == {r[i][2] : i \in 1..Len(r)}
      x0 == CHOOSE x \in xs : \A y \in xs : x <= y   x1 == CHOOSE x \in xs : \A y \in xs : x >= y
      y0 == CHOOSE x \in ys : \A y \in ys : x <= y   y1 == CHOOSE x \in ys : \A y \in ys : x >= y
   IN {t \in Tiles(w) : u*t[1]+u >= x0-1 /\ u*t[1] <= x1+1 /\ u*t[2]+u >= y0-1 /\ u*t[2] <= y1+1}
PolyCoverOK(u, poly, w, cover) == /\ MustInterior(u, poly, w) \subseteq cover
                                  /\ MustBoundary(u, poly, w) \subseteq cover
                                  /\ cover \subseteq BBoxTiles(u, poly, w)
=============================================================================
