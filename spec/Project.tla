---------------------------- MODULE Project ----------------------------
(* C15: projections.                                                                                            *)
(* Structural part: applying a point function to a geometry applies it to every vertex exactly once, in vertex    *)
(* order, preserving kind and nesting (MapVertices); a bound becomes the box of its two projected corners.         *)
(* The harness projects with a TAGGING function: the k-th call returns <<1000 - x, k>>, so the image of a vertex   *)
(* shows which vertex it came from (1000 - x) and when it was visited (y).                                          *)
(* Numeric part (exp / atan / log cannot be written in TLA+): contracts on integer observations - tile              *)
(* coordinates come back exactly; round-trip residuals stay under the stated tolerances; anchors.                    *)
EXTENDS Integers, Sequences, FiniteSets
Min2(a, b) == IF a < b THEN a ELSE b
Max2(a, b) == IF a > b THEN a ELSE b
\* MapV(g, k) = <<image of g when the first vertex gets visit number k, next free visit number>>
\* the tagging function: reverses the x axis (a projected bound needs its corners re-ordered), mixes both input
\* coordinates into both outputs (not axis-separable: the other diagonal of a bound gives another box) and carries the
\* number of the call (order, exactly one call per vertex)
Tag(p, k) == <<1000 - p[1] + 7 * p[2], 100 * k + 2 * p[1] + p[2]>>
RECURSIVE TagSeq(_, _)
TagSeq(ps, k) == IF ps = <<>> THEN <<>> ELSE <<Tag(ps[1], k)>> \o TagSeq(Tail(ps), k + 1)
RECURSIVE TagSeq2(_, _)
TagSeq2(pss, k) == IF pss = <<>> THEN <<>> ELSE <<TagSeq(pss[1], k)>> \o TagSeq2(Tail(pss), k + Len(pss[1]))
RECURSIVE Count2(_)
Count2(pss) == IF pss = <<>> THEN 0 ELSE Len(pss[1]) + Count2(Tail(pss))
RECURSIVE TagSeq3(_, _)
TagSeq3(psss, k) == IF psss = <<>> THEN <<>> ELSE <<TagSeq2(psss[1], k)>> \o TagSeq3(Tail(psss), k + Count2(psss[1]))
RECURSIVE Count3(_)
Count3(psss) == IF psss = <<>> THEN 0 ELSE Count2(psss[1]) + Count3(Tail(psss))
RECURSIVE MapV(_, _), MapMembers(_, _)
MapV(g, k) ==
  CASE g.t = "nil" -> <<g, k>>
    [] g.t = "Point" -> <<[t |-> g.t, c |-> Tag(g.c, k)], k + 1>>
    [] g.t \in {"MultiPoint", "LineString", "Ring"} -> <<[t |-> g.t, c |-> TagSeq(g.c, k)], k + Len(g.c)>>
    [] g.t \in {"MultiLineString", "Polygon"} -> <<[t |-> g.t, c |-> TagSeq2(g.c, k)], k + Count2(g.c)>>
    [] g.t = "MultiPolygon" -> <<[t |-> g.t, c |-> TagSeq3(g.c, k)], k + Count3(g.c)>>
    [] g.t = "Bound" -> LET a == Tag(<<g.c[1], g.c[2]>>, k)  b == Tag(<<g.c[3], g.c[4]>>, k + 1) IN
                        <<[t |-> g.t, c |-> <<Min2(a[1], b[1]), Min2(a[2], b[2]), Max2(a[1], b[1]), Max2(a[2], b[2])>>], k + 2>>
    [] g.t = "Collection" -> LET r == MapMembers(g.g, k) IN <<[t |-> g.t, g |-> r[1]], r[2]>>
MapMembers(gs, k) == IF gs = <<>> THEN <<<<>>, k>>
                     ELSE LET h == MapV(gs[1], k)  r == MapMembers(Tail(gs), h[2]) IN <<<<h[1]>> \o r[1], r[2]>>
RECURSIVE SEq(_, _)
SEq(a, b) == /\ a.t = b.t
             /\ IF a.t = "nil" THEN TRUE
                ELSE IF a.t = "Collection" THEN Len(a.g) = Len(b.g) /\ \A i \in 1..Len(a.g) : SEq(a.g[i], b.g[i])
                ELSE a.c = b.c
=============================================================================
