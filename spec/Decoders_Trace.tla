---------------------------- MODULE Decoders_Trace ----------------------------
(* C05: hostile input.  Every decoder outcome must be a value or an error: a panic, a hang and an allocation      *)
(* above A*len + C are event kinds / values no rule allows.  Beyond that the reference decoders of the codec        *)
(* specs fix the outcome where the input's meaning is fixed:                                                         *)
(*  wkbdec  W!Dec (Wkb.tla) accepts the bytes  => every real path (byte, stream, scanner) returns a value, all the     *)
(*          same one, and re-encoding + decoding it is stable;  even the lenient reading W!DecLenient (type words          *)
(*          masked to their low four bits) rejects => the input is truncated, over-counted or unusable: every path fails. *)
(*  wktdec  T!Parse (Wkt.tla) accepts the token sentence => wkt.Unmarshal returns exactly that value.                   *)
(*  mvtdec  M!Decode (Mvt.tla) accepts the command words => mvt.Unmarshal returns exactly that geometry.                *)
(*  raw     anything else (all 0-2 byte tiles, mutated encodings, GeoJSON document mutants): value or error only.       *)
EXTENDS Integers, Sequences, FiniteSets, TLC, Json, IOUtils
W == INSTANCE Wkb
T == INSTANCE Wkt
M == INSTANCE Mvt
Trace == ndJsonDeserialize(IOEnv.TRACE)
VARIABLES l, bad
RECURSIVE SEq(_, _)
SEq(a, b) == /\ a.t = b.t
             /\ IF a.t = "nil" THEN TRUE
                ELSE IF a.t = "Collection" THEN Len(a.g) = Len(b.g) /\ \A i \in 1..Len(a.g) : SEq(a.g[i], b.g[i])
                ELSE a.c = b.c
A == 4096
C == 8000000
AllocOk(e) == e.alloc <= A * e.len + C
Outcomes(e) == {e.res[i].out : i \in 1..Len(e.res)}
WkbOk(e) == LET d == W!Dec(e.bytes) IN
   /\ Outcomes(e) \subseteq {"ok", "err"}
   /\ (d.ok => /\ Outcomes(e) = {"ok"}
               /\ \A i \in 1..Len(e.res) : e.res[i].vh = e.res[1].vh /\ e.res[i].srid = e.res[1].srid   \* vh: id of the value's exact bits
               /\ e.stable = 1)
   \* (the wkb scanner's documented retry without a 4-byte SRID prefix may find a geometry further on: exempt)
   \* judged on the enumerated header space only: in mutated encodings the byte-slice decoder may skip over member
   \* headers the grammar cannot read, and the property asks no more than value-or-error there
   /\ ((e.enum = 1 /\ ~W!DecLenient(e.bytes).ok) => \A i \in 1..Len(e.res) : e.res[i].path = "wkb.Scanner" \/ e.res[i].out = "err")
   /\ (e.anyok = 1 => e.stable = 1)                 \* whenever a value comes back, re-encode / decode is stable
WktOk(e) == LET p == T!Parse(e.tokens) IN
   /\ e.out \in {"ok", "err"} /\ Outcomes(e) \subseteq {"ok", "err"}
   /\ (p.ok => e.out = "ok" /\ SEq(e.v, p.v))
MvtOk(e) == LET d == M!Decode(e.type, e.words) IN
   /\ e.out \in {"ok", "err"}
   /\ (d.ok => e.out = "ok" /\ SEq(e.v, d.g))
RawOk(e) == Outcomes(e) \subseteq {"ok", "err"}
Ok(e) == /\ e.k \in {"wkbdec", "wktdec", "mvtdec", "raw"}
         /\ AllocOk(e)
         /\ CASE e.k = "wkbdec" -> WkbOk(e) [] e.k = "wktdec" -> WktOk(e) [] e.k = "mvtdec" -> MvtOk(e) [] OTHER -> RawOk(e)
Init == l = 1 /\ bad = {}
Next == /\ l <= Len(Trace) /\ l' = l + 1
        /\ bad' = IF Ok(Trace[l]) THEN bad ELSE bad \cup {l}
        /\ (l = Len(Trace) => PrintT(ToJson([done |-> l, bad |-> bad'])))
Spec == Init /\ [][Next]_<<l, bad>>
=============================================================================
