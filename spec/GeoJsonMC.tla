---------------------------- MODULE GeoJsonMC ----------------------------
(* Model check of the C02 document model on the bounded shape set of WkbMC: the document of every geometry is      *)
(* well-formed RFC 7946 (type names the kind, coordinates nested exactly as deep as the kind requires,              *)
(* collections use "geometries"), ring and bound give the same document as the polygon they denote, and              *)
(* normalisation is idempotent.                                                                                      *)
EXTENDS GeoJsonDoc, WkbMC
JInit == g \in Shapes /\ le = TRUE /\ srid = 0
JSpec == JInit /\ [][Next]_<<g, le, srid>>
WellFormed == WellFormedGeom(GeomDoc(g))
SameAsPolygon == (g.t \in {"Ring", "Bound"}) => GeomDoc(g) = GeomDoc(NormG(g))
NormIdempotent == GEq(NormG(NormG(g)), NormG(g))
EmptyIsNull == (GeomDoc(g) = Null) = IsEmptyGeom(g)
=============================================================================
