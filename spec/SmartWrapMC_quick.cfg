SPECIFICATION Spec
CONSTANTS P = 8  N = 4  BROKEN = FALSE
INVARIANTS WalkOK NoPieceTwice
CHECK_DEADLOCK FALSE
