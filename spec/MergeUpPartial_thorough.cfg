SPECIFICATION Spec
CONSTANTS
  MAXZ = 2
  Inputs <- MidInputs
INVARIANTS Correct NoAreaLost Disjoint NotShallower Justified ExactWhenFull
CHECK_DEADLOCK FALSE
