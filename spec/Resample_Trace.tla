---------------------------- MODULE Resample_Trace ----------------------------
(* Trace validation for C17: one event = one real resample.Resample / ToInterval call.                        *)
(*   vs, lens   integer vertices and integer segment lengths (under the distance function used)                 *)
(*   n / dn,dd  the requested count, or the interval d = dn/dd                                                   *)
(*   m          lcm of the non-zero lengths; out is logged scaled by s = (N-1)*m (m when N <= 1)                  *)
(*   geo = 1    great-circle distance functions: only count, endpoints and order are judged                       *)
EXTENDS Resample, TLC, Json, IOUtils
Trace == ndJsonDeserialize(IOEnv.TRACE)
VARIABLES l, bad
NOf(e) == IF e.fn = "ToInterval" THEN (IF e.dn <= 0 THEN 0 ELSE IF Len(e.vs) = 0 THEN 0 ELSE IntervalCount(e.lens, e.dn, e.dd)) ELSE e.n
ExactOk(e) == LET N == NOf(e) IN
   IF e.fn = "ToInterval" /\ e.dn > 0 /\ Len(e.vs) = 0 THEN e.out = <<>>        \* an empty line comes back as it is
   ELSE e.out = Expected(e.vs, e.lens, N, e.m)
\* great-circle: N points, first and last are the endpoints, order along the (monotone) test path is increasing
GeoOk(e) == LET N == e.n IN
   /\ Len(e.out) = N
   /\ (N >= 2 => e.out[1] = e.first /\ e.out[N] = e.last)
   /\ \A i \in 1..(N-1) : e.out[i][1] <= e.out[i+1][1]                   \* test paths run eastwards
   /\ e.online = 1                                                       \* every point on a segment of the line (in lon/lat)
\* ToInterval with d a hair (1e-10 relative) above (side = 1) or below (side = -1) total / parts:
\* floor(total / d) + 1 points, i.e. parts points above and parts + 1 below, starting at the first vertex
ICountOk(e) == /\ e.n = (IF e.side = 1 THEN e.parts ELSE e.parts + 1)
               /\ e.ends = 1
\* inexact coordinates: exactly the requested number of points, from the first vertex to the last
FCountOk(e) == e.n = e.nreq /\ e.ends = 1
Ok(e) == CASE e.k = "icount" -> ICountOk(e) [] e.k = "fcount" -> FCountOk(e)
           [] OTHER -> e.k = "resample" /\ (IF e.geo = 1 THEN GeoOk(e) ELSE ExactOk(e) /\ e.pstable = 1 /\ e.asis = 1)
Init == l = 1 /\ bad = {}
Next == /\ l <= Len(Trace) /\ l' = l + 1
        /\ bad' = IF Ok(Trace[l]) THEN bad ELSE bad \cup {l}
        /\ (l = Len(Trace) => PrintT(ToJson([done |-> l, bad |-> bad'])))
Spec == Init /\ [][Next]_<<l, bad>>
=============================================================================
