---------------------------- MODULE Contains ----------------------------
(* C09.  Abstract layer: exact even-odd containment with the boundary counted as inside (Exact2D).  *)
(* Implementation-shaped layer: the ray cast of planar/contains.go, one operator per branch of       *)
(* rayIntersect, with the "nudge p.x to the next float" step treated exactly: after the nudge p.x is  *)
(* strictly greater than the vertex abscissa it was equal to and strictly less than every other     *)
(* lattice abscissa to its right.  The model check (ContainsMC) shows the ray cast computes the     *)
(* abstract predicate on every small ring, i.e. the design is right; the trace spec                 *)
(* (Contains_Trace) judges the real code against the abstract layer only.                           *)
EXTENDS Exact2D

\* ---- implementation-shaped: rayIntersect(p, s, e) -> <<intersects, on>> ----------------------
\* pxM is the abscissa of p in units of 1/M so that the nudge is "+1": M exceeds every coordinate
\* difference of the domain, hence the nudged abscissa is strictly between lattice abscissae and no
\* slope comparison can tie or flip because of it (exactly the role of math.Nextafter in the code).
M == 1000
RayIntersect(p, s0, e0) ==
   LET s  == IF s0[1] > e0[1] THEN e0 ELSE s0
       e  == IF s0[1] > e0[1] THEN s0 ELSE e0
       atS == p[1] = s[1]
       atE == p[1] = e[1]
       onV == \/ (atS /\ p[2] = s[2])
              \/ (atS /\ s[1] = e[1] /\ s[2] > e[2] /\ s[2] >= p[2] /\ p[2] >= e[2])
              \/ (atS /\ s[1] = e[1] /\ e[2] > s[2] /\ e[2] >= p[2] /\ p[2] >= s[2])
              \/ (~atS /\ atE /\ p[2] = e[2])
       pxM == IF atS \/ atE THEN M*p[1] + 1 ELSE M*p[1]        \* nudged to the right
   IN  IF onV THEN <<FALSE, TRUE>>
       ELSE IF pxM < M*s[1] \/ pxM > M*e[1] THEN <<FALSE, FALSE>>
       ELSE IF s[2] > e[2] /\ p[2] > s[2] THEN <<FALSE, FALSE>>
       ELSE IF s[2] > e[2] /\ p[2] < e[2] THEN <<TRUE, FALSE>>
       ELSE IF s[2] <= e[2] /\ p[2] > e[2] THEN <<FALSE, FALSE>>
       ELSE IF s[2] <= e[2] /\ p[2] < s[2] THEN <<TRUE, FALSE>>
       ELSE \* slopes rs = (p.y-s.y)/(p.x-s.x), ds = (e.y-s.y)/(e.x-s.x), compared by cross product;
            \* here s.x < e.x (a vertical edge never reaches this point) and p.x > s.x.
            LET lhs == (p[2]-s[2]) * M * (e[1]-s[1])           \* rs * (px-sx)(ex-sx) in 1/M units
                rhs == (e[2]-s[2]) * (pxM - M*s[1])
            IN IF lhs = rhs THEN <<FALSE, TRUE>> ELSE <<lhs <= rhs, FALSE>>

BoundOf(r) == <<CHOOSE v \in {r[i][1] : i \in 1..Len(r)} : \A w \in {r[i][1] : i \in 1..Len(r)} : v <= w,
                CHOOSE v \in {r[i][2] : i \in 1..Len(r)} : \A w \in {r[i][2] : i \in 1..Len(r)} : v <= w,
                CHOOSE v \in {r[i][1] : i \in 1..Len(r)} : \A w \in {r[i][1] : i \in 1..Len(r)} : v >= w,
                CHOOSE v \in {r[i][2] : i \in 1..Len(r)} : \A w \in {r[i][2] : i \in 1..Len(r)} : v >= w>>

\* RingContains: bound reject, closing segment first, then parity over the listed segments
RECURSIVE RayLoop(_, _, _, _)
RayLoop(r, p, i, c) ==
   IF i > Len(r) - 1 THEN <<FALSE, c>>
   ELSE LET x == RayIntersect(p, r[i], r[i+1]) IN
        IF x[2] THEN <<TRUE, TRUE>> ELSE RayLoop(r, p, i+1, IF x[1] THEN ~c ELSE c)
RingContainsImpl(r, p) ==
   IF Len(r) = 0 THEN FALSE
   ELSE IF ~InBoxClosed(BoundOf(r), p) THEN FALSE
   ELSE LET x == RayIntersect(p, r[1], r[Len(r)]) IN
        IF x[2] THEN TRUE
        ELSE RayLoop(r, p, 1, x[1])[2]
=============================================================================
