---------------------------- MODULE SmartClip ----------------------------
(* C16: smart clipping of closed, correctly wound rings / polygons / multipolygons to a box.                   *)
(* Abstract layer (Exact2D, ClipLine for segment /\ box): for every query lattice point strictly inside the box  *)
(* and on no boundary, q is in the output multipolygon iff it is in the input region; output rings are closed,   *)
(* lie in the closed box, outer rings wind as requested (a corner touch may leave a zero-area two-point ring);    *)
(* a region wholly inside comes back unchanged, one wholly outside yields nothing.  The property speaks of rings  *)
(* whose boundary meets the OPEN box: InDomain evaluates that precondition.  TouchFromInside is the input class   *)
(* of the recorded finding (a ring vertex on the box boundary whose two incident edges both enter the interior).  *)
(* Implementation-shaped layer: the corner walk of aroundBound (nexts tables, pointFor).                          *)
EXTENDS ClipLine

Queries(bx, step) == {<<x, y>> : x \in {bx[1] + step*k : k \in 1..((bx[3]-bx[1]-1) \div step)},
                                 y \in {bx[2] + step*k : k \in 1..((bx[4]-bx[2]-1) \div step)}}
AllRingsOf(mp) == UNION {{mp[i][j] : j \in 1..Len(mp[i])} : i \in 1..Len(mp)}
RegionOK(bx, in, out, step) ==
   \A q \in Queries(bx, step) :
      \/ OnMultiPolygon(in, q) \/ OnMultiPolygon(out, q)
      \/ InMultiPolygon(in, q) = InMultiPolygon(out, q)
Shape(bx, out, o) == \A i \in 1..Len(out) :
   /\ Len(out[i]) >= 1
   /\ \A j \in 1..Len(out[i]) : LET r == out[i][j] IN
        /\ Len(r) >= 1 /\ r[1] = r[Len(r)]
        /\ \A k \in 1..Len(r) : InBoxClosed(bx, r[k])
   /\ Sign(Shoelace2(out[i][1])) \in {o, 0}
   /\ \A j \in 2..Len(out[i]) : Sign(Shoelace2(out[i][j])) \in {-o, 0}

\* some point of segment a-b strictly inside the box
MeetsOpen(bx, a, b) == LET cp == SegBoxPart(bx, a, b) IN
    cp # <<>> /\ cp[1] # cp[2] /\ StrictInDoubled(bx, <<cp[1][1]+cp[2][1], cp[1][2]+cp[2][2]>>)
RingMeetsOpen(bx, r) == \E i \in 1..Len(r) : MeetsOpen(bx, r[i], EdgeB(r, i))
\* the property's domain: some ring boundary meets the open box, and every OUTER ring either meets it, lies strictly
\* inside it, or lies outside it - an outer ring that surrounds the box or only touches it is outside the domain
BoundOutside(bx, r) == \/ (\A k1 \in 1..Len(r) : r[k1][1] <= bx[1]) \/ (\A k2 \in 1..Len(r) : r[k2][1] >= bx[3])
                       \/ (\A k3 \in 1..Len(r) : r[k3][2] <= bx[2]) \/ (\A k4 \in 1..Len(r) : r[k4][2] >= bx[4])
OuterOK(bx, r) == RingMeetsOpen(bx, r) \/ (\A k \in 1..Len(r) : InBoxOpen(bx, r[k])) \/ BoundOutside(bx, r)
InDomain(bx, in) == /\ \E r \in AllRingsOf(in) : RingMeetsOpen(bx, r)
                    /\ \A i \in 1..Len(in) : Len(in[i]) >= 1 /\ OuterOK(bx, in[i][1])
OnBoxBoundary(bx, p) == InBoxClosed(bx, p) /\ ~InBoxOpen(bx, p)
\* vertices are taken cyclically; a closed spelling repeats the first vertex, which is skipped
Core(r) == IF Len(r) >= 2 /\ r[1] = r[Len(r)] THEN SubSeq(r, 1, Len(r) - 1) ELSE r
TouchFromInside(bx, in) == \E r \in AllRingsOf(in) : LET c == Core(r)  n == Len(c) IN
    \E i \in 1..n : /\ OnBoxBoundary(bx, c[i])
                    /\ MeetsOpen(bx, c[((i + n - 2) % n) + 1], c[i]) /\ MeetsOpen(bx, c[i], c[(i % n) + 1])
\* The recorded finding, narrowed to where it can occur.  At such a vertex V the open clip ends one piece (coming from the
\* previous vertex P) and starts the next; smartWrap must visit that end immediately before that start.  The endpoints
\* are sorted around the box by sortableEndpoints.Less, which for two endpoints at one place compares one coordinate of
\* "the point before": P's for the end, V's own for the start.  Written out per side (pointSide: top 4, bottom 2, right 3,
\* left 1, corners to top / bottom) the order is guaranteed right exactly when u = P - V points the way listed below; in
\* every other direction (and for rings wound against the requested orientation, i.e. holes) the finding may show.
PointSide(bx, p) == IF p[2] = bx[4] THEN 4 ELSE IF p[2] = bx[2] THEN 2 ELSE IF p[1] = bx[3] THEN 3 ELSE 1
FailProne(o, s, u) == IF o = 1 THEN (CASE s = 1 -> u[2] <= 0 [] s = 2 -> u[1] >= 0 [] s = 3 -> u[2] >= 0 [] OTHER -> u[1] <= 0)
                      ELSE (CASE s = 1 -> u[2] >= 0 [] s = 2 -> u[1] <= 0 [] s = 3 -> u[2] <= 0 [] OTHER -> u[1] >= 0)
TouchFailProne(bx, in, o) == \E r \in AllRingsOf(in) : LET c == Core(r)  n == Len(c) IN
    \E i \in 1..n : LET pv == c[((i + n - 2) % n) + 1] IN
                    /\ OnBoxBoundary(bx, c[i])
                    /\ MeetsOpen(bx, pv, c[i]) /\ MeetsOpen(bx, c[i], c[(i % n) + 1])
                    /\ \/ Sign(Shoelace2(c)) # o
                       \/ FailProne(o, PointSide(bx, c[i]), <<pv[1] - c[i][1], pv[2] - c[i][2]>>)
                       \/ \E r2 \in AllRingsOf(in) : r2 # r /\ OnRing(r2, c[i])     \* endpoints of another ring at the same place
AllInside(bx, in) == \A r \in AllRingsOf(in) : \A k \in 1..Len(r) : InBoxOpen(bx, r[k])

\* ---------- implementation-shaped: aroundBound ---------------------------------------------------------------
\* boundary positions by bit code: 1 left, 2 right, 4 bottom, 8 top, 5 / 6 / 9 / 10 corners
Codes == {1, 2, 4, 5, 6, 8, 9, 10}
NextCW(c)  == CASE c = 1 -> 9 [] c = 2 -> 6 [] c = 4 -> 5 [] c = 5 -> 1 [] c = 6 -> 4 [] c = 8 -> 10 [] c = 9 -> 8 [] c = 10 -> 2
NextCCW(c) == CASE c = 1 -> 5 [] c = 2 -> 10 [] c = 4 -> 6 [] c = 5 -> 4 [] c = 6 -> 2 [] c = 8 -> 9 [] c = 9 -> 1 [] c = 10 -> 8
NextOf(o, c) == IF o = 1 THEN NextCCW(c) ELSE NextCW(c)
\* representative point of a position, doubled coordinates (the side midpoints are half-integers)
PointFor2(bx, c) == CASE c = 1 -> <<2*bx[1], bx[2]+bx[4]>> [] c = 2 -> <<2*bx[3], bx[2]+bx[4]>>
                      [] c = 4 -> <<bx[1]+bx[3], 2*bx[2]>> [] c = 8 -> <<bx[1]+bx[3], 2*bx[4]>>
                      [] c = 5 -> <<2*bx[1], 2*bx[2]>> [] c = 6 -> <<2*bx[3], 2*bx[2]>>
                      [] c = 9 -> <<2*bx[1], 2*bx[4]>> [] c = 10 -> <<2*bx[3], 2*bx[4]>>
RECURSIVE WalkFrom(_,_,_,_,_)
WalkFrom(o, cur, target, acc, fuel) == IF cur = target THEN acc ELSE IF fuel = 0 THEN <<0>>
                                       ELSE WalkFrom(o, NextOf(o, cur), target, Append(acc, cur), fuel - 1)
\* the codes visited strictly between leaving `from` and reaching `to`
Wrap(o, from, to) == WalkFrom(o, NextOf(o, from), to, <<>>, 9)
=============================================================================
