---------------------------- MODULE MvtMC ----------------------------
(* Model check of the C03 geometry codec design: for every small geometry within the property's          *)
(* precondition, the decoder state machine applied to the encoder state machine's output gives Canon(g);   *)
(* zig-zag is a bijection on the boundary values; the decoder is total (returns ok or Err, never a TLC      *)
(* evaluation error) on every short command-word sequence.                                                  *)
EXTENDS Mvt, TLC
CONSTANTS C, MaxPts, MaxRings, Words, MaxWords
CBig == {-268435455, -1, 0, 2, 268435455}
CSmall == {0, 3, 7}
CWide == {-8192, 0, 3, 8192}
VARIABLES pts, rings, ws
vars == <<pts, rings, ws>>
P == C \X C
Tri == {r \in [1..3 -> P] : TRUE}
Init == pts = <<>> /\ rings = <<>> /\ ws = <<>>
Next == \/ (rings = <<>> /\ ws = <<>> /\ Len(pts) < MaxPts /\ \E p \in P : pts' = Append(pts, p) /\ UNCHANGED <<rings, ws>>)
        \/ (pts = <<>> /\ ws = <<>> /\ Len(rings) < MaxRings /\ \E a, b, c \in P : rings' = Append(rings, <<a, b, c>>) /\ UNCHANGED <<pts, ws>>)
        \/ (pts = <<>> /\ rings = <<>> /\ Len(ws) < MaxWords /\ \E w \in Words : ws' = Append(ws, w) /\ UNCHANGED <<pts, rings>>)
Spec == Init /\ [][Next]_vars

RT(g) == LET e == Encode(g) d == Decode(e.t, e.d) IN d.ok /\ d.g = Canon(g)
PointKinds == Len(pts) >= 1 =>
   /\ (Len(pts) = 1 => RT([t |-> "Point", c |-> pts[1]]))
   /\ RT([t |-> "MultiPoint", c |-> pts])
LineKinds == Len(pts) >= 2 =>
   /\ RT([t |-> "LineString", c |-> pts])
   /\ RT([t |-> "MultiLineString", c |-> <<pts>>])
   /\ (Len(pts) = 4 => RT([t |-> "MultiLineString", c |-> <<SubSeq(pts, 1, 2), SubSeq(pts, 3, 4)>>]))
   /\ (Len(pts) >= 3 => RT([t |-> "MultiLineString", c |-> <<SubSeq(pts, 1, 2), SubSeq(pts, 2, Len(pts))>>]))
Rev(r) == [i \in 1..Len(r) |-> r[Len(r) + 1 - i]]
CCW(r) == IF ShoelaceO(CloseR(r)) > 0 THEN r ELSE Rev(r)
CW(r)  == IF ShoelaceO(CloseR(r)) < 0 THEN r ELSE Rev(r)
NonDeg(r) == ShoelaceO(CloseR(r)) # 0
PolyKinds == (Len(rings) >= 1 /\ \A i \in 1..Len(rings) : NonDeg(rings[i])) =>
   LET r1 == rings[1] IN
   /\ RT([t |-> "Ring", c |-> r1]) /\ RT([t |-> "Ring", c |-> CloseR(r1)])
   /\ RT([t |-> "Polygon", c |-> <<CCW(r1)>>])
   /\ (Len(rings) >= 2 =>
         /\ RT([t |-> "Polygon", c |-> <<CCW(r1), CW(rings[2])>>])
         /\ RT([t |-> "Polygon", c |-> <<CloseR(CCW(r1)), CloseR(CW(rings[2]))>>])
         /\ RT([t |-> "MultiPolygon", c |-> << <<CCW(r1)>>, <<CCW(rings[2])>> >>])
         /\ RT([t |-> "MultiPolygon", c |-> << <<CCW(r1), CW(rings[2])>> >>])
         /\ RT([t |-> "MultiPolygon", c |-> << <<CCW(r1), CW(rings[2])>>, <<CCW(rings[2]), CW(r1)>> >>]))
SeqToSetP(s) == {s[i] : i \in 1..Len(s)}
ZigZag == \A p \in SeqToSetP(pts) : UnZZ(ZZ(p[1])) = p[1] /\ ZZ(p[1]) >= 0 /\ UnZZ(ZZ(p[1] - p[2])) = p[1] - p[2]
DecoderTotal == \A t \in 1..3 : LET d == Decode(t, ws) IN d.ok \in BOOLEAN
=============================================================================
