---------------------------- MODULE Project_Trace ----------------------------
(* Trace validation for C15.  Event kinds:                                                                       *)
(*  map    project.Geometry / the typed helpers with the tagging function: in and out trees (integers)             *)
(*  tile   integer tile coordinates projected to WGS84 and back with a layer's extent: in and out (integers)        *)
(*  rt     lon/lat -> mercator -> lon/lat and mercator -> lon/lat -> mercator residuals in 1e-12 degree / micrometre  *)
(*  anchor fixed points of the projection (rounded metres / micro-degrees)                                            *)
EXTENDS Project, TLC, Json, IOUtils
Trace == ndJsonDeserialize(IOEnv.TRACE)
VARIABLES l, bad
MapOk(e) == LET m == MapV(e.in, 1) IN SEq(e.out, m[1]) /\ e.calls = m[2] - 1
TileOk(e) == e.out = e.in
RtOk(e) == /\ e.dlon <= 1000 /\ e.dlat <= 1000           \* 1e-9 degree = 1000 units of 1e-12 degree
           /\ e.dx <= 1000 /\ e.dy <= 1000                \* 1 mm = 1000 micrometres
AnchorOk(e) == e.got = e.want
\* sizes: a part of thousands of vertices - every vertex projected in its place, one call per vertex
BigOk(e) == e.ok = 1 /\ e.calls = e.n
Ok(e) == CASE e.k = "map" -> MapOk(e) [] e.k = "mapbig" -> BigOk(e) [] e.k = "tile" -> TileOk(e) [] e.k = "rt" -> RtOk(e) [] e.k = "anchor" -> AnchorOk(e) [] OTHER -> FALSE
Init == l = 1 /\ bad = {}
Next == /\ l <= Len(Trace) /\ l' = l + 1
        /\ bad' = IF Ok(Trace[l]) THEN bad ELSE bad \cup {l}
        /\ (l = Len(Trace) => PrintT(ToJson([done |-> l, bad |-> bad'])))
Spec == Init /\ [][Next]_<<l, bad>>
=============================================================================
