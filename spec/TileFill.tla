---------------------------- MODULE TileFill ----------------------------
(* Extended coverage (X09): tilecover.polygon() as it is written - the grid walk of line() with its "ring" record,  *)
(* the choice of scan-line intersections among the recorded tiles, and the fill between pairs - in exact             *)
(* arithmetic on a lattice of u units per tile (TileWalk is the walk of one segment; here the loop state that        *)
(* survives from segment to segment is modelled too).                                                              *)
(*                                                                                                                  *)
(* line(set, ls, zoom, ring):  prev = (-1,-1); x, y = 0                                                             *)
(*   per segment a -> b (skipped when a = b):  (x, y) = floor(a)                                                     *)
(*     if (x, y) # prev: add the tile; if y # prevY append it to ring; prev = (x, y)                                 *)
(*     while a parameter is below 1: step (x when tMaxX < tMaxY, else y); add the tile; if y # prevY append; prev    *)
(*   at the end: if ring is not empty and y = ring[0].y, drop ring's last entry                                      *)
(* polygon(): for every ring r of the polygon: rec = line(set, r, zoom, []), and of rec (read cyclically) every tile *)
(*   that is not a local minimum, not a local maximum and whose successor lies in another row is an "intersection";   *)
(*   an odd number of them is an error; sorted by (y, x), the tiles strictly between the 1st and 2nd, 3rd and 4th ...  *)
(*   are added.                                                                                                      *)
(* What it must achieve (FillOK): every tile whose inside the boundary passes through and every tile wholly inside   *)
(* the polygon is covered, nothing that lies wholly outside is.                                                      *)
EXTENDS TileWalk, SequencesExt
St0(set) == [set |-> set, ring |-> <<>>, px |-> -1, py |-> -1, x |-> 0, y |-> 0]
Visit(st, x, y) == [set |-> st.set \cup {<<x, y>>},
                    ring |-> IF y # st.py THEN Append(st.ring, <<x, y>>) ELSE st.ring,
                    px |-> x, py |-> y, x |-> x, y |-> y]
RECURSIVE RLoop(_, _, _, _, _, _, _, _, _, _)
RLoop(x, y, nx, ny, adx, ady, sx, sy, u, st) ==
   LET xLt1 == adx # 0 /\ nx < adx
       yLt1 == ady # 0 /\ ny < ady
   IN IF ~xLt1 /\ ~yLt1 THEN st
      ELSE LET stepX == IF adx = 0 THEN FALSE ELSE IF ady = 0 THEN TRUE ELSE nx * ady < ny * adx
           IN IF stepX THEN RLoop(x + sx, y, nx + u, ny, adx, ady, sx, sy, u, Visit(st, x + sx, y))
              ELSE RLoop(x, y + sy, nx, ny + u, adx, ady, sx, sy, u, Visit(st, x, y + sy))
RSeg(u, a, b, st) ==
   IF a = b THEN st
   ELSE LET dx == b[1] - a[1]  dy == b[2] - a[2]
            sx == IF dx > 0 THEN 1 ELSE -1   sy == IF dy > 0 THEN 1 ELSE -1
            x0 == FloorDiv(a[1], u)   y0 == FloorDiv(a[2], u)
            nx == AbsI(u * ((IF dx > 0 THEN 1 ELSE 0) + x0) - a[1])
            ny == AbsI(u * ((IF dy > 0 THEN 1 ELSE 0) + y0) - a[2])
            st1 == IF x0 # st.px \/ y0 # st.py THEN Visit(st, x0, y0) ELSE [st EXCEPT !.x = x0, !.y = y0]
        IN RLoop(x0, y0, nx, ny, AbsI(dx), AbsI(dy), sx, sy, u, st1)
RECURSIVE RPath(_, _, _, _)
RPath(u, ls, i, st) == IF i >= Len(ls) THEN st ELSE RPath(u, ls, i + 1, RSeg(u, ls[i], ls[i+1], st))
\* line() on the vertex list ls (as stored: a ring handed to polygon() is walked as its stored vertices, no edge is added)
LineRec(u, ls, set) == LET st == RPath(u, ls, 1, St0(set))
                           rec == IF Len(st.ring) > 0 /\ st.y = st.ring[1][2] THEN SubSeq(st.ring, 1, Len(st.ring) - 1) ELSE st.ring
                       IN [set |-> st.set, rec |-> rec]
\* the scan-line intersections among the recorded tiles of one ring
Inters(rec) == LET n == Len(rec)
                   Keep(i) == LET pi == ((i + n - 2) % n) + 1   ni == (i % n) + 1   y == rec[i][2]
                              IN /\ (rec[pi][2] < y \/ rec[ni][2] < y)
                                 /\ (y < rec[pi][2] \/ y < rec[ni][2])
                                 /\ y # rec[ni][2]
               IN SelectSeq([i \in 1..n |-> <<rec[i], Keep(i)>>], LAMBDA e : e[2])
RECURSIVE PolyRec(_, _, _, _)
PolyRec(u, poly, j, acc) ==     \* acc = [set, inter]
   IF j > Len(poly) THEN acc
   ELSE LET lr == LineRec(u, poly[j], acc.set)
            ks == Inters(lr.rec)
        IN PolyRec(u, poly, j + 1, [set |-> lr.set, inter |-> acc.inter \o [k \in 1..Len(ks) |-> ks[k][1]]])
TileLess(a, b) == a[2] < b[2] \/ (a[2] = b[2] /\ a[1] < b[1])
\* sorted by (y, x): insertion into a sorted sequence (duplicates stay)
RECURSIVE InsSorted(_, _)
InsSorted(s, t) == IF s = <<>> THEN <<t>> ELSE IF TileLess(t, s[1]) THEN <<t>> \o s ELSE <<s[1]>> \o InsSorted(Tail(s), t)
RECURSIVE SortTiles(_, _)
SortTiles(s, i) == IF i > Len(s) THEN <<>> ELSE InsSorted(SortTiles(s, i + 1), s[i])
FillPairs(s) == UNION {{<<x, s[2*k-1][2]>> : x \in (s[2*k-1][1] + 1)..(s[2*k][1] - 1)} : k \in 1..(Len(s) \div 2)}
\* the result of polygon(): the error flag and the set of tiles
PolygonCover(u, poly) == LET r == PolyRec(u, poly, 1, [set |-> {}, inter |-> <<>>])
                             s == SortTiles(r.inter, 1)
                         IN [err |-> Len(s) % 2 = 1, set |-> IF Len(s) % 2 = 1 THEN {} ELSE r.set \cup FillPairs(s), walked |-> r.set, inter |-> s]

\* ---------- what the cover must be --------------------------------------------------------------------------------
BoundaryMeets(u, poly, rc) == \E j \in 1..Len(poly) : \E i \in 1..(Len(poly[j]) - 1) :
                                 poly[j][i] # poly[j][i+1] /\ SegMeetsRect(poly[j][i], poly[j][i+1], rc)
Centre(u, t) == <<u * t[1] + u \div 2, u * t[2] + u \div 2>>          \* u even
\* (rings are stored closed here: InRingEO closes them implicitly, the repeated vertex adds a zero-length edge)
Inside(u, poly, t) == ~BoundaryMeets(u, poly, Grown(u, t)) /\ InPolygon(poly, Centre(u, t))
FillMust(u, poly, w) == {t \in Tiles(w) : BoundaryMeets(u, poly, Shrunk(u, t)) \/ Inside(u, poly, t)}
FillMay(u, poly, w) == {t \in Tiles(w) : BoundaryMeets(u, poly, Grown(u, t)) \/ Inside(u, poly, t)}
FillOK(u, poly, w, cover) == FillMust(u, poly, w) \subseteq cover /\ (cover \cap Tiles(w)) \subseteq FillMay(u, poly, w)
=============================================================================
