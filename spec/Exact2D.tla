---------------------------- MODULE Exact2D ----------------------------
(* Exact planar predicates on integer lattices.  Every operator is total on integer pairs and uses  *)
(* only + - * and comparisons, so TLC evaluates it exactly (and stops with an overflow error rather *)
(* than wrapping if a product leaves 32 bits).  Points are <<x, y>>; rings are sequences of points   *)
(* that are implicitly closed (a repeated last vertex only adds a zero-length edge).                  *)
EXTENDS Integers, Sequences, FiniteSets

Min2(a, b) == IF a < b THEN a ELSE b
Max2(a, b) == IF a > b THEN a ELSE b
Abs(a)     == IF a < 0 THEN -a ELSE a
Sign(a)    == IF a > 0 THEN 1 ELSE IF a < 0 THEN -1 ELSE 0

Cross(a, b, p) == (b[1]-a[1])*(p[2]-a[2]) - (b[2]-a[2])*(p[1]-a[1])
Dot(a, b, p)   == (b[1]-a[1])*(p[1]-a[1]) + (b[2]-a[2])*(p[2]-a[2])
D2(a, b)       == (a[1]-b[1])*(a[1]-b[1]) + (a[2]-b[2])*(a[2]-b[2])

OnSeg(a, b, p) == /\ Cross(a, b, p) = 0
                  /\ Min2(a[1], b[1]) <= p[1] /\ p[1] <= Max2(a[1], b[1])
                  /\ Min2(a[2], b[2]) <= p[2] /\ p[2] <= Max2(a[2], b[2])

\* upward ray from p crosses the edge a-b: half-open in x, p strictly below the supporting line
Crosses(a, b, p) ==
   LET lo == IF a[1] <= b[1] THEN a ELSE b
       hi == IF a[1] <= b[1] THEN b ELSE a
   IN  lo[1] <= p[1] /\ p[1] < hi[1] /\ Cross(lo, hi, p) < 0

EdgeB(r, i) == r[(i % Len(r)) + 1]                     \* end of the i-th edge, implicit closing edge

OnRing(r, p)   == \E i \in 1..Len(r) : OnSeg(r[i], EdgeB(r, i), p)
OddRing(r, p)  == Cardinality({i \in 1..Len(r) : Crosses(r[i], EdgeB(r, i), p)}) % 2 = 1
InRingEO(r, p) == OnRing(r, p) \/ OddRing(r, p)         \* even-odd, boundary counts as inside

\* polygon = sequence of rings (outer first); multipolygon = sequence of polygons
InPolygon(pg, p) == /\ Len(pg) > 0 /\ InRingEO(pg[1], p)
                    /\ \A h \in 2..Len(pg) : ~InRingEO(pg[h], p)
InMultiPolygon(mp, p) == \E i \in 1..Len(mp) : InPolygon(mp[i], p)

\* strict variants (boundary excluded) and region membership away from boundaries
OnPolygon(pg, p) == \E h \in 1..Len(pg) : OnRing(pg[h], p)
OnMultiPolygon(mp, p) == \E i \in 1..Len(mp) : OnPolygon(mp[i], p)

\* twice the signed area (positive = counter-clockwise)
RECURSIVE ShoelaceFrom(_, _)
ShoelaceFrom(r, i) == IF i > Len(r) THEN 0
                      ELSE r[i][1]*EdgeB(r, i)[2] - EdgeB(r, i)[1]*r[i][2] + ShoelaceFrom(r, i+1)
Shoelace2(r) == IF Len(r) = 0 THEN 0 ELSE ShoelaceFrom(r, 1)

\* boxes are <<minx, miny, maxx, maxy>>
InBoxClosed(bx, p) == bx[1] <= p[1] /\ p[1] <= bx[3] /\ bx[2] <= p[2] /\ p[2] <= bx[4]
InBoxOpen(bx, p)   == bx[1] <  p[1] /\ p[1] <  bx[3] /\ bx[2] <  p[2] /\ p[2] <  bx[4]

\* sequences
SeqToSet(s) == {s[i] : i \in 1..Len(s)}
RECURSIVE DedupFrom(_, _)
DedupFrom(s, i) == IF i > Len(s) THEN <<>>
                   ELSE IF i > 1 /\ s[i] = s[i-1] THEN DedupFrom(s, i+1)
                   ELSE <<s[i]>> \o DedupFrom(s, i+1)
Dedup(s) == DedupFrom(s, 1)                             \* drop consecutive duplicates
=============================================================================
