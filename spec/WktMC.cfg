SPECIFICATION WSpec
INVARIANTS WRoundTrip Typed
CHECK_DEADLOCK FALSE
