SPECIFICATION Spec
CONSTANTS P = 12  N = 3  BROKEN = FALSE
INVARIANTS WalkOK NoPieceTwice
CHECK_DEADLOCK FALSE
