---------------------------- MODULE Wkb ----------------------------
(* C01 (and the reference decoder of C05): the WKB / EWKB byte grammar.                               *)
(* A coordinate is an opaque 8-byte string (the big-endian image of the float64 bit pattern): the spec  *)
(* never interprets it, which is exactly "bit-identical".  Geometries are GeomValue records             *)
(* [t |-> kind, c |-> coordinates] / [t |-> "Collection", g |-> members] / [t |-> "nil"]; a point is a   *)
(* pair of coordinate ids resolved through a table tab : id -> 8 bytes.                                 *)
EXTENDS Integers, Sequences, FiniteSets

Rev(s) == [i \in 1..Len(s) |-> s[Len(s) + 1 - i]]
U32BE(n) == <<(n \div 16777216) % 256, (n \div 65536) % 256, (n \div 256) % 256, n % 256>>
U32(n, le) == IF le THEN Rev(U32BE(n)) ELSE U32BE(n)
RECURSIVE Cat(_)
Cat(ss) == IF ss = <<>> THEN <<>> ELSE Head(ss) \o Cat(Tail(ss))

EwkbFlag == 536870912                                   \* 0x20000000
TypeCode(k) == CASE k = "Point" -> 1 [] k = "LineString" -> 2 [] k = "Polygon" -> 3 [] k = "MultiPoint" -> 4
                 [] k = "MultiLineString" -> 5 [] k = "MultiPolygon" -> 6 [] k = "Collection" -> 7
KindOf(code) == CASE code = 1 -> "Point" [] code = 2 -> "LineString" [] code = 3 -> "Polygon" [] code = 4 -> "MultiPoint"
                  [] code = 5 -> "MultiLineString" [] code = 6 -> "MultiPolygon" [] code = 7 -> "Collection" [] OTHER -> "?"

\* ---------------- canonical form: what must come back ------------------------------------------------
BoundRing(b) == << <<b[1],b[2]>>, <<b[3],b[2]>>, <<b[3],b[4]>>, <<b[1],b[4]>>, <<b[1],b[2]>> >>   \* b = <<minx,miny,maxx,maxy>> ids
RECURSIVE CanonDeep(_)
CanonDeep(g) ==
   IF g.t = "Ring" THEN [t |-> "Polygon", c |-> <<g.c>>]
   ELSE IF g.t = "Bound" THEN [t |-> "Polygon", c |-> <<BoundRing(g.c)>>]
   ELSE IF g.t = "Collection" THEN [t |-> "Collection", g |-> [i \in 1..Len(g.g) |-> CanonDeep(g.g[i])]]
   ELSE g

\* ---------------- encoder ----------------------------------------------------------------------------
F64(tab, id, le) == IF le THEN Rev(tab[id]) ELSE tab[id]
Pt(tab, p, le) == F64(tab, p[1], le) \o F64(tab, p[2], le)
PtsB(tab, ps, le) == Cat([i \in 1..Len(ps) |-> Pt(tab, ps[i], le)])
\* header: order byte, type word (EWKB flag only when srid # 0), optional srid word
Hdr(k, le, srid) == <<IF le THEN 1 ELSE 0>> \o
   (IF srid = 0 THEN U32(TypeCode(k), le) ELSE U32(TypeCode(k) + EwkbFlag, le) \o U32(srid, le))
RECURSIVE Enc(_,_,_,_)
Enc(tab, g0, le, srid) ==
  LET g == CanonDeep(g0) IN
  CASE g.t = "nil"        -> <<>>
    [] g.t = "Point"      -> Hdr(g.t, le, srid) \o Pt(tab, g.c, le)
    [] g.t = "LineString" -> Hdr(g.t, le, srid) \o U32(Len(g.c), le) \o PtsB(tab, g.c, le)
    [] g.t = "Polygon"    -> Hdr(g.t, le, srid) \o U32(Len(g.c), le) \o
                                Cat([i \in 1..Len(g.c) |-> U32(Len(g.c[i]), le) \o PtsB(tab, g.c[i], le)])
    [] g.t = "MultiPoint" -> Hdr(g.t, le, srid) \o U32(Len(g.c), le) \o
                                Cat([i \in 1..Len(g.c) |-> Enc(tab, [t |-> "Point", c |-> g.c[i]], le, 0)])
    [] g.t = "MultiLineString" -> Hdr(g.t, le, srid) \o U32(Len(g.c), le) \o
                                Cat([i \in 1..Len(g.c) |-> Enc(tab, [t |-> "LineString", c |-> g.c[i]], le, 0)])
    [] g.t = "MultiPolygon" -> Hdr(g.t, le, srid) \o U32(Len(g.c), le) \o
                                Cat([i \in 1..Len(g.c) |-> Enc(tab, [t |-> "Polygon", c |-> g.c[i]], le, 0)])
    [] g.t = "Collection" -> Hdr(g.t, le, srid) \o U32(Len(g.g), le) \o
                                Cat([i \in 1..Len(g.g) |-> Enc(tab, g.g[i], le, 0)])

\* ---------------- reference decoder (recursive descent over bytes) -----------------------------------
\* coordinates come back as raw 8-byte big-endian strings; r = [ok, v, pos] with pos the next unread byte
Fail == [ok |-> FALSE]
Avail(b, pos, n) == pos + n - 1 <= Len(b)
\* value of a 4-byte word; -1 when it does not fit 31 bits (only ever compared, never iterated)
Word(b, pos, le) == LET w == SubSeq(b, pos, pos + 3)  be == IF le THEN Rev(w) ELSE w IN
                    IF be[1] >= 128 THEN -1 ELSE ((be[1]*256 + be[2])*256 + be[3])*256 + be[4]
RdF64(b, pos, le) == LET w == SubSeq(b, pos, pos + 7) IN IF le THEN Rev(w) ELSE w
RdPt(b, pos, le) == IF ~Avail(b, pos, 16) THEN Fail ELSE [ok |-> TRUE, v |-> <<RdF64(b, pos, le), RdF64(b, pos + 8, le)>>, pos |-> pos + 16]
RECURSIVE RdPts(_,_,_,_,_)
RdPts(b, pos, le, n, acc) == IF n = 0 THEN [ok |-> TRUE, v |-> acc, pos |-> pos]
                             ELSE LET p == RdPt(b, pos, le) IN IF ~p.ok THEN Fail ELSE RdPts(b, p.pos, le, n - 1, Append(acc, p.v))
RdCounted(b, pos, le) ==      \* count word followed by that many points (the count must be coverable by the data)
   IF ~Avail(b, pos, 4) THEN Fail
   ELSE LET n == Word(b, pos, le) IN
        \* n points need 16*n bytes: compared by division so that counts near 2^28 do not overflow
        IF n < 0 \/ n > (Len(b) - (pos + 3)) \div 16 THEN Fail ELSE RdPts(b, pos + 4, le, n, <<>>)
RECURSIVE RdRings(_,_,_,_,_)
RdRings(b, pos, le, n, acc) == IF n = 0 THEN [ok |-> TRUE, v |-> acc, pos |-> pos]
                               ELSE LET r == RdCounted(b, pos, le) IN IF ~r.ok THEN Fail ELSE RdRings(b, r.pos, le, n - 1, Append(acc, r.v))
\* header at pos: [ok, le, code, srid, pos]
RdHdr(b, pos) ==
   IF ~Avail(b, pos, 5) \/ b[pos] \notin {0, 1} THEN Fail
   ELSE LET le == b[pos] = 1  w == SubSeq(b, pos + 1, pos + 4)  be == IF le THEN Rev(w) ELSE w
            flag == (be[1] \div 32) % 2 = 1                      \* 0x20 in the most significant byte
        IN IF ~flag THEN [ok |-> TRUE, le |-> le, code |-> be[4], hi |-> <<be[1], be[2], be[3]>>, srid |-> 0, pos |-> pos + 5]
           ELSE IF ~Avail(b, pos + 5, 4) THEN Fail
           ELSE [ok |-> TRUE, le |-> le, code |-> be[4], hi |-> <<be[1] - 32, be[2], be[3]>>, srid |-> Word(b, pos + 5, le), pos |-> pos + 9]
RECURSIVE RdGeom(_,_,_,_)
RECURSIVE RdMembers(_,_,_,_,_,_)
\* want = 0: any kind; otherwise the member must have exactly this type code (members of multi-geometries).
\* strict: the type word must be exactly a code 1..7 (plus the EWKB flag); lenient: only the low four bits count
\* (as the byte-slice decoder masks them), every other bit of the word is ignored.
CodeOf(h, strict) == IF strict THEN h.code ELSE h.code % 16
HeaderOk(h, strict) == h.ok /\ (strict => h.hi = <<0, 0, 0>>) /\ CodeOf(h, strict) \in 1..7
RdGeom(b, pos, want, strict) ==
   LET h == RdHdr(b, pos) IN
   IF ~HeaderOk(h, strict) \/ (want # 0 /\ CodeOf(h, strict) # want) THEN Fail
   ELSE LET k == KindOf(CodeOf(h, strict)) IN
        IF k = "Point" THEN LET p == RdPt(b, h.pos, h.le) IN
                            IF ~p.ok THEN Fail ELSE [ok |-> TRUE, v |-> [t |-> k, c |-> p.v], srid |-> h.srid, pos |-> p.pos]
        ELSE IF k = "LineString" THEN LET r == RdCounted(b, h.pos, h.le) IN
                            IF ~r.ok THEN Fail ELSE [ok |-> TRUE, v |-> [t |-> k, c |-> r.v], srid |-> h.srid, pos |-> r.pos]
        ELSE IF ~Avail(b, h.pos, 4) THEN Fail
        ELSE LET n == Word(b, h.pos, h.le) IN
             IF n < 0 \/ n > Len(b) THEN Fail            \* every member needs at least one byte
             ELSE IF k = "Polygon" THEN LET r == RdRings(b, h.pos + 4, h.le, n, <<>>) IN
                            IF ~r.ok THEN Fail ELSE [ok |-> TRUE, v |-> [t |-> k, c |-> r.v], srid |-> h.srid, pos |-> r.pos]
             ELSE LET m == RdMembers(b, h.pos + 4, n, IF k = "MultiPoint" THEN 1 ELSE IF k = "MultiLineString" THEN 2
                                                       ELSE IF k = "MultiPolygon" THEN 3 ELSE 0, <<>>, strict) IN
                  IF ~m.ok THEN Fail
                  ELSE IF k = "Collection" THEN [ok |-> TRUE, v |-> [t |-> k, g |-> m.v], srid |-> h.srid, pos |-> m.pos]
                  ELSE [ok |-> TRUE, v |-> [t |-> k, c |-> [i \in 1..Len(m.v) |-> m.v[i].c]], srid |-> h.srid, pos |-> m.pos]
RdMembers(b, pos, n, want, acc, strict) ==
   IF n = 0 THEN [ok |-> TRUE, v |-> acc, pos |-> pos]
   ELSE LET g == RdGeom(b, pos, want, strict) IN IF ~g.ok THEN Fail ELSE RdMembers(b, g.pos, n - 1, want, Append(acc, g.v), strict)
Dec(b) == RdGeom(b, 1, 0, TRUE)
\* the lenient reading fails only for structural reasons: bad byte order, no usable type code, truncation, or an
\* element count the remaining bytes cannot hold
DecLenient(b) == RdGeom(b, 1, 0, FALSE)

\* a decoded value with coordinates mapped back to ids through the table (for comparison with the input)
\* (0 - no table entry - for bytes that are nobody's coordinate: a stream read out of step, which is then a mismatch and
\* not an evaluation error)
IdOf(tab, bytes) == IF \E id \in DOMAIN tab : tab[id] = bytes THEN CHOOSE id \in DOMAIN tab : tab[id] = bytes ELSE 0

\* ---------------- scanner coercions ------------------------------------------------------------------
\* ScanInto(dest, g): g is a canonical decoded value; result [ok, v] (ok = FALSE: wrong-geometry error)
Wrong == [ok |-> FALSE]
Good(v) == [ok |-> TRUE, v |-> v]
ScanInto(dest, g) ==
  CASE dest = "nil" -> Good(g)
    [] dest = "Point" -> IF g.t = "Point" THEN Good(g)
                         ELSE IF g.t = "MultiPoint" /\ Len(g.c) = 1 THEN Good([t |-> "Point", c |-> g.c[1]]) ELSE Wrong
    [] dest = "MultiPoint" -> IF g.t = "MultiPoint" THEN Good(g)
                         ELSE IF g.t = "Point" THEN Good([t |-> "MultiPoint", c |-> <<g.c>>]) ELSE Wrong
    [] dest = "LineString" -> IF g.t = "LineString" THEN Good(g)
                         ELSE IF g.t = "MultiLineString" /\ Len(g.c) = 1 THEN Good([t |-> "LineString", c |-> g.c[1]]) ELSE Wrong
    [] dest = "MultiLineString" -> IF g.t = "MultiLineString" THEN Good(g)
                         ELSE IF g.t = "LineString" THEN Good([t |-> "MultiLineString", c |-> <<g.c>>]) ELSE Wrong
    [] dest = "Ring" -> IF g.t = "Polygon" /\ Len(g.c) = 1 THEN Good([t |-> "Ring", c |-> g.c[1]]) ELSE Wrong
    [] dest = "Polygon" -> IF g.t = "Polygon" THEN Good(g)
                         ELSE IF g.t = "MultiPolygon" /\ Len(g.c) = 1 THEN Good([t |-> "Polygon", c |-> g.c[1]]) ELSE Wrong
    [] dest = "MultiPolygon" -> IF g.t = "MultiPolygon" THEN Good(g)
                         ELSE IF g.t = "Polygon" THEN Good([t |-> "MultiPolygon", c |-> <<g.c>>]) ELSE Wrong
    [] dest = "Collection" -> IF g.t = "Collection" THEN Good(g) ELSE Wrong
    [] dest = "Bound" -> [ok |-> TRUE, bound |-> TRUE]        \* anything to its bound: judged on ranks by the trace spec
Dests == {"nil", "Point", "MultiPoint", "LineString", "MultiLineString", "Ring", "Polygon", "MultiPolygon", "Collection", "Bound"}
=============================================================================
