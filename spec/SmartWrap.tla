---------------------------- MODULE SmartWrap ----------------------------
(* Extended coverage (X08): smartclip.smartWrap as a state machine.                                                *)
(* After the open clip a ring is a set of pieces, each entering the box at its start and leaving it at its end,     *)
(* both on the outline.  smartWrap sorts the 2n endpoints around the outline and walks them: an unused end opens    *)
(* a result ring with its piece; the next unused start either closes the ring (it is the start of the ring's first  *)
(* piece) or appends its piece, after which the walk jumps behind that piece's end (endpoint.OtherEnd).  Between an *)
(* end and the start that follows it the ring runs along the outline (aroundBound, checked in SmartClipMC).         *)
(*                                                                                                                  *)
(* Abstract state: positions 0..P-1 along the outline in the order of sortableEndpoints.Less for counter-clockwise  *)
(* output (left side downwards, bottom rightwards, right side upwards, top leftwards); a configuration is a         *)
(* sequence of pieces [s, e].  General position: all 2n positions differ (no ties - those are the recorded finding  *)
(* of C16).  Valid input (pieces of disjoint simple rings wound counter-clockwise, region on the left): chords do    *)
(* not cross, and going on from any end the first endpoint met is a start.                                           *)
(* What must come out: the cycles of "end -> the next start", each cycle one polygon.                                *)
EXTENDS SmartWrapBase, TLC
CONSTANTS P,        \* positions along the outline (even)
          N,        \* at most N pieces
          BROKEN    \* TRUE: a variant that does not jump behind the appended piece's end (must violate WalkOK: non-vacuity)
Pos == 0..(P - 1)
Valid(cfg) == ValidP(P, cfg)
\* enumerated with the pieces numbered by ascending start (the walk does not depend on the numbering): a set of n
\* starts, a set of n ends among the other positions, a matching between them
SubsetsOfSize(S, n) == {T \in SUBSET S : Cardinality(T) = n}
RECURSIVE SortSet(_)
SortSet(S) == IF S = {} THEN <<>> ELSE LET m == CHOOSE x \in S : \A y \in S : x <= y IN <<m>> \o SortSet(S \ {m})
RECURSIVE Perms(_)
Perms(S) == IF S = {} THEN {<<>>} ELSE UNION {{<<x>> \o q : q \in Perms(S \ {x})} : x \in S}
CfgsOfSize(n) == UNION {UNION {{[j \in 1..n |-> [s |-> SortSet(S)[j], e |-> q[j]]] : q \in Perms(E)}
                                : E \in SubsetsOfSize(Pos \ S, n)} : S \in SubsetsOfSize(Pos, n)}
AllValid == UNION {{cfg \in CfgsOfSize(n) : Valid(cfg)} : n \in 1..N}

\* ---------- what must come out: the cycles of "end -> the next start" (SmartWrapBase) ----------------------------
Cycles(cfg) == CyclesP(P, cfg)

\* ---------- implementation-shaped: the walk of smartWrap -------------------------------------------------------
\* the sorted endpoint array (1-based here, 0-based in the code): piece, whether it is the start, position
EndpointRecs(cfg) == {[p |-> i, st |-> TRUE, t |-> cfg[i].s] : i \in 1..Len(cfg)} \cup {[p |-> i, st |-> FALSE, t |-> cfg[i].e] : i \in 1..Len(cfg)}
RECURSIVE SortRecs(_)
SortRecs(S) == IF S = {} THEN <<>> ELSE LET m == CHOOSE x \in S : \A y \in S : x.t <= y.t IN <<m>> \o SortRecs(S \ {m})
Sorted(cfg) == SortRecs(EndpointRecs(cfg))
IndexOf(pts, p, st) == CHOOSE k \in 1..Len(pts) : pts[k].p = p /\ pts[k].st = st
\* endpoint.OtherEnd as maintained by Swap: the index of the piece's other endpoint in the sorted array
OtherEnd(cfg, pts, k) == IndexOf(pts, pts[k].p, ~pts[k].st)

VARIABLES cfg, pts, used, cur, res, i
vars == <<cfg, pts, used, cur, res, i>>
Init == /\ cfg \in AllValid
        /\ pts = Sorted(cfg) /\ used = {} /\ cur = <<>> /\ res = {} /\ i = 0
Running == i < 2 * Len(pts)
Step == /\ Running
        /\ LET k == (i % Len(pts)) + 1
               ep == pts[k] IN
           IF k \in used THEN i' = i + 1 /\ UNCHANGED <<used, cur, res>>
           ELSE IF ~ep.st THEN
                IF cur = <<>> THEN cur' = <<ep.p>> /\ used' = used \cup {k} /\ i' = i + 1 /\ UNCHANGED res
                ELSE i' = i + 1 /\ UNCHANGED <<used, cur, res>>
           ELSE IF cur = <<>> THEN i' = i + 1 /\ UNCHANGED <<used, cur, res>>
           ELSE IF ep.t = cfg[cur[1]].s
                THEN \* loop complete: the ring is closed, start over looking for unused endpoints
                     res' = res \cup {Norm(cur)} /\ cur' = <<>> /\ used' = used \cup {k} /\ i' = 0
                ELSE LET oe == OtherEnd(cfg, pts, k) IN
                     cur' = Append(cur, ep.p) /\ used' = used \cup {k, oe} /\ i' = (IF BROKEN THEN i + 1 ELSE oe) /\ UNCHANGED res
                     \* (the code sets i to the 0-based index of the other end and the loop adds one: 1-based oe)
        /\ UNCHANGED <<cfg, pts>>
Spec == Init /\ [][Step]_vars
\* when the walk is over, every piece is in exactly one result ring and the rings are the cycles of "end -> next start"
WalkOK == Running \/ (cur = <<>> /\ res = Cycles(cfg))
\* the walk never opens a ring it cannot close (no piece is taken twice)
NoPieceTwice == \A k \in 1..Len(cur) : \A m \in 1..Len(cur) : k # m => cur[k] # cur[m]
=============================================================================
