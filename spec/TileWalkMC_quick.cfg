SPECIFICATION Spec
CONSTANTS
  U = 4
  W = 3
INVARIANT WalkOK
CHECK_DEADLOCK FALSE
