---------------------------- MODULE ClipRingMC ----------------------------
(* Model check of the C08 design: the Sutherland-Hodgman transcription satisfies the region          *)
(* predicate, in-box, closure, inside-unchanged, disjoint-nothing and split additivity for every     *)
(* closed ring of <= NV vertices on a G x G grid and every box with corners on BLO..BHI.             *)
EXTENDS ClipRing, TLC
CONSTANTS G, BLO, BHI, NV
S == 60
VARIABLES box, verts
Pt == {<<S*x, S*y>> : x \in 0..(G-1), y \in 0..(G-1)}
Boxes == {<<S*x0, S*y0, S*x1, S*y1>> : x0 \in BLO..BHI, y0 \in BLO..BHI, x1 \in BLO..BHI, y1 \in BLO..BHI}
Init == box \in {b \in Boxes : b[1] < b[3] /\ b[2] < b[4]} /\ verts = <<>>
Next == Len(verts) < NV /\ (\E p \in Pt : verts' = Append(verts, p)) /\ UNCHANGED box
Spec == Init /\ [][Next]_<<box, verts>>
Ring == IF verts = <<>> THEN <<>> ELSE Append(verts, verts[1])       \* explicitly closed
Out  == SHRing(box, Ring)
AsMP(r) == IF r = <<>> THEN <<>> ELSE <<<<r>>>>
Region   == RegionOK(box, AsMP(Ring), AsMP(Out), 15)
InBoxAll == MPInBox(box, AsMP(Out))
Closed   == Out # <<>> => RingClosed(Out)
InsideUnchanged == (Ring # <<>> /\ RingInside(box, Ring)) => Out = Ring
DisjointNothing == (Ring # <<>> /\ BoundDisjoint(box, Ring)) => Out = <<>>
\* split the box at every interior grid line: twice the signed area is additive
SplitAdditive ==
   /\ \A c \in {S*k : k \in BLO..BHI} : (box[1] < c /\ c < box[3]) =>
         Shoelace2(Out) = Shoelace2(SHRing(<<box[1], box[2], c, box[4]>>, Ring)) + Shoelace2(SHRing(<<c, box[2], box[3], box[4]>>, Ring))
   /\ \A c \in {S*k : k \in BLO..BHI} : (box[2] < c /\ c < box[4]) =>
         Shoelace2(Out) = Shoelace2(SHRing(<<box[1], box[2], box[3], c>>, Ring)) + Shoelace2(SHRing(<<box[1], c, box[3], box[4]>>, Ring))
=============================================================================
