---------------------------- MODULE GeoJson_Trace ----------------------------
(* Trace validation for C02.  Event kinds: geom (a bare geometry), feat (a feature), fc (a feature collection).    *)
(* Each carries the input model, the document the harness parsed out of the JSON bytes the library produced         *)
(* (doc), the value the library decoded from those bytes (dec) and from the BSON bytes (decb), and same = 1 iff       *)
(* marshalling the decoded value again gave byte-identical JSON.  re / reb: the same bytes decoded into a value that  *)
(* already held the result of earlier decodes (a decoding loop reusing one variable); routes = 1 iff json.Marshal and  *)
(* a Geometry literal around the value give the same bytes as the value's own MarshalJSON / bson.Marshal; stable = 1   *)
(* iff the bytes returned for the previous event are still what they were.                                            *)
EXTENDS GeoJsonDoc, Json, IOUtils
Trace == ndJsonDeserialize(IOEnv.TRACE)
VARIABLES l, bad
GeomOk(e) == /\ e.err = "" /\ e.doc = GeomDoc(e.g) /\ WellFormedGeom(e.doc)
             /\ GEq(e.dec, NormG(e.g)) /\ GEq(e.decb, NormG(e.g)) /\ e.same = 1
             /\ GEq(e.re, NormG(e.g)) /\ GEq(e.reb, NormG(e.g)) /\ e.routes = 1 /\ e.stable = 1
             /\ e.hkept = 1   \* the typed helper receivers, reused from document to document, return this value and keep their earlier results intact
FeatOk(e) == /\ e.err = "" /\ e.doc = FeatureDoc(e.f) /\ WellFormedGeom(e.doc.v.geometry)
             /\ FEq(e.dec, NormF(e.f)) /\ FEq(e.decb, NormF(e.f)) /\ e.same = 1
             /\ FEq(e.re, NormF(e.f)) /\ FEq(e.reb, NormF(e.f)) /\ e.routes = 1 /\ e.stable = 1
             /\ e.idb = 1                        \* an integer id comes back from BSON as the same integer, also beyond 2^53
             /\ e.kept = 1 /\ e.insame = 1       \* earlier results kept by value, and the marshalled input, are left alone
FCEq(d, fc) == /\ Len(d.feats) = Len(fc.feats) /\ \A i \in 1..Len(fc.feats) : FEq(d.feats[i], NormF(fc.feats[i]))
               /\ d.bbox = fc.bbox /\ d.extra = fc.extra
FCOk(e) == /\ e.err = "" /\ e.doc = FCDoc(e.fc)
           /\ FCEq(e.dec, e.fc) /\ FCEq(e.decb, e.fc) /\ e.same = 1
           /\ FCEq(e.re, e.fc) /\ FCEq(e.reb, e.fc) /\ e.routes = 1 /\ e.stable = 1 /\ e.insame = 1
Ok(e) == CASE e.k = "bsonid" -> e.idb = 1 [] e.k = "geom" -> GeomOk(e) [] e.k = "feat" -> FeatOk(e) [] e.k = "fc" -> FCOk(e) [] OTHER -> FALSE
Init == l = 1 /\ bad = {}
Next == /\ l <= Len(Trace) /\ l' = l + 1
        /\ bad' = IF Ok(Trace[l]) THEN bad ELSE bad \cup {l}
        /\ (l = Len(Trace) => PrintT(ToJson([done |-> l, bad |-> bad'])))
Spec == Init /\ [][Next]_<<l, bad>>
=============================================================================
