---------------------------- MODULE SimplifyMC ----------------------------
(* Model check of the C12 design on every path of <= K vertices of an N x N grid and a set of thresholds:      *)
(* Douglas-Peucker: subsequence with endpoints, error bound, idempotent, monotone in the threshold;              *)
(* radial: subsequence with endpoints, spacing;  Visvalingam (every tie-break): subsequence with endpoints,      *)
(* minimum counts, keep-N exact, monotone in the threshold.                                                      *)
EXTENDS Simplify, TLC
CONSTANTS N, K, TS        \* TS: thresholds as numerators over the fixed denominator 16 (t = sqrt(n)/4)
VARIABLE ls
Pts == (0..(N-1)) \X (0..(N-1))
Init == ls = <<>>
Next == Len(ls) < K /\ \E p \in Pts : ls' = Append(ls, p)
Spec == Init /\ [][Next]_ls
D == 16
DP == \A n \in TS : LET out == DPImpl(ls, n, D) IN
        /\ Base(ls, out) /\ (Len(ls) >= 2 => DPBound(ls, out, n, D))
        /\ DPImpl(out, n, D) = out
        /\ \A m \in TS : m > n => IsSubseq(DPImpl(ls, m, D), out)
\* whichever of several exactly equally far vertices is split at: still a subsequence within the bound, and DPImpl is one
DPAll == \A n \in TS : /\ DPImpl(ls, n, D) \in DPImplResults(ls, n, D)
                        /\ \A out \in DPImplResults(ls, n, D) : Base(ls, out) /\ (Len(ls) >= 2 => DPBound(ls, out, n, D))
Radial == \A n \in TS : LET out == RadialImpl(ls, n, D) IN Base(ls, out) /\ RadialSpacing(out, n, D)
Vis == \A an \in TS : \A keep \in 2..4 :
         \A r \in VisImplResults(ls, an, D, keep) :
            LET out == [i \in 1..Len(r) |-> ls[r[i]]] IN
            /\ Base(ls, out) /\ MinCount(ls, out, keep)
            \* some result for every larger threshold is contained in this one
            /\ \A am \in TS : am > an => \E r2 \in VisImplResults(ls, am, D, keep) : \A i \in 1..Len(r2) : \E j \in 1..Len(r) : r[j] = r2[i]
VisKeepN == \A keep \in 2..4 : \A r \in VisImplResults(ls, 1000000, 1, keep) : Len(ls) > keep => Len(r) = keep
=============================================================================
