---------------------------- MODULE CoreAccessors ----------------------------
(* Extended coverage (X06): the small total functions every other package builds on - kind tables (dimension,       *)
(* GeoJSON type word) and the accessors of a bound <<minx, miny, maxx, maxy>> on integer coordinates.                *)
EXTENDS Integers, Sequences
MaxS(S) == CHOOSE x \in S : \A y \in S : x >= y
RECURSIVE Dim(_)
Dim(g) == CASE g.t \in {"Point", "MultiPoint"} -> 0
            [] g.t \in {"LineString", "MultiLineString"} -> 1
            [] g.t \in {"Ring", "Polygon", "MultiPolygon", "Bound"} -> 2
            [] g.t = "Collection" -> IF g.g = <<>> THEN -1 ELSE MaxS({Dim(g.g[i]) : i \in 1..Len(g.g)})
\* a ring and a bound are spelled as the polygon they denote
TypeWord(g) == CASE g.t \in {"Ring", "Bound"} -> "Polygon" [] g.t = "Collection" -> "GeometryCollection" [] OTHER -> g.t
Pad(b, d) == <<b[1] - d, b[2] - d, b[3] + d, b[4] + d>>
Center2(b) == <<b[1] + b[3], b[2] + b[4]>>                    \* twice the centre
IsEmptyB(b) == b[1] > b[3] \/ b[2] > b[4]
IsZeroB(b) == b = <<0, 0, 0, 0>>
\* counter-clockwise from the bottom-left corner, closed
ToRing(b) == << <<b[1], b[2]>>, <<b[3], b[2]>>, <<b[3], b[4]>>, <<b[1], b[4]>>, <<b[1], b[2]>> >>
=============================================================================
