SPECIFICATION Spec
CONSTANTS MODE = "wkb"  MAXLEN = 1
INVARIANT Emit
CHECK_DEADLOCK FALSE
