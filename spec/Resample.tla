---------------------------- MODULE Resample ----------------------------
(* C17: resampling a line to N evenly spaced points.  Paths have integer vertices and INTEGER segment lengths  *)
(* (axis-aligned or Pythagorean segments under the planar distance, any integer path under an L1 distance        *)
(* function), so every requested arclength k*L/(N-1) and every output coordinate is an exact rational:           *)
(* outputs are compared scaled by S = (N-1) * M, M = lcm of the non-zero segment lengths.                        *)
(* Abstract layer: Expected = the closed form.  Implementation-shaped layer: Walk = the cumulative-distance      *)
(* loop of resample/line_string.go in exact arithmetic (distances in units of 1/(N-1)).                          *)
EXTENDS Integers, Sequences, FiniteSets
RECURSIVE Sum(_)
Sum(s) == IF s = <<>> THEN 0 ELSE Head(s) + Sum(Tail(s))
Scaled(v, S) == <<S * v[1], S * v[2]>>
\* point at arclength num/n1 on segment i (which starts at arclength acc), scaled by S = n1 * M
OnSegment(vs, lens, i, acc, num, n1, M) ==
   <<n1*M*vs[i][1] + ((vs[i+1][1]-vs[i][1]) * (num - acc*n1) * M) \div lens[i],
     n1*M*vs[i][2] + ((vs[i+1][2]-vs[i][2]) * (num - acc*n1) * M) \div lens[i]>>
RECURSIVE At(_,_,_,_,_,_,_)
At(vs, lens, i, acc, num, n1, M) ==      \* first segment of positive length whose end is at or beyond num/n1
  IF i = Len(lens) \/ (lens[i] > 0 /\ num <= (acc + lens[i]) * n1)
  THEN IF lens[i] = 0 THEN Scaled(vs[i], n1*M) ELSE OnSegment(vs, lens, i, acc, num, n1, M)
  ELSE At(vs, lens, i+1, acc + lens[i], num, n1, M)
AllEqual(vs) == \A i \in 1..Len(vs) : vs[i] = vs[1]
\* what must come back, scaled by S = (N-1)*M (S = M when N = 1)
Expected(vs, lens, N, M) ==
   LET L == Sum(lens)  n1 == N - 1 IN
   IF N <= 0 THEN <<>>
   ELSE IF Len(vs) <= 1 THEN [k \in 1..Len(vs) |-> Scaled(vs[k], (IF n1 <= 0 THEN 1 ELSE n1) * M)]      \* returned as it is
   ELSE IF AllEqual(vs) THEN [k \in 1..N |-> Scaled(vs[1], (IF n1 = 0 THEN 1 ELSE n1) * M)]              \* padded / truncated
   ELSE IF N = 1 THEN <<Scaled(vs[1], M)>>
   ELSE [k \in 1..N |-> IF k = N THEN Scaled(vs[Len(vs)], n1*M) ELSE At(vs, lens, 1, 0, (k-1)*L, n1, M)]
\* ToInterval: N = floor(L / d) + 1 with d = dn/dd
IntervalCount(lens, dn, dd) == (Sum(lens) * dd) \div dn + 1

\* ---------- implementation-shaped: the cumulative-distance walk ------------------------------------------------
\* cd = the next wanted arclength in units of 1/n1 (step*L; forced to n1*L at the last step, as the code pins it)
RECURSIVE Inner(_,_,_,_,_,_,_,_,_)
Inner(vs, lens, i, dist, step, pts, N, M, L) ==      \* returns <<step, pts>>
   LET n1 == N - 1  cd == IF step = n1 THEN n1 * L ELSE step * L  nxt == (dist + lens[i]) * n1 IN
   IF step <= n1 /\ cd <= nxt /\ Len(pts) < N + 2
   THEN Inner(vs, lens, i, dist, step + 1, Append(pts, OnSegment(vs, lens, i, dist, cd, n1, M)), N, M, L)
   ELSE <<step, pts>>
RECURSIVE Outer(_,_,_,_,_,_,_,_)
Outer(vs, lens, i, dist, step, pts, N, M) ==
   IF i > Len(lens) THEN pts
   ELSE LET r == IF lens[i] = 0 THEN <<step, pts>> ELSE Inner(vs, lens, i, dist, step, pts, N, M, Sum(lens)) IN
        Outer(vs, lens, i + 1, dist + lens[i], r[1], r[2], N, M)
Walk(vs, lens, N, M) ==
   IF N = 1 THEN <<Scaled(vs[1], M)>>
   ELSE LET pts == Outer(vs, lens, 1, 0, 1, <<Scaled(vs[1], (N-1)*M)>>, N, M) IN
        IF Len(pts) >= N THEN [k \in 1..Len(pts) |-> IF k = N THEN Scaled(vs[Len(vs)], (N-1)*M) ELSE pts[k]]
        ELSE <<"index out of range">>
=============================================================================
