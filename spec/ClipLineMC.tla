---------------------------- MODULE ClipLineMC ----------------------------
(* Model check of the C07 design: the Cohen-Sutherland transcription refines the abstract           *)
(* "segment /\ box, maximal chains" specification for every box and every path of <= K vertices on   *)
(* a G x G grid, both options; every output vertex is in the box; clipping a piece again gives the   *)
(* piece; a wholly-inside path is returned as is.                                                    *)
EXTENDS ClipLine, TLC
CONSTANTS G, BLO, BHI, K
S == 60
VARIABLES box, path, open
Pt == {<<S*x, S*y>> : x \in 0..(G-1), y \in 0..(G-1)}
Boxes == {<<S*x0, S*y0, S*x1, S*y1>> : x0 \in BLO..BHI, y0 \in BLO..BHI, x1 \in BLO..BHI, y1 \in BLO..BHI}
Init == /\ box \in {b \in Boxes : b[1] < b[3] /\ b[2] < b[4]} /\ open \in BOOLEAN /\ path = <<>>
Next == /\ Len(path) < K /\ \E p \in Pt : path' = Append(path, p)
        /\ UNCHANGED <<box, open>>
Spec == Init /\ [][Next]_<<box, path, open>>
Refines  == Norm(CSLine(box, path, open)) = Expected(box, path, open)
InBoxAll == AllInBox(box, CSLine(box, path, open))
OnInput  == LET o == CSLine(box, path, open) IN \A i \in 1..Len(o) : \A j \in 1..Len(o[i]) : OnPath(path, o[i][j])
Idem     == LET o == CSLine(box, path, open) IN \A i \in 1..Len(o) : Len(Dedup(o[i])) >= 2 => CSLine(box, o[i], open) = <<o[i]>>
InsideAsIs == (Len(path) >= 2 /\ WhollyInside(box, path, open)) => CSLine(box, path, open) = <<path>>
Lattice  == LatticeOK(box, path)
=============================================================================
