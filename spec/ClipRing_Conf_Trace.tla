---------------------------- MODULE ClipRing_Conf_Trace ----------------------------
(* Extended coverage (X04): the real clip.Ring against SHRing, the four-pass Sutherland-Hodgman transcription that  *)
(* ClipRingMC model-checks: the very vertex sequence, not only the region.  Same events as ClipRing_Trace; judged    *)
(* for single-ring events (clip.Ring and the generic clip of a ring).                                                *)
EXTENDS ClipRing, TLC, Json, IOUtils
Trace == ndJsonDeserialize(IOEnv.TRACE)
VARIABLES l, bad
\* vertices repeated in a row are dropped on both sides: the code computes one crossing point twice from different ends
\* of a segment and the two float results may differ in the last bit, so that its closing test appends the first vertex again
RECURSIVE Dd(_)
Dd(r) == IF Len(r) <= 1 THEN r ELSE IF r[1] = r[2] THEN Dd(Tail(r)) ELSE <<r[1]>> \o Dd(Tail(r))
Ok(e) == \/ e.k # "clipring" \/ e.fn \notin {"Ring", "GeometryRing"}
         \/ LET want == SHRing(e.box, e.in[1][1]) IN
            IF want = <<>> THEN e.out = <<>> ELSE Len(e.out) = 1 /\ Len(e.out[1]) = 1 /\ Dd(e.out[1][1]) = Dd(want)
Init == l = 1 /\ bad = {}
Next == /\ l <= Len(Trace) /\ l' = l + 1
        /\ bad' = IF Ok(Trace[l]) THEN bad ELSE bad \cup {l}
        /\ (l = Len(Trace) => PrintT(ToJson([done |-> l, bad |-> bad'])))
Spec == Init /\ [][Next]_<<l, bad>>
=============================================================================
