SPECIFICATION Spec
CONSTANTS N = 4  K = 4
INVARIANTS AreaLaws CentroidLaws DistLaws
CHECK_DEADLOCK FALSE
