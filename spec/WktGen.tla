---------------------------- MODULE WktGen ----------------------------
(* Re-spelling patterns for C04 replay: a pattern is a set of at most two gap positions (as fractions k/12 of the  *)
(* token sequence, resolved by the harness to the nearest admissible gap) where white space is inserted, plus a     *)
(* keyword case class and the kind of white space.                                                                  *)
EXTENDS Integers, FiniteSets, TLC, Json
VARIABLE pat
Gaps == 0..12
Pats == {[gaps |-> <<a, b>>, kase |-> c, ws |-> w] : a \in Gaps, b \in Gaps, c \in {"upper", "lower", "mixed"}, w \in {"space", "tab", "two"}}
Init == pat \in {p \in Pats : p.gaps[1] <= p.gaps[2]}
Next == UNCHANGED pat
Spec == Init /\ [][Next]_pat
Emit == PrintT(ToJson(pat))
=============================================================================
