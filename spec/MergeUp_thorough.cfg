SPECIFICATION Spec
CONSTANTS
  MAXZ = 2
INVARIANTS Correct SameArea Disjoint NoQuadLeft NotShallower
CHECK_DEADLOCK FALSE
