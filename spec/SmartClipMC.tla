---------------------------- MODULE SmartClipMC ----------------------------
(* Model check of the aroundBound corner walk: the two tables are cyclic permutations of the eight boundary     *)
(* positions and inverse to each other; from every position to every other the walk ends within seven steps;     *)
(* consecutive positions share a side of the box; walking counter-clockwise around the box turns left            *)
(* (positive shoelace of the visited representative points), clockwise turns right.                              *)
EXTENDS SmartClip, TLC
VARIABLES from, to, o
Init == from \in Codes /\ to \in Codes /\ o \in {1, -1}
Next == UNCHANGED <<from, to, o>>
Spec == Init /\ [][Next]_<<from, to, o>>
Bx == <<0, 0, 4, 2>>
Inverse == NextCW(NextCCW(from)) = from /\ NextCCW(NextCW(from)) = from
RECURSIVE Orbit(_,_,_)
Orbit(c, n, acc) == IF n = 0 THEN acc ELSE Orbit(NextCCW(c), n - 1, acc \cup {c})
Cyclic == Orbit(from, 8, {}) = Codes
Terminates == LET w == Wrap(o, from, to) IN w # <<0>> /\ Len(w) <= 7
SharesSide(a, b) == LET p == PointFor2(Bx, a) q == PointFor2(Bx, b) IN p[1] = q[1] \/ p[2] = q[2]
Adjacent == SharesSide(from, NextOf(o, from))
\* the full loop from `from` back to itself has the sign of the orientation
Loop == LET w == <<from>> \o Wrap(o, from, from) IN [i \in 1..Len(w) |-> PointFor2(Bx, w[i])]
Turns == Sign(Shoelace2(Loop)) = o
=============================================================================
