---------------------------- MODULE Wkt ----------------------------
(* C04: WKT at token level.  Tokens are strings: keywords (upper case), "EMPTY", "(", ")", ",", " " (a run of  *)
(* white space) and "#<id>" for a number whose float64 bit pattern has the interned id.  Print is the token       *)
(* sequence wkt() must produce; Parse is the recursive-descent grammar of 2-d OGC WKT, in which white space is     *)
(* irrelevant except as the separator of the two numbers of a coordinate.  Geometries are GeomValue records.      *)
EXTENDS Integers, Sequences, FiniteSets, TLC

Num(id) == "#" \o ToString(id)
RECURSIVE Join(_,_)
Join(ss, sep) == IF ss = <<>> THEN <<>> ELSE IF Len(ss) = 1 THEN ss[1] ELSE ss[1] \o sep \o Join(Tail(ss), sep)
Coord(p) == <<Num(p[1]), " ", Num(p[2])>>
PtList(ps) == <<"(">> \o Join([i \in 1..Len(ps) |-> Coord(ps[i])], <<",">>) \o <<")">>
WBoundRing(b) == << <<b[1],b[2]>>, <<b[3],b[2]>>, <<b[3],b[4]>>, <<b[1],b[4]>>, <<b[1],b[2]>> >>
RECURSIVE WPrint(_)
WPrint(g) ==
  CASE g.t = "nil"        -> <<>>
    [] g.t = "Point"      -> <<"POINT", "(">> \o Coord(g.c) \o <<")">>
    [] g.t = "MultiPoint" -> IF g.c = <<>> THEN <<"MULTIPOINT", " ", "EMPTY">>
                             ELSE <<"MULTIPOINT", "(">> \o Join([i \in 1..Len(g.c) |-> <<"(">> \o Coord(g.c[i]) \o <<")">>], <<",">>) \o <<")">>
    [] g.t = "LineString" -> IF g.c = <<>> THEN <<"LINESTRING", " ", "EMPTY">> ELSE <<"LINESTRING">> \o PtList(g.c)
    [] g.t = "MultiLineString" -> IF g.c = <<>> THEN <<"MULTILINESTRING", " ", "EMPTY">>
                             ELSE <<"MULTILINESTRING", "(">> \o Join([i \in 1..Len(g.c) |-> PtList(g.c[i])], <<",">>) \o <<")">>
    \* a ring is printed as the polygon it denotes; the empty ring is an empty value and takes the EMPTY form
    [] g.t = "Ring"       -> WPrint([t |-> "Polygon", c |-> IF g.c = <<>> THEN <<>> ELSE <<g.c>>])
    [] g.t = "Bound"      -> WPrint([t |-> "Polygon", c |-> <<WBoundRing(g.c)>>])
    [] g.t = "Polygon"    -> IF g.c = <<>> THEN <<"POLYGON", " ", "EMPTY">>
                             ELSE <<"POLYGON", "(">> \o Join([i \in 1..Len(g.c) |-> PtList(g.c[i])], <<",">>) \o <<")">>
    [] g.t = "MultiPolygon" -> IF g.c = <<>> THEN <<"MULTIPOLYGON", " ", "EMPTY">>
                             ELSE <<"MULTIPOLYGON", "(">> \o
                                  Join([i \in 1..Len(g.c) |-> <<"(">> \o Join([j \in 1..Len(g.c[i]) |-> PtList(g.c[i][j])], <<",">>) \o <<")">>], <<",">>) \o <<")">>
    [] g.t = "Collection" -> IF g.g = <<>> THEN <<"GEOMETRYCOLLECTION", " ", "EMPTY">>
                             ELSE <<"GEOMETRYCOLLECTION", "(">> \o Join([i \in 1..Len(g.g) |-> WPrint(g.g[i])], <<",">>) \o <<")">>
RECURSIVE Canon(_)
Canon(g) == IF g.t = "Ring" THEN [t |-> "Polygon", c |-> IF g.c = <<>> THEN <<>> ELSE <<g.c>>]
            ELSE IF g.t = "Bound" THEN [t |-> "Polygon", c |-> <<WBoundRing(g.c)>>]
            ELSE IF g.t = "Collection" THEN [t |-> "Collection", g |-> [i \in 1..Len(g.g) |-> Canon(g.g[i])]] ELSE g

\* ---------------- parser ------------------------------------------------------------------------------------
IsNum(tk) == Len(tk) >= 1 /\ SubSeq(tk, 1, 1) = "#"
\* drop white space except where it separates two words: the two numbers of a coordinate, or a keyword and EMPTY
IsWord(tk) == IsNum(tk) \/ tk \notin {"(", ")", ",", " "}
RECURSIVE Squeeze(_, _)
Squeeze(ts, i) == IF i > Len(ts) THEN <<>>
   ELSE IF ts[i] = " " /\ ~(i > 1 /\ i < Len(ts) /\ IsWord(ts[i-1]) /\ IsWord(ts[i+1])) THEN Squeeze(ts, i + 1)
   ELSE <<ts[i]>> \o Squeeze(ts, i + 1)
WFail == [ok |-> FALSE]
At(ts, p) == IF p <= Len(ts) THEN ts[p] ELSE "<eof>"
PCoord(ts, p) == IF IsNum(At(ts, p)) /\ At(ts, p+1) = " " /\ IsNum(At(ts, p+2))
                 THEN [ok |-> TRUE, v |-> <<At(ts, p), At(ts, p+2)>>, p |-> p + 3] ELSE WFail
\* "(" item ("," item)* ")" where the kind of item is named by lvl: "coord", "mpitem", "pts", "rings", "geom"
RECURSIVE PList(_,_,_,_), Item(_,_,_), PGeom(_,_)
PList(lvl, ts, p, acc) ==
   LET it == Item(lvl, ts, p) IN
   IF ~it.ok THEN WFail
   ELSE IF At(ts, it.p) = "," THEN PList(lvl, ts, it.p + 1, Append(acc, it.v))
   ELSE IF At(ts, it.p) = ")" THEN [ok |-> TRUE, v |-> Append(acc, it.v), p |-> it.p + 1]
   ELSE WFail
PParen(lvl, ts, p) == IF At(ts, p) = "(" THEN PList(lvl, ts, p + 1, <<>>) ELSE WFail
Item(lvl, ts, p) ==
   CASE lvl = "coord"  -> PCoord(ts, p)
     [] lvl = "mpitem" -> IF At(ts, p) = "(" THEN LET c == PCoord(ts, p + 1) IN
                              IF c.ok /\ At(ts, c.p) = ")" THEN [ok |-> TRUE, v |-> c.v, p |-> c.p + 1] ELSE WFail
                          ELSE PCoord(ts, p)
     [] lvl = "pts"    -> PParen("coord", ts, p)
     [] lvl = "rings"  -> PParen("pts", ts, p)
     [] lvl = "geom"   -> PGeom(ts, p)
Keywords == {"POINT", "MULTIPOINT", "LINESTRING", "MULTILINESTRING", "POLYGON", "MULTIPOLYGON", "GEOMETRYCOLLECTION"}
KindOfKw(kw) == CASE kw = "POINT" -> "Point" [] kw = "MULTIPOINT" -> "MultiPoint" [] kw = "LINESTRING" -> "LineString"
                  [] kw = "MULTILINESTRING" -> "MultiLineString" [] kw = "POLYGON" -> "Polygon"
                  [] kw = "MULTIPOLYGON" -> "MultiPolygon" [] kw = "GEOMETRYCOLLECTION" -> "Collection"
PGeom(ts, p) ==
   LET kw == At(ts, p) IN
   IF kw \notin Keywords THEN WFail
   ELSE LET k == KindOfKw(kw) IN
   IF At(ts, p+1) = " " /\ At(ts, p+2) = "EMPTY" THEN
        (IF k = "Point" THEN WFail
         ELSE IF k = "Collection" THEN [ok |-> TRUE, v |-> [t |-> k, g |-> <<>>], p |-> p + 3]
         ELSE [ok |-> TRUE, v |-> [t |-> k, c |-> <<>>], p |-> p + 3])
   ELSE IF k = "Point" THEN (IF At(ts, p+1) = "(" THEN LET c == PCoord(ts, p + 2) IN
                                 IF c.ok /\ At(ts, c.p) = ")" THEN [ok |-> TRUE, v |-> [t |-> k, c |-> c.v], p |-> c.p + 1] ELSE WFail
                             ELSE WFail)
   ELSE IF k = "Collection" THEN LET r == PParen("geom", ts, p + 1) IN IF r.ok THEN [ok |-> TRUE, v |-> [t |-> k, g |-> r.v], p |-> r.p] ELSE WFail
   ELSE LET r == PParen(IF k = "MultiPoint" THEN "mpitem" ELSE IF k = "LineString" THEN "coord"
                        ELSE IF k \in {"MultiLineString", "Polygon"} THEN "pts" ELSE "rings", ts, p + 1) IN
        IF r.ok THEN [ok |-> TRUE, v |-> [t |-> k, c |-> r.v], p |-> r.p] ELSE WFail
\* numbers come back as their tokens; NumIds maps "#id" tokens back to ids through the event's table
Parse(ts0) == LET ts == Squeeze(ts0, 1)  r == PGeom(ts, 1) IN
              IF r.ok /\ r.p = Len(ts) + 1 THEN r ELSE WFail
\* the typed parse functions accept exactly the text of their own kind
TypedAccepts(kind, ts0) == LET ts == Squeeze(ts0, 1) IN Len(ts) >= 1 /\ At(ts, 1) \in Keywords /\ KindOfKw(At(ts, 1)) = kind
=============================================================================
