---------------------------- MODULE Generic_Trace ----------------------------
(* Trace validation for C20: one event = one entry point applied to one shape: the generic result, the      *)
(* result of the kind-specific function (hastyped = 1), the generic results on the members when the shape    *)
(* is a collection, and the argument re-read after the call.                                                 *)
EXTENDS Generic, TLC, Json, IOUtils
Trace == ndJsonDeserialize(IOEnv.TRACE)
VARIABLES l, bad
Ok(e) == /\ e.k = "gen"                                                 \* total: a panic is another event kind
         /\ (e.hastyped = 1 => ResEq(e.res, e.typed))                   \* generic = kind-specific
         /\ (e.g.t = "Collection" /\ e.haseach = 1 => CollLaw(e.fn, e.res, e.each))
         /\ (ReadOnly(e.fn) \/ e.ro = 1 => StructEq(e.post, e.g) /\ e.spare = 1)   \* read-only entry points: the argument, and the spare
                                                                        \* capacity behind each of its slices, are untouched
Init == l = 1 /\ bad = {}
Next == /\ l <= Len(Trace) /\ l' = l + 1
        /\ bad' = IF Ok(Trace[l]) THEN bad ELSE bad \cup {l}
        /\ (l = Len(Trace) => PrintT(ToJson([done |-> l, bad |-> bad'])))
Spec == Init /\ [][Next]_<<l, bad>>
=============================================================================
