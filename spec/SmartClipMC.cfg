SPECIFICATION Spec
INVARIANTS Inverse Cyclic Terminates Adjacent Turns
CHECK_DEADLOCK FALSE
