SPECIFICATION Spec
CONSTANTS
  C <- CBig
  MaxPts = 3
  MaxRings = 0
  Words = {0, 9, 17, 10, 18, 15, 7, 1, 2, 4}
  MaxWords = 4
INVARIANTS PointKinds LineKinds ZigZag DecoderTotal
CHECK_DEADLOCK FALSE
