---------------------------- MODULE WkbGen ----------------------------
(* Case generator for C01 replay: every geometry of the bounded shape set of WkbMC, as JSON with         *)
(* coordinate ids 1..3 (the harness maps them to the three header-looking bit patterns of Tab).            *)
EXTENDS WkbMC, Json
Emit == PrintT(ToJson([g |-> g]))
=============================================================================
