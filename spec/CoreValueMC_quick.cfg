SPECIFICATION Spec
CONSTANTS R = 3  N = 3  K = 4
INVARIANTS Laws RingLaws
CHECK_DEADLOCK FALSE
