SPECIFICATION SpliceSpec
CONSTANT N = 3
INVARIANT SpliceFinal
CHECK_DEADLOCK FALSE
