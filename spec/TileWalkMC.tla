---------------------------- MODULE TileWalkMC ----------------------------
(* Model check: for every segment between lattice points of a W x W tile window (u units per tile) the walk of        *)
(* tilecover.line() covers every tile the segment really passes through and no tile it stays away from:               *)
(* Must <= SegWalk <= May - also when the segment runs along tile edges or through tile corners - and the walk          *)
(* never leaves the window.                                                                                           *)
EXTENDS TileWalk, TLC
CONSTANTS U, W
VARIABLES a, b
Pts == (0..(U*W)) \X (0..(U*W))
Init == a \in Pts /\ b \in Pts
Next == UNCHANGED <<a, b>>
Spec == Init /\ [][Next]_<<a, b>>
Seg == <<a, b>>
\* the walk may start in the tile right of / below the window when the start point lies on the window's far edge
InWin(t) == t[1] \in 0..W /\ t[2] \in 0..W
WalkOK == LET c == SegWalk(U, a, b) IN
   a # b => /\ \A t \in c : InWin(t)
            /\ Must(U, Seg, W) \subseteq c
            /\ (c \cap Tiles(W)) \subseteq May(U, Seg, W)
\* non-vacuity: a walk that steps only while BOTH parameters are below 1 (a plausible slip for "||") stops too early
RECURSIVE BadLoop(_, _, _, _, _, _, _, _, _, _)
BadLoop(x, y, nx, ny, adx, ady, sx, sy, u, acc) ==
   IF ~((adx # 0 /\ nx < adx) /\ (ady # 0 /\ ny < ady)) THEN acc
   ELSE IF nx * ady < ny * adx THEN BadLoop(x + sx, y, nx + u, ny, adx, ady, sx, sy, u, acc \cup {<<x + sx, y>>})
        ELSE BadLoop(x, y + sy, nx, ny + u, adx, ady, sx, sy, u, acc \cup {<<x, y + sy>>})
BadWalkOK == a # b => LET dx == b[1] - a[1]  dy == b[2] - a[2]
                          x0 == FloorDiv(a[1], U)  y0 == FloorDiv(a[2], U)
                          nx == AbsI(U * ((IF dx > 0 THEN 1 ELSE 0) + x0) - a[1])
                          ny == AbsI(U * ((IF dy > 0 THEN 1 ELSE 0) + y0) - a[2])
                      IN Must(U, Seg, W) \subseteq BadLoop(x0, y0, nx, ny, AbsI(dx), AbsI(dy), IF dx > 0 THEN 1 ELSE -1, IF dy > 0 THEN 1 ELSE -1, U, {<<x0, y0>>})
=============================================================================
