---------------------------- MODULE PlanarMeasure ----------------------------
(* C10: planar area, centroid, length and distance on integer geometries, as exact integers / rationals.      *)
(*  Area2(ring)   twice the signed shoelace area (implicitly closed)                                            *)
(*  polygon       |outer| - sum |holes| ; multipolygon = sum ; collection = sum over the top-dimensional members *)
(*  centroid      <<Nx, Ny, D>> meaning (Nx/D, Ny/D): area-weighted for 2-d, length-weighted for 1-d (integer     *)
(*                segment lengths), count-weighted for 0-d                                                         *)
(*  distance      squared point-segment distance <<num, den>> with the projection clamped to the segment;          *)
(*                distance-from = the minimum over all boundary segments                                            *)
EXTENDS Exact2D

\* ---- area ---------------------------------------------------------------------------------------------------
RingArea2(r) == Shoelace2(r)
RECURSIVE HolesAbs2(_, _)
HolesAbs2(pg, j) == IF j > Len(pg) THEN 0 ELSE Abs(Shoelace2(pg[j])) + HolesAbs2(pg, j + 1)
PolyArea2(pg) == IF Len(pg) = 0 THEN 0 ELSE Abs(Shoelace2(pg[1])) - HolesAbs2(pg, 2)
RECURSIVE MPArea2(_, _)
MPArea2(mp, i) == IF i > Len(mp) THEN 0 ELSE PolyArea2(mp[i]) + MPArea2(mp, i + 1)

\* ---- first moments: for a ring, (Mx, My) with centroid = (Mx, My) / (3 * Area2) ------------------------------
RECURSIVE MomentFrom(_, _, _)
MomentFrom(r, i, d) == IF i > Len(r) THEN 0
   ELSE LET a == r[i]  b == EdgeB(r, i) IN (a[d] + b[d]) * (a[1]*b[2] - b[1]*a[2]) + MomentFrom(r, i + 1, d)
RingMoment(r, d) == IF Len(r) = 0 THEN 0 ELSE MomentFrom(r, 1, d)
\* |A| * C contributions: sign(S) * M / 6
RECURSIVE HoleMoments(_, _, _)
HoleMoments(pg, j, d) == IF j > Len(pg) THEN 0 ELSE Sign(Shoelace2(pg[j])) * RingMoment(pg[j], d) + HoleMoments(pg, j + 1, d)
PolyMoment(pg, d) == Sign(Shoelace2(pg[1])) * RingMoment(pg[1], d) - HoleMoments(pg, 2, d)
\* centroid of a polygon with positive area: <<Nx, Ny, D>>
PolyCentroid(pg) == <<PolyMoment(pg, 1), PolyMoment(pg, 2), 3 * PolyArea2(pg)>>
RingCentroid(r) == <<RingMoment(r, 1), RingMoment(r, 2), 3 * Shoelace2(r)>>
RECURSIVE MPMoment(_, _, _)
\* a polygon of zero area has no weight in the area-weighted mean
MPMoment(mp, i, d) == IF i > Len(mp) THEN 0 ELSE (IF PolyArea2(mp[i]) = 0 THEN 0 ELSE PolyMoment(mp[i], d)) + MPMoment(mp, i + 1, d)
MPCentroid(mp) == <<MPMoment(mp, 1, 1), MPMoment(mp, 1, 2), 3 * MPArea2(mp, 1)>>
\* points: count-weighted
RECURSIVE SumCoord(_, _, _)
SumCoord(ps, i, d) == IF i > Len(ps) THEN 0 ELSE ps[i][d] + SumCoord(ps, i + 1, d)
PointsCentroid(ps) == <<SumCoord(ps, 1, 1), SumCoord(ps, 1, 2), Len(ps)>>
\* lines with integer segment lengths: sum of midpoint * length, over total length (doubled to stay integral)
RECURSIVE LineMoment(_, _, _, _)
LineMoment(ls, lens, i, d) == IF i > Len(lens) THEN 0 ELSE (ls[i][d] + ls[i+1][d]) * lens[i] + LineMoment(ls, lens, i + 1, d)
RECURSIVE SumSeq(_, _)
SumSeq(s, i) == IF i > Len(s) THEN 0 ELSE s[i] + SumSeq(s, i + 1)
LineCentroid(ls, lens) == <<LineMoment(ls, lens, 1, 1), LineMoment(ls, lens, 1, 2), 2 * SumSeq(lens, 1)>>
\* q = round(c * 1000) agrees with N/D to within one unit of the rounding
CloseTo(q, n, dd) == dd # 0 /\ Abs(q * dd - 1000 * n) <= Abs(dd)

\* ---- distances ---------------------------------------------------------------------------------------------
SegD2(a, b, p) ==       \* <<num, den>>, den > 0
  IF a = b THEN <<D2(p, a), 1>>
  ELSE LET dt == Dot(a, b, p)  l2 == D2(a, b) IN
       IF dt <= 0 THEN <<D2(p, a), 1>> ELSE IF dt >= l2 THEN <<D2(p, b), 1>>
       ELSE <<Cross(a, b, p) * Cross(a, b, p), l2>>
RatLE(x, y) == x[1] * y[2] <= y[1] * x[2]
\* all boundary segments of a list of paths (each path: listed segments only)
Segs(paths) == UNION {{<<paths[i][j], paths[i][j+1]>> : j \in 1..(Len(paths[i]) - 1)} : i \in 1..Len(paths)}
MinSegD2(paths, p) == LET S == {SegD2(s[1], s[2], p) : s \in Segs(paths)} IN
                      CHOOSE x \in S : \A y \in S : RatLE(x, y)
\* integer square root
RECURSIVE ISqrtB(_, _, _)
ISqrtB(n, lo, hi) == IF lo >= hi THEN lo ELSE LET mid == (lo + hi + 1) \div 2 IN
                     IF mid * mid <= n THEN ISqrtB(n, mid, hi) ELSE ISqrtB(n, lo, mid - 1)
ISqrt(n) == ISqrtB(n, 0, 46340)
\* length of a path in units of 1/100, bracketed: <<lo, hi>>
RECURSIVE LenBracket(_, _)
LenBracket(ls, i) == IF i >= Len(ls) THEN <<0, 0>>
   ELSE LET r == ISqrt(D2(ls[i], ls[i+1]) * 10000)  rest == LenBracket(ls, i + 1) IN
        <<r + rest[1], (IF r * r = D2(ls[i], ls[i+1]) * 10000 THEN r ELSE r + 1) + rest[2]>>
=============================================================================
