SPECIFICATION Spec
CONSTANTS MODE = "wkt"  MAXLEN = 5
INVARIANT Emit
CHECK_DEADLOCK FALSE
