---------------------------- MODULE PlanarMeasureMC ----------------------------
(* Model check of the C10 definitions on every ring of <= K vertices of an N x N grid: the signed area changes   *)
(* sign under reversal, is invariant under rotation of the start vertex and under translation; the centroid is    *)
(* translation-covariant and, for a convex ring, lies in the ring's bound; the point-segment distance is zero      *)
(* exactly on the segment and symmetric in the segment's direction.                                                 *)
EXTENDS PlanarMeasure, TLC
CONSTANTS N, K
VARIABLE ring
Pts == (0..(N-1)) \X (0..(N-1))
Init == ring = <<>>
Next == Len(ring) < K /\ \E p \in Pts : ring' = Append(ring, p)
Spec == Init /\ [][Next]_ring
Rot(r, k) == [i \in 1..Len(r) |-> r[((i + k - 1) % Len(r)) + 1]]
Rev(r) == [i \in 1..Len(r) |-> r[Len(r) + 1 - i]]
Shift(r, v) == [i \in 1..Len(r) |-> <<r[i][1] + v[1], r[i][2] + v[2]>>]
Convex(r) == \/ \A i \in 1..Len(r) : Cross(r[i], EdgeB(r, i), EdgeB(r, (i % Len(r)) + 1)) >= 0
             \/ \A i \in 1..Len(r) : Cross(r[i], EdgeB(r, i), EdgeB(r, (i % Len(r)) + 1)) <= 0
AreaLaws == Len(ring) >= 1 =>
   /\ RingArea2(Rev(ring)) = -RingArea2(ring)
   /\ \A k \in 1..(Len(ring)-1) : RingArea2(Rot(ring, k)) = RingArea2(ring)
   /\ RingArea2(Shift(ring, <<7, -3>>)) = RingArea2(ring)
   /\ RingArea2(Append(ring, ring[1])) = RingArea2(ring)
CentroidLaws == (Len(ring) >= 3 /\ RingArea2(ring) # 0) =>
   LET c == RingCentroid(ring)  cs == RingCentroid(Shift(ring, <<7, -3>>)) IN
   /\ cs[3] = c[3] /\ cs[1] = c[1] + 7 * c[3] /\ cs[2] = c[2] - 3 * c[3]
   /\ RingCentroid(Rot(ring, 1)) = c
   /\ (Convex(ring) => LET xs == {ring[i][1] : i \in 1..Len(ring)}  ys == {ring[i][2] : i \in 1..Len(ring)} IN
         \A x \in xs : TRUE /\
         (IF c[3] > 0 THEN (\E lo \in xs : lo * c[3] <= c[1]) /\ (\E hi \in xs : c[1] <= hi * c[3]) /\ (\E lo \in ys : lo * c[3] <= c[2]) /\ (\E hi \in ys : c[2] <= hi * c[3])
          ELSE (\E lo \in xs : lo * c[3] >= c[1]) /\ (\E hi \in xs : c[1] >= hi * c[3]) /\ (\E lo \in ys : lo * c[3] >= c[2]) /\ (\E hi \in ys : c[2] >= hi * c[3])))
DistLaws == Len(ring) >= 3 =>
   LET a == ring[1] b == ring[2] p == ring[3] IN
   /\ (SegD2(a, b, p)[1] = 0) = OnSeg(a, b, p)
   /\ SegD2(a, b, p)[1] * SegD2(b, a, p)[2] = SegD2(b, a, p)[1] * SegD2(a, b, p)[2]
=============================================================================
