---------------------------- MODULE ContainsMC ----------------------------
(* Model check of the C09 design: the ray-cast transcription equals the exact even-odd predicate  *)
(* on every ring of K vertices on an N x N grid against every half-step lattice point, and the    *)
(* abstract predicate is invariant under rotation, reversal and explicit closing.                 *)
EXTENDS Contains, TLC
CONSTANTS N, K
Grid == {<<2*x, 2*y>> : x \in 0..(N-1), y \in 0..(N-1)}      \* units of 1/2
Q    == {<<x, y>> : x \in 0..(2*N-2), y \in 0..(2*N-2)}
VARIABLE ring
Rot(r, k) == [i \in 1..Len(r) |-> r[((i + k - 1) % Len(r)) + 1]]
Rev(r)    == [i \in 1..Len(r) |-> r[Len(r) + 1 - i]]
\* rings grow one vertex per step so that TLC's workers share the enumeration; every ring of 1..K
\* vertices is a reachable state and every invariant is evaluated on it
Init == ring = <<>>
Next == Len(ring) < K /\ \E g \in Grid : ring' = Append(ring, g)
Spec == Init /\ [][Next]_ring
NE == Len(ring) > 0
ImplRefinesAbstract == NE => \A p \in Q : RingContainsImpl(ring, p) = InRingEO(ring, p)
RotationInvariant   == NE => \A p \in Q : \A k \in 1..(Len(ring)-1) : InRingEO(Rot(ring, k), p) = InRingEO(ring, p)
ReversalInvariant   == NE => \A p \in Q : InRingEO(Rev(ring), p) = InRingEO(ring, p)
ClosingInvariant    == NE => \A p \in Q : InRingEO(Append(ring, ring[1]), p) = InRingEO(ring, p)
ImplClosingInvariant == NE => \A p \in Q : RingContainsImpl(Append(ring, ring[1]), p) = InRingEO(ring, p)
=============================================================================
