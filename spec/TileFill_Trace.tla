---------------------------- MODULE TileFill_Trace ----------------------------
(* Trace validation for X09: the "poly" events of the tilecover family (one real tilecover.Polygon / Ring /          *)
(* MultiPolygon / Geometry call on lattice polygons inside a W x W tile window, u units per tile, rings logged        *)
(* unclosed and handed over closed) are judged a second time, exactly: when the figure is in general position -      *)
(* no vertex on a tile line, no edge within a unit of a tile corner, so that neither the floor of a vertex nor the    *)
(* order of two crossings depends on floating-point rounding - the cover must be, tile for tile, what the             *)
(* transcription of polygon() in TileFill gives (union over the members of a multi-polygon), without error.           *)
(* Other events are left to TileCover_Trace (C14), which allows either choice at an exact corner or edge crossing.    *)
EXTENDS TileFill, TLC, Json, IOUtils
Trace == ndJsonDeserialize(IOEnv.TRACE)
VARIABLES l, bad, exact
Closed(r) == IF r[Len(r)] = r[1] THEN r ELSE Append(r, r[1])
ClosedPoly(p) == [j \in 1..Len(p) |-> Closed([i \in 1..Len(p[j]) |-> <<p[j][i][1], p[j][i][2]>>])]
AbsV(x) == IF x < 0 THEN -x ELSE x
SegGP(u, w, a, b) == a = b \/ \A i \in 0..w : \A j \in 0..w :
   LET c == <<u * i, u * j>> IN
   (Min2(a[1], b[1]) - 1 <= c[1] /\ c[1] <= Max2(a[1], b[1]) + 1 /\ Min2(a[2], b[2]) - 1 <= c[2] /\ c[2] <= Max2(a[2], b[2]) + 1)
      => AbsV(Cross(a, b, c)) >= AbsV(b[1] - a[1]) + AbsV(b[2] - a[2])
RingGP(u, w, r) == /\ \A i \in 1..Len(r) : r[i][1] % u # 0 /\ r[i][2] % u # 0
                   /\ \A i \in 1..(Len(r) - 1) : SegGP(u, w, r[i], r[i+1])
GP(u, w, polys) == \A k \in 1..Len(polys) : \A j \in 1..Len(polys[k]) : RingGP(u, w, polys[k][j])
TileSet(s) == {<<s[i][1], s[i][2]>> : i \in DOMAIN s}
Judged(e) == e.k = "poly" /\ e.err = 0 /\ GP(e.u, e.w, [k \in 1..Len(e.polys) |-> ClosedPoly(e.polys[k])])
Ok(e) == LET ps == [k \in 1..Len(e.polys) |-> ClosedPoly(e.polys[k])]
             cs == [k \in 1..Len(ps) |-> PolygonCover(e.u, ps[k])]
         IN /\ \A k \in 1..Len(cs) : ~cs[k].err
            /\ TileSet(e.cover) = UNION {cs[k].set : k \in 1..Len(cs)}
Init == l = 1 /\ bad = {} /\ exact = 0
Next == /\ l <= Len(Trace) /\ l' = l + 1
        /\ LET j == Judged(Trace[l]) IN
           /\ exact' = IF j THEN exact + 1 ELSE exact
           /\ bad' = IF j /\ ~Ok(Trace[l]) THEN bad \cup {l} ELSE bad
        /\ (l = Len(Trace) => PrintT(ToJson([done |-> l, bad |-> bad', exact |-> exact'])))
Spec == Init /\ [][Next]_<<l, bad, exact>>
=============================================================================
