---------------------------- MODULE MvtLayer_Trace ----------------------------
(* Trace validation of the mvt.Layer pipeline.  One event = one layer before (feats: tag, geometry id, dimension,   *)
(* big) and after (out) one of Clip / Simplify / RemoveEmpty, applied through Layers or through the Layer; want[i]  *)
(* is the geometry id the per-geometry function (clip.Geometry on the box, the simplifier) returned when called      *)
(* directly on a copy of feature i's geometry (0 = nil).  cls is the class vector the generator aimed for            *)
(* (0 removed, 1 unchanged, 2 changed).                                                                            *)
EXTENDS MvtLayer, TLC, Json, IOUtils
Trace == ndJsonDeserialize(IOEnv.TRACE)
VARIABLES l, bad
Out(e) == [i \in 1..Len(e.out) |-> [tag |-> e.out[i].tag, g |-> e.out[i].g]]
In(e) == [i \in 1..Len(e.feats) |-> [tag |-> e.feats[i].tag, g |-> e.feats[i].g]]
ClassOk(e) == \A i \in 1..Len(e.cls) :
   CASE e.cls[i] = 0 -> (IF e.op = "removeempty" THEN ~KeepNonEmpty(e.feats[i]) ELSE e.want[i] = 0)
     [] e.cls[i] = 1 -> (IF e.op = "removeempty" THEN KeepNonEmpty(e.feats[i]) ELSE e.want[i] = e.feats[i].g)
     [] OTHER -> e.want[i] \notin {0, e.feats[i].g}
\* RemoveEmpty keeps a geometry as it is or drops the feature
RVec(e) == IF e.op = "removeempty" THEN [i \in 1..Len(e.feats) |-> IF KeepNonEmpty(e.feats[i]) THEN e.feats[i].g ELSE 0]
           ELSE e.want
Ok(e) == /\ e.k = "layer"
         /\ ClassOk(e)        \* the per-geometry function did to each input what its class was built for (outside: nothing
                              \* left, inside: unchanged, crossing: changed); a miss is a rejection, not a machinery fault
         /\ Out(e) = FilterMap(In(e), RVec(e))
Init == l = 1 /\ bad = {}
Next == /\ l <= Len(Trace) /\ l' = l + 1
        /\ bad' = IF Ok(Trace[l]) THEN bad ELSE bad \cup {l}
        /\ (l = Len(Trace) => PrintT(ToJson([done |-> l, bad |-> bad'])))
Spec == Init /\ [][Next]_<<l, bad>>
=============================================================================
