---------------------------- MODULE TileAlgebra ----------------------------
(* C13: map tiles <<x, y, z>> as nodes of the quadtree of the mercator square.  Everything is defined from  *)
(* the ancestor relation (integer division by powers of two), not from the bit tricks of the code.           *)
EXTENDS Integers, Sequences, FiniteSets

RECURSIVE Pow2(_)
Pow2(n) == IF n = 0 THEN 1 ELSE 2 * Pow2(n - 1)
Valid(t) == 0 <= t[1] /\ t[1] < Pow2(t[3]) /\ 0 <= t[2] /\ t[2] < Pow2(t[3])
\* the ancestor of t at zoom z <= t.z
Anc(t, z) == <<t[1] \div Pow2(t[3] - z), t[2] \div Pow2(t[3] - z), z>>
Parent(t) == IF t[3] = 0 THEN t ELSE Anc(t, t[3] - 1)
Children(t) == {<<2*t[1] + i, 2*t[2] + j, t[3] + 1>> : i \in 0..1, j \in 0..1}
Contains(a, b) == b[3] >= a[3] /\ Anc(b, a[3]) = a
\* the deepest common ancestor
SharedParent(a, b) == LET zs == {z \in 0..(IF a[3] < b[3] THEN a[3] ELSE b[3]) : Anc(a, z) = Anc(b, z)}
                          zmax == CHOOSE z \in zs : \A w \in zs : w <= z
                      IN Anc(a, zmax)
\* the range of t at zoom z: its descendants' min/max corner (or its ancestor when z is shallower)
RangeOf(t, z) == IF z < t[3] THEN <<Anc(t, z), Anc(t, z)>>
                 ELSE LET f == Pow2(z - t[3]) IN << <<t[1]*f, t[2]*f, z>>, <<(t[1]+1)*f - 1, (t[2]+1)*f - 1, z>> >>
Descendants(t, z) == {<<x, y, z>> : x \in (t[1]*Pow2(z - t[3]))..((t[1]+1)*Pow2(z - t[3]) - 1),
                                    y \in (t[2]*Pow2(z - t[3]))..((t[2]+1)*Pow2(z - t[3]) - 1)}
\* quadkey as the base-4 digit sequence of the path from the root, most significant first:
\* digit = x-bit + 2 * y-bit
QuadDigits(t) == [i \in 1..t[3] |-> ((t[1] \div Pow2(t[3] - i)) % 2) + 2 * ((t[2] \div Pow2(t[3] - i)) % 2)]
RECURSIVE FromDigits(_, _, _)
FromDigits(ds, i, t) == IF i > Len(ds) THEN t
                        ELSE FromDigits(ds, i + 1, <<2*t[1] + (ds[i] % 2), 2*t[2] + (ds[i] \div 2), t[3] + 1>>)
FromQuad(ds) == FromDigits(ds, 1, <<0, 0, 0>>)
=============================================================================
