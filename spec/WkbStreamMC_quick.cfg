SPECIFICATION Spec
CONSTANT MaxOps = 3
INVARIANTS FramingInv DrainedInv Fifo NoErr
CHECK_DEADLOCK FALSE
