---------------------------- MODULE SmartClip_Trace ----------------------------
(* Trace validation for C16.  Event kinds:                                                                      *)
(*  smart  smartclip.Ring / Polygon / MultiPolygon / Geometry on closed, correctly wound simple rings             *)
(*  open   smartclip.Ring on an open sub-path of such a ring whose two ends lie on the box boundary                *)
(* Coordinates in lattice units (1/60), box and input on the integer grid, o = 1 (counter-clockwise) or -1.        *)
(* "alt": events in the input class of the recorded finding (TouchFailProne) are re-judged without the region       *)
(* predicate; every other requirement still applies to them.                                                       *)
EXTENDS SmartClip, TLC, Json, IOUtils
Trace == ndJsonDeserialize(IOEnv.TRACE)
VARIABLES l, bad, alt

\* position of a boundary point along the box outline, counter-clockwise from the bottom-left corner
Param(bx, p) == LET W == bx[3] - bx[1]  H == bx[4] - bx[2] IN
   IF p[2] = bx[2] /\ p[1] < bx[3] THEN p[1] - bx[1]
   ELSE IF p[1] = bx[3] /\ p[2] < bx[4] THEN W + (p[2] - bx[2])
   ELSE IF p[2] = bx[4] /\ p[1] > bx[1] THEN W + H + (bx[3] - p[1])
   ELSE 2*W + H + (bx[4] - p[2])
Corners(bx) == LET W == bx[3] - bx[1]  H == bx[4] - bx[2] IN
   << <<0, <<bx[1], bx[2]>>>>, <<W, <<bx[3], bx[2]>>>>, <<W + H, <<bx[3], bx[4]>>>>, <<2*W + H, <<bx[1], bx[4]>>>> >>
\* corners passed travelling along the outline from parameter a to parameter b in direction o, in travel order
CornersBetween(bx, a, b, o) ==
   LET P == 2 * ((bx[3] - bx[1]) + (bx[4] - bx[2]))
       cs == Corners(bx)
       dist(t) == IF o = 1 THEN (t - a + P) % P ELSE (a - t + P) % P        \* travel distance from a to t
       span == dist(b)
       hit == {i \in 1..4 : dist(cs[i][1]) > 0 /\ dist(cs[i][1]) < span}
       RECURSIVE Order(_)
       Order(S) == IF S = {} THEN <<>> ELSE LET i == CHOOSE i \in S : \A j \in S : dist(cs[i][1]) <= dist(cs[j][1]) IN <<cs[i][2]>> \o Order(S \ {i})
   IN Order(hit)
\* the region an open path encloses: the path closed along the outline from its end back to its start, direction o
ClosedAlong(bx, path, o) == path \o CornersBetween(bx, Param(bx, path[Len(path)]), Param(bx, path[1]), o)

\* every ring's bound misses the closed box
OutsideAll(bx, in) == \A r \in AllRingsOf(in) : \/ (\A k1 \in 1..Len(r) : r[k1][1] < bx[1]) \/ (\A k2 \in 1..Len(r) : r[k2][1] > bx[3])
                                                \/ (\A k3 \in 1..Len(r) : r[k3][2] < bx[2]) \/ (\A k4 \in 1..Len(r) : r[k4][2] > bx[4])
\* open path: an interior vertex on the box boundary with both incident edges entering the box
TouchOpen(bx, path) == \E i \in 2..(Len(path) - 1) : OnBoxBoundary(bx, path[i]) /\ MeetsOpen(bx, path[i-1], path[i]) /\ MeetsOpen(bx, path[i], path[i+1])
\* an outer ring that surrounds the box without its boundary entering it (or only touches the box) is outside the
\* property's premise ("a ring whose boundary crosses the box"): nothing is demanded of the result then - see the
\* observation in DESIGN.md (the code returns such polygons unclipped when a hole lies in the box, and nothing otherwise)
OutersOK(bx, in) == \A i \in 1..Len(in) : Len(in[i]) >= 1 => OuterOK(bx, in[i][1])
SmartOk(e, WAIVE) ==
   /\ (OutersOK(e.box, e.in) => Shape(e.box, e.out, e.o))
   /\ e.pstable = 1     \* the previous result was left alone (and a generic call of which nothing remains answered nil)
   /\ (AllInside(e.box, e.in) => e.out = e.in)
   /\ (~InDomain(e.box, e.in) \/ (WAIVE /\ TouchFailProne(e.box, e.in, e.o)) \/ RegionOK(e.box, e.in, e.out, e.st))
   /\ (OutsideAll(e.box, e.in) => e.out = <<>>)              \* wholly outside yields nothing
\* the open path starts and ends strictly outside the box and runs strictly inside in between, so it is cut into
\* exactly one piece (ClipLine!Expected, open option) whose ends lie on the outline
OpenOk(e, WAIVE) ==
   /\ Shape(e.box, e.out, e.o)
   /\ LET pcs == Expected(e.box, e.path, TRUE) IN
      \/ Len(pcs) # 1
      \/ (WAIVE /\ TouchOpen(e.box, e.path))
      \/ RegionOK(e.box, <<<<ClosedAlong(e.box, pcs[1], e.o)>>>>, e.out, e.st)
\* combs with up to tens of thousands of teeth: judged in the harness (count, winding, exact area, sample points), verdict here
Ok(e, WAIVE) == CASE e.k = "smart" -> SmartOk(e, WAIVE) [] e.k = "open" -> OpenOk(e, WAIVE) [] e.k = "smartbig" -> e.ok = 1 [] OTHER -> FALSE
Init == l = 1 /\ bad = {} /\ alt = {}
Next == /\ l <= Len(Trace) /\ l' = l + 1
        /\ LET ok == Ok(Trace[l], FALSE) IN
           /\ bad' = IF ok THEN bad ELSE bad \cup {l}
           /\ alt' = IF ok \/ Ok(Trace[l], TRUE) THEN alt ELSE alt \cup {l}
        /\ (l = Len(Trace) => PrintT(ToJson([done |-> l, bad |-> bad', alt |-> alt'])))
Spec == Init /\ [][Next]_<<l, bad, alt>>
=============================================================================
