SPECIFICATION Spec
CONSTANTS ZT = 5  ZP = 4
INVARIANTS Single Pair
CHECK_DEADLOCK FALSE
