---------------------------- MODULE TileQuad ----------------------------
(* Tiles <<x, y, z>> of the quadtree of map tiles, and the abstract result of a partial upward merge.              *)
EXTENDS Integers, FiniteSets, Sequences
Tile(x,y,z) == <<x,y,z>>
Parent(t) == Tile(t[1] \div 2, t[2] \div 2, t[3] - 1)
Kids(t) == {Tile(2*t[1]+dx, 2*t[2]+dy, t[3]+1) : dx \in {0,1}, dy \in {0,1}}
Sibs(t) == Kids(Parent(t))
\* quads of S with at least c of their four tiles present
Up(S, c) == {q \in {Parent(t) : t \in S} : Cardinality(Kids(q) \cap S) >= c}
\* level by level: quads with >= c members move up, the other tiles stay; fewer than c parents end the ascent
RECURSIVE PM(_, _, _, _)
PM(S, zz, mn, c) == IF zz = mn \/ S = {} THEN S
                    ELSE LET up == Up(S, c)  stay == {t \in S : Parent(t) \notin up} IN
                         stay \cup (IF zz - 1 = mn \/ Cardinality(up) < c THEN up ELSE PM(up, zz - 1, mn, c))
=============================================================================
