---------------------------- MODULE SmartWrapMC ----------------------------
(* Model check of the smartWrap walk on every valid configuration of at most N pieces over 4K outline slots, and    *)
(* generator of those configurations for replay (spec -> code): one JSON document per configuration with the         *)
(* polygons the spec predicts.                                                                                        *)
EXTENDS SmartWrap, Json
CycleSeq(c) == [k \in 1..Len(c) |-> c[k]]
RECURSIVE SetToSeq(_)
SetToSeq(S) == IF S = {} THEN <<>> ELSE LET m == CHOOSE x \in S : TRUE IN <<m>> \o SetToSeq(S \ {m})
\* printed once per configuration, in its initial state
Emit == i # 0 \/ used # {} \/ PrintT(ToJson([p |-> P, pieces |-> [j \in 1..Len(cfg) |-> <<cfg[j].s, cfg[j].e>>], cycles |-> SetToSeq(Cycles(cfg))]))
=============================================================================
