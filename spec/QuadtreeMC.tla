---------------------------- MODULE QuadtreeMC ----------------------------
(* Model check: all histories of add / remove-by-point / remove-by-identity up to MaxOps over the      *)
(* point alphabet, from the empty tree (so a removal may be the very first operation).  In every       *)
(* reachable state the implementation-shaped layer must agree with the bag model:                      *)
(*  - every step is an abstract step (AddOK / RemovePointOK / RemoveIdOK relate the bags),             *)
(*  - every value lies in its node's cell, no pointer is stored twice,                                 *)
(*  - nearest, k-nearest (all k, limits) and in-bound transcriptions satisfy their relations for a     *)
(*    family of query points, boxes and filters.                                                       *)
EXTENDS QuadtreeImpl
CONSTANTS MaxOps, QX, QY, KS, MDS, BOXES, FILTERS
\* values substituted by the .cfg files: duplicate point, point on the root midlines, inside, corner of the
\* tree bound, another quadrant, outside the bound
PtsDef == << <<128,128>>, <<128,128>>, <<64,192>>, <<0,256>>, <<200,40>>, <<300,10>> >>
BoxesDef == { <<0,0,256,256>>, <<128,128,256,256>>, <<0,0,128,128>>, <<60,190,70,200>>, <<129,0,256,127>> }
FiltersDef == { <<1,0>>, <<2,0>>, <<2,1>> }
Next == nops < MaxOps /\ \/ \E k \in 1..Len(Pts) : Add(k) \/ RemoveByPoint(k)
                         \/ \E id \in 1..(next-1) : RemoveById(id)
Spec == Init /\ [][Next]_vars

RECURSIVE Cell(_,_,_,_,_)
Cell(path, l, r, b, t) == IF path = <<>> THEN <<l, r, b, t>>
                          ELSE LET c == SubCell(Head(path), l, r, b, t) IN Cell(Tail(path), c[1], c[2], c[3], c[4])
InCell == \A pa \in DOMAIN nodes : nodes[pa] # 0 =>
             LET c == Cell(pa, 0, B, 0, B)  p == pt[nodes[pa]] IN
             c[1] <= p[1] /\ p[1] <= c[2] /\ c[3] <= p[2] /\ p[2] <= c[4]
Unique == \A a, b \in DOMAIN nodes : (a # b /\ nodes[a] # 0) => nodes[a] # nodes[b]
ParentClosed == \A pa \in DOMAIN nodes : pa # <<>> => SubSeq(pa, 1, Len(pa)-1) \in DOMAIN nodes

\* every transition is a transition of the bag model (action property)
BagOf(ns, p) == {<<id, p[id][1], p[id][2]>> : id \in {ns[pa] : pa \in DOMAIN ns} \ {0}}
StepRefines == [][LET o == lastOp'  S == Bag  S2 == BagOf(nodes', pt') IN
                  CASE o.op = "add"  -> AddOK(Bnd, S, o.id, Pts[o.k], o.res, S2)
                    [] o.op = "rmpt" -> RemovePointOK(S, Pts[o.k], o.res, S2)
                    [] o.op = "rmid" -> RemoveIdOK(S, o.id, o.res, S2)
                    [] OTHER -> FALSE]_vars

MatchOf(f) == {id \in Items : Acc(f, id)}
QPts == {<<x, y>> : x \in QX, y \in QY}
FindRefines == \A q \in QPts : \A f \in FILTERS : FindOK(Bag, f, q, FindImpl(nodes, MatchOf(f), q))
KnnRefines  == \A q \in QPts : \A f \in FILTERS : \A k \in KS : \A md \in MDS :
                  KnnOK(Bag, f, q, k, md, KNearestImpl(nodes, MatchOf(f), q, k, md))
InBoundRefines == \A bx \in BOXES : \A f \in FILTERS : InBoundOK(Bag, f, bx, InBoundImpl(nodes, MatchOf(f), bx))
=============================================================================
