---------------------------- MODULE WkbStream ----------------------------
(* C01 (streams): an Encoder writing several geometries to one writer and a Decoder reading them back from      *)
(* the same byte pipe.  The encoder carries state between calls (byte order, default SRID, a scratch buffer);    *)
(* the decoder carries none but the position in the stream.  WKB is self-delimiting, so the pipe is a FIFO of     *)
(* messages: every Decode consumes exactly the bytes of the oldest undecoded message and returns its value and    *)
(* SRID, in whatever chunks the reader delivers them; on an empty pipe it reports end of stream.  A writer that   *)
(* fails part-way makes Encode report the error; the decoder then fails on the torn message.                      *)
(* State s = [pipe: bytes written and not yet read, sent: the values those bytes denote, le, srid: encoder        *)
(* settings, torn: the last message in the pipe is incomplete].                                                   *)
EXTENDS Wkb
\* a new encoder: little-endian, default SRID d (ewkb.DefaultSRID = 4326; the wkb package writes none)
S0(d) == [pipe |-> <<>>, sent |-> <<>>, le |-> TRUE, srid |-> d, torn |-> FALSE]
SetOrder(s, le) == [s EXCEPT !.le = le]
SetSrid(s, srid) == [s EXCEPT !.srid = srid]
NilLike(g, topnil) == g.t = "nil" \/ topnil = 1
\* Encode with an explicit SRID (sr >= 0) or the encoder's default (sr = -1); budget = bytes the writer still accepts
SridOf(s, sr) == IF sr < 0 THEN s.srid ELSE sr
Bytes(tab, s, g, topnil, sr) == IF NilLike(g, topnil) THEN <<>> ELSE Enc(tab, g, s.le, SridOf(s, sr))
Fits(tab, s, g, topnil, sr, budget) == Len(Bytes(tab, s, g, topnil, sr)) <= budget
Encode(tab, s, g, topnil, sr, wrote) ==        \* wrote = number of bytes the writer accepted
   LET b == Bytes(tab, s, g, topnil, sr) IN
   IF b = <<>> THEN s
   ELSE IF wrote = Len(b) THEN [s EXCEPT !.pipe = @ \o b, !.sent = Append(@, [v |-> CanonDeep(g), srid |-> SridOf(s, sr)])]
   ELSE [s EXCEPT !.pipe = @ \o SubSeq(b, 1, wrote), !.torn = TRUE]
\* result of the next Decode and the state after it
RECURSIVE ToIdsT(_, _)
PtIdsT(tab, p) == <<IdOf(tab, p[1]), IdOf(tab, p[2])>>
ToIdsT(tab, v) == CASE v.t = "Point" -> [t |-> v.t, c |-> PtIdsT(tab, v.c)]
              [] v.t \in {"MultiPoint", "LineString"} -> [t |-> v.t, c |-> [i \in 1..Len(v.c) |-> PtIdsT(tab, v.c[i])]]
              [] v.t \in {"Polygon", "MultiLineString"} -> [t |-> v.t, c |-> [i \in 1..Len(v.c) |-> [j \in 1..Len(v.c[i]) |-> PtIdsT(tab, v.c[i][j])]]]
              [] v.t = "MultiPolygon" -> [t |-> v.t, c |-> [i \in 1..Len(v.c) |-> [j \in 1..Len(v.c[i]) |-> [k \in 1..Len(v.c[i][j]) |-> PtIdsT(tab, v.c[i][j][k])]]]]
              [] v.t = "Collection" -> [t |-> v.t, g |-> [i \in 1..Len(v.g) |-> ToIdsT(tab, v.g[i])]]
Rest(b, pos) == SubSeq(b, pos, Len(b))
DecodeRes(tab, s) ==
   IF s.pipe = <<>> THEN [res |-> "eof", next |-> s]
   ELSE LET d == RdGeom(s.pipe, 1, 0, TRUE) IN
        IF ~d.ok THEN [res |-> "err", next |-> s]              \* torn message: an error; the stream is dead afterwards
        ELSE [res |-> "ok", v |-> ToIdsT(tab, d.v), srid |-> d.srid, next |-> [s EXCEPT !.pipe = Rest(s.pipe, d.pos), !.sent = IF @ = <<>> THEN @ ELSE Tail(@)]]
\* the framing property: whatever was encoded, the reference stream decoder returns the oldest undecoded value
Framing(tab, s) == s.sent # <<>> =>
   LET r == DecodeRes(tab, s) IN r.res = "ok" /\ r.v = Head(s.sent).v /\ r.srid = Head(s.sent).srid
Drained(s) == (s.sent = <<>> /\ ~s.torn) => s.pipe = <<>>
=============================================================================
