---------------------------- MODULE Mvt ----------------------------
(* C03: Mapbox Vector Tile codec.  Integers only.                                                       *)
(* Geometry level: the encoder is a state machine over (cursor, data): MoveTo / LineTo / ClosePath append *)
(* a command word n*8+id and zig-zag deltas relative to a cursor that persists across commands and rings  *)
(* of one feature; the decoder is the command-stream state machine of unmarshal.go (cmdAndCount with the  *)
(* "data cut short" guard, NextPoint, decodePoint / decodeLineString / decodePolygon with the regrouping   *)
(* of rings into polygons by shoelace sign).  Canon is the abstract statement of what must come back.      *)
(* Layer level: key table in first-appearance order of keys visited in sorted order per feature; value     *)
(* table keyed by (effective Go type, value); values widened on decode; features with nil geometry are     *)
(* skipped; every member of a geometry collection becomes a feature of its own.                             *)
(* Geometries are records [t |-> kind, c |-> coordinates] (GeomValue encoding), [t |-> "nil"] and           *)
(* [t |-> "Collection", g |-> members].                                                                     *)
EXTENDS Integers, Sequences, FiniteSets

ZZ(d) == IF d >= 0 THEN 2*d ELSE -2*d - 1
UnZZ(v) == IF v % 2 = 0 THEN v \div 2 ELSE -(v \div 2) - 1      \* written so that v = 2^31-1 does not overflow
Cmd(id, n) == n*8 + id
MoveToId == 1  LineToId == 2  CloseId == 7

\* ---------------- encoder ------------------------------------------------------------------------------
RECURSIVE AddPts(_,_)
AddPts(st, pts) == IF pts = <<>> THEN st
   ELSE LET p == Head(pts) IN
        AddPts([cur |-> p, data |-> st.data \o <<ZZ(p[1]-st.cur[1]), ZZ(p[2]-st.cur[2])>>], Tail(pts))
MoveTo(st, pts) == AddPts([st EXCEPT !.data = Append(@, Cmd(MoveToId, Len(pts)))], pts)
LineTo(st, pts) == AddPts([st EXCEPT !.data = Append(@, Cmd(LineToId, Len(pts)))], pts)
ClosePath(st)   == [st EXCEPT !.data = Append(@, Cmd(CloseId, 1))]
Closed(r) == Len(r) >= 4 /\ r[1] = r[Len(r)]             \* orb.Ring.Closed
Line(st, ls) == LineTo(MoveTo(st, <<ls[1]>>), SubSeq(ls, 2, Len(ls)))
RingE(st, r) == ClosePath(LineTo(MoveTo(st, <<r[1]>>), IF Closed(r) THEN SubSeq(r, 2, Len(r)-1) ELSE SubSeq(r, 2, Len(r))))
RECURSIVE FoldL(_,_,_)
FoldL(Op(_,_), st, xs) == IF xs = <<>> THEN st ELSE FoldL(Op, Op(st, Head(xs)), Tail(xs))
PolyE(st, p) == FoldL(RingE, st, p)
St0 == [cur |-> <<0,0>>, data |-> <<>>]
BoundRing(b) == << <<b[1],b[2]>>, <<b[3],b[2]>>, <<b[3],b[4]>>, <<b[1],b[4]>>, <<b[1],b[2]>> >>
Encode(g) ==
  CASE g.t = "Point"           -> [t |-> 1, d |-> MoveTo(St0, <<g.c>>).data]
    [] g.t = "MultiPoint"      -> [t |-> 1, d |-> MoveTo(St0, g.c).data]
    [] g.t = "LineString"      -> [t |-> 2, d |-> Line(St0, g.c).data]
    [] g.t = "MultiLineString" -> [t |-> 2, d |-> FoldL(Line, St0, g.c).data]
    [] g.t = "Ring"            -> [t |-> 3, d |-> RingE(St0, g.c).data]
    [] g.t = "Polygon"         -> [t |-> 3, d |-> PolyE(St0, g.c).data]
    [] g.t = "MultiPolygon"    -> [t |-> 3, d |-> FoldL(PolyE, St0, g.c).data]
    [] g.t = "Bound"           -> [t |-> 3, d |-> RingE(St0, BoundRing(g.c)).data]

\* ---------------- decoder (transcribes geomDecoder) ---------------------------------------------------
Err == [ok |-> FALSE]
CmdAt(d, ds) == IF ds.pos > Len(d) THEN Err
   ELSE LET v == d[ds.pos]  id == v % 8  n == v \div 8 IN
        IF id # CloseId /\ ds.pos + 2*n > Len(d) THEN Err
        ELSE [ok |-> TRUE, id |-> id, n |-> n, ds |-> [ds EXCEPT !.pos = @ + 1]]
RECURSIVE PtsD(_,_,_,_)
PtsD(d, ds, n, acc) == IF n = 0 THEN [ok |-> TRUE, pts |-> acc, ds |-> ds]
   ELSE IF ds.pos + 1 > Len(d) THEN Err
   ELSE LET p == <<ds.cur[1] + UnZZ(d[ds.pos]), ds.cur[2] + UnZZ(d[ds.pos+1])>> IN
        PtsD(d, [pos |-> ds.pos + 2, cur |-> p], n - 1, Append(acc, p))
DecLine(d, ds) ==
   LET c1 == CmdAt(d, ds) IN
   IF ~c1.ok \/ c1.id # MoveToId \/ c1.n # 1 THEN Err ELSE
   LET p1 == PtsD(d, c1.ds, 1, <<>>) IN IF ~p1.ok THEN Err ELSE
   LET c2 == CmdAt(d, p1.ds) IN IF ~c2.ok \/ c2.id # LineToId THEN Err ELSE
   LET p2 == PtsD(d, c2.ds, c2.n, p1.pts) IN IF ~p2.ok THEN Err ELSE [ok |-> TRUE, ls |-> p2.pts, ds |-> p2.ds]
Done(d, ds) == ds.pos > Len(d)
\* twice the signed area about the first vertex (orb.Ring.Orientation): > 0 is counter-clockwise
ShoelaceO(r) == LET n == Len(r) IN
   LET RECURSIVE S(_)
       S(i) == IF i >= n THEN 0 ELSE (r[i][1]-r[1][1])*(r[i+1][2]-r[1][2]) - (r[i+1][1]-r[1][1])*(r[i][2]-r[1][2]) + S(i+1)
   IN S(2)
RECURSIVE DecLines(_,_,_)
DecLines(d, ds, mls) == IF Done(d, ds) THEN [ok |-> TRUE, g |-> [t |-> "MultiLineString", c |-> mls]]
   ELSE LET r == DecLine(d, ds) IN IF ~r.ok THEN Err
        ELSE IF Done(d, r.ds) /\ mls = <<>> THEN [ok |-> TRUE, g |-> [t |-> "LineString", c |-> r.ls]]
        ELSE DecLines(d, r.ds, Append(mls, r.ls))
RECURSIVE DecPolys(_,_,_,_)
DecPolys(d, ds, mp, p) == IF Done(d, ds)
   THEN (IF mp = <<>> THEN [ok |-> TRUE, g |-> [t |-> "Polygon", c |-> p]]
         ELSE [ok |-> TRUE, g |-> [t |-> "MultiPolygon", c |-> Append(mp, p)]])
   ELSE LET r == DecLine(d, ds) IN IF ~r.ok THEN Err ELSE
        LET c == CmdAt(d, r.ds) IN IF ~c.ok THEN Err ELSE
        LET ring == IF c.id = CloseId /\ ~Closed(r.ls) THEN Append(r.ls, r.ls[1]) ELSE r.ls IN
        IF mp = <<>> /\ p = <<>> THEN DecPolys(d, c.ds, mp, <<ring>>)
        ELSE IF ShoelaceO(ring) > 0 THEN DecPolys(d, c.ds, Append(mp, p), <<ring>>)
        ELSE DecPolys(d, c.ds, mp, Append(p, ring))
Decode(t, d) ==
   IF Len(d) < 2 THEN Err                       \* "geom is not long enough"
   ELSE IF t = 1 THEN LET c == CmdAt(d, [pos |-> 1, cur |-> <<0,0>>]) IN IF ~c.ok \/ c.id # MoveToId THEN Err ELSE
             LET ps == PtsD(d, c.ds, c.n, <<>>) IN IF ~ps.ok THEN Err
             ELSE IF c.n = 1 THEN [ok |-> TRUE, g |-> [t |-> "Point", c |-> ps.pts[1]]]
             ELSE [ok |-> TRUE, g |-> [t |-> "MultiPoint", c |-> ps.pts]]
   ELSE IF t = 2 THEN DecLines(d, [pos |-> 1, cur |-> <<0,0>>], <<>>)
   ELSE IF t = 3 THEN DecPolys(d, [pos |-> 1, cur |-> <<0,0>>], <<>>, <<>>)
   ELSE Err

\* ---------------- what must come back (abstract) -------------------------------------------------------
CloseR(r) == IF Closed(r) THEN r ELSE Append(r, r[1])
CanonP(p) == [i \in 1..Len(p) |-> CloseR(p[i])]
Canon(g) ==
  CASE g.t = "Point"           -> g
    [] g.t = "MultiPoint"      -> IF Len(g.c) = 1 THEN [t |-> "Point", c |-> g.c[1]] ELSE g
    [] g.t = "LineString"      -> g
    [] g.t = "MultiLineString" -> IF Len(g.c) = 1 THEN [t |-> "LineString", c |-> g.c[1]] ELSE g
    [] g.t = "Ring"            -> [t |-> "Polygon", c |-> <<CloseR(g.c)>>]
    [] g.t = "Polygon"         -> [t |-> "Polygon", c |-> CanonP(g.c)]
    [] g.t = "MultiPolygon"    -> IF Len(g.c) = 1 THEN [t |-> "Polygon", c |-> CanonP(g.c[1])]
                                  ELSE [t |-> "MultiPolygon", c |-> [i \in 1..Len(g.c) |-> CanonP(g.c[i])]]
    [] g.t = "Bound"           -> [t |-> "Polygon", c |-> <<BoundRing(g.c)>>]
\* the precondition of the property on polygon kinds: outer rings counter-clockwise, holes clockwise
WellWoundP(p) == Len(p) >= 1 /\ ShoelaceO(CloseR(p[1])) > 0 /\ \A i \in 2..Len(p) : ShoelaceO(CloseR(p[i])) < 0
WellWound(g) == CASE g.t = "Ring" -> ShoelaceO(CloseR(g.c)) # 0
                  [] g.t = "Polygon" -> WellWoundP(g.c)
                  [] g.t = "MultiPolygon" -> \A i \in 1..Len(g.c) : WellWoundP(g.c[i])
                  [] OTHER -> TRUE

\* ---------------- layer level -------------------------------------------------------------------------
IntTypes  == {"int", "int8", "int16", "int32", "int64"}
UintTypes == {"uint", "uint8", "uint16", "uint32", "uint64"}
WireKind(ty) == IF ty = "string" THEN "s" ELSE IF ty \in IntTypes THEN "sint" ELSE IF ty \in UintTypes THEN "uint"
                ELSE IF ty = "float32" THEN "f" ELSE IF ty = "float64" THEN "d" ELSE IF ty = "bool" THEN "b" ELSE "?"
\* features actually written for one input feature: nil skipped, collection members each their own
\* (ALL = FALSE describes the recorded defect: only the first member is written)
Flatten(f, ALL) == IF f.g.t = "nil" THEN <<>>
                   ELSE IF f.g.t = "Collection"
                        THEN (IF ALL THEN [i \in 1..Len(f.g.g) |-> [f EXCEPT !.g = f.g.g[i]]]
                              ELSE <<[f EXCEPT !.g = f.g.g[1]]>>)
                   ELSE <<f>>
RECURSIVE FlattenAll(_,_,_)
FlattenAll(fs, i, ALL) == IF i > Len(fs) THEN <<>> ELSE Flatten(fs[i], ALL) \o FlattenAll(fs, i+1, ALL)
IndexOf(s, x) == CHOOSE i \in 1..Len(s) : s[i] = x
Has(s, x) == \E i \in 1..Len(s) : s[i] = x
\* key/value tables: kv = [keys, raws (table keys), vals (written values)]
RECURSIVE PropsE(_,_,_,_)
PropsE(kv, props, i, tags) ==
   IF i > Len(props) THEN [kv |-> kv, tags |-> tags]
   ELSE LET k == props[i][1]  v == props[i][2]
            keys1 == IF Has(kv.keys, k) THEN kv.keys ELSE Append(kv.keys, k)
            rk == <<v.ty, v.raw>>
            new == ~Has(kv.raws, rk)
            raws1 == IF new THEN Append(kv.raws, rk) ELSE kv.raws
            vals1 == IF new THEN Append(kv.vals, <<WireKind(v.ty), v.w>>) ELSE kv.vals
        IN PropsE([keys |-> keys1, raws |-> raws1, vals |-> vals1], props, i+1,
                  tags \o <<IndexOf(keys1, k) - 1, IndexOf(raws1, rk) - 1>>)
RECURSIVE FeatsE(_,_,_,_)
FeatsE(kv, fs, i, out) ==
   IF i > Len(fs) THEN [kv |-> kv, feats |-> out]
   ELSE LET f == fs[i]  pe == PropsE(kv, f.props, 1, <<>>)  ge == Encode(f.g) IN
        FeatsE(pe.kv, fs, i+1, Append(out, [id |-> f.id, type |-> ge.t, tags |-> pe.tags, geom |-> ge.d]))
LayerE(L, ALL) == LET fe == FeatsE([keys |-> <<>>, raws |-> <<>>, vals |-> <<>>], FlattenAll(L.feats, 1, ALL), 1, <<>>) IN
   [name |-> L.name, ver |-> L.ver, ext |-> L.ext, keys |-> fe.kv.keys, vals |-> fe.kv.vals, feats |-> fe.feats]
TileE(Ls, ALL) == [i \in 1..Len(Ls) |-> LayerE(Ls[i], ALL)]

\* decode of a tile message (as the unmarshaller must see it)
Widen(wv) == IF wv[1] = "s" THEN <<"str", wv[2]>> ELSE IF wv[1] = "b" THEN <<"bool", wv[2]>> ELSE <<"num", wv[2]>>
RECURSIVE TagsD(_,_,_,_)
TagsD(T, tags, i, acc) ==     \* later tags overwrite earlier ones with the same key; result sorted by key
   IF i > Len(tags) THEN acc
   ELSE LET k == T.keys[tags[i] + 1]  v == Widen(T.vals[tags[i+1] + 1]) IN
        TagsD(T, tags, i + 2, [x \in (DOMAIN acc) \cup {k} |-> IF x = k THEN v ELSE acc[x]])
EmptyFn == [x \in {} |-> 0]
FeatD(T, f) == [id |-> f.id, g |-> Decode(f.type, f.geom).g, props |-> TagsD(T, f.tags, 1, EmptyFn)]
LayerD(T) == [name |-> T.name, ver |-> T.ver, ext |-> T.ext, feats |-> [i \in 1..Len(T.feats) |-> FeatD(T, T.feats[i])]]
\* the abstract expectation, straight from the input
PropsFn(props) == [k \in {props[i][1] : i \in 1..Len(props)} |->
                     LET v == props[CHOOSE i \in 1..Len(props) : props[i][1] = k][2] IN Widen(<<WireKind(v.ty), v.w>>)]
LayerCanon(L, ALL) == [name |-> L.name, ver |-> L.ver, ext |-> L.ext,
                       feats |-> LET fs == FlattenAll(L.feats, 1, ALL) IN
                                 [i \in 1..Len(fs) |-> [id |-> fs[i].id, g |-> Canon(fs[i].g), props |-> PropsFn(fs[i].props)]]]
=============================================================================
