SPECIFICATION Spec
CONSTANTS G = 5  BLO = 1  BHI = 3  K = 3
INVARIANTS Refines InBoxAll OnInput Idem InsideAsIs Lattice
CHECK_DEADLOCK FALSE
