---------------------------- MODULE Misc_Trace ----------------------------
(* Trace validation for X07; see Misc.tla.  Numeric relations arrive as integer residuals in the stated units.     *)
EXTENDS Misc, TLC, Json, IOUtils
Trace == ndJsonDeserialize(IOEnv.TRACE)
VARIABLES l, bad
ToSet(s) == {s[i] : i \in 1..Len(s)}
PropsOk(e) == LET want == MustOutcome(e.fn, e.kind, e.hasdef = 1) IN
   /\ e.outcome = want
   /\ (want = "value" => e.same = 1)          \* the stored value (int <-> float converted by truncation / widening)
   /\ (want = "default" => e.same = 1)        \* exactly the default handed in
BBoxOk(e) == /\ (e.valid = 1) = BBoxValid(e.bb, e.isnil = 1)
             /\ e.bound = BBoxBound(e.bb, e.isnil = 1)
             /\ e.frombound = e.b                       \* NewBBox(b) = <<minx, miny, maxx, maxy>>
LayersOk(e) == /\ ToSet(e.names) = ToSet(e.innames) /\ Len(e.names) = Len(e.innames)   \* one layer per map entry
               /\ e.defaults = 1                        \* version 1, extent mvt.DefaultExtent
               /\ e.samefeatures = 1                    \* each layer holds its collection's features (same pointers)
               /\ e.back = 1                            \* ToFeatureCollections gives the map back
TileFcOk(e) == /\ Len(e.bounds) = Len(e.tiles)
               /\ ToSet(e.bounds) = ToSet(e.want) /\ e.polys = 1
HexOk(e) == e.hex = 1 /\ e.must = 1 /\ e.musthex = 1
RingClosedOk(e) == (e.closed = 1) = RingClosed(e.r)
\* residuals: d2 (DistanceSquared vs Distance^2), seg (DistanceFromSegment^2 vs ...Squared) in 1e-12 relative units;
\* scale (MercatorScaleFactor * cos(lat) - 1) in 1e-12
NumOk(e) == \A i \in 1..Len(e.res) : e.res[i] >= -e.tol /\ e.res[i] <= e.tol
Ok(e) == CASE e.k = "props" -> PropsOk(e) [] e.k = "bbox" -> BBoxOk(e) [] e.k = "layers" -> LayersOk(e)
           [] e.k = "tilefc" -> TileFcOk(e) [] e.k = "hex" -> HexOk(e) [] e.k = "ringclosed" -> RingClosedOk(e)
           [] e.k = "num" -> NumOk(e)
           [] e.k = "edge" -> e.outcome = EdgeOutcome(e.what)
           \* helper types: same JSON / BSON bytes as the Geometry wrapper, decode back to the same value; Point accessors
           [] e.k = "helpers" -> e.json = 1 /\ e.bson = 1 /\ e.back = 1 /\ e.backb = 1 /\ e.lonlat = 1
           [] OTHER -> FALSE
Init == l = 1 /\ bad = {}
Next == /\ l <= Len(Trace) /\ l' = l + 1
        /\ bad' = IF Ok(Trace[l]) THEN bad ELSE bad \cup {l}
        /\ (l = Len(Trace) => PrintT(ToJson([done |-> l, bad |-> bad'])))
Spec == Init /\ [][Next]_<<l, bad>>
=============================================================================
