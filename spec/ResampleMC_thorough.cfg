SPECIFICATION Spec
CONSTANTS KS = 4  LMAX = 4  NMAX = 12
INVARIANTS WalkIsClosedForm EdgeCases
CHECK_DEADLOCK FALSE
