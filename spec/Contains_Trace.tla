---------------------------- MODULE Contains_Trace ----------------------------
(* Trace validation for C09: every recorded answer of planar.RingContains / PolygonContains /     *)
(* MultiPolygonContains must equal the exact even-odd predicate of Exact2D.                        *)
EXTENDS Exact2D, TLC, Json, IOUtils
Trace == ndJsonDeserialize(IOEnv.TRACE)
VARIABLES l, bad
Want(e, p) == IF e.fn = "ring" THEN InRingEO(e.mp[1][1], p)
              ELSE IF e.fn = "poly" THEN InPolygon(e.mp[1], p)
              ELSE InMultiPolygon(e.mp, p)
Ok(e) == /\ e.k = "contains"
         /\ Len(e.ans) = Len(e.q)
         /\ \A i \in 1..Len(e.q) : (e.ans[i] = 1) = Want(e, e.q[i])
Init == l = 1 /\ bad = {}
Next == /\ l <= Len(Trace) /\ l' = l + 1
        /\ bad' = IF Ok(Trace[l]) THEN bad ELSE bad \cup {l}
        /\ (l = Len(Trace) => PrintT(ToJson([done |-> l, bad |-> bad'])))
Spec == Init /\ [][Next]_<<l, bad>>
=============================================================================
