SPECIFICATION CSpec
CONSTANTS
  B = 256
  Pts <- PtsDef
  Removals <- RemDef
  Qs <- QsDef
  Kinds <- KindsDef
  NQ = 3
  SHARED = FALSE
  COMPACT = FALSE
INVARIANTS Deterministic AgreesWithBag
PROPERTIES NoSharedWrite TreeUnchanged
CHECK_DEADLOCK FALSE
