SPECIFICATION CSpec
CONSTANTS
  B = 256
  Pts <- PtsDef
  Removals <- RemDef
  Qs <- QsDef
  Kinds <- KindsDef
  NQ = 2
  SHARED = FALSE
  COMPACT = TRUE
PROPERTIES TreeUnchanged
CHECK_DEADLOCK FALSE
