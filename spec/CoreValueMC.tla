---------------------------- MODULE CoreValueMC ----------------------------
(* Model check of the C06 abstract definitions: the box operations satisfy the lattice laws for all       *)
(* pairs / triples of bounds over ranks 0..R-1 including the empty bound; reversal and orientation laws   *)
(* for all rings of <= K vertices on an N x N grid.                                                        *)
EXTENDS CoreValue, TLC
CONSTANTS R, N, K
Rk == 0..(R-1)
Boxes == {E} \cup {<<x0, y0, x1, y1>> : x0 \in Rk, y0 \in Rk, x1 \in Rk, y1 \in Rk}
NonEmpty(b) == b = E \/ (b[1] <= b[3] /\ b[2] <= b[4])
VARIABLES a, b, ring
Init == a \in {x \in Boxes : NonEmpty(x)} /\ b \in {x \in Boxes : NonEmpty(x)} /\ ring = <<>>
Next == Len(ring) < K /\ (\E p \in (0..(N-1)) \X (0..(N-1)) : ring' = Append(ring, p)) /\ UNCHANGED <<a, b>>
        /\ a = E /\ b = E          \* rings are enumerated once, beside the box pairs
Spec == Init /\ [][Next]_<<a, b, ring>>
Pts == Rk \X Rk
Cs == {x \in Boxes : NonEmpty(x)}
Laws == /\ SUnion(a, a) = a                                             \* idempotent
        /\ SUnion(a, b) = SUnion(b, a)                                  \* commutative
        /\ \A c \in Cs : SUnion(SUnion(a, b), c) = SUnion(a, SUnion(b, c))   \* associative
        /\ SUnion(a, E) = a /\ SUnion(E, a) = a                         \* the empty bound is the identity
        /\ \A p \in Pts : (SContains(a, p) \/ SContains(b, p)) => SContains(SUnion(a, b), p)
        /\ \A p \in Pts : SContains(SExtend(a, p), p) /\ (SContains(a, p) => SExtend(a, p) = a)
        /\ SIntersects(a, b) = SIntersects(b, a)
        /\ SIntersects(a, b) = (\E p \in Pts : SContains(a, p) /\ SContains(b, p))
        /\ (a # E => SIntersects(a, SUnion(a, b)))                      \* absorption-like: a meets a u b
        /\ \A p \in Pts : SContains(a, p) = (SUnion(a, PtBox(p)) = a)
RingLaws == Len(ring) >= 1 =>
        /\ RevSeq(RevSeq(ring)) = ring
        /\ Orient(RevSeq(ring)) = -Orient(ring)
        /\ TightBound([t |-> "Ring", c |-> ring]) = TightBound([t |-> "Ring", c |-> RevSeq(ring)])
        /\ \A i \in 1..Len(ring) : SContains(TightBound([t |-> "Ring", c |-> ring]), ring[i])
=============================================================================
