---------------------------- MODULE TileAlgebraMC ----------------------------
(* Model check of the C13 algebra: for every tile up to zoom ZT and every pair up to zoom ZP the definitions  *)
(* are consistent: children are four distinct valid tiles whose parent is the tile; containment is the        *)
(* ancestor relation (reflexive, antisymmetric, transitive through the parent); the shared parent contains    *)
(* both tiles and no deeper tile does; the range is exactly the descendant set's corners; quad digits are      *)
(* injective and invert.                                                                                        *)
EXTENDS TileAlgebra, TLC
CONSTANTS ZT, ZP
Tiles(zmax) == UNION {{<<x, y, z>> : x \in 0..(Pow2(z)-1), y \in 0..(Pow2(z)-1)} : z \in 0..zmax}
VARIABLES a, b
Init == a \in Tiles(ZT) /\ b = <<0, 0, 0>>
Next == a[3] <= ZP /\ b = <<0, 0, 0>> /\ b' \in Tiles(ZP) /\ UNCHANGED a
Spec == Init /\ [][Next]_<<a, b>>
Single == /\ Valid(a) /\ Cardinality(Children(a)) = 4
          /\ \A c \in Children(a) : Valid(c) /\ Parent(c) = a /\ Contains(a, c) /\ ~Contains(c, a)
          /\ Contains(a, a) /\ Contains(Parent(a), a)
          /\ FromQuad(QuadDigits(a)) = a
          /\ \A z \in a[3]..(IF a[3] + 2 < ZT + 1 THEN a[3] + 2 ELSE ZT + 1) :
                LET r == RangeOf(a, z)  D == Descendants(a, z) IN
                /\ r[1] \in D /\ r[2] \in D
                /\ \A d \in D : r[1][1] <= d[1] /\ d[1] <= r[2][1] /\ r[1][2] <= d[2] /\ d[2] <= r[2][2] /\ Contains(a, d)
                /\ Cardinality(D) = (r[2][1] - r[1][1] + 1) * (r[2][2] - r[1][2] + 1)
Pair == a[3] <= ZP =>
          LET s == SharedParent(a, b) IN
          /\ Contains(s, a) /\ Contains(s, b)
          /\ \A c \in Children(s) : ~(Contains(c, a) /\ Contains(c, b))
          /\ (Contains(a, b) /\ Contains(b, a) => a = b)
          /\ (Contains(a, b) => s = a)
          /\ SharedParent(b, a) = s
          /\ (a # b /\ a[3] = b[3] => QuadDigits(a) # QuadDigits(b))
=============================================================================
