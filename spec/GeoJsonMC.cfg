SPECIFICATION JSpec
INVARIANTS WellFormed SameAsPolygon NormIdempotent EmptyIsNull
CHECK_DEADLOCK FALSE
