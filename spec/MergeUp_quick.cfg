SPECIFICATION Spec
CONSTANTS
  MAXZ = 2
  Inputs <- QuickInputs
INVARIANTS Correct SameArea Disjoint NoQuadLeft NotShallower
CHECK_DEADLOCK FALSE
