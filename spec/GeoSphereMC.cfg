SPECIFICATION Spec
CONSTANT MAXN = 14
INVARIANTS InRange Cyclic
CHECK_DEADLOCK FALSE
