---------------------------- MODULE PlanarMeasure_Trace ----------------------------
(* Trace validation for C10.  Integer geometries; the harness logs area doubled (exact in float64), centroid      *)
(* coordinates rounded to 1/1000, squared distances rounded to 1/10000, lengths rounded to 1/100.                  *)
(* Event kinds: area (ring / polygon / multipolygon / collection of 2-d members with its area and centroid),        *)
(* cpts / cline (centroids of points and of lines with integer segment lengths), ccoll (a collection whose top       *)
(* dimension is 0 or 1), seg (DistanceFromSegmentSquared), dist (DistanceFrom / DistanceFromWithIndex), len.         *)
(* "alt" re-judges events under the recorded finding: the centroid of a collection without 2-d members is the        *)
(* origin instead of the length- / count-weighted mean.                                                              *)
EXTENDS PlanarMeasure, TLC, Json, IOUtils
Trace == ndJsonDeserialize(IOEnv.TRACE)
VARIABLES l, bad, alt
CentroidOk(e, c) == CloseTo(e.cx, c[1], c[3]) /\ CloseTo(e.cy, c[2], c[3])
AreaOk(e) ==
   CASE e.kind = "ring" -> /\ e.area2 = RingArea2(e.mp[1][1])
                           /\ (e.area2 # 0 => CentroidOk(e, RingCentroid(e.mp[1][1])))
     [] e.kind = "polygon" -> /\ e.area2 = PolyArea2(e.mp[1])
                              /\ (e.area2 > 0 => CentroidOk(e, PolyCentroid(e.mp[1])))
     [] e.kind \in {"multipolygon", "collection"} -> /\ e.area2 = MPArea2(e.mp, 1)
                              /\ (e.area2 > 0 => CentroidOk(e, MPCentroid(e.mp)))
     [] OTHER -> FALSE
CPtsOk(e) == e.area2 = 0 /\ (Len(e.pts) > 0 => CentroidOk(e, PointsCentroid(e.pts)))
CLineOk(e) == e.area2 = 0 /\ (SumSeq(e.lens, 1) > 0 => CentroidOk(e, LineCentroid(e.pts, e.lens)))
\* a collection whose top dimension is dim (0: points, 1: one line with integer lengths plus points that do not count)
CCollOk(e, FINDING) == /\ e.area2 = 0
   /\ e.ro = 1                            \* what lies behind a member (spare capacity, the next line of a longer multi line) is untouched
   /\ IF FINDING THEN e.cx = 0 /\ e.cy = 0
      ELSE IF e.dim = 0 THEN CentroidOk(e, PointsCentroid(e.pts))
      ELSE (SumSeq(e.lens, 1) > 0 => CentroidOk(e, LineCentroid(e.line, e.lens)))
\* (a logged value far above the expected one is rejected before it is multiplied: TLC integers are 32 bit, and an
\* overflow would stop the run instead of rejecting the event)
NotFar(q, r) == q <= (10000 * r[1]) \div r[2] + 3
SegOk(e) == LET r == SegD2(e.a, e.b, e.p) IN NotFar(e.q, r) /\ Abs(e.q * r[2] - 10000 * r[1]) <= r[2] /\ (e.zero = 1) = (r[1] = 0)
DistOk(e) == IF Segs(e.paths) = {} /\ e.pts = <<>> THEN e.inf = 1
             ELSE LET S == {SegD2(s[1], s[2], e.p) : s \in Segs(e.paths)} \cup {<<D2(e.pts[i], e.p), 1>> : i \in 1..Len(e.pts)}
                      m == CHOOSE x \in S : \A y \in S : RatLE(x, y) IN
                  /\ e.inf = 0 /\ NotFar(e.q, m) /\ Abs(e.q * m[2] - 10000 * m[1]) <= m[2] + m[2] /\ (e.zero = 1) = (m[1] = 0)
                  /\ e.qi = e.q                                        \* DistanceFromWithIndex agrees
\* DistanceFromWithIndex on a multi-part geometry (multipolygon, multi line string, polygon, collection incl. nested
\* multipolygons): the distance is the minimum over all parts
DistIdxOk(e) == LET n == Len(e.groups)
                    M(i) == LET S == {SegD2(s[1], s[2], e.p) : s \in Segs(e.groups[i])} IN CHOOSE x \in S : \A y \in S : RatLE(x, y)
                    best == CHOOSE i \in 1..n : \A j \in 1..n : RatLE(M(i), M(j)) IN
                \* (the index itself is not judged: no listed property speaks about it, and for a Polygon the code returns
                \* the index of the matching segment inside the ring, not of the ring - see DESIGN.md, observations)
                /\ NotFar(e.q, M(best)) /\ Abs(e.q * M(best)[2] - 10000 * M(best)[1]) <= M(best)[2] + M(best)[2]
RECURSIVE PathsBracket(_, _)
PathsBracket(ps, i) == IF i > Len(ps) THEN <<0, 0>> ELSE LET a == LenBracket(ps[i], 1) b == PathsBracket(ps, i + 1) IN <<a[1] + b[1], a[2] + b[2]>>
LenOk(e) == LET br == PathsBracket(e.paths, 1) IN br[1] - 1 <= e.q /\ e.q <= br[2] + 1
Ok(e, FINDING) == CASE e.k = "area" -> AreaOk(e) [] e.k = "cpts" -> CPtsOk(e) [] e.k = "cline" -> CLineOk(e)
                    [] e.k = "ccoll" -> CCollOk(e, FINDING)
                    \* a staircase of n vertices one unit apart measures n - 1 (in hundredths), whatever holds it
                    [] e.k = "lenbig" -> e.q = 100 * (e.n - 1)
                    \* a small ring moved far away by an exact translation keeps its area to a relative 1e-9 (units of 1e-12); Area and
                    \* CentroidArea, ring / polygon / multipolygon agree
                    [] e.k = "areafar" -> \A j \in 1..Len(e.rel) : e.rel[j] <= 1000
                    \* long segments, points close to them: every route to the distance within a relative 1e-9 of the exact value
                    [] e.k = "distbig" -> \A j \in 1..Len(e.rel) : e.rel[j] <= 1000
                    [] e.k = "seg" -> SegOk(e) [] e.k = "dist" -> DistOk(e) [] e.k = "distidx" -> DistIdxOk(e) [] e.k = "len" -> LenOk(e) [] OTHER -> FALSE
Init == l = 1 /\ bad = {} /\ alt = {}
Next == /\ l <= Len(Trace) /\ l' = l + 1
        /\ LET ok == Ok(Trace[l], FALSE) IN
           /\ bad' = IF ok THEN bad ELSE bad \cup {l}
           /\ alt' = IF ok \/ Ok(Trace[l], TRUE) THEN alt ELSE alt \cup {l}
        /\ (l = Len(Trace) => PrintT(ToJson([done |-> l, bad |-> bad', alt |-> alt'])))
Spec == Init /\ [][Next]_<<l, bad, alt>>
=============================================================================
