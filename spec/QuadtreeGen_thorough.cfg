SPECIFICATION GSpec
CONSTANTS
  B = 256
  Pts <- PtsDef
  MaxOps = 5
INVARIANT Emit
CHECK_DEADLOCK FALSE
