SPECIFICATION Spec
CONSTANT MaxOps = 3
INVARIANT Emit
CHECK_DEADLOCK FALSE
