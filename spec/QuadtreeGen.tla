---------------------------- MODULE QuadtreeGen ----------------------------
(* Behaviour generator for replay (spec -> code): every history of MaxOps operations of the           *)
(* implementation-shaped quadtree spec, printed as one JSON document per history with the result the    *)
(* spec predicts for each operation.  The harness replays each history into a real quadtree.Quadtree.  *)
EXTENDS QuadtreeImpl, Json
CONSTANT MaxOps
PtsDef == << <<128,128>>, <<128,128>>, <<64,192>>, <<0,256>>, <<200,40>>, <<300,10>> >>
VARIABLE hist
GNext == /\ nops < MaxOps
         /\ \/ \E k \in 1..Len(Pts) : Add(k) \/ RemoveByPoint(k)
            \/ \E id \in 1..(next-1) : RemoveById(id)
         /\ hist' = Append(hist, [op |-> lastOp'.op, k |-> lastOp'.k, id |-> lastOp'.id, res |-> lastOp'.res])
GSpec == Init /\ hist = <<>> /\ [][GNext]_<<vars, hist>>
Emit == nops < MaxOps \/ PrintT(ToJson([h |-> hist, pts |-> Pts]))
=============================================================================
