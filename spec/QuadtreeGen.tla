---------------------------- MODULE QuadtreeGen ----------------------------
(* Behaviour generator for replay (spec -> code): every history of MaxOps operations of the           *)
(* implementation-shaped quadtree spec, printed as one JSON document per history with the result and the node    *)
(* tree the spec predicts after each operation.  The harness replays each history into a real quadtree.Quadtree.  *)
EXTENDS QuadtreeImpl, Json
CONSTANT MaxOps
PtsDef == << <<128,128>>, <<128,128>>, <<64,192>>, <<0,256>>, <<200,40>>, <<300,10>> >>
VARIABLE hist
\* the node tree after the operation as rows <<path code, pointer id>>; a path is coded as 1 followed by its child
\* indices in base 4 (the root is 1)
RECURSIVE PC(_)
PC(pa) == IF pa = <<>> THEN 1 ELSE 4 * PC(SubSeq(pa, 1, Len(pa) - 1)) + pa[Len(pa)]
TreeRows(ns) == {<<PC(pa), ns[pa]>> : pa \in DOMAIN ns}
GNext == /\ nops < MaxOps
         /\ \/ \E k \in 1..Len(Pts) : Add(k) \/ RemoveByPoint(k)
            \/ \E id \in 1..(next-1) : RemoveById(id)
         /\ hist' = Append(hist, [op |-> lastOp'.op, k |-> lastOp'.k, id |-> lastOp'.id, res |-> lastOp'.res, tree |-> TreeRows(nodes')])
GSpec == Init /\ hist = <<>> /\ [][GNext]_<<vars, hist>>
Emit == nops < MaxOps \/ PrintT(ToJson([h |-> hist, pts |-> Pts]))
=============================================================================
