---------------------------- MODULE ClipLine ----------------------------
(* C07: clipping a line string to a box.                                                           *)
(* Abstract layer: per segment, SegBoxPart = segment /\ closed box, computed from the candidate     *)
(* points {a, b, crossings of the four box lines} (the box is convex, so the part is the span       *)
(* between the first and last candidate inside the box); Expected = the maximal chains of           *)
(* consecutive non-empty parts in travel order.  Open option: closure of the strictly-inside part.  *)
(* All coordinates are integers on a lattice fine enough that every crossing is a lattice point     *)
(* (the harness chooses the scale; LatticeOK states the precondition and the trace spec asserts it). *)
(* Implementation-shaped layer: the Cohen-Sutherland loop of clip/clip.go (CSLine).                 *)
EXTENDS Exact2D

InBox(bx, p, open) == IF open THEN InBoxOpen(bx, p) ELSE InBoxClosed(bx, p)

\* crossings of segment a-b with the vertical line x = c / the horizontal line y = c
XCross(a, b, c) == IF a[1] # b[1] /\ Min2(a[1],b[1]) <= c /\ c <= Max2(a[1],b[1])
                   THEN {<<c, a[2] + ((b[2]-a[2])*(c-a[1])) \div (b[1]-a[1])>>} ELSE {}
YCross(a, b, c) == IF a[2] # b[2] /\ Min2(a[2],b[2]) <= c /\ c <= Max2(a[2],b[2])
                   THEN {<<a[1] + ((b[1]-a[1])*(c-a[2])) \div (b[2]-a[2]), c>>} ELSE {}
\* the divisions above are exact iff these remainders vanish
XExact(a, b, c) == XCross(a, b, c) = {} \/ ((b[2]-a[2])*(c-a[1])) % Abs(b[1]-a[1]) = 0
YExact(a, b, c) == YCross(a, b, c) = {} \/ ((b[1]-a[1])*(c-a[2])) % Abs(b[2]-a[2]) = 0
LatticeOK(bx, path) == \A i \in 1..(Len(path)-1) :
     /\ XExact(path[i], path[i+1], bx[1]) /\ XExact(path[i], path[i+1], bx[3])
     /\ YExact(path[i], path[i+1], bx[2]) /\ YExact(path[i], path[i+1], bx[4])

Cands(bx, a, b) == {a, b} \cup XCross(a,b,bx[1]) \cup XCross(a,b,bx[3]) \cup YCross(a,b,bx[2]) \cup YCross(a,b,bx[4])

\* segment /\ closed box: <<>> or <<p, q>> ordered along a -> b
SegBoxPart(bx, a, b) ==
  LET C == {p \in Cands(bx,a,b) : InBoxClosed(bx, p)}
  IN IF C = {} THEN <<>>
     ELSE << CHOOSE p \in C : \A q \in C : Dot(a,b,p) <= Dot(a,b,q),
             CHOOSE p \in C : \A q \in C : Dot(a,b,p) >= Dot(a,b,q) >>

StrictInDoubled(bx, p2) == 2*bx[1] < p2[1] /\ p2[1] < 2*bx[3] /\ 2*bx[2] < p2[2] /\ p2[2] < 2*bx[4]
\* open option: the closed part if its midpoint is strictly inside (else the part has no interior point)
Part(bx, a, b, open) ==
  LET cp == SegBoxPart(bx, a, b) IN
  IF ~open \/ cp = <<>> THEN cp
  ELSE IF cp[1] # cp[2] /\ StrictInDoubled(bx, <<cp[1][1]+cp[2][1], cp[1][2]+cp[2][2]>>) THEN cp ELSE <<>>
Joinable(bx, v, open) == IF open THEN InBoxOpen(bx, v) ELSE TRUE

\* expected pieces: consecutive duplicate vertices removed, zero-length pieces dropped
RECURSIVE Build(_,_,_,_,_,_)
Build(bx, path, i, cur, acc, open) ==
  IF i >= Len(path) THEN (IF Len(cur) >= 2 THEN Append(acc, cur) ELSE acc)
  ELSE LET a == path[i]  b == path[i+1]  part == Part(bx, a, b, open) IN
       IF part = <<>> \/ (a = b)
       THEN IF a = b /\ InBox(bx, a, open)
            THEN Build(bx, path, i+1, cur, acc, open)            \* repeated vertex inside: no effect
            ELSE Build(bx, path, i+1, <<>>, IF Len(cur) >= 2 THEN Append(acc, cur) ELSE acc, open)
       ELSE LET lo == part[1]  hi == part[2]
                cont == Len(cur) > 0 /\ cur[Len(cur)] = lo /\ lo = a /\ Joinable(bx, a, open)
                base == IF cont THEN cur ELSE <<lo>>
                acc2 == IF cont \/ Len(cur) < 2 THEN acc ELSE Append(acc, cur)
                cur2 == IF hi = lo THEN base ELSE Append(base, hi)
            IN IF hi = b THEN Build(bx, path, i+1, cur2, acc2, open)
               ELSE Build(bx, path, i+1, <<>>, IF Len(cur2) >= 2 THEN Append(acc2, cur2) ELSE acc2, open)

Expected(bx, path, open) == Build(bx, path, 1, <<>>, <<>>, open)

RECURSIVE ExpectedAll(_,_,_,_)
ExpectedAll(bx, paths, i, open) == IF i > Len(paths) THEN <<>>
                                   ELSE Expected(bx, paths[i], open) \o ExpectedAll(bx, paths, i+1, open)

Norm(pieces) == SelectSeq([i \in 1..Len(pieces) |-> Dedup(pieces[i])], LAMBDA p : Len(p) >= 2)

AllInBox(bx, pieces) == \A i \in 1..Len(pieces) : \A j \in 1..Len(pieces[i]) : InBoxClosed(bx, pieces[i][j])
OnPath(path, p) == \E i \in 1..Len(path) : IF i < Len(path) THEN OnSeg(path[i], path[i+1], p) ELSE p = path[i]
WhollyInside(bx, path, open) == \A i \in 1..Len(path) : InBox(bx, path[i], open)

\* ---------- implementation-shaped layer: transcription of clip.line() -----------------------------
Code(bx, p, open) ==
  (IF open THEN (IF p[1] <= bx[1] THEN 1 ELSE IF p[1] >= bx[3] THEN 2 ELSE 0)
           ELSE (IF p[1] <  bx[1] THEN 1 ELSE IF p[1] >  bx[3] THEN 2 ELSE 0)) +
  (IF open THEN (IF p[2] <= bx[2] THEN 4 ELSE IF p[2] >= bx[4] THEN 8 ELSE 0)
           ELSE (IF p[2] <  bx[2] THEN 4 ELSE IF p[2] >  bx[4] THEN 8 ELSE 0))
Bit(c, b) == (c \div b) % 2 = 1
And0(c1, c2) == \A b \in {1,2,4,8} : ~(Bit(c1,b) /\ Bit(c2,b))
Isect(bx, edge, a, b) ==
  IF Bit(edge, 8) THEN <<a[1] + ((b[1]-a[1])*(bx[4]-a[2])) \div (b[2]-a[2]), bx[4]>>
  ELSE IF Bit(edge, 4) THEN <<a[1] + ((b[1]-a[1])*(bx[2]-a[2])) \div (b[2]-a[2]), bx[2]>>
  ELSE IF Bit(edge, 2) THEN <<bx[3], a[2] + ((b[2]-a[2])*(bx[3]-a[1])) \div (b[1]-a[1])>>
  ELSE <<bx[1], a[2] + ((b[2]-a[2])*(bx[1]-a[1])) \div (b[1]-a[1])>>
Push(out, li, p) == IF li > Len(out) THEN Append(out, <<p>>) ELSE [out EXCEPT ![li] = Append(@, p)]
\* inner "for" loop of one segment: returns [out, li]; fuel bounds the iterations (a segment can be cut
\* at most four times), exhausting it is reported as a result no invariant accepts
RECURSIVE Inner(_,_,_,_,_,_,_,_,_,_)
Inner(bx, a, b, cA, cB, endCode, out, li, isLast, fuel) ==
  IF fuel = 0 THEN [out |-> <<<<"LOOP">>>>, li |-> li]
  ELSE IF cA = 0 /\ cB = 0 THEN
       LET o1 == Push(out, li, a) IN
       IF cB # endCode THEN [out |-> Push(o1, li, b), li |-> IF ~isLast THEN li + 1 ELSE li]
       ELSE IF isLast THEN [out |-> Push(o1, li, b), li |-> li] ELSE [out |-> o1, li |-> li]
  ELSE IF ~And0(cA, cB) THEN [out |-> out, li |-> li]
  ELSE IF cA # 0 THEN LET a2 == Isect(bx, cA, a, b) IN Inner(bx, a2, b, Code(bx, a2, FALSE), cB, endCode, out, li, isLast, fuel-1)
  ELSE LET b2 == Isect(bx, cB, a, b) IN Inner(bx, a, b2, cA, Code(bx, b2, FALSE), endCode, out, li, isLast, fuel-1)
RECURSIVE Outer(_,_,_,_,_,_,_)
Outer(bx, path, i, cA, out, li, open) ==
  IF i > Len(path) THEN out
  ELSE LET cB == Code(bx, path[i], open)
           r == Inner(bx, path[i-1], path[i], cA, cB, cB, out, li, i = Len(path), 6)
       IN Outer(bx, path, i+1, cB, r.out, r.li, open)
CSLine(bx, path, open) == IF path = <<>> THEN <<>> ELSE Outer(bx, path, 2, Code(bx, path[1], open), <<>>, 1, open)
=============================================================================
