---------------------------- MODULE WkbStreamMC ----------------------------
(* Model check of the stream model: every history of up to MaxOps operations (set byte order, set default SRID,    *)
(* encode a shape with the default or an explicit SRID, decode) over a shape alphabet that contains nil, empty      *)
(* and nested values and coordinates that look like headers.  Invariants: the pipe is a FIFO of self-delimiting     *)
(* messages (Framing), it is empty exactly when everything was decoded (Drained), decoded values come out in the    *)
(* order they were encoded (hist).  With Emit the same histories are printed for replay into the real encoder.      *)
EXTENDS WkbStream, TLC, Json
CONSTANT MaxOps
Tab == << <<1, 0, 0, 0, 32, 0, 0, 1>>, <<0, 0, 0, 0, 0, 0, 0, 0>>, <<255, 255, 255, 255, 255, 255, 255, 255>> >>
G(t, c) == [t |-> t, c |-> c]
Alpha == {[t |-> "nil"], G("Point", <<1, 2>>), G("MultiPoint", <<>>), G("LineString", <<<<1, 1>>, <<2, 3>>>>),
          G("Ring", <<<<1, 2>>>>), G("Polygon", <<<<>>, <<<<2, 2>>>>>>), G("MultiPolygon", <<<<<<<<3, 3>>>>>>>>),
          G("Bound", <<1, 2, 3, 1>>), [t |-> "Collection", g |-> <<>>],
          [t |-> "Collection", g |-> <<G("LineString", <<>>), G("Point", <<2, 2>>)>>]}
Srids == {-1, 0, 4326}
Ops == [op : {"order"}, le : BOOLEAN] \cup [op : {"srid"}, srid : {0, 7}] \cup [op : {"enc"}, g : Alpha, sr : Srids] \cup [op : {"dec"}]
VARIABLES s, hist, out
vars == <<s, hist, out>>
Init == s \in {S0(0), S0(4326)} /\ hist = <<>> /\ out = <<>>
Step(o) == /\ hist' = Append(hist, o)
           /\ CASE o.op = "order" -> s' = SetOrder(s, o.le) /\ out' = out
                [] o.op = "srid"  -> s' = SetSrid(s, o.srid) /\ out' = out
                [] o.op = "enc"   -> s' = Encode(Tab, s, o.g, 0, o.sr, Len(Bytes(Tab, s, o.g, 0, o.sr))) /\ out' = out
                [] o.op = "dec"   -> LET r == DecodeRes(Tab, s) IN s' = r.next /\ out' = Append(out, IF r.res = "ok" THEN [res |-> "ok", v |-> r.v, srid |-> r.srid] ELSE [res |-> r.res])
Next == Len(hist) < MaxOps /\ \E o \in Ops : Step(o)
Spec == Init /\ [][Next]_vars
FramingInv == Framing(Tab, s)
DrainedInv == Drained(s)
\* what came out, followed by what is still in the pipe, is what went in (ignoring nil encodes and eof replies)
Went == LET E == SelectSeq(hist, LAMBDA o : o.op = "enc" /\ o.g.t # "nil") IN Len(E)
Fifo == Len(SelectSeq(out, LAMBDA r : r.res = "ok")) + Len(s.sent) = Went
NoErr == \A i \in 1..Len(out) : out[i].res # "err"
Emit == Len(hist) = MaxOps => PrintT(ToJson([ops |-> hist]))
=============================================================================
