---------------------------- MODULE MergeUpPartial_Trace ----------------------------
(* Trace validation of tilecover.MergeUpPartial (several repetitions per input: Go's map order varies) and of        *)
(* maptile.Set.Merge.  mergep: in = tiles <<x, y, z>> of one zoom z, out = the result, runs = number of distinct     *)
(* results among the repetitions.  setmerge: a, b = rows <<x, y, z, flag>>, out = the true entries of a afterwards.   *)
EXTENDS TileQuad, TLC, Json, IOUtils
Trace == ndJsonDeserialize(IOEnv.TRACE)
VARIABLES l, bad
ToSet(s) == {s[i] : i \in 1..Len(s)}
True3(rows) == {<<r[1], r[2], r[3]>> : r \in {x \in ToSet(rows) : x[4] = 1}}
MergePOk(e) == /\ e.runs = 1
               /\ Len(e.out) = Cardinality(ToSet(e.out))
               /\ ToSet(e.out) = (IF e.min = e.z THEN ToSet(e.in) ELSE PM(ToSet(e.in), e.z, e.min, e.count))
SetMergeOk(e) == ToSet(e.out) = True3(e.a) \cup True3(e.b) /\ e.bsame = 1
Ok(e) == CASE e.k = "mergep" -> MergePOk(e) [] e.k = "setmerge" -> SetMergeOk(e) [] OTHER -> FALSE
TInit == l = 1 /\ bad = {}
TNext == /\ l <= Len(Trace) /\ l' = l + 1
         /\ bad' = IF Ok(Trace[l]) THEN bad ELSE bad \cup {l}
         /\ (l = Len(Trace) => PrintT(ToJson([done |-> l, bad |-> bad'])))
TSpec == TInit /\ [][TNext]_<<l, bad>>
=============================================================================
