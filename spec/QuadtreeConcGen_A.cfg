SPECIFICATION GSpec
CONSTANTS
  B = 256
  Pts <- PtsDef
  Removals <- RemDef
  Qs <- QsA
  Kinds <- KindsA
  NQ = 2
  SHARED = FALSE
  COMPACT = FALSE
INVARIANT Emit
CHECK_DEADLOCK FALSE
