---------------------------- MODULE GeoSphere ----------------------------
(* C18: spherical measures.  Trigonometry cannot be written in TLA+, so the specification consists of              *)
(*  - relations between integer observations of the code's outputs (symmetry, bounds, mutual inverses, additivity), *)
(*  - closed forms with RATIONAL constants: boxes whose parallels are 0, +-30, +-90 degrees have sines in             *)
(*    {0, +-1/2, +-1}, so Area = K * width * (sin top - sin bottom) with K = R^2 * pi / 180 = 710 011 km^2 per degree  *)
(*    of longitude (R = 6378137 m) is integer arithmetic,                                                             *)
(*  - the index schedule of geo.ringArea (lo / mi / hi rewiring with implicit closing), model-checked to be the        *)
(*    cyclic-triple sum.                                                                                               *)
EXTENDS Integers, Sequences, FiniteSets
Abs(a) == IF a < 0 THEN -a ELSE a
Sign(a) == IF a > 0 THEN 1 ELSE IF a < 0 THEN -1 ELSE 0
K == 710011                       \* km^2 per degree of longitude for a unit of (sin top - sin bottom)
HalfCircumferenceCm == 2003750835 \* pi * R in centimetres, rounded up
\* doubled sine of the "rational" parallels
Sin2(lat) == CASE lat = 0 -> 0 [] lat = 30 -> 1 [] lat = -30 -> -1 [] lat = 90 -> 2 [] lat = -90 -> -2
\* twice the shoelace sum of an integer lon/lat ring (implicitly closed): its sign is the winding
RECURSIVE ShoeFrom(_, _)
ShoeFrom(r, i) == IF i > Len(r) THEN 0
                  ELSE LET a == r[i]  b == r[(i % Len(r)) + 1] IN a[1]*b[2] - b[1]*a[2] + ShoeFrom(r, i + 1)
Winding(r) == Sign(ShoeFrom(r, 1))

\* ---------- the index schedule of geo.ringArea ------------------------------------------------------------------
\* a ring of n stored vertices (closed: first = last); the loop adds (lon[hi] - lon[lo]) * sin(lat[mi]) for:
LoopLen(n, closed) == IF closed THEN n ELSE n + 1
Triple(i, L) == IF i = L - 3 THEN <<L - 3, L - 2, 0>>
                ELSE IF i = L - 2 THEN <<L - 2, 0, 0>>
                ELSE IF i = L - 1 THEN <<0, 0, 1>>
                ELSE <<i, i + 1, i + 2>>
=============================================================================
