---------------------------- MODULE Simplify ----------------------------
(* C12: line simplification on integer paths.  Thresholds are exact rationals: t^2 = n/d (distance          *)
(* simplifiers), 2*area threshold = an/ad (Visvalingam).                                                      *)
(* Abstract layer (relations between input, parameters and output): subsequence, endpoints kept, error bound, *)
(* spacing, minimum counts, monotonicity in the threshold.                                                     *)
(* Implementation-shaped layer: Douglas-Peucker with its farthest-vertex split (first maximum wins, strict >), *)
(* radial scan, and Visvalingam as "repeatedly remove a vertex of least effective area, where the effective    *)
(* area of its neighbours becomes max(new area, removed area)" with ties broken arbitrarily.                    *)
EXTENDS Exact2D

\* squared distance from p to segment a-b compared with n/d
SegD2Cmp(a, b, p, n, d, Op(_, _)) ==
  IF a = b THEN Op(D2(p, a) * d, n)
  ELSE LET dt == Dot(a, b, p)  l2 == D2(a, b) IN
       IF dt <= 0 THEN Op(D2(p, a) * d, n)
       ELSE IF dt >= l2 THEN Op(D2(p, b) * d, n)
       ELSE Op(Cross(a, b, p) * Cross(a, b, p) * d, n * l2)
LE(x, y) == x <= y
GT(x, y) == x > y
Within(a, b, p, n, d) == SegD2Cmp(a, b, p, n, d, LE)
RECURSIVE IsSubseq(_,_)
IsSubseq(s, t) == IF s = <<>> THEN TRUE ELSE IF t = <<>> THEN FALSE
   ELSE IF Head(s) = Head(t) THEN IsSubseq(Tail(s), Tail(t)) ELSE IsSubseq(s, Tail(t))
Ends(in, out) == Len(in) = 0 \/ (Len(out) >= 1 /\ out[1] = in[1] /\ out[Len(out)] = in[Len(in)])
Base(in, out) == IsSubseq(out, in) /\ Ends(in, out) /\ (Len(in) >= 2 => Len(out) >= 2) /\ (Len(in) < 2 => out = in)
\* every input vertex within the threshold of the simplified line
DPBound(in, out, n, d) == \A i \in 1..Len(in) : \E j \in 1..(Len(out)-1) : Within(out[j], out[j+1], in[i], n, d)
\* consecutive kept vertices farther apart than the threshold, except possibly the last pair
RadialSpacing(out, n, d) == \A j \in 1..(Len(out)-2) : D2(out[j], out[j+1]) * d > n
ClosedStays(in, out) == (Len(in) >= 2 /\ in[1] = in[Len(in)]) => out[1] = out[Len(out)]
\* default minimum counts: 2 for lines, 3 for open rings, 4 for closed rings
DefaultKeep(in, ring) == IF ~ring THEN 2 ELSE IF Len(in) >= 1 /\ in[1] = in[Len(in)] THEN 4 ELSE 3
MinCount(in, out, keep) == Len(out) >= (IF Len(in) < keep THEN Len(in) ELSE keep)

\* ---------- implementation-shaped: Douglas-Peucker --------------------------------------------------------
\* squared distance as an exact rational <<num, den>> (den > 0)
SegD2(a, b, p) ==
  IF a = b THEN <<D2(p, a), 1>>
  ELSE LET dt == Dot(a, b, p)  l2 == D2(a, b) IN
       IF dt <= 0 THEN <<D2(p, a), 1>> ELSE IF dt >= l2 THEN <<D2(p, b), 1>>
       ELSE <<Cross(a, b, p) * Cross(a, b, p), l2>>
RatGT(x, y) == x[1] * y[2] > y[1] * x[2]
RECURSIVE Farthest(_,_,_,_,_,_)
Farthest(ls, s, e, i, best, bi) ==      \* first strict maximum over the interior vertices
  IF i >= e THEN <<best, bi>>
  ELSE LET dd == SegD2(ls[s], ls[e], ls[i]) IN
       IF RatGT(dd, best) THEN Farthest(ls, s, e, i + 1, dd, i) ELSE Farthest(ls, s, e, i + 1, best, bi)
RECURSIVE DPKeep(_,_,_,_,_)
DPKeep(ls, s, e, n, d) ==      \* set of kept indices strictly between s and e
  IF e <= s + 1 THEN {}
  ELSE LET f == Farthest(ls, s, e, s + 1, <<0, 1>>, 0) IN
       IF f[2] # 0 /\ f[1][1] * d > n * f[1][2]
       THEN {f[2]} \cup DPKeep(ls, s, f[2], n, d) \cup DPKeep(ls, f[2], e, n, d)
       ELSE {}
Pick(ls, K) == LET idx == {i \in 1..Len(ls) : i \in K} IN
               LET RECURSIVE P(_)
                   P(i) == IF i > Len(ls) THEN <<>> ELSE (IF i \in K THEN <<ls[i]>> ELSE <<>>) \o P(i + 1)
               IN P(1)
DPImpl(ls, n, d) == IF Len(ls) <= 2 THEN ls ELSE Pick(ls, {1, Len(ls)} \cup DPKeep(ls, 1, Len(ls), n, d))

\* The same with every choice among vertices that are exactly equally far: the code compares rounded float64 distances,
\* and where two vertices are equally far in exact arithmetic (1.6 computed through t = 0.2 and through t = 0.8) rounding
\* decides which is "the first strict maximum".  DPImpl is the choice of the first; the code's result is one of these.
RatEQ(x, y) == x[1] * y[2] = y[1] * x[2]
RECURSIVE DPKeepAll(_,_,_,_,_)
DPKeepAll(ls, s, e, n, d) ==
  IF e <= s + 1 THEN {{}}
  ELSE LET f == Farthest(ls, s, e, s + 1, <<0, 1>>, 0) IN
       IF f[2] # 0 /\ f[1][1] * d > n * f[1][2]
       THEN UNION {{{i} \cup a \cup b : a \in DPKeepAll(ls, s, i, n, d), b \in DPKeepAll(ls, i, e, n, d)} :
                     i \in {j \in (s+1)..(e-1) : RatEQ(SegD2(ls[s], ls[e], ls[j]), f[1])}}
       ELSE {{}}
DPImplResults(ls, n, d) == IF Len(ls) <= 2 THEN {ls} ELSE {Pick(ls, {1, Len(ls)} \cup k) : k \in DPKeepAll(ls, 1, Len(ls), n, d)}

\* ---------- implementation-shaped: radial -----------------------------------------------------------------
RECURSIVE RadialScan(_,_,_,_,_,_)
RadialScan(ls, i, cur, out, n, d) ==
  IF i > Len(ls) THEN (IF cur # Len(ls) THEN Append(out, ls[Len(ls)]) ELSE out)
  ELSE IF D2(ls[cur], ls[i]) * d > n THEN RadialScan(ls, i + 1, i, Append(out, ls[i]), n, d)
  ELSE RadialScan(ls, i + 1, cur, out, n, d)
RadialImpl(ls, n, d) == IF Len(ls) <= 2 THEN ls ELSE RadialScan(ls, 2, 1, <<ls[1]>>, n, d)

\* ---------- implementation-shaped: Visvalingam (set of possible results, ties free) -------------------------
Tri2(a, b, c) == Abs(Cross(a, b, c))
\* state: alive = sorted sequence of kept indices, eff = effective doubled area per index (0 for endpoints: never removed)
VisStep(ls, alive, eff, an, ad, keep) ==      \* set of successor <<alive', eff'>>
  LET cand == {k \in 2..(Len(alive)-1) : TRUE}
      m == IF cand = {} THEN 0 ELSE Min2(0, 0) IN
  IF Len(alive) <= keep \/ cand = {} THEN {}
  ELSE LET least == CHOOSE a \in {eff[alive[k]] : k \in cand} : \A k \in cand : a <= eff[alive[k]] IN
       IF least * ad > an THEN {}
       ELSE {LET i == alive[k]
                 al2 == SubSeq(alive, 1, k-1) \o SubSeq(alive, k+1, Len(alive))
                 pk == k - 1          \* position of the previous vertex in al2
                 nk == k              \* position of the next vertex in al2
                 e1 == IF pk >= 2 THEN [eff EXCEPT ![al2[pk]] = Max2(Tri2(ls[al2[pk-1]], ls[al2[pk]], ls[al2[pk+1]]), least)] ELSE eff
                 e2 == IF nk <= Len(al2) - 1 THEN [e1 EXCEPT ![al2[nk]] = Max2(Tri2(ls[al2[nk-1]], ls[al2[nk]], ls[al2[nk+1]]), least)] ELSE e1
             IN <<al2, e2>> : k \in {k \in cand : eff[alive[k]] = least}}
RECURSIVE VisResults(_,_,_,_,_,_)
VisResults(ls, alive, eff, an, ad, keep) ==
  LET nx == VisStep(ls, alive, eff, an, ad, keep) IN
  IF nx = {} THEN {alive} ELSE UNION {VisResults(ls, s[1], s[2], an, ad, keep) : s \in nx}
VisImplResults(ls, an, ad, keep) ==      \* set of possible kept-index sequences
  IF Len(ls) <= keep \/ Len(ls) <= 1 THEN {[i \in 1..Len(ls) |-> i]}
  ELSE VisResults(ls, [i \in 1..Len(ls) |-> i],
                  [i \in 1..Len(ls) |-> IF i = 1 \/ i = Len(ls) THEN 0 ELSE Tri2(ls[i-1], ls[i], ls[i+1])], an, ad, keep)
=============================================================================
