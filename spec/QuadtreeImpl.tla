---------------------------- MODULE QuadtreeImpl ----------------------------
(* C11 implementation-shaped layer: the node tree of quadtree/quadtree.go.                          *)
(*   nodes : path (sequence of child indices) -> pointer id, 0 = node emptied by a removal           *)
(*   pt    : pointer id -> point                                                                     *)
(* Actions: Add (midline rule <= / >=), RemoveByPoint / RemoveById (nearest matching search +          *)
(* removeNode pull-up that leaves empty leaves behind).  Queries are transcribed with their pruning  *)
(* (search box shrunk to the best distance so far, nearest child first) and the k-nearest max-heap   *)
(* (array with sift-up / sift-down).  The bound is [0,B]^2 with B a power of two and coordinates      *)
(* multiples of a power of two, so every midline of the explored depth is an integer; the pruning     *)
(* test against the square-rooted distance is evaluated on squares.                                   *)
(* The model check (QuadtreeMC) shows that this layer refines QuadtreeList: after every history the   *)
(* bag of node values is the abstract bag and every query transcription satisfies its relation.       *)
EXTENDS QuadtreeList, TLC

CONSTANTS B, Pts
Bnd == <<0, 0, B, B>>

VARIABLES nodes, pt, next, nops, lastOp
vars == <<nodes, pt, next, nops, lastOp>>

Items == {nodes[pa] : pa \in DOMAIN nodes} \ {0}
Bag   == {<<id, pt[id][1], pt[id][2]>> : id \in Items}
HasRoot == <<>> \in DOMAIN nodes
Kids(ns, path) == {i \in 0..3 : Append(path, i) \in DOMAIN ns}

\* ---- add ---------------------------------------------------------------------------------------
ChildOf(l, r, b, t, p) ==
   LET cy == (b + t) \div 2  cx == (l + r) \div 2
       iy == IF p[2] <= cy THEN 2 ELSE 0
       ix == IF p[1] >= cx THEN 1 ELSE 0
   IN [i |-> iy + ix,
       l |-> IF ix = 1 THEN cx ELSE l, r |-> IF ix = 1 THEN r ELSE cx,
       b |-> IF iy = 2 THEN b ELSE cy, t |-> IF iy = 2 THEN cy ELSE t]
RECURSIVE AddRec(_,_,_,_,_,_,_,_)
AddRec(ns, path, id, p, l, r, b, t) ==
   LET c == ChildOf(l, r, b, t, p)  cp == Append(path, c.i) IN
   IF cp \notin DOMAIN ns THEN (cp :> id) @@ ns
   ELSE IF ns[cp] = 0 THEN [ns EXCEPT ![cp] = id]
   ELSE AddRec(ns, cp, id, p, c.l, c.r, c.b, c.t)
AddNodes(ns, id, p) ==
   IF <<>> \notin DOMAIN ns THEN (<<>> :> id)
   ELSE IF ns[<<>>] = 0 THEN [ns EXCEPT ![<<>>] = id]
   ELSE AddRec(ns, <<>>, id, p, 0, B, 0, B)

\* ---- pruned traversal ---------------------------------------------------------------------------
\* a search box is [d2 |-> squared radius or -1 for "the whole tree bound"] around q
Pruned(d2, q, l, r, b, t) ==
   IF d2 < 0 THEN (l > B \/ r < 0 \/ b > B \/ t < 0)
   ELSE \/ (l - q[1] > 0 /\ (l - q[1])*(l - q[1]) > d2)
        \/ (q[1] - r > 0 /\ (q[1] - r)*(q[1] - r) > d2)
        \/ (b - q[2] > 0 /\ (b - q[2])*(b - q[2]) > d2)
        \/ (q[2] - t > 0 /\ (q[2] - t)*(q[2] - t) > d2)
SubCell(k, l, r, b, t) == LET cx == (l + r) \div 2  cy == (b + t) \div 2 IN
   IF k = 0 THEN <<l, cx, cy, t>> ELSE IF k = 1 THEN <<cx, r, cy, t>>
   ELSE IF k = 2 THEN <<l, cx, b, cy>> ELSE <<cx, r, b, cy>>
FirstChild(q, l, r, b, t) == (IF q[2] <= (b + t) \div 2 THEN 2 ELSE 0) + (IF q[1] >= (l + r) \div 2 THEN 1 ELSE 0)

\* find: vs = [best |-> path or <<9>>, d2 |-> -1 or squared distance]
RECURSIVE VisitF(_,_,_,_,_,_,_,_,_)
RECURSIVE KidsF(_,_,_,_,_,_,_,_,_,_,_)
VisitF(ns, match, q, path, l, r, b, t, vs) ==
   IF Pruned(vs.d2, q, l, r, b, t) THEN vs
   ELSE LET v == ns[path]
            vs1 == IF v # 0 /\ v \in match /\ (vs.d2 < 0 \/ D2(pt[v], q) < vs.d2)
                   THEN [best |-> path, d2 |-> D2(pt[v], q)] ELSE vs
        IN IF Kids(ns, path) = {} THEN vs1
           ELSE KidsF(ns, match, q, path, l, r, b, t, vs1, FirstChild(q, l, r, b, t), 0)
KidsF(ns, match, q, path, l, r, b, t, vs, i0, j) ==
   IF j = 4 THEN vs
   ELSE LET k == (i0 + j) % 4  cp == Append(path, k)  c == SubCell(k, l, r, b, t)
            vs1 == IF cp \notin DOMAIN ns THEN vs ELSE VisitF(ns, match, q, cp, c[1], c[2], c[3], c[4], vs)
        IN KidsF(ns, match, q, path, l, r, b, t, vs1, i0, j + 1)
FindNode(ns, match, q) == VisitF(ns, match, q, <<>>, 0, B, 0, B, [best |-> <<9>>, d2 |-> -1])
FindImpl(ns, match, q) == IF <<>> \notin DOMAIN ns THEN 0
                          ELSE LET f == FindNode(ns, match, q) IN IF f.best = <<9>> THEN 0 ELSE ns[f.best]

\* k-nearest: max-heap of <<id, d2>> kept in an array, exactly as quadtree/maxheap.go
RECURSIVE SiftUp(_,_)
SiftUp(h, i) == IF i <= 1 THEN h
                ELSE LET up == i \div 2 IN
                     IF h[i][2] < h[up][2] THEN h
                     ELSE SiftUp([h EXCEPT ![i] = h[up], ![up] = h[i]], up)
HeapPush(h, it) == SiftUp(Append(h, it), Len(h) + 1)
RECURSIVE SiftDown(_,_)
SiftDown(h, i) ==
   LET lft == 2*i  rgt == 2*i + 1
       c1 == IF lft <= Len(h) /\ h[i][2] < h[lft][2] THEN lft ELSE i
       c2 == IF rgt <= Len(h) /\ h[c1][2] < h[rgt][2] THEN rgt ELSE c1
   IN IF c2 = i THEN h ELSE SiftDown([h EXCEPT ![i] = h[c2], ![c2] = h[i]], c2)
HeapPop(h) == IF Len(h) <= 1 THEN <<>>
              ELSE SiftDown([SubSeq(h, 1, Len(h)-1) EXCEPT ![1] = h[Len(h)]], 1)
\* vs = [heap, lim (squared limit for candidates, -1 = none), d2 (search box, -1 = whole bound)]
RECURSIVE VisitK(_,_,_,_,_,_,_,_,_,_)
RECURSIVE KidsK(_,_,_,_,_,_,_,_,_,_,_,_)
VisitK(ns, match, q, k, path, l, r, b, t, vs) ==
   IF Pruned(vs.d2, q, l, r, b, t) THEN vs
   ELSE LET v == ns[path]
            d == IF v = 0 THEN 0 ELSE D2(pt[v], q)
            vs1 == IF v # 0 /\ v \in match /\ (vs.lim < 0 \/ d < vs.lim)
                   THEN LET h1 == HeapPush(vs.heap, <<v, d>>) IN
                        IF Len(h1) > k
                        THEN LET h2 == HeapPop(h1) IN [heap |-> h2, lim |-> h2[1][2], d2 |-> h2[1][2]]
                        ELSE [vs EXCEPT !.heap = h1]
                   ELSE vs
        IN IF Kids(ns, path) = {} THEN vs1
           ELSE KidsK(ns, match, q, k, path, l, r, b, t, vs1, FirstChild(q, l, r, b, t), 0)
KidsK(ns, match, q, k, path, l, r, b, t, vs, i0, j) ==
   IF j = 4 THEN vs
   ELSE LET kk == (i0 + j) % 4  cp == Append(path, kk)  c == SubCell(kk, l, r, b, t)
            vs1 == IF cp \notin DOMAIN ns THEN vs ELSE VisitK(ns, match, q, k, cp, c[1], c[2], c[3], c[4], vs)
        IN KidsK(ns, match, q, k, path, l, r, b, t, vs1, i0, j + 1)
RECURSIVE Drain(_)
Drain(h) == IF h = <<>> THEN <<>> ELSE Append(Drain(HeapPop(h)), h[1][1])     \* repack: farthest last
KNearestImpl(ns, match, q, k, md) ==
   IF <<>> \notin DOMAIN ns THEN <<>>
   ELSE Drain(VisitK(ns, match, q, k, <<>>, 0, B, 0, B,
                     [heap |-> <<>>, lim |-> IF md = 0 THEN -1 ELSE md*md, d2 |-> -1]).heap)

\* in-bound: prune by the query box, collect in visiting order
BoxPruned(box, l, r, b, t) == l > box[3] \/ r < box[1] \/ b > box[4] \/ t < box[2]
RECURSIVE VisitB(_,_,_,_,_,_,_,_)
RECURSIVE KidsB(_,_,_,_,_,_,_,_,_)
VisitB(ns, match, box, path, l, r, b, t) ==
   IF BoxPruned(box, l, r, b, t) THEN <<>>
   ELSE LET v == ns[path]
            here == IF v # 0 /\ v \in match /\ InB(box, pt[v]) THEN <<v>> ELSE <<>>
        IN here \o KidsB(ns, match, box, path, l, r, b, t, 0)
KidsB(ns, match, box, path, l, r, b, t, j) ==
   IF j = 4 THEN <<>>
   ELSE LET kk == (2 + j) % 4  cp == Append(path, kk)  c == SubCell(kk, l, r, b, t)    \* Point() is the origin
        IN (IF cp \notin DOMAIN ns THEN <<>> ELSE VisitB(ns, match, box, cp, c[1], c[2], c[3], c[4]))
           \o KidsB(ns, match, box, path, l, r, b, t, j + 1)
InBoundImpl(ns, match, box) == IF <<>> \notin DOMAIN ns THEN <<>> ELSE VisitB(ns, match, box, <<>>, 0, B, 0, B)

\* ---- remove -------------------------------------------------------------------------------------
RECURSIVE RemoveNode(_,_)
RemoveNode(ns, path) ==     \* [ns, gone]: pull the first child's value up; gone = the parent may drop this node
   LET ks == Kids(ns, path) IN
   IF ks = {} THEN [ns |-> ns, gone |-> TRUE]
   ELSE LET i == CHOOSE i \in ks : \A j \in ks : i <= j
            cp == Append(path, i)
            ns1 == [ns EXCEPT ![path] = ns[cp], ![cp] = 0]
            rec == RemoveNode(ns1, cp)
            ns2 == IF rec.gone THEN [pa \in (DOMAIN rec.ns) \ {cp} |-> rec.ns[pa]] ELSE rec.ns
        IN [ns |-> ns2, gone |-> FALSE]
RemoveNodes(ns, match, q) ==     \* <<found, ns'>>
   IF <<>> \notin DOMAIN ns THEN <<FALSE, ns>>
   ELSE LET f == FindNode(ns, match, q) IN
        IF f.best = <<9>> THEN <<FALSE, ns>>
        ELSE <<TRUE, RemoveNode([ns EXCEPT ![f.best] = 0], f.best).ns>>

\* ---- actions ------------------------------------------------------------------------------------
Init == nodes = <<>> /\ pt = <<>> /\ next = 1 /\ nops = 0 /\ lastOp = [op |-> "init"]
Add(k) ==
   /\ nops' = nops + 1
   /\ LET p == Pts[k] IN
      IF ~InB(Bnd, p) THEN lastOp' = [op |-> "add", k |-> k, id |-> next, res |-> "err"] /\ UNCHANGED <<nodes, pt, next>>
      ELSE /\ lastOp' = [op |-> "add", k |-> k, id |-> next, res |-> "ok"]
           /\ next' = next + 1 /\ pt' = (next :> p) @@ pt
           /\ nodes' = AddNodes(nodes, next, p)
RemoveByPoint(k) ==
   /\ nops' = nops + 1 /\ UNCHANGED <<pt, next>>
   /\ LET q == Pts[k]  r == RemoveNodes(nodes, {id \in Items : pt[id] = q}, q) IN
      /\ nodes' = r[2]
      /\ lastOp' = [op |-> "rmpt", k |-> k, id |-> 0, res |-> IF r[1] THEN "true" ELSE "false"]
RemoveById(id) ==     \* Remove(pointer, filter that accepts exactly that pointer); the search starts at its point
   /\ nops' = nops + 1 /\ UNCHANGED <<pt, next>> /\ id \in DOMAIN pt
   /\ LET r == RemoveNodes(nodes, {id} \cap Items, pt[id]) IN
      /\ nodes' = r[2]
      /\ lastOp' = [op |-> "rmid", k |-> 0, id |-> id, res |-> IF r[1] THEN "true" ELSE "false"]
=============================================================================
