#!/usr/bin/env python3
"""Regenerate /verif/MANIFEST.json from bin/plans.py (single source of truth for the registered checks)."""
import json
import os
import sys

sys.path.insert(0, os.path.dirname(os.path.abspath(__file__)))
import plans

VERIF = os.path.dirname(os.path.dirname(os.path.abspath(__file__)))
props = [json.loads(l) for l in open(os.path.join(VERIF, "properties.jsonl"))]
checks, na = [], []
for p in props:
    pid = p["id"]
    pl = plans.PLANS.get(pid)
    if pl is None or pl.get("unclaimed"):
        na.append({"property_id": pid, "reason": (pl or {}).get("unclaimed") or plans.NOT_BUILT.get(pid, "check not built yet")})
        continue
    checks.append({
        "property_id": pid,
        "quick_cmd": "bin/check %s quick" % pid,
        "thorough_cmd": "bin/check %s thorough" % pid,
        "evidence_file": "/verif/evidence/%s.json" % pid,
        "replay_cmd_template": "bin/check --replay {path}",
        "engine": "tlc",
        "level_claimed": {"category": "model_checking", "text": pl["level_text"], "design_ref": pl.get("design_ref", "DESIGN.md section 3 / " + pid)},
        "level_note": pl["level_note"],
        "technique": pl["technique"],
    })
m = {
    "version": 1,
    "setup_cmd": "bin/setup",
    "hooks": {
        "guard": "verif",
        "enable": "go build -tags verif (the harness module /verif/harness replaces github.com/paulmach/orb with /repo)",
        "baseline_off_cmd": "cd /repo && go test -vet=off -count=1 ./...",
        "source_commits": plans.HOOK_COMMITS,
        "add_only": True,
    },
    "engines": [
        {"name": "tlc", "path": "/opt/veriftools/tla/tla2tools.jar", "serves_properties": [c["property_id"] for c in checks],
         "kind_free_text": "TLC model checker: exhaustive checking of the design specs in spec/, case generation, and trace validation of NDJSON events recorded from the real Go code by harness/cmd/orbtrace"},
    ],
    "checks": checks,
    "not_applicable": na,
    "notes": "Every check: bin/check <id> <tier> rebuilds the Go harness from /repo's working tree (-tags verif), model-checks the TLA+ design spec, records real-code events and lets TLC judge them against the spec; exit 2 = machinery error (never a verdict). known_findings.json lists recorded defects.",
}
with open(os.path.join(VERIF, "MANIFEST.json"), "w") as f:
    json.dump(m, f, indent=1)
print("MANIFEST.json: %d checks, %d not_applicable" % (len(checks), len(na)))
